#!/bin/bash
# A third behaviour-preserving probe: renames unexported struct fields consistently (cmd/zvrename, type-resolved) in a
# scratch worktree of /repo, builds, vets the tests, runs the checker on it, removes the worktree. Nothing may alarm.
# Usage: field_probe.sh [group ...]   (default: every group)
export GOFLAGS=-mod=mod GOPROXY=off GOSUMDB=off GOTOOLCHAIN=local; unset GOWORK
W=/tmp/fieldprobe
(cd /verif/checker && go build -o /verif/bin/zvrename ./cmd/zvrename) || exit 2
declare -A G
G[sampler]="zapcore.sampler.counts=tbl zapcore.sampler.tick=window zapcore.sampler.first=initial zapcore.sampler.thereafter=every zapcore.sampler.hook=onDecision zapcore.counter.resetAt=deadline zapcore.counter.counter=n"
G[syncer]="zapcore.lockedWriteSyncer.ws=inner zapcore.BufferedWriteSyncer.initialized=started zapcore.BufferedWriteSyncer.stopped=halted zapcore.BufferedWriteSyncer.writer=bw zapcore.BufferedWriteSyncer.ticker=tk zapcore.BufferedWriteSyncer.stop=quit zapcore.BufferedWriteSyncer.done=finished zapcore.BufferedWriteSyncer.mu=lock"
G[json]="zapcore.jsonEncoder.buf=out zapcore.jsonEncoder.spaced=sp zapcore.jsonEncoder.openNamespaces=nsDepth zapcore.jsonEncoder.reflectBuf=rbuf zapcore.jsonEncoder.reflectEnc=renc"
G[logger]="zap.Logger.core=root zap.Logger.development=dev zap.Logger.addCaller=withCaller zap.Logger.onFatal=fatalHook zap.Logger.onPanic=panicHook zap.Logger.callerSkip=skip zap.Logger.addStack=stackLvl zap.Logger.errorOutput=errOut zap.Logger.clock=clk zap.Logger.name=nm zap.SugaredLogger.base=inner"
G[entry]="zapcore.CheckedEntry.cores=cs zapcore.CheckedEntry.after=hook zapcore.CheckedEntry.dirty=used zapcore.CheckedEntry.ErrorOutput=ErrorOutput zapcore.ioCore.enc=encoder zapcore.ioCore.out=sink zapcore.hooked.funcs=hooks zapcore.lazyWithCore.fields=pending zapcore.lazyWithCore.core=parent"
G[io]="zapio.Writer.buff=pending buffer.Buffer.bs=data buffer.Buffer.pool=home zap.sinkRegistry.factories=byScheme zap.sinkRegistry.openFile=opener zap.sinkRegistry.mu=lock"
G[slog]="zapslog.Handler.core=root zapslog.Handler.name=nm zapslog.Handler.addCaller=withCaller zapslog.Handler.addStackAt=stackAt zapslog.Handler.callerSkip=skip zapslog.Handler.groups=open"
G[misc]="zap.AtomicLevel.l=cur zap.loggerWriter.logFunc=emit zapcore.MapObjectEncoder.cur=top zapcore.levelFilterCore.core=inner zapcore.levelFilterCore.level=floor zapcore.sliceArrayEncoder.elems=items zapgrpc.Logger.delegate=sugar zapgrpc.Logger.levelEnabler=enab zapgrpc.Logger.print=plain zapgrpc.Logger.fatal=deadly zapgrpc.printer.enab=gate zapgrpc.printer.level=lvl zapgrpc.printer.print=out zapgrpc.printer.printf=outf observer.ObservedLogs.mu=lock observer.ObservedLogs.logs=entries observer.contextObserver.logs=sink observer.contextObserver.context=with"
groups=${@:-sampler syncer json logger entry io slog misc}
rc=0
for g in $groups; do
  git -C /repo worktree remove --force $W 2>/dev/null; rm -rf $W
  git -C /repo worktree add -q --detach $W HEAD || exit 2
  spec=$(echo ${G[$g]} | tr ' ' '\n' | grep -v '\.\([A-Za-z]*\)=\1$' | tr '\n' ' ')
  /verif/bin/zvrename $W $spec || { rc=2; continue; }
  (cd $W && go build ./... && go vet ./... >/dev/null 2>&1 && cd exp && go build ./... && go vet ./... > /dev/null 2>&1) || { echo "group $g: does not build/vet"; rc=3; continue; }
  out=$(${ZV_BIN:-/verif/bin/zapverif} check all --repo $W --verif /tmp/tryverif | grep -E "^C[0-9]+ tier|^viol|^undec|^rule-below|panic" | grep -v "violated=0 undecided=0" | cut -c1-${TRYW:-230})
  [ -n "$out" ] && { echo "== group $g"; echo "$out"; rc=1; }
done
git -C /repo worktree remove --force $W 2>/dev/null; rm -rf $W; git -C /repo worktree prune
exit $rc
