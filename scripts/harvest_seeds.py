#!/usr/bin/env python3
"""Usage: harvest_seeds.py [srcroot=/tmp/seed] [ks=1,2,3]
Independently re-verifies the sub-agents' seeded changes (<srcroot>/<id>/out/m*.{diff,json,_demo_test.go}) in a
fresh lower-case worktree each, and copies the confirmed ones to /verif/seeded/<Cxx>-m<k>/.
Confirmed = demo passes on clean HEAD, patch applies, builds, whole pinned suite passes with the patch, demo fails with the patch."""
import json, os, subprocess, sys, shutil, glob, concurrent.futures as cf
SRC = sys.argv[1] if len(sys.argv) > 1 else '/tmp/seed'
KS = [int(x) for x in (sys.argv[2] if len(sys.argv) > 2 else '1,2,3').split(',')]
ENV = dict(os.environ, GOFLAGS='-mod=mod', GOPROXY='off', GOSUMDB='off', GOTOOLCHAIN='local')
ENV.pop('GOWORK', None)
def sh(cmd, cwd, timeout=900):
    p = subprocess.run(cmd, shell=True, cwd=cwd, env=ENV, stdout=subprocess.PIPE, stderr=subprocess.STDOUT, text=True, errors="replace", timeout=timeout)
    return p.returncode, p.stdout
def suite(wt):
    for d in ['.', 'exp', 'zapgrpc/internal/test']:
        rc, out = sh('go build ./... && go test -count=1 ./...', os.path.join(wt, d))
        if rc != 0:
            return False, d + ':\n' + out[-3000:]
    return True, ''
def one(item):
    pid, k = item
    src = f'{SRC}/{pid}/out' if os.path.isdir(f'{SRC}/{pid}/out') else f'{SRC}/{pid.lower()}/out'
    meta = json.load(open(f'{src}/m{k}.json'))
    wt = f'/tmp/wt/{pid.lower()}m{k}'
    res = {'id': f'{pid}-m{k}', 'ok': False}
    subprocess.run(['git', '-C', '/repo', 'worktree', 'add', '-q', '--detach', wt, 'HEAD'], check=True)
    try:
        ddir = os.path.join(wt, meta.get('demo_dir', '.'))
        demo_name = f'zz_seed_{pid.lower()}m{k}_demo_test.go'
        demo = os.path.join(ddir, demo_name)
        cmd = meta['demo_cmd']
        shutil.copy(f'{src}/m{k}_demo_test.go', demo)
        rc, out = sh(cmd, ddir)
        res['demo_clean_rc'] = rc
        if rc != 0:
            res['why'] = 'demo fails on clean tree: ' + out[-1500:]; return res
        os.remove(demo)
        rc, out = sh(f'git apply {src}/m{k}.diff', wt)
        if rc != 0:
            res['why'] = 'patch does not apply: ' + out; return res
        rc, changed = sh('git diff --name-only', wt)
        res['files'] = changed.split()
        if any(f.endswith('_test.go') for f in res['files']):
            res['why'] = 'patch edits test files'; return res
        ok, out = suite(wt)
        res['suite_ok'] = ok
        if not ok:
            res['why'] = 'suite fails with patch: ' + out; return res
        shutil.copy(f'{src}/m{k}_demo_test.go', demo)
        rc, out = sh(cmd, ddir)
        res['demo_patched_rc'] = rc
        if rc == 0:
            res['why'] = 'demo passes with the patch'; return res
        res['demo_fail_tail'] = out[-800:]
        res['ok'] = True
        dst = f'/verif/seeded/{pid}-m{k}'
        os.makedirs(dst, exist_ok=True)
        shutil.copy(f'{src}/m{k}.diff', f'{dst}/patch.diff')
        shutil.copy(f'{src}/m{k}_demo_test.go', f'{dst}/demo_test.go')
        json.dump({'property': pid, 'files': res['files'], 'description': meta.get('description'), 'needs': meta.get('needs'),
                   'demo_dir': meta.get('demo_dir', '.'), 'demo_cmd': cmd, 'demo_file_name_when_run': demo_name,
                   'origin': 'independent sub-agent given only the property text and a scratch worktree',
                   'confirmed_by_me': {'demo_passes_on_clean_HEAD': True, 'patch_applies_and_builds': True,
                                       'pinned_suite_passes_with_patch (root, exp, zapgrpc/internal/test)': True,
                                       'demo_fails_with_patch': True, 'ran': 'scripts/harvest_seeds.py in a fresh worktree /tmp/wt/<id> (removed afterwards)'},
                   'repo_head': subprocess.run(['git', '-C', '/repo', 'rev-parse', '--short', 'HEAD'], capture_output=True, text=True).stdout.strip()},
                  open(f'{dst}/meta.json', 'w'), indent=1)
        return res
    except Exception as e:
        res['why'] = 'exception ' + repr(e); return res
    finally:
        subprocess.run(['git', '-C', '/repo', 'worktree', 'remove', '--force', wt])
items = []
only = sys.argv[3:]
for d in sorted(glob.glob(SRC + '/[cC]??/out')):
    pid = d.split('/')[-2].upper()
    if only and pid not in only:
        continue
    for k in KS:
        if os.path.exists(f'{d}/m{k}.json') and os.path.exists(f'{d}/m{k}.diff'):
            items.append((pid, k))
os.makedirs('/tmp/wt', exist_ok=True)
with cf.ThreadPoolExecutor(6) as ex:
    results = list(ex.map(one, items))
json.dump(results, open(SRC + '/harvest_seeds.json', 'w'), indent=1)
for r in results:
    print(r['id'], 'OK' if r['ok'] else 'REJECTED: ' + r.get('why', '')[:300])
