#!/usr/bin/env python3
"""Usage: pmatrix.py seeds|refactors [-j N] [name-prefix…]
Parallel version of seedmatrix.py / refmatrix.py: every patch is applied in one of N scratch worktrees of /repo's HEAD
(under /tmp/mx, removed afterwards), `zapverif check all --repo <worktree>` is run there, and the worktree is restored.
/repo itself is never touched. Writes seeded/MATRIX.md + matrix.json or refactors/MATRIX.md + matrix.json when run
without prefixes."""
import glob, json, os, re, subprocess, sys, queue, threading, shutil
os.chdir('/verif')
kind = sys.argv[1]; args = sys.argv[2:]; J = 8
if args and args[0] == '-j': J = int(args[1]); args = args[2:]
only = args
def sh(cmd, cwd=None):
    return subprocess.run(cmd, shell=True, cwd=cwd, stdout=subprocess.PIPE, stderr=subprocess.STDOUT, text=True)
if kind == 'seeds':
    items = [(os.path.basename(os.path.dirname(p)), p) for p in sorted(glob.glob('seeded/*/patch.diff'))]
    items += [(os.path.basename(p)[:-6], p) for p in sorted(glob.glob('mutants/*.patch'))]
else:
    items = [(os.path.basename(os.path.dirname(p)), p) for p in sorted(glob.glob('refactors/*/patch.diff'))]
SINGLE = True  # seeds: the own property's check is also run on its own, as the registered command runs it
KFPROP = {'KF-01':'C01','KF-02':'C01','KF-03':'C03','KF-04':'C05','KF-05':'C05','KF-06':'C06','KF-07':'C09','KF-08':'C10','KF-09':'C13','KF-10':'C13','KF-12':'C18','KF-13':'C18','KF-14':'C19','KF-15':'C19'}
def own_of(name):
    return name[:3] if name.startswith('C') else (name.split('-')[1] if name.startswith('hand-') else KFPROP.get(name.replace('revert-', ''), '?'))
if only: items = [it for it in items if any(it[0].startswith(o) for o in only)]
os.makedirs('/tmp/mx', exist_ok=True)
rows = {}; q = queue.Queue(); lock = threading.Lock()
for it in items: q.put(it)
def worker(i):
    wt = f'/tmp/mx/w{i}'; vd = f'/tmp/mx/v{i}'
    try:
        while True:
            try: name, patch = q.get_nowait()
            except queue.Empty: return
            r = sh(f'git apply {os.path.abspath(patch)}', cwd=wt)
            if r.returncode != 0:
                with lock: rows[name] = {'error': 'patch does not apply'}; print(name, 'PATCH DOES NOT APPLY', flush=True)
                continue
            try:
                out = sh(f'/verif/bin/zapverif check all --repo {wt} --verif {vd}').stdout
                single = None
                if kind == 'seeds' and SINGLE:
                    own1 = own_of(name)
                    if own1.startswith('C'):
                        o1 = sh(f'/verif/bin/zapverif check {own1} --repo {wt} --verif {vd}').stdout
                        single = bool(re.search(r'^VIOLATION property=' + own1, o1, re.M))
            finally:
                sh('git checkout -q -- . && git clean -fdq', cwd=wt)
            viol = sorted(set(re.findall(r'^VIOLATION property=(C\d+)', out, re.M)))
            und = sorted(set(re.findall(r'^UNDECIDED property=(C\d+)', out, re.M)) - set(viol))
            keys = sorted(set(re.findall(r'^(?:violated|undecided|rule-below-minimum)\s+(\S+)', out, re.M)))
            with lock:
                rows[name] = {'violation': viol, 'undecided': und, 'keys': keys[:12]}
                if single is not None:
                    rows[name]['own_alone'] = single
                    if single != (own_of(name) in viol):
                        print(name, 'DIFFERS: own check run alone fires =', single, 'within check all =', own_of(name) in viol, flush=True)
                print(name, 'VIOLATION:', ' '.join(viol) or '-', ' UNDECIDED:', ' '.join(und) or '-', flush=True)
                if kind != 'seeds':
                    for k in keys[:6]: print('     ', k[:200], flush=True)
    finally:
        sh(f'git -C /repo worktree remove --force {wt}'); shutil.rmtree(wt, ignore_errors=True); shutil.rmtree(vd, ignore_errors=True)
sh('git -C /repo worktree prune')
for i in range(J):
    wt = f'/tmp/mx/w{i}'; vd = f'/tmp/mx/v{i}'
    sh(f'git -C /repo worktree remove --force {wt}'); shutil.rmtree(wt, ignore_errors=True)
    r = sh(f'git -C /repo worktree add -q --detach {wt} HEAD')
    assert r.returncode == 0, r.stdout
    os.makedirs(vd, exist_ok=True); shutil.copy('/verif/known_findings.json', vd)
ths = [threading.Thread(target=worker, args=(i,)) for i in range(J)]
[t.start() for t in ths]; [t.join() for t in ths]
rows = dict(sorted(rows.items()))
if kind == 'seeds':
    kfprop = {'KF-01':'C01','KF-02':'C01','KF-03':'C03','KF-04':'C05','KF-05':'C05','KF-06':'C06','KF-07':'C09','KF-08':'C10','KF-09':'C13','KF-10':'C13','KF-12':'C18','KF-13':'C18','KF-14':'C19','KF-15':'C19'}
    missed = []; lines = []
    for name, r in rows.items():
        own = name[:3] if name.startswith('C') else (name.split('-')[1] if name.startswith('hand-') else kfprop.get(name.replace('revert-', ''), '?'))
        if 'error' in r: lines.append(f'| {name} | {own} | - | {r["error"]} | |'); continue
        fires = own in r['violation'] and r.get('own_alone', True)
        if not fires: missed.append(name)
        lines.append(f'| {name} | {own} | {"yes" if fires else "**NO**"} | {" ".join(r["violation"])} | {" ".join(r["undecided"])} |')
    print('missed by own check:', missed)
    if not only:
        json.dump(rows, open('seeded/matrix.json', 'w'), indent=1)
        with open('seeded/MATRIX.md', 'w') as f:
            f.write('# Which checks catch which changes\n\nGenerated by scripts/pmatrix.py seeds (each patch applied to a scratch worktree of /repo HEAD, `zapverif check all`).\n`own` = the property the change was written against (seeds) / the property of the finding (reverse fixes).\n\n| change | own | own check fires | all checks that report VIOLATION | undecided only |\n|---|---|---|---|---|\n' + '\n'.join(lines) + f'\n\n{len(rows)} changes; own check fires on {len(rows)-len(missed)}; missed by own check: {missed}\n')
else:
    n = sum(1 for r in rows.values() if r.get('violation') or r.get('undecided') or r.get('error'))
    print('alarms on', n, 'of', len(rows), [k for k, r in rows.items() if r.get('violation') or r.get('undecided')])
    if not only:
        json.dump(rows, open('refactors/matrix.json', 'w'), indent=1)
        with open('refactors/MATRIX.md', 'w') as f:
            f.write(f'# False-alarm test: behaviour-preserving refactorings\n\nGenerated by scripts/pmatrix.py refactors. {len(rows)} refactorings; {n} raise an alarm.\n\n| refactoring | VIOLATION | UNDECIDED |\n|---|---|---|\n')
            for name, r in rows.items():
                f.write(f'| {name} | {" ".join(r.get("violation", []))} | {" ".join(r.get("undecided", []))} |\n')
