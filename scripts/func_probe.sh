#!/bin/bash
# A fourth behaviour-preserving probe: renames unexported functions and methods consistently (cmd/zvrename,
# type-resolved) in a scratch worktree of /repo, builds, vets the tests, runs the checker on it, removes the worktree.
# Nothing may alarm. Usage: func_probe.sh [group ...]
export GOFLAGS=-mod=mod GOPROXY=off GOSUMDB=off GOTOOLCHAIN=local; unset GOWORK
W=/tmp/funcprobe
(cd /verif/checker && go build -o /verif/bin/zvrename ./cmd/zvrename) || exit 2
declare -A G
G[logger]="zap.Logger.check=decide zap.Logger.clone=copyOf zap..terminalHookOverride=pickTerminalHook zap.SugaredLogger.log=emit zap.SugaredLogger.logln=emitln zap.SugaredLogger.sweetenFields=toFields zap..getMessage=render zap..getMessageln=renderln zap.Config.buildOptions=options zap.Config.buildEncoder=encoder zap.Config.openSinks=sinks zap..nilField=nullField"
G[json]="zapcore.jsonEncoder.addKey=key zapcore.jsonEncoder.addElementSeparator=sep zapcore.jsonEncoder.appendFloat=float zapcore.jsonEncoder.encodeReflected=reflected zapcore.jsonEncoder.resetReflectBuf=freshReflectBuf zapcore.jsonEncoder.closeOpenNamespaces=closeAll zapcore.jsonEncoder.clone=dup zapcore..putJSONEncoder=releaseJSONEncoder zapcore..newJSONEncoder=makeJSONEncoder zapcore..addFields=putFields zapcore.jsonEncoder.safeAddString=escString zapcore.jsonEncoder.safeAddByteString=escBytes zapcore..safeAppendStringLike=escInto zapcore..encodeError=errorField zapcore..encodeStringer=stringerField"
G[core]="zapcore..getCheckedEntry=takeCheckedEntry zapcore..putCheckedEntry=giveCheckedEntry zapcore.CheckedEntry.reset=clear zapcore.BufferedWriteSyncer.initialize=start zapcore.BufferedWriteSyncer.flushLoop=pump zapcore.lazyWithCore.initOnce=force zapcore.counters.get=slot zapcore..fnv32a=hash32 zapcore.consoleEncoder.writeContext=context zapcore.consoleEncoder.addSeparatorIfNecessary=sepIfNeeded zapcore..getSliceEncoder=takeSlice zapcore..putSliceEncoder=giveSlice"
G[misc]="zap..open=openAll zap.sinkRegistry.newSink=sinkFor zap.sinkRegistry.newFileSinkFromURL=fileFromURL zap.sinkRegistry.newFileSinkFromPath=fileFromPath zap..normalizeScheme=canonScheme zap..newEncoder=encoderFor zap..redirectStdLogAt=redirectAt zap..levelToFunc=funcFor zap.AtomicLevel.serveHTTP=serve zap..decodePutRequest=decodePut zap..decodePutURL=decodeURL zap..decodePutJSON=decodeJSON zapslog..convertAttrToField=toField zapslog..convertSlogLevel=toZapLevel zapslog.Handler.appendGroups=withGroups zapio.Writer.writeLine=line zapio.Writer.flush=emit zapio.Writer.log=post"
groups=${@:-logger json core misc}
rc=0
for g in $groups; do
  git -C /repo worktree remove --force $W 2>/dev/null; rm -rf $W
  git -C /repo worktree add -q --detach $W HEAD || exit 2
  /verif/bin/zvrename $W ${G[$g]} || { rc=2; continue; }
  (cd $W && go build ./... && go vet ./... >/dev/null 2>&1 && cd exp && go build ./... && go vet ./... > /dev/null 2>&1) || { echo "group $g: does not build/vet"; rc=3; continue; }
  out=$(${ZV_BIN:-/verif/bin/zapverif} check all --repo $W --verif /tmp/tryverif | grep -E "^C[0-9]+ tier|^viol|^undec|^rule-below|panic" | grep -v "violated=0 undecided=0" | cut -c1-${TRYW:-230})
  [ -n "$out" ] && { echo "== group $g"; echo "$out"; rc=1; }
done
git -C /repo worktree remove --force $W 2>/dev/null; rm -rf $W; git -C /repo worktree prune
exit $rc
