#!/bin/bash
# A further behaviour-preserving probe: renames unexported package-level constants (cmd/zvrename pkg.Name=new) in a
# scratch worktree of /repo, builds, vets, runs the checker on it.
export GOFLAGS=-mod=mod GOPROXY=off GOSUMDB=off GOTOOLCHAIN=local; unset GOWORK
W=/tmp/constprobe
(cd /verif/checker && go build -o /verif/bin/zvrename ./cmd/zvrename) || exit 2
git -C /repo worktree remove --force $W 2>/dev/null; rm -rf $W
git -C /repo worktree add -q --detach $W HEAD || exit 2
rc=0
/verif/bin/zvrename $W zap._stdLogDefaultDepth=_stdDepth zap._loggerWriterDepth=_bridgeDepth zap._oddNumberErrMsg=_danglingKeyMsg zap._nonStringKeyErrMsg=_badKeysMsg zap._multipleErrMsg=_manyErrorsMsg \
  zapcore._defaultBufferSize=_stdBufferBytes zapcore._defaultFlushInterval=_stdFlushEvery zapcore._hex=_hexDigits zapcore._minLevel=_lowestLevel zapcore._maxLevel=_highestLevel \
  zapcore._numLevels=_levelCount zapcore._countersPerLevel=_slotsPerLevel || rc=2
if [ $rc = 0 ]; then
  (cd $W && go build ./... && go vet ./... >/dev/null 2>&1 && cd exp && go build ./... && go vet ./... > /dev/null 2>&1) || { echo "does not build/vet"; rc=3; }
fi
if [ $rc = 0 ]; then
  out=$(${ZV_BIN:-/verif/bin/zapverif} check all --repo $W --verif /tmp/tryverif | grep -E "^C[0-9]+ tier|^viol|^undec|^rule-below|panic" | grep -v "violated=0 undecided=0" | cut -c1-${TRYW:-230})
  [ -n "$out" ] && { echo "$out"; rc=1; }
fi
git -C /repo worktree remove --force $W 2>/dev/null; rm -rf $W; git -C /repo worktree prune
exit $rc
