#!/bin/bash
# A self-made behaviour-preserving probe: renames the receivers of the main types (and the Entry parameter of the
# encoders) in /repo, runs the checker, restores /repo. Nothing may alarm.
cd /repo || exit 2
[ -n "$(git status --porcelain --untracked-files=no)" ] && { echo "/repo not clean"; exit 2; }
trap 'git -C /repo checkout -- .' EXIT
export GOFLAGS=-mod=mod GOPROXY=off GOSUMDB=off GOTOOLCHAIN=local; unset GOWORK
try() { perl -pi -e "s/\\b$2\\b/$3/g unless /^\\s*\\/\\//" $1; }
try logger.go log lg; try zapcore/json_encoder.go enc je; try sugar.go s sl; try zapcore/sampler.go s smp
try zapcore/buffered_write_syncer.go s bws; try zapcore/core.go c ioc; try zapcore/console_encoder.go c cenc
try exp/zapslog/handler.go h hd; try zapcore/field.go f fld; try zapcore/entry.go ce chk; try zapcore/tee.go mc tee
try zapcore/hook.go h hk; try zapcore/increase_level.go c lc; try zapcore/lazy_with.go d lz; try zapio/writer.go w wr
try zapcore/json_encoder.go ent entry; try zapcore/console_encoder.go ent entry; try zapcore/write_syncer.go s sy; try level.go lvl al
go build ./... || exit 3; (cd exp && go build ./...) || exit 3
${ZV_BIN:-/verif/bin/zapverif} check all --verif /tmp/tryverif | grep -E "^C[0-9]+ tier|^viol|^undec|^rule-below" | grep -v "violated=0 undecided=0" | cut -c1-${TRYW:-230}
