#!/bin/bash
# A second behaviour-preserving probe: renames parameters and a few locals of central functions in /repo, runs the
# checker, restores /repo. Nothing may alarm.
cd /repo || exit 2
[ -n "$(git status --porcelain --untracked-files=no)" ] && { echo "/repo not clean"; exit 2; }
trap 'git -C /repo checkout -- .' EXIT
export GOFLAGS=-mod=mod GOPROXY=off GOSUMDB=off GOTOOLCHAIN=local; unset GOWORK
try() { perl -pi -e "s/\\b$2\\b/$3/g unless /^\\s*\\/\\//" $1; }
try logger.go lvl level; try logger.go msg message; try logger.go fields flds; try logger.go ce chk
try sugar.go lvl level; try sugar.go template tmpl; try sugar.go fmtArgs fargs; try sugar.go args arguments; try sugar.go keysAndValues kvs; try sugar.go context ctxFields
try zapcore/json_encoder.go fields flds; try zapcore/json_encoder.go key k; try zapcore/json_encoder.go val value; try zapcore/json_encoder.go final out
try zapcore/core.go fields flds; try zapcore/core.go ent entry; try zapcore/core.go buf line
try zapcore/sampler.go ent entry; try zapcore/sampler.go ce chk
try zapcore/buffered_write_syncer.go bs data; try zapcore/write_syncer.go bs data
try zapcore/entry.go fields flds; try zapcore/entry.go ent entry; try zapcore/field.go enc encoder; try zapcore/tee.go fields flds; try zapcore/tee.go ent entry
try zapio/writer.go bs data; try zapio/writer.go line ln; try exp/zapslog/handler.go record rec; try exp/zapslog/handler.go attr a; try exp/zapslog/handler.go fields flds
try field.go val value; try field.go key k; try level.go text txt; try zapcore/level.go text txt; try http_handler.go lvl level
go build ./... || exit 3; (cd exp && go build ./...) || exit 3
${ZV_BIN:-/verif/bin/zapverif} check all --verif /tmp/tryverif | grep -E "^C[0-9]+ tier|^viol|^undec|^rule-below|panic" | grep -v "violated=0 undecided=0" | cut -c1-${TRYW:-230}
