#!/bin/bash
# A fifth behaviour-preserving probe: renames unexported named types and package-level variables consistently
# (cmd/zvrename) in a scratch worktree of /repo, builds, vets, runs the checker on it. Nothing may alarm.
export GOFLAGS=-mod=mod GOPROXY=off GOSUMDB=off GOTOOLCHAIN=local; unset GOWORK
W=/tmp/typeprobe
(cd /verif/checker && go build -o /verif/bin/zvrename ./cmd/zvrename) || exit 2
declare -A G
G[types1]="zapcore.multiCore=teeCore zapcore.counters=bucketTable zapcore.counter=bucket zapcore.hooked=hookCore zapcore.lockedWriteSyncer=mutexSyncer zapcore.multiWriteSyncer=fanOutSyncer zapcore.writerWrapper=plainWriter zapcore.levelFilterCore=raisedCore zapcore.lazyWithCore=deferredCore"
G[types2]="zapcore.consoleEncoder=textEnc zapcore.sliceArrayEncoder=columnEnc zapcore.ioCore=sinkCore zapcore.errArray=errList zapcore.errArrayElem=errItem zap.loggerWriter=stdWriter zap.sinkRegistry=sinkTable zap.invalidPairs=badPairs zap.invalidPair=badPair zapslog.groupObject=groupValue"
G[vars]="zapcore._jsonPool=_jsonEncPool zapcore._cePool=_checkedPool zapcore._sliceEncoderPool=_columnPool zapcore.nullLiteralBytes=_null zap._globalL=_theLogger zap._globalS=_theSugar zap._globalMu=_theMu zap._sinkRegistry=_sinks zap._encoderNameToConstructor=_encoders zap._encoderMutex=_encodersMu zap._errArrayElemPool=_errItemPool"
groups=${@:-types1 types2 vars}
rc=0
for g in $groups; do
  git -C /repo worktree remove --force $W 2>/dev/null; rm -rf $W
  git -C /repo worktree add -q --detach $W HEAD || exit 2
  /verif/bin/zvrename $W ${G[$g]} || { rc=2; continue; }
  (cd $W && go build ./... && go vet ./... >/dev/null 2>&1 && cd exp && go build ./... && go vet ./... > /dev/null 2>&1) || { echo "group $g: does not build/vet"; rc=3; continue; }
  out=$(${ZV_BIN:-/verif/bin/zapverif} check all --repo $W --verif /tmp/tryverif | grep -E "^C[0-9]+ tier|^viol|^undec|^rule-below|panic" | grep -v "violated=0 undecided=0" | cut -c1-${TRYW:-230})
  [ -n "$out" ] && { echo "== group $g"; echo "$out"; rc=1; }
done
git -C /repo worktree remove --force $W 2>/dev/null; rm -rf $W; git -C /repo worktree prune
exit $rc
