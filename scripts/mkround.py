#!/usr/bin/env python3
"""Usage: mkround.py <root e.g. /tmp/r3> [ids…]
Creates, for every property, a scratch git worktree <root>/<cxx> of /repo's HEAD and <root>/<cxx>.prompt.txt holding ONLY the
property's text (from properties.jsonl) plus one-line summaries of the changes other sub-agents already produced (so the new
ones differ). Nothing about the checker or its rules is included."""
import json, os, subprocess, sys, glob
root = sys.argv[1]; only = [x.upper() for x in sys.argv[2:]]
os.makedirs(root, exist_ok=True)
for l in open('/verif/properties.jsonl'):
    p = json.loads(l); pid = p['id']
    if only and pid not in only: continue
    wt = f'{root}/{pid.lower()}'
    if not os.path.isdir(wt):
        subprocess.run(['git', '-C', '/repo', 'worktree', 'add', '-q', '--detach', wt, 'HEAD'], check=True)
    os.makedirs(wt + '/out', exist_ok=True)
    prior = []
    for m in sorted(glob.glob(f'/verif/seeded/{pid}-m*/meta.json')):
        d = json.load(open(m)); prior.append('regression in ' + ', '.join(d.get('files', [])) + ': ' + (d.get('description') or '')[:260])
    for m in sorted(glob.glob(f'/verif/refactors/{pid}-r*/meta.json')):
        d = json.load(open(m)); prior.append('refactoring in ' + ', '.join(d.get('files', [])) + ': ' + (d.get('description') or '')[:160])
    with open(f'{root}/{pid.lower()}.prompt.txt', 'w') as f:
        f.write(f"PROPERTY {pid}: {p['title']}\n\nSTATEMENT\n{p['statement']}\n\nQUANTIFIER\n{p['quantifier']['text']}\n\n"
                f"WHY THE EXISTING TESTS CANNOT SETTLE IT\n{p['why_tests_cant']}\n\nANCHORS (where the mechanisms live)\n{json.dumps(p['anchors'], indent=1)}\n\n"
                "CHANGES OTHER PEOPLE ALREADY MADE (yours must differ in location or kind)\n" + '\n'.join('- ' + x for x in prior) + '\n')
    print(pid, wt, len(prior))
