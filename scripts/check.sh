#!/bin/bash
# usage: scripts/check.sh <Cxx> <quick|thorough>
# Decides one property by static analysis of /repo's current working tree.
set -u
cd "$(dirname "$0")/.."
export GOFLAGS=-mod=mod GOPROXY=off GOSUMDB=off GOTOOLCHAIN=local GOWORK=off
unset GOOS GOARCH
if [ ! -x bin/zapverif ] || [ -n "$(find checker -name '*.go' -newer bin/zapverif 2>/dev/null | head -1)" ]; then
  (cd checker && go build -o ../bin/zapverif ./cmd/zapverif) || { echo "cannot build checker"; exit 2; }
fi
exec bin/zapverif check "$1" --tier "${2:-quick}" --repo "${VERIF_REPO:-/repo}" --verif "$(pwd)"
