#!/bin/bash
# Runs the pinned test suite of /repo (guard OFF; there are no guarded sources).
export GOFLAGS=-mod=mod GOPROXY=off GOSUMDB=off GOTOOLCHAIN=local
unset GOWORK
rc=0
for m in . ./assets ./exp ./zapgrpc/internal/test; do
  (cd /repo/$m && go test -mod=mod -vet=off -count=1 -timeout 25m ./...) || rc=1
done
exit $rc
