#!/usr/bin/env python3
"""Regenerates MANIFEST.json from the table below (claimed checks) and properties.jsonl."""
import json, os
here = os.path.dirname(os.path.dirname(os.path.abspath(__file__)))
props = [json.loads(l) for l in open(os.path.join(here, 'properties.jsonl'))]
claims = json.load(open(os.path.join(here, 'scripts', 'claims.json')))
checks, na = [], []
for p in props:
    pid = p['id']
    c = claims.get(pid)
    if not c or not c.get('claimed'):
        na.append({"property_id": pid, "reason": (c or {}).get('reason', 'check not implemented yet (see DESIGN.md section 3 for the planned rules)')})
        continue
    checks.append({
        "property_id": pid,
        "quick_cmd": f"scripts/check.sh {pid} quick",
        "thorough_cmd": f"scripts/check.sh {pid} thorough",
        "evidence_file": f"/verif/evidence/{pid}.json",
        "replay_cmd_template": f"scripts/check.sh {pid} quick   # re-analyses /repo; the report at {{path}} names rule, construct, file:line",
        "engine": "zapverif",
        "level_claimed": {"category": "other", "text": c['text'], "design_ref": f"DESIGN.md section 3, {pid}"},
        "level_note": c['note'],
        "technique": c['technique'],
    })
m = {
    "version": 1,
    "setup_cmd": "cd /verif/checker && GOFLAGS=-mod=mod GOPROXY=off GOSUMDB=off GOTOOLCHAIN=local GOWORK=off go build -o /verif/bin/zapverif ./cmd/zapverif",
    "hooks": {"guard": "verif", "enable": "no guarded sources exist: the checker only READS /repo's source (go/packages + go/ssa); nothing in zap is instrumented or executed",
              "baseline_off_cmd": "/verif/scripts/baseline.sh", "source_commits": [], "add_only": True},
    "engines": [{"name": "zapverif", "path": "/verif/checker", "serves_properties": [c["property_id"] for c in checks],
                 "kind_free_text": "repo-specific static analyser over go/types + go/ssa (x/tools v0.29.0): guard sets, must-pass-through, locksets, value provenance, table agreement; decides structural necessary conditions of each property on /repo's current source"}],
    "checks": checks,
    "notes": "All claims are at level 'other': structural necessary conditions decided exactly on the current source by static analysis; see DESIGN.md. Known findings: /verif/known_findings.json.",
    "not_applicable": na,
}
json.dump(m, open(os.path.join(here, 'MANIFEST.json'), 'w'), indent=1)
print(len(checks), "claimed;", len(na), "not applicable")
