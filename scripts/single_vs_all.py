"""Usage: single_vs_all.py
Applies the refactorings r25..r32 in scratch worktrees and runs every property's check ALONE (as the registered commands
do), comparing the set of alarming properties with what `check all` reported (refactors/matrix.json): state leaking
from one property's rules into another's inside one process would show as a difference."""
import glob, json, os, re, subprocess, sys, queue, threading, shutil
os.chdir('/verif')
J=14
m=json.load(open('refactors/matrix.json'))
items=[(os.path.basename(os.path.dirname(p)), p) for p in sorted(glob.glob('refactors/*/patch.diff')) if re.search(r'-r(3[0-2]|2[5-9])/', p)]
q=queue.Queue(); [q.put(i) for i in items]
lock=threading.Lock(); diffs=[]
def sh(cmd,cwd=None): return subprocess.run(cmd,shell=True,cwd=cwd,stdout=subprocess.PIPE,stderr=subprocess.STDOUT,text=True)
def worker(i):
    wt=f'/tmp/sx/w{i}'; vd=f'/tmp/sx/v{i}'
    while True:
        try: name,patch=q.get_nowait()
        except queue.Empty: return
        if sh(f'git apply {os.path.abspath(patch)}',cwd=wt).returncode!=0: continue
        try:
            got=set()
            for k in range(1,21):
                pid=f'C{k:02d}'
                out=sh(f'/verif/bin/zapverif check {pid} --repo {wt} --verif {vd}').stdout
                if re.search(r'^(VIOLATION|UNDECIDED) property='+pid,out,re.M): got.add(pid)
        finally:
            sh('git checkout -q -- . && git clean -fdq',cwd=wt)
        want=set(m[name]['violation'])|set(m[name]['undecided'])
        with lock:
            if got!=want:
                diffs.append((name,sorted(got),sorted(want))); print('DIFFERS',name,sorted(got),sorted(want),flush=True)
os.makedirs('/tmp/sx',exist_ok=True)
for i in range(J):
    wt=f'/tmp/sx/w{i}'; vd=f'/tmp/sx/v{i}'
    sh(f'git -C /repo worktree remove --force {wt}'); shutil.rmtree(wt,ignore_errors=True)
    assert sh(f'git -C /repo worktree add -q --detach {wt} HEAD').returncode==0
    os.makedirs(vd,exist_ok=True); shutil.copy('/verif/known_findings.json',vd)
ths=[threading.Thread(target=worker,args=(i,)) for i in range(J)]
[t.start() for t in ths]; [t.join() for t in ths]
for i in range(J):
    sh(f'git -C /repo worktree remove --force /tmp/sx/w{i}')
shutil.rmtree('/tmp/sx',ignore_errors=True); sh('git -C /repo worktree prune')
print('checked',len(items),'refactorings singly; differences:',len(diffs))
