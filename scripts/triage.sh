#!/bin/bash
# usage: scripts/triage.sh <patch> [width]  — apply patch to /repo, run ALL checks, print every violated/undecided/rule-below line; ALWAYS restore /repo.
set -u
patch="$(realpath "$1")"; w="${2:-300}"
mkdir -p /tmp/tryverif; cp /verif/known_findings.json /tmp/tryverif/; cd /repo || exit 2
if [ -n "$(git status --porcelain --untracked-files=no)" ]; then echo "/repo not clean"; exit 2; fi
git apply "$patch" || { echo "patch does not apply: $patch"; exit 3; }
trap 'git -C /repo checkout -- . ; git -C /repo clean -fdq' EXIT
/verif/bin/zapverif check all --verif /tmp/tryverif 2>&1 | grep -E "^(violated|undecided|rule-below)" | cut -c1-$w
