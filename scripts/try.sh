#!/bin/bash
# usage: scripts/try.sh <patch> <Cxx> [<Cxx>...]  — apply patch to /repo, run checks, ALWAYS restore /repo.
set -u
patch="$(realpath "$1")"; shift
mkdir -p /tmp/tryverif; cp /verif/known_findings.json /tmp/tryverif/; cd /repo || exit 2
if [ -n "$(git status --porcelain --untracked-files=no)" ]; then echo "/repo not clean"; exit 2; fi
git apply "$patch" || { echo "patch does not apply: $patch"; exit 3; }
trap 'git -C /repo checkout -- . ; git -C /repo clean -fdq' EXIT
for p in "$@"; do
  ${ZV_BIN:-/verif/bin/zapverif} check "$p" --verif /tmp/tryverif 2>&1 | grep -E "^(violated|undecided|rule-below|VIOL|UNDEC|C[0-9]+ tier)" | cut -c1-${TRYW:-300} | awk -v n="${TRYN:-8}" 'NR<=n || /^(VIOL|UNDEC|C[0-9]+ tier)/'
done
