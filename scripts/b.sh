#!/bin/bash
# dev helper: build the checker into bin/zapverif.dev and install it as bin/zapverif (what try.sh / pmatrix.py run)
export GOFLAGS=-mod=mod GOPROXY=off GOSUMDB=off GOTOOLCHAIN=local; unset GOWORK
cd /verif/checker && go build -o /verif/bin/zapverif.dev ./cmd/zapverif && cp /verif/bin/zapverif.dev /verif/bin/zapverif
