#!/usr/bin/env python3
"""Usage: harvest_refactors.py [srcroot=/tmp/ref] [ks=1,2,3,4] [ids…]
Re-verifies the sub-agents' behaviour-preserving refactorings (/tmp/ref/cxx/out/r*.{diff,json}) in a fresh worktree each
(patch applies, builds, vets, whole pinned suite passes) and copies the confirmed ones to /verif/refactors/<Cxx>-r<k>/."""
import json, os, subprocess, sys, shutil, glob, concurrent.futures as cf
SRC = sys.argv[1] if len(sys.argv) > 1 else '/tmp/ref'
KS = [int(x) for x in (sys.argv[2] if len(sys.argv) > 2 else '1,2,3,4').split(',')]
ENV = dict(os.environ, GOFLAGS='-mod=mod', GOPROXY='off', GOSUMDB='off', GOTOOLCHAIN='local')
ENV.pop('GOWORK', None)
def sh(cmd, cwd, timeout=900):
    p = subprocess.run(cmd, shell=True, cwd=cwd, env=ENV, stdout=subprocess.PIPE, stderr=subprocess.STDOUT, text=True, timeout=timeout)
    return p.returncode, p.stdout
def one(item):
    pid, k = item
    src = f'{SRC}/{pid}/out'
    meta = json.load(open(f'{src}/r{k}.json'))
    wt = f'/tmp/wt/{pid}r{k}'
    res = {'id': f'{pid.upper()}-r{k}', 'ok': False}
    subprocess.run(['git', '-C', '/repo', 'worktree', 'add', '-q', '--detach', wt, 'HEAD'], check=True)
    try:
        rc, out = sh(f'git apply {src}/r{k}.diff', wt)
        if rc != 0:
            res['why'] = 'patch does not apply: ' + out; return res
        rc, changed = sh('git diff --name-only', wt)
        res['files'] = changed.split()
        if any(f.endswith('_test.go') for f in res['files']):
            res['why'] = 'patch edits test files'; return res
        for d in ['.', 'exp', 'zapgrpc/internal/test']:
            rc, out = sh('go build ./... && go vet ./... && go test -count=1 ./...', os.path.join(wt, d))
            if rc != 0:
                res['why'] = f'suite fails in {d}: ' + out[-1500:]; return res
        res['ok'] = True
        dst = f'/verif/refactors/{pid.upper()}-r{k}'
        os.makedirs(dst, exist_ok=True)
        shutil.copy(f'{src}/r{k}.diff', f'{dst}/patch.diff')
        json.dump({'property': pid.upper(), 'files': res['files'], 'kind': meta.get('kind'), 'description': meta.get('description'),
                   'why_behaviour_is_unchanged': meta.get('why_behaviour_is_unchanged'),
                   'origin': 'independent sub-agent given only the property text and a scratch worktree; asked for a behaviour-preserving change',
                   'confirmed_by_me': 'patch applies to HEAD, go build + go vet + pinned suite (root, exp, zapgrpc/internal/test) pass with it (scripts/harvest_refactors.py)'},
                  open(f'{dst}/meta.json', 'w'), indent=1)
        return res
    except Exception as e:
        res['why'] = 'exception ' + repr(e); return res
    finally:
        subprocess.run(['git', '-C', '/repo', 'worktree', 'remove', '--force', wt])
items = []
only = sys.argv[3:]
for d in sorted(glob.glob(SRC + '/c??/out')):
    pid = d.split('/')[-2]
    if only and pid not in only:
        continue
    for k in KS:
        if os.path.exists(f'{d}/r{k}.json') and os.path.exists(f'{d}/r{k}.diff'):
            items.append((pid, k))
os.makedirs('/tmp/wt', exist_ok=True)
with cf.ThreadPoolExecutor(8) as ex:
    results = list(ex.map(one, items))
for r in results:
    print(r['id'], 'OK' if r['ok'] else 'REJECTED: ' + r.get('why', '')[:300])
