#!/bin/bash
# A sixth behaviour-preserving probe: renames EVERY local variable (not parameters, results or fields) declared in the
# central source files (cmd/zvrename locals:<file>) in a scratch worktree of /repo, builds, vets, runs the checker on it.
export GOFLAGS=-mod=mod GOPROXY=off GOSUMDB=off GOTOOLCHAIN=local; unset GOWORK
W=/tmp/localprobe
(cd /verif/checker && go build -o /verif/bin/zvrename ./cmd/zvrename) || exit 2
declare -A G
G[zap]="locals:logger.go locals:sugar.go locals:config.go locals:global.go locals:writer.go locals:sink.go locals:encoder.go locals:level.go locals:http_handler.go locals:field.go locals:array.go locals:error.go locals:options.go locals:flag.go"
G[core1]="locals:zapcore/json_encoder.go locals:zapcore/console_encoder.go locals:zapcore/encoder.go locals:zapcore/memory_encoder.go locals:zapcore/field.go locals:zapcore/error.go locals:zapcore/entry.go locals:zapcore/level.go"
G[core2]="locals:zapcore/core.go locals:zapcore/tee.go locals:zapcore/sampler.go locals:zapcore/hook.go locals:zapcore/increase_level.go locals:zapcore/lazy_with.go locals:zapcore/write_syncer.go locals:zapcore/buffered_write_syncer.go locals:buffer/buffer.go locals:buffer/pool.go locals:internal/stacktrace/stack.go"
G[adapters]="locals:zapio/writer.go locals:zapgrpc/zapgrpc.go locals:zaptest/observer/observer.go locals:exp/zapslog/handler.go locals:exp/zapslog/options.go"
groups=${@:-zap core1 core2 adapters}
rc=0
for g in $groups; do
  git -C /repo worktree remove --force $W 2>/dev/null; rm -rf $W
  git -C /repo worktree add -q --detach $W HEAD || exit 2
  /verif/bin/zvrename $W ${G[$g]} || { rc=2; continue; }
  (cd $W && go build ./... && go vet ./... >/dev/null 2>&1 && cd exp && go build ./... && go vet ./... > /dev/null 2>&1) || { echo "group $g: does not build/vet"; rc=3; continue; }
  out=$(${ZV_BIN:-/verif/bin/zapverif} check all --repo $W --verif /tmp/tryverif | grep -E "^C[0-9]+ tier|^viol|^undec|^rule-below|panic" | grep -v "violated=0 undecided=0" | cut -c1-${TRYW:-230})
  [ -n "$out" ] && { echo "== group $g"; echo "$out"; rc=1; }
done
git -C /repo worktree remove --force $W 2>/dev/null; rm -rf $W; git -C /repo worktree prune
exit $rc
