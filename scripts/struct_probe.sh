#!/bin/bash
# Behaviour-preserving probes that change the SHAPE of the code, not its names. Each mode rewrites every non-test source
# file of a scratch worktree of /repo mechanically (cmd/zvifswap, cmd/zvrename rangeidx:), builds, vets and runs the
# checker on it; with ZV_PROBE_TESTS=1 the test suite runs on the rewritten tree as well.
#   swap      if c {A} else {B}            ->  if !c {B} else {A}
#   guard     if c {...; return}; rest     ->  if c {...; return} else {rest}      (first guard of every function)
#   guardall  the same for every guard (nesting deeper each time)
#   rangeidx  for i, x := range xs {       ->  for i := 0; i < len(xs); i++ { x := xs[i]   (slices, by type)
#   condvar   if a && b {                  ->  zvC := a && b; if zvC {
#   mirror    a < b, nil != x              ->  b > a, x != nil turned round: every comparison gets its operands swapped
export GOFLAGS=-mod=mod GOPROXY=off GOSUMDB=off GOTOOLCHAIN=local; unset GOWORK
W=/tmp/structprobe
(cd /verif/checker && go build -o /verif/bin/zvifswap ./cmd/zvifswap && go build -o /verif/bin/zvrename ./cmd/zvrename) || exit 2
modes=${@:-swap guard guardall rangeidx condvar mirror}
rc=0
for m in $modes; do
  git -C /repo worktree remove --force $W 2>/dev/null; rm -rf $W
  git -C /repo worktree add -q --detach $W HEAD || exit 2
  files=$(cd $W && ls *.go zapcore/*.go zapio/*.go zapgrpc/*.go zaptest/*.go zaptest/observer/*.go exp/zapslog/*.go buffer/*.go internal/*/*.go internal/*.go 2>/dev/null | grep -v _test.go)
  case $m in
    swap) (cd $W && /verif/bin/zvifswap $files) ;;
    rangeidx) /verif/bin/zvrename $W $(for f in $files; do echo rangeidx:$f; done) && (cd $W && gofmt -w $files) ;;
    *) (cd $W && /verif/bin/zvifswap -$m $files) ;;
  esac || { echo "mode $m: rewrite failed"; rc=2; continue; }
  (cd $W && go build ./... && go vet ./... >/dev/null 2>&1 && cd exp && go build ./... && go vet ./... > /dev/null 2>&1) || { echo "mode $m: does not build/vet"; rc=3; continue; }
  if [ -n "${ZV_PROBE_TESTS:-}" ]; then
    (cd $W && go test ./... >/dev/null 2>&1 && cd exp && go test ./... >/dev/null 2>&1) || { echo "mode $m: tests fail on the rewritten tree"; rc=3; continue; }
  fi
  out=$(${ZV_BIN:-/verif/bin/zapverif} check all --repo $W --verif /tmp/tryverif | grep -E "^C[0-9]+ tier|^viol|^undec|^rule-below|panic" | grep -v "violated=0 undecided=0" | cut -c1-${TRYW:-230})
  [ -n "$out" ] && { echo "== mode $m"; echo "$out"; rc=1; }
done
git -C /repo worktree remove --force $W 2>/dev/null; rm -rf $W; git -C /repo worktree prune
exit $rc
