package zv

import (
	"errors"
	"fmt"
	"go/ast"
	"go/constant"
	"go/token"
	"go/types"
	"sort"
	"strings"

	"golang.org/x/tools/go/ssa"
)

func init() {
	Props["C20"] = Prop{
		Title: "Level names and the level HTTP endpoint set exactly the requested level",
		Fn:    checkC20,
		Explanation: "Decides the level name tables by EVALUATING the SSA of Level.String, CapitalString, MarshalText and UnmarshalText (with the helpers and package-level tables they use) on concrete arguments: String/CapitalString for all 256 Level values (in-range values have distinct non-empty lower-case names and their upper-case capitals, every other value prints as Level(%d)/LEVEL(%d)); UnmarshalText on a corpus of ~220 texts built from the names, their upper/title/mixed-case and whitespace/affix variants, the documented aliases, junk, and every string constant occurring in the parsing code (each name in any case parses to its level; besides the names only \"warning\" and the empty string are accepted; every rejected text returns an error and leaves the target untouched); MarshalText/UnmarshalText round-trip; Set and ParseLevel go through UnmarshalText; that ParseAtomicLevel and AtomicLevel.UnmarshalText, explored with the zapcore parser's outcome forked, store into the atomic level only after the parser succeeded, exactly the parsed value, once, and return nil - a rejected text stores nothing into an existing level and is returned as the error; the receiver's shared cell is replaced only when it was unset; and the HTTP handler's shape (single SetLevel under PUT ∧ decode ok; every error body preceded by a 4xx WriteHeader; reported level read after the store; JSON body needs a non-nil level, form needs a non-empty value); LevelFlag registers the variable it returns. " +
			"NOT decided: encoding/json, net/http form parsing, Unicode case folding.",
		Assumptions: commonAssumptions,
	}
}

// switchStringTable parses `switch X { case C1: return "lit" ... default: ... }`.
func switchReturnLits(info *types.Info, fd *ast.FuncDecl) (tab map[string]string, def string) {
	tab = map[string]string{}
	sw := findSwitchOn(fd, "l")
	if sw == nil {
		return
	}
	for _, s := range sw.Body.List {
		cc := s.(*ast.CaseClause)
		var lit string
		isLit := false
		for _, st := range cc.Body {
			if rs, ok := st.(*ast.ReturnStmt); ok && len(rs.Results) == 1 {
				if tv, ok := info.Types[rs.Results[0]]; ok && tv.Value != nil && tv.Value.Kind() == constant.String {
					lit, isLit = constant.StringVal(tv.Value), true
				} else {
					lit = types.ExprString(rs.Results[0])
				}
			}
		}
		if cc.List == nil {
			def = lit
			continue
		}
		for _, e := range cc.List {
			if k := ConstOf(info, e); k != nil && isLit {
				tab[k.Name()] = lit
			}
		}
	}
	return
}

func checkC20(c *Ctx) {
	c.Rule("R20.1", "String / CapitalString / unmarshalText tables agree for every level; only documented aliases", 16)
	c.Rule("R20.2", "parsing never partially updates: stores only in matching arms; exact then ToLower; SetLevel/returns only under err == nil", 6)
	c.Rule("R20.3", "HTTP handler: single SetLevel under PUT ∧ decode ok; 4xx before every error body; level read after store; decoders reject missing values", 3)
	c.Rule("R20.6", "a core derived through With keeps the parent's level enabler itself, not a snapshot of its level: a later PUT to a shared AtomicLevel reaches the loggers derived earlier", 3)
	c.As(map[string]string{"R7.3": "R20.6"}, func() { c7Clone(c) })
	c.Rule("R20.4", "LevelFlag registers the variable it returns; Set parses, Get reads", 2)
	c.Rule("R20.5", "the level types offer their text forms through the method sets encoding/json, yaml and flag look at: values marshal, pointers unmarshal", 4)
	c20TextMethods(c, "R20.5")

	lvNamed := c.Named(CorePath, "Level")
	strFn := c.Method(CorePath, "Level", "String")
	capFn := c.Method(CorePath, "Level", "CapitalString")
	ut := c.Method(CorePath, "Level", "UnmarshalText")
	mt := c.Method(CorePath, "Level", "MarshalText")
	if !c.Anchor("R20.1", "zapcore.Level.String/CapitalString/UnmarshalText/MarshalText", lvNamed != nil && strFn != nil && capFn != nil && ut != nil && mt != nil) {
		return
	}
	minL, _ := c.ConstVal(CorePath, "_minLevel")
	maxL, _ := c.ConstVal(CorePath, "_maxLevel")
	it := NewInterp(c)
	// --- the name tables, evaluated for all 256 level values
	byVal := map[int64]string{}
	for _, k := range c.ConstsOfType(CorePath, lvNamed) {
		v, _ := ConstObjInt(k)
		if v < minL || v > maxL || strings.HasPrefix(k.Name(), "_") {
			continue
		}
		byVal[v] = k.Name()
	}
	c.Check(len(byVal) == int(maxL-minL+1), "R20.1", "zapcore.Level", "level-count", lvNamed.Obj().Pos(), "%d named level constants cover [_minLevel,_maxLevel] = %d values", len(byVal), maxL-minL+1)
	names := map[int64]string{}
	seen := map[string]int64{}
	dup, badDefault := "", ""
	evalErr := ""
	for v := int64(-128); v <= 127; v++ {
		rs, err1 := it.Run(strFn, []IVal{IInt(v)})
		rc, err2 := it.Run(capFn, []IVal{IInt(v)})
		var ip *IPanic
		if errors.As(err1, &ip) || errors.As(err2, &ip) {
			c.Bad("R20.1", "zapcore.Level.String", "no-panic", strFn.Pos(), "Level(%d) has no text form: evaluating String/CapitalString for it ends in a %v (every one of the 256 values must print, the unnamed ones as Level(n))", v, ip)
			return
		}
		if err1 != nil || err2 != nil || len(rs) != 1 || len(rc) != 1 || rs[0].K != ivStr || rc[0].K != ivStr {
			evalErr = fmt.Sprintf("Level(%d): %v %v %v %v", v, rs, err1, rc, err2)
			break
		}
		nm, cp := rs[0].S, rc[0].S
		if kn, ok := byVal[v]; ok {
			names[v] = nm
			if o, d := seen[nm]; d {
				dup = byVal[o] + "/" + kn
			}
			seen[nm] = v
			c.Check(nm != "" && nm == strings.ToLower(nm) && !strings.HasPrefix(nm, "Level("), "R20.1", "zapcore.Level.String", "name/"+kn, strFn.Pos(), "%s has the lower-case name %q", kn, nm)
			c.Check(cp == strings.ToUpper(nm) && nm != "", "R20.1", "zapcore.Level.CapitalString", "capital/"+kn, capFn.Pos(), "capital name %q is the upper case of %q", cp, nm)
		} else if nm != fmt.Sprintf("Level(%d)", v) || cp != fmt.Sprintf("LEVEL(%d)", v) {
			badDefault = fmt.Sprintf("Level(%d) prints as %q / %q", v, nm, cp)
		}
	}
	if evalErr != "" {
		c.Und("R20.1", "zapcore.Level.String", "evaluates", strFn.Pos(), "cannot evaluate the name tables: %s", evalErr)
		return
	}
	c.Check(dup == "", "R20.1", "zapcore.Level.String", "distinct", strFn.Pos(), "level names are pairwise distinct %s", dup)
	c.Check(badDefault == "", "R20.1", "zapcore.Level.String", "default-forms", strFn.Pos(), "evaluated for all 256 values: every level outside [_minLevel,_maxLevel] prints as Level(%%d) / LEVEL(%%d) %s", badDefault)

	// --- parsing, evaluated over a corpus built from the names, their case and
	// whitespace variants, the documented aliases, junk, and every string
	// constant that occurs in the parsing code
	const untouched = 77
	parse := func(text string) (lvl int64, accepted bool, err error) {
		cell := &ICell{V: IInt(untouched)}
		res, e := it.Run(ut, []IVal{IPtr(cell), IBytes(text)})
		if e != nil {
			return 0, false, e
		}
		if len(res) != 1 {
			return 0, false, fmt.Errorf("unexpected results %v", res)
		}
		switch {
		case res[0].K == ivNil:
			if cell.V.K != ivInt {
				return 0, false, fmt.Errorf("target holds %s", cell.V)
			}
			return cell.V.I, true, nil
		case res[0].NonNil:
			if cell.V.K != ivInt {
				return 0, false, fmt.Errorf("target holds %s", cell.V)
			}
			return cell.V.I, false, nil
		}
		return 0, false, fmt.Errorf("cannot tell whether %s is nil", res[0])
	}
	want := func(text string) (int64, bool) {
		lower := strings.ToLower(text)
		for v, nm := range names {
			if nm == lower {
				return v, true
			}
		}
		wv, iv := int64(-99), int64(-99)
		for v, kn := range byVal {
			if kn == "WarnLevel" {
				wv = v
			}
			if kn == "InfoLevel" {
				iv = v
			}
		}
		if lower == "warning" {
			return wv, true
		}
		if text == "" {
			return iv, true
		}
		return untouched, false
	}
	title := func(s string) string {
		if s == "" {
			return s
		}
		return strings.ToUpper(s[:1]) + s[1:]
	}
	alt := func(s string) string {
		b := []byte(s)
		for i := range b {
			if i%2 == 1 {
				b[i] = strings.ToUpper(string(b[i]))[0]
			}
		}
		return string(b)
	}
	corpus := map[string]bool{"": true, " ": true, "\t": true, "\n": true, "warning": true, "bogus": true, "level": true, "0": true, "-1": true, "Level(0)": true, "LEVEL(3)": true, "\x00": true, "trace": true, "all": true, "off": true, "none": true}
	for _, fn := range Region(ut) {
		AllInstrs(fn, func(i ssa.Instruction) {
			for _, op := range i.Operands(nil) {
				if k, ok := (*op).(*ssa.Const); ok && k.Value != nil && k.Value.Kind() == constant.String {
					corpus[constant.StringVal(k.Value)] = true
				}
			}
		})
	}
	for _, nm := range names {
		corpus[nm] = true
	}
	var texts []string
	for s := range corpus {
		for _, v := range []string{s, strings.ToUpper(s), strings.ToLower(s), title(s), alt(s), " " + s, s + " ", s + "\n", s + "x", "x" + s} {
			texts = append(texts, v)
		}
		if len(s) > 1 {
			texts = append(texts, s[:len(s)-1], s[1:])
		}
	}
	sort.Strings(texts)
	texts = uniqSorted(texts)
	perLevel := map[int64][]string{}
	var wrongAccept, wrongReject, modified, undec []string
	nAcc, nRej := 0, 0
	for _, t := range texts {
		got, acc, err := parse(t)
		if err != nil {
			undec = append(undec, fmt.Sprintf("%q: %v", t, err))
			continue
		}
		wv, wacc := want(t)
		switch {
		case wacc && (!acc || got != wv):
			perLevel[wv] = append(perLevel[wv], fmt.Sprintf("%q→(%d,%v)", t, got, acc))
			wrongReject = append(wrongReject, fmt.Sprintf("%q", t))
		case !wacc && acc:
			wrongAccept = append(wrongAccept, fmt.Sprintf("%q→%s", t, byVal[got]))
		case !wacc && got != untouched:
			modified = append(modified, fmt.Sprintf("%q leaves %d", t, got))
		}
		if wacc {
			nAcc++
		} else {
			nRej++
		}
	}
	if len(undec) > 0 {
		c.Und("R20.1", "zapcore.Level.UnmarshalText", "evaluates", ut.Pos(), "cannot evaluate the parser on %d of %d texts, e.g. %s (unmodelled: %v)", len(undec), len(texts), undec[0], it.Unknown)
	} else {
		for v, kn := range byVal {
			c.Check(len(perLevel[v]) == 0, "R20.1", "zapcore.Level.UnmarshalText", "parse/"+kn, ut.Pos(), "the name %q of %s, in any letter case, parses to %s (wrong: %v)", names[v], kn, kn, perLevel[v])
		}
		c.Check(len(wrongAccept) == 0, "R20.1", "zapcore.Level.UnmarshalText", "aliases", ut.Pos(), "evaluated on %d texts (%d to accept, %d to reject): besides the level names only \"warning\" (any case) and the empty string are accepted (wrongly accepted: %v)", len(texts), nAcc, nRej, wrongAccept)
		// ---------------- R20.2 ----------------
		c.Check(len(modified) == 0, "R20.2", "zapcore.Level.UnmarshalText", "rejects-without-modifying", ut.Pos(), "every rejected text leaves the target as it was (violations: %v)", modified)
		c.Check(len(wrongReject) == 0, "R20.2", "zapcore.Level.UnmarshalText", "case-insensitive", ut.Pos(), "names and the warning alias are accepted in lower, upper, title and mixed case (wrongly rejected: %v)", wrongReject)
	}
	// round trip through MarshalText
	var rtBad []string
	for v, kn := range byVal {
		res, err := it.Run(mt, []IVal{IInt(v)})
		if err != nil || len(res) != 2 || res[0].K != ivBytes {
			rtBad = append(rtBad, fmt.Sprintf("%s: MarshalText = %v %v", kn, res, err))
			continue
		}
		got, acc, err := parse(res[0].S)
		if err != nil || !acc || got != v {
			rtBad = append(rtBad, fmt.Sprintf("%s → %q → (%d,%v,%v)", kn, res[0].S, got, acc, err))
		}
	}
	c.Check(len(rtBad) == 0, "R20.1", "zapcore.Level.MarshalText", "round-trip", mt.Pos(), "UnmarshalText(MarshalText(l)) == l for every level (%v)", rtBad)
	// ... and MarshalText is total: the level endpoint reports whatever level is in force (an unnamed one as
	// Level(n)); a marshaling error would turn its answer into a 500
	var mtBad []string
	for v := int64(-128); v <= 127; v++ {
		res, err := it.Run(mt, []IVal{IInt(v)})
		if err != nil || len(res) != 2 || res[0].K != ivBytes || res[1].K != ivNil {
			mtBad = append(mtBad, fmt.Sprintf("Level(%d): %v %v", v, res, err))
			if len(mtBad) > 3 {
				break
			}
		}
	}
	c.Check(len(mtBad) == 0, "R20.1", "zapcore.Level.MarshalText", "total", mt.Pos(), "evaluated for all 256 values: MarshalText yields text and a nil error (%v)", mtBad)
	// the other text entry points funnel into UnmarshalText
	for _, e := range []struct{ recv, name string }{{"Level", "Set"}, {"", "ParseLevel"}, {"Level", "UnmarshalText"}} {
		var fn *ssa.Function
		if e.recv == "" {
			fn = c.Func(CorePath, e.name)
		} else {
			fn = c.Method(CorePath, e.recv, e.name)
		}
		if fn == nil || fn == ut {
			continue
		}
		calls := false
		for _, cl := range CallsDeep(fn) {
			if StaticCallee(cl) == ut {
				calls = true
			}
		}
		c.Check(calls, "R20.2", FStr(fn), "parses-via-UnmarshalText", fn.Pos(), "%s parses through Level.UnmarshalText (so the table above is the only one)", FNm(fn))
	}
	// SetLevel call sites fed from parsed input
	for _, tgt := range []struct{ pkg, recv, name string }{{ZapPath, "AtomicLevel", "UnmarshalText"}, {ZapPath, "", "ParseAtomicLevel"}} {
		var fn *ssa.Function
		if tgt.recv == "" {
			fn = c.Func(tgt.pkg, tgt.name)
		} else {
			fn = c.Method(tgt.pkg, tgt.recv, tgt.name)
		}
		if !c.Anchor("R20.2", tgt.recv+"."+tgt.name, fn != nil) {
			continue
		}
		c20SetGuarded(c, "R20.2", fn)
	}
	du := c.Func(ZapPath, "decodePutURL")
	if c.Anchor("R20.2", "zap.decodePutURL", du != nil) {
		c20ReturnsParsedOnlyOnSuccess(c, "R20.2", du)
	}

	// ---------------- R20.3 ----------------
	// the handler as a whole: the exported method, whatever unexported helper it delegates to explored inline
	sh := c.Method(ZapPath, "AtomicLevel", "ServeHTTP")
	if c.Anchor("R20.3", "zap.AtomicLevel.ServeHTTP", sh != nil) {
		name := FStr(sh)
		// Path exploration (helpers inline; the decoders opaque): what every combination of request method and decode
		// outcome does to the level and to the response.
		// a decoder: any function (called directly or through a function value) that yields (zapcore.Level, error)
		isDecSig := func(sig *types.Signature) bool {
			return sig != nil && sig.Results().Len() == 2 && strings.HasSuffix(TStr(sig.Results().At(0).Type()), "zapcore.Level") && TStr(sig.Results().At(1).Type()) == "error"
		}
		isDecode := func(cl *ssa.Call) bool {
			sig, _ := cl.Call.Value.Type().Underlying().(*types.Signature)
			if cl.Call.IsInvoke() {
				return false
			}
			if sc := cl.Call.StaticCallee(); sc != nil {
				return sc.Pkg != nil && sc.Pkg.Pkg.Path() == ZapPath && isDecSig(sc.Signature)
			}
			return isDecSig(sig)
		}
		resolve := func(st *ConcState, v ssa.Value) ssa.Value {
			v = Strip(v)
			for k := 0; k < 12; k++ {
				nx := st.Step(v)
				if nx == nil {
					break
				}
				v = Strip(nx)
			}
			return v
		}
		seqs, trunc := ConcPaths(sh, ConcCfg{
			Inline: func(h *ssa.Function) bool { return !isDecSig(h.Signature) },
			// an adapter type over a function (failableHandler(lvl.serveHTTP).ServeHTTP(w, r)): its methods are explored
			InlineAny: func(h *ssa.Function) bool {
				rn := RecvNamed(h)
				if rn == nil || h.Pkg == nil || h.Pkg.Pkg.Path() != ZapPath {
					return false
				}
				_, isFn := rn.Underlying().(*types.Signature)
				return isFn
			},
			// the methods dispatched through a package-level table keyed by the request's method: one alternative per
			// entry (the value looked up is that entry's function, the key is that method) and one for "no entry"
			Fork: func(in ssa.Instruction, st *ConcState) []ConcAlt {
				ex, ok := in.(*ssa.Extract)
				if !ok {
					return nil
				}
				lk, ok := ex.Tuple.(*ssa.Lookup)
				if !ok || !lk.CommaOk || !strings.HasSuffix(st.Desc(lk.Index), ".Method") || lk.Referrers() == nil {
					return nil
				}
				var e0, e1 ssa.Value
				var last ssa.Instruction
				for _, r := range *lk.Referrers() {
					if e, isE := r.(*ssa.Extract); isE {
						if e.Index == 0 {
							e0 = e
						} else {
							e1 = e
						}
						if last == nil || instrIndex(e) > instrIndex(last) {
							last = e
						}
					}
				}
				if last != in {
					return nil
				}
				entries, ok := StringMapEntries(lk.X)
				if !ok {
					return nil
				}
				var keys []string
				for k := range entries {
					keys = append(keys, k)
				}
				sort.Strings(keys)
				var alts []ConcAlt
				for _, k := range keys {
					a := ConcAlt{Ev: "is" + k, Alias: map[ssa.Value]ssa.Value{}, Ints: map[ssa.Value]int64{}}
					if e0 != nil {
						a.Alias[e0] = entries[k]
					}
					if e1 != nil {
						a.Ints[e1] = 1
					}
					alts = append(alts, a)
				}
				none := ConcAlt{Ints: map[ssa.Value]int64{}, Nils: map[ssa.Value]bool{}}
				if e1 != nil {
					none.Ints[e1] = 0
				}
				if e0 != nil {
					none.Nils[e0] = true
				}
				return append(alts, none)
			},
			Event: func(in ssa.Instruction, st *ConcState) string {
				call, ok := in.(*ssa.Call)
				if !ok {
					return ""
				}
				switch {
				case isDecode(call):
					return "decode"
				case IsCallTo(call, "(go.uber.org/zap.AtomicLevel).SetLevel"):
					// the value installed is the decoder's result
					v := resolve(st, call.Call.Args[1])
					if ex, ok := v.(*ssa.Extract); ok && ex.Index == 0 {
						if dc, ok := ex.Tuple.(*ssa.Call); ok && isDecode(dc) {
							return "set(decoded)"
						}
					}
					return "set(" + st.Desc(call.Call.Args[1]) + ")"
				case IsCallTo(call, "(go.uber.org/zap.AtomicLevel).Level"):
					return "read"
				case IsCallTo(call, "(net/http.ResponseWriter).WriteHeader"):
					if k, ok := st.Int(Args(call)[1]); ok {
						if k >= 400 && k < 500 {
							return "status4xx"
						}
						return "status" + itoa(int(k))
					}
					return "status?"
				case IsCallTo(call, "(*encoding/json.Encoder).Encode"):
					// which body: a struct carrying a zapcore.Level (the level report) or anything else (an error report)
					var bt types.Type
					if mi, ok := Args(call)[1].(*ssa.MakeInterface); ok {
						bt = mi.X.Type()
					} else if v := resolve(st, Args(call)[1]); v != nil {
						bt = v.Type()
					}
					if bt != nil {
						if stt, ok := types.Unalias(bt).Underlying().(*types.Struct); ok {
							for i := 0; i < stt.NumFields(); i++ {
								if strings.HasSuffix(TStr(stt.Field(i).Type()), "zapcore.Level") {
									return "body-level"
								}
							}
						}
					}
					return "body-error"
				}
				return ""
			},
			Branch: func(cond ssa.Value, taken bool, st *ConcState) string {
				pol := taken
				for k := 0; k < 8; k++ {
					if u, ok := cond.(*ssa.UnOp); ok && u.Op == token.NOT {
						cond, pol = u.X, !pol
						continue
					}
					if nx := st.Step(cond); nx != nil {
						cond = nx
						continue
					}
					break
				}
				bo, ok := cond.(*ssa.BinOp)
				if !ok || bo.Op != token.EQL && bo.Op != token.NEQ {
					return ""
				}
				eq := pol == (bo.Op == token.EQL)
				l, r := st.Desc(bo.X), st.Desc(bo.Y)
				if strings.HasSuffix(r, ".Method") {
					l, r = r, l
				}
				if strings.HasSuffix(l, ".Method") {
					m := strings.Trim(r, `"`)
					if eq {
						return "is" + m
					}
					return "not" + m
				}
				x := resolve(st, bo.X)
				if ex, ok := x.(*ssa.Extract); ok && ex.Index == 1 && IsNilConst(bo.Y) {
					if dc, ok := ex.Tuple.(*ssa.Call); ok && isDecode(dc) {
						if eq {
							return "decode-ok"
						}
						return "decode-err"
					}
				}
				return ""
			},
		})
		if trunc || len(seqs) == 0 {
			c.Und("R20.3", name, "handler-protocol", sh.Pos(), "path exploration incomplete (%d sequences, truncated=%v)", len(seqs), trunc)
		} else {
			var bad []string
			seen := map[string]bool{}
			for _, sq := range seqs {
				var method string
				var rest []string
				for _, t := range strings.Split(sq, " ; ") {
					switch {
					case strings.HasPrefix(t, "is"):
						method = strings.TrimPrefix(t, "is")
					case strings.HasPrefix(t, "not"), t == "":
					default:
						rest = append(rest, t)
					}
				}
				// a failure to write the response is answered with a 500 after the fact; it changes nothing else
				if n := len(rest); n >= 2 && rest[n-1] == "status500" && strings.HasPrefix(rest[n-2], "body-") {
					rest = rest[:n-1]
				}
				r := strings.Join(rest, " ")
				ok := false
				switch method {
				case "GET":
					ok = r == "read body-level"
				case "PUT":
					ok = r == "decode decode-err status4xx body-error" || r == "decode decode-ok set(decoded) read body-level"
				case "":
					ok = r == "status4xx body-error"
				}
				seen[method+":"+r] = true
				if !ok {
					bad = append(bad, sq)
				}
			}
			complete := seen["GET:read body-level"] && seen["PUT:decode decode-err status4xx body-error"] && seen["PUT:decode decode-ok set(decoded) read body-level"] && seen[":status4xx body-error"]
			c.Check(len(bad) == 0 && complete, "R20.3", name, "handler-protocol", sh.Pos(), "all %d paths of the handler (helpers inline): GET reads and reports the level, nothing else; PUT decodes - on an error it answers 4xx with an error body and never touches the level, on success it installs exactly the decoded level, then reads it back and reports it; any other method gets 4xx with an error body and no store. Offending: %v (all four cases present: %v)", len(seqs), bad, complete)
		}
	}
	dj := c.Func(ZapPath, "decodePutJSON")
	if c.Anchor("R20.3", "zap.decodePutJSON", dj != nil) {
		for k, r := range Returns(dj) {
			rv := RetVals(r)
			if !IsNilConst(Strip(rv[1])) {
				v, isC := ConstInt(rv[0])
				c.Check(isC && v == 0, "R20.3", FStr(dj), "error-returns-zero#"+itoa(k+1), r.Pos(), "error returns carry the zero level")
				continue
			}
			atoms := AtomStrings(Guards(r))
			okD, okN := false, false
			for _, a := range atoms {
				if strings.HasPrefix(a, "Decode(") && strings.HasSuffix(a, " == nil") {
					okD = true
				}
				if strings.HasSuffix(a, ".Level != nil") && !strings.ContainsAny(strings.TrimSuffix(a, ".Level != nil"), "( ") {
					okN = true
				}
			}
			c.Check(okD && okN && strings.HasSuffix(Desc(rv[0]), ".Level") && !strings.ContainsAny(Desc(rv[0]), "( "), "R20.3", FStr(dj), "success-needs-level#"+itoa(k+1), r.Pos(), "a level is returned only after a successful decode that produced a non-nil level (guards %v, value *%s)", atoms, Desc(rv[0]))
		}
	}
	if du != nil {
		// empty value rejected
		for k, r := range Returns(du) {
			rv := RetVals(r)
			if IsNilConst(Strip(rv[1])) {
				ok := HasAtom(Guards(r), func(s string) bool { return s == `FormValue(r, "level") != ""` })
				c.Check(ok, "R20.3", FStr(du), "empty-value-rejected#"+itoa(k+1), r.Pos(), "the form decoder succeeds only for a non-empty level value (guards %v)", AtomStrings(Guards(r)))
			}
		}
	}
	// a dispatcher that calls the decoders itself must relay their results (when the handler picks a decoder function
	// and calls it, there is nothing to relay)
	if dr := c.Func(ZapPath, "decodePutRequest"); dr != nil {
		n := 0
		for _, r := range Returns(dr) {
			rv := RetVals(r)
			ex, ok := Strip(rv[0]).(*ssa.Extract)
			if !ok {
				continue
			}
			call, _ := ex.Tuple.(*ssa.Call)
			ex1, ok1 := Strip(rv[1]).(*ssa.Extract)
			if call != nil && ok1 && ex1.Tuple == ex.Tuple && ex.Index == 0 && ex1.Index == 1 {
				n++
			}
		}
		c.Check(n == 2, "R20.3", FStr(dr), "relays-decoder", dr.Pos(), "both content-type arms relay their decoder's (level, error) unchanged")
	}
	// the level is read from the URL/form only when the request says it is a form (wherever the decoders are chosen)
	c.EachRootFunc(func(dr *ssa.Function) {
		if dr.Pkg == nil || dr.Pkg.Pkg.Path() != ZapPath {
			return
		}
		for _, cl := range Calls(dr) {
			if !IsCallTo(cl, ZapPath+".decodePutURL") {
				continue
			}
			var atoms []string
			Bound(func() { atoms = AtomStrings(Guards(cl)) })
			form := false
			for _, a := range atoms {
				if strings.HasSuffix(a, ` == "application/x-www-form-urlencoded"`) {
					form = true
				}
			}
			c.Check(form, "R20.3", FStr(dr), "form-only-for-form-content", cl.Pos(), "the URL/form decoder is used only under Content-Type == application/x-www-form-urlencoded (any other request must carry the level in a JSON body): guards %v", atoms)
		}
	})

	// ---------------- R20.4 ----------------
	lf := c.Func(ZapPath, "LevelFlag")
	if c.Anchor("R20.4", "zap.LevelFlag", lf != nil) {
		// by path exploration (helpers inline): a fresh Level variable is initialised with the default, its address is
		// registered with the process-wide flag set (flag.Var, or Var on flag.CommandLine), and that very address is
		// returned
		resolve := func(st *ConcState, v ssa.Value) ssa.Value {
			for k := 0; k < 16; k++ {
				switch x := v.(type) {
				case *ssa.MakeInterface:
					v = x.X
					continue
				case *ssa.ChangeType:
					v = x.X
					continue
				}
				nx := st.Step(v)
				if nx == nil {
					break
				}
				v = nx
			}
			return v
		}
		id := func(v ssa.Value) string {
			if a, ok := v.(*ssa.Alloc); ok {
				return fmt.Sprintf("var@%p", a)
			}
			return "?" + v.String()
		}
		def := lf.Params[1]
		seqs, trunc := ConcPaths(lf, ConcCfg{
			Event: func(in ssa.Instruction, st *ConcState) string {
				switch x := in.(type) {
				case *ssa.Store:
					if a, ok := resolve(st, x.Addr).(*ssa.Alloc); ok && strings.HasSuffix(TypeName(deref(a.Type())), "zapcore.Level") {
						if resolve(st, x.Val) == ssa.Value(def) {
							return "init(" + id(a) + ")"
						}
						return "store-other(" + id(a) + ")"
					}
				case *ssa.Call:
					switch {
					case IsCallTo(x, "flag.Var") && len(x.Call.Args) >= 1:
						return "register(" + id(resolve(st, x.Call.Args[0])) + ")"
					case IsCallTo(x, "(*flag.FlagSet).Var") && len(x.Call.Args) >= 2:
						set := resolve(st, x.Call.Args[0])
						if ld, ok := set.(*ssa.UnOp); ok && ld.Op == token.MUL {
							if g, isG := ld.X.(*ssa.Global); isG && g.Pkg != nil && g.Pkg.Pkg.Path() == "flag" && GN(g) == "CommandLine" {
								return "register(" + id(resolve(st, x.Call.Args[1])) + ")"
							}
						}
						return "register-elsewhere"
					}
				case *ssa.Return:
					if len(x.Results) == 1 {
						return "ret(" + id(resolve(st, x.Results[0])) + ")"
					}
				}
				return ""
			},
		})
		var bad []string
		for _, sq := range seqs {
			toks := strings.Split(sq, " ; ")
			ok := len(toks) == 3 && strings.HasPrefix(toks[0], "init(var@") && toks[1] == "register("+toks[0][5:] && toks[2] == "ret("+toks[0][5:]
			if !ok {
				bad = append(bad, sq)
			}
		}
		// what is registered is a flag.Value: when it is not *zapcore.Level itself (whose Set is decided below), its own
		// Set must obey the same contract - the variable changes only when the text parsed
		for _, f := range Region(lf) {
			for _, cl := range Calls(f) {
				if !IsCallTo(cl, "flag.Var", "(*flag.FlagSet).Var") {
					continue
				}
				for _, a := range cl.Common().Args {
					mi, isMI := a.(*ssa.MakeInterface)
					if !isMI {
						continue
					}
					if strings.HasSuffix(TypeName(mi.X.Type()), "zapcore.Level") {
						continue
					}
					if m := c.SSA.LookupMethod(mi.X.Type(), nil, "Set"); m != nil && curProgRoot(m) && m.Synthetic == "" {
						c20PlainSetGuarded(c, "R20.4", m)
					} else {
						c.Und("R20.4", FStr(lf), "flag-value-set", cl.Pos(), "the registered flag.Value (%s) has no Set method in the analysed packages", TypeName(mi.X.Type()))
					}
				}
			}
		}
		c.Check(!trunc && len(seqs) > 0 && len(bad) == 0, "R20.4", FStr(lf), "registers-returned-var", lf.Pos(), "on every path a fresh Level variable is initialised with the default, registered with the process-wide flag set, and its address is what is returned (offending: %v)", bad)
	}
	set := c.Method(CorePath, "Level", "Set")
	get := c.Method(CorePath, "Level", "Get")
	if c.Anchor("R20.4", "zapcore.Level.Set/Get", set != nil && get != nil) {
		for _, r := range Returns(set) {
			c.Check(Desc(RetVals(r)[0]) == "UnmarshalText(l, conv[[]byte](s))", "R20.4", FStr(set), "set-parses", r.Pos(), "Set is UnmarshalText of the flag text (%s)", Desc(RetVals(r)[0]))
		}
		for _, r := range Returns(get) {
			c.Check(Desc(RetVals(r)[0]) == "l", "R20.4", FStr(get), "get-reads", r.Pos(), "Get returns *l (%s)", Desc(RetVals(r)[0]))
		}
	}
	_ = token.NoPos
}

// singleStoreLoose: the only whole-value Store into the alloc, whatever else refers to it.
func singleStoreLoose(a *ssa.Alloc) ssa.Value {
	var v ssa.Value
	n := 0
	if a.Referrers() != nil {
		for _, r := range *a.Referrers() {
			if st, ok := r.(*ssa.Store); ok && st.Addr == ssa.Value(a) {
				v = st.Val
				n++
			}
		}
	}
	if n == 1 {
		return v
	}
	return nil
}

// c20SetGuarded: every SetLevel call in fn is dominated by `<err of a parse call> == nil`.
func c20SetGuarded(c *Ctx, rule string, fn *ssa.Function) {
	name := FStr(fn)
	// by path exploration (zap's own helpers inline, the zapcore text parsers opaque and forked into success/failure):
	// the atomic level is overwritten only after the parse succeeded, with exactly the parsed level, and then nil is
	// returned; a failed parse stores nothing and returns the error
	isParser := func(cl *ssa.Call) bool {
		return IsCallTo(cl, "go.uber.org/zap/zapcore.ParseLevel", "(*go.uber.org/zap/zapcore.Level).UnmarshalText", "(*go.uber.org/zap/zapcore.Level).Set", "(*go.uber.org/zap/zapcore.Level).unmarshalText")
	}
	resolve := func(st *ConcState, v ssa.Value) ssa.Value {
		for k := 0; k < 16; k++ {
			switch x := v.(type) {
			case *ssa.ChangeType:
				v = x.X
				continue
			case *ssa.Convert:
				v = x.X
				continue
			}
			nx := st.Step(v)
			if nx == nil {
				break
			}
			v = nx
		}
		return v
	}
	isParsed := func(st *ConcState, v ssa.Value) bool {
		r := resolve(st, v)
		switch x := r.(type) {
		case *ssa.Extract:
			cl, ok := x.Tuple.(*ssa.Call)
			return ok && x.Index == 0 && isParser(cl)
		case *ssa.UnOp:
			// the variable the parser filled in: var l Level; l.UnmarshalText(text)
			if al, ok := x.X.(*ssa.Alloc); ok && x.Op == token.MUL && al.Referrers() != nil {
				for _, ref := range *al.Referrers() {
					if cl, ok := ref.(*ssa.Call); ok && isParser(cl) && len(cl.Call.Args) > 0 && cl.Call.Args[0] == ssa.Value(al) {
						return true
					}
				}
			}
		}
		return false
	}
	var recv *ssa.Parameter
	if fn.Signature.Recv() != nil && len(fn.Params) > 0 {
		if _, isPtr := fn.Params[0].Type().(*types.Pointer); isPtr {
			recv = fn.Params[0]
		}
	}
	seqs, trunc := ConcPaths(fn, ConcCfg{
		Branch: func(cond ssa.Value, taken bool, st *ConcState) string {
			pol := taken
			for k := 0; k < 8; k++ {
				if u, ok := cond.(*ssa.UnOp); ok && u.Op == token.NOT {
					cond, pol = u.X, !pol
					continue
				}
				if nx := st.Step(cond); nx != nil {
					cond = nx
					continue
				}
				break
			}
			bo, ok := cond.(*ssa.BinOp)
			if !ok || recv == nil || !IsNilConst(bo.Y) || (bo.Op != token.EQL && bo.Op != token.NEQ) {
				return ""
			}
			if u, ok := resolve(st, bo.X).(*ssa.UnOp); ok && u.Op == token.MUL {
				if fa, ok := u.X.(*ssa.FieldAddr); ok && resolve(st, fa.X) == ssa.Value(recv) {
					if pol == (bo.Op == token.EQL) {
						return "unset=T"
					}
					return "unset=F"
				}
			}
			return ""
		},
		Inline:    func(h *ssa.Function) bool { return h.Pkg != nil && h.Pkg.Pkg.Path() == ZapPath },
		InlineAny: func(h *ssa.Function) bool { return h.Pkg != nil && h.Pkg.Pkg.Path() == ZapPath },
		Fork: func(in ssa.Instruction, st *ConcState) []ConcAlt {
			var v ssa.Value
			switch x := in.(type) {
			case *ssa.Call:
				if _, isTuple := x.Type().(*types.Tuple); !isTuple && isParser(x) {
					v = x
				}
			case *ssa.Extract:
				if cl, ok := x.Tuple.(*ssa.Call); ok && isParser(cl) && x.Index == cl.Type().(*types.Tuple).Len()-1 {
					v = x
				}
			}
			if v == nil {
				return nil
			}
			return []ConcAlt{{Ev: "parse-ok", Nils: map[ssa.Value]bool{v: true}}, {Ev: "parse-fail", Nils: map[ssa.Value]bool{v: false}}}
		},
		Event: func(in ssa.Instruction, st *ConcState) string {
			switch x := in.(type) {
			case *ssa.Store:
				// the receiver's shared cell is replaced (copies of the AtomicLevel made before stop following it)
				if recv != nil {
					a := resolve(st, x.Addr)
					if a == ssa.Value(recv) {
						return "repoint"
					}
					if fa, ok := a.(*ssa.FieldAddr); ok && resolve(st, fa.X) == ssa.Value(recv) {
						return "repoint"
					}
				}
			case *ssa.Call:
				if IsCallTo(x, "(*sync/atomic.Int32).Store") {
					v := Args(x)[1]
					where := ""
					switch resolve(st, Args(x)[0]).(type) {
					case *ssa.Alloc:
						where = "fresh,"
					}
					if isParsed(st, v) {
						return "store(" + where + "parsed)"
					}
					if k, ok := st.Int(v); ok {
						return "store(" + where + "const " + itoa(int(k)) + ")"
					}
					return "store(" + where + st.Desc(v) + ")"
				}
				if IsCallTo(x, "(*sync/atomic.Int32).Swap", "(*sync/atomic.Int32).CompareAndSwap", "(*sync/atomic.Int32).Add") {
					return "store(" + FNm(CalleeFunc(x)) + ")"
				}
			case *ssa.Return:
				if len(x.Results) == 0 {
					return "ret"
				}
				n, known := st.IsNil(x.Results[len(x.Results)-1])
				switch {
				case !known:
					return "ret-?"
				case n:
					return "ret-nil"
				}
				return "ret-err"
			}
			return ""
		},
	})
	if trunc || len(seqs) == 0 {
		c.Und(rule, name, "set-only-after-successful-parse", fn.Pos(), "path exploration incomplete (%d sequences)", len(seqs))
		return
	}
	var bad []string
	nOK := 0
	for _, sq := range seqs {
		toks := strings.Split(sq, " ; ")
		parsed, failed, stores, early, repointed := false, false, 0, false, false
		unset := 0
		lastStore := ""
		for _, t := range toks {
			switch {
			case t == "parse-ok":
				parsed = true
			case t == "parse-fail":
				failed = true
			case t == "unset=T":
				unset = 1
			case t == "unset=F":
				unset = -1
			case t == "repoint":
				if unset != 1 {
					repointed = true
				}
			case strings.HasPrefix(t, "store(fresh,const "):
				// initialising a level made in this call
				lastStore = t
			case strings.HasPrefix(t, "store(const ") && !parsed && !failed:
				// initialising before parsing
				lastStore = t
			case strings.HasPrefix(t, "store("):
				lastStore = t
				if !strings.HasSuffix(t, "parsed)") || !parsed {
					early = true
				}
				stores++
			}
		}
		last := toks[len(toks)-1]
		if parsed && !failed && stores == 1 && !strings.HasSuffix(lastStore, "parsed)") {
			early = true // the parsed level is overwritten again before returning
		}
		switch {
		case repointed:
			bad = append(bad, "the receiver's shared level cell is replaced although it was already set (copies of the AtomicLevel stop following it): "+sq)
		case early:
			bad = append(bad, "the level is overwritten with something other than the successfully parsed level: "+sq)
		case failed && (stores > 0 || last != "ret-err"):
			bad = append(bad, "a rejected text still changes the level or is not reported: "+sq)
		case parsed && !failed && (stores != 1 || last != "ret-nil"):
			bad = append(bad, "an accepted text does not install the parsed level exactly once and return nil: "+sq)
		case !parsed && !failed && last == "ret-nil":
			bad = append(bad, "returns nil without parsing: "+sq)
		}
		if parsed && !failed && !early {
			nOK++
		}
	}
	c.Check(len(bad) == 0 && nOK > 0, rule, name, "set-only-after-successful-parse", fn.Pos(), "over %d paths: the level is stored only after the parser succeeded, with exactly the parsed level, once, and nil is returned; a failed parse stores nothing and returns the error %v", len(seqs), bad)
}

// c20ParseOK: the control atom "the level parser returned a nil error".
func c20ParseOK(a string) bool {
	return strings.HasSuffix(a, " == nil") && (strings.HasPrefix(a, "UnmarshalText(") || strings.HasPrefix(a, "ParseLevel("))
}

// c20ReturnsParsedOnlyOnSuccess: a (Level, error) function returns a nil
// error only under the parse's err == nil, and the zero level with errors.
func c20ReturnsParsedOnlyOnSuccess(c *Ctx, rule string, fn *ssa.Function) {
	for k, r := range Returns(fn) {
		rv := RetVals(r)
		// both results relayed unchanged from the level parser itself: its own contract (R20.1/R20.2: a rejected text
		// leaves the level at zero) is what the caller gets
		if e0, ok0 := Strip(rv[0]).(*ssa.Extract); ok0 {
			if e1, ok1 := Strip(rv[1]).(*ssa.Extract); ok1 && e0.Tuple == e1.Tuple && e0.Index == 0 && e1.Index == 1 {
				if cl, isC := e0.Tuple.(*ssa.Call); isC && IsCallTo(cl, "go.uber.org/zap/zapcore.ParseLevel") {
					c.OK(rule, FStr(fn), "relays-parser#"+itoa(k+1), r.Pos(), "returns both results of zapcore.ParseLevel unchanged")
					continue
				}
			}
		}
		if IsNilConst(Strip(rv[1])) {
			ok := HasAtom(Guards(r), c20ParseOK)
			c.Check(ok, rule, FStr(fn), "success-after-parse#"+itoa(k+1), r.Pos(), "a nil error is returned only when the level parser (Level.UnmarshalText / ParseLevel) succeeded")
		} else {
			v, isC := ConstInt(rv[0])
			c.Check(isC && v == 0, rule, FStr(fn), "error-returns-zero#"+itoa(k+1), r.Pos(), "error returns carry the zero level, not a half-parsed one")
		}
	}
}

// c20PlainSetGuarded: a Set(string) error method of a flag value kept in a plain variable: by path exploration with
// the level parser forked into success / failure, nothing is stored through the receiver after a failed parse (a
// rejected flag text must leave the level as it was), and an accepted text is stored and nil returned.
func c20PlainSetGuarded(c *Ctx, rule string, fn *ssa.Function) {
	if len(fn.Params) < 2 {
		c.Und(rule, FStr(fn), "set-only-after-successful-parse", fn.Pos(), "unexpected signature")
		return
	}
	recv := fn.Params[0]
	isParser := func(cl *ssa.Call) bool {
		return IsCallTo(cl, "go.uber.org/zap/zapcore.ParseLevel", "(*go.uber.org/zap/zapcore.Level).UnmarshalText", "(*go.uber.org/zap/zapcore.Level).Set")
	}
	resolve := func(st *ConcState, v ssa.Value) ssa.Value {
		for k := 0; k < 16; k++ {
			switch x := v.(type) {
			case *ssa.ChangeType:
				v = x.X
				continue
			case *ssa.Convert:
				v = x.X
				continue
			}
			nx := st.Step(v)
			if nx == nil {
				break
			}
			v = nx
		}
		return v
	}
	seqs, trunc := ConcPaths(fn, ConcCfg{
		Fork: func(in ssa.Instruction, st *ConcState) []ConcAlt {
			var v ssa.Value
			switch x := in.(type) {
			case *ssa.Call:
				if isParser(x) {
					if _, isTuple := x.Type().(*types.Tuple); !isTuple {
						v = x
					}
				}
			case *ssa.Extract:
				if cl, ok := x.Tuple.(*ssa.Call); ok && isParser(cl) && x.Index == 1 {
					v = x
				}
			}
			if v == nil {
				return nil
			}
			return []ConcAlt{{Ev: "parsed", Nils: map[ssa.Value]bool{v: true}}, {Ev: "rejected", Nils: map[ssa.Value]bool{v: false}}}
		},
		Event: func(in ssa.Instruction, st *ConcState) string {
			switch x := in.(type) {
			case *ssa.Store:
				if resolve(st, x.Addr) == ssa.Value(recv) {
					return "store"
				}
			case *ssa.Call:
				// the parser filling in the receiver itself (l.UnmarshalText(text) on *Level) stores on success only: its
				// own contract
			case *ssa.Return:
				if len(x.Results) == 1 {
					if n, known := st.IsNil(x.Results[0]); known && n {
						return "ret-nil"
					} else if known {
						return "ret-err"
					}
					return "ret-?"
				}
			}
			return ""
		},
	})
	var bad []string
	nOK := 0
	for _, sq := range seqs {
		toks := strings.Split(sq, " ; ")
		rejected, stored := false, false
		badPath := false
		for _, t := range toks {
			switch t {
			case "rejected":
				rejected = true
			case "store":
				stored = true
				if rejected {
					badPath = true // the variable changes although the text was rejected
				}
			}
		}
		last := toks[len(toks)-1]
		if rejected && last != "ret-err" || !rejected && last != "ret-nil" {
			badPath = true
		}
		// a store BEFORE the verdict is known also changes the variable on rejection
		seenVerdict := false
		for _, t := range toks {
			if t == "parsed" || t == "rejected" {
				seenVerdict = true
			}
			if t == "store" && !seenVerdict {
				badPath = true
			}
		}
		if badPath {
			bad = append(bad, sq)
		} else if !rejected && stored {
			nOK++
		}
	}
	c.Check(!trunc && len(seqs) > 0 && len(bad) == 0 && nOK > 0, rule, FStr(fn), "set-only-after-successful-parse", fn.Pos(), "over %d paths (parser forked into success / failure): the variable is assigned only after the text parsed, and then nil is returned; a rejected text stores nothing and returns the error (offending: %v)", len(seqs), bad)
}
