package zv

import (
	"go/ast"
	"go/constant"
	"go/token"
	"go/types"
	"sort"
	"strings"

	"golang.org/x/tools/go/ssa"
)

func init() {
	Props["C20"] = Prop{
		Title: "Level names and the level HTTP endpoint set exactly the requested level",
		Fn:    checkC20,
		Explanation: "Decides that the three level name tables agree for every Level constant in [_minLevel,_maxLevel] (String literal, CapitalString = upper case of it, unmarshalText arm containing it and assigning exactly that constant; only the documented aliases \"warning\" and \"\"), that parsing stores to the target only inside matching arms and tries the exact text then exactly bytes.ToLower(text), that every SetLevel reachable from text/HTTP input is dominated by the parse's err == nil and receives the parsed value, and the HTTP handler's shape (single SetLevel under PUT ∧ decode ok; every error body preceded by a 4xx WriteHeader; reported level read after the store; JSON body needs a non-nil level, form needs a non-empty value); LevelFlag registers the variable it returns. " +
			"NOT decided: encoding/json, net/http form parsing, Unicode case folding.",
		Assumptions: commonAssumptions,
	}
}

// switchStringTable parses `switch X { case C1: return "lit" ... default: ... }`.
func switchReturnLits(info *types.Info, fd *ast.FuncDecl) (tab map[string]string, def string) {
	tab = map[string]string{}
	sw := findSwitchOn(fd, "l")
	if sw == nil {
		return
	}
	for _, s := range sw.Body.List {
		cc := s.(*ast.CaseClause)
		var lit string
		isLit := false
		for _, st := range cc.Body {
			if rs, ok := st.(*ast.ReturnStmt); ok && len(rs.Results) == 1 {
				if tv, ok := info.Types[rs.Results[0]]; ok && tv.Value != nil && tv.Value.Kind() == constant.String {
					lit, isLit = constant.StringVal(tv.Value), true
				} else {
					lit = types.ExprString(rs.Results[0])
				}
			}
		}
		if cc.List == nil {
			def = lit
			continue
		}
		for _, e := range cc.List {
			if k := ConstOf(info, e); k != nil && isLit {
				tab[k.Name()] = lit
			}
		}
	}
	return
}

func checkC20(c *Ctx) {
	c.Rule("R20.1", "String / CapitalString / unmarshalText tables agree for every level; only documented aliases", 25)
	c.Rule("R20.2", "parsing never partially updates: stores only in matching arms; exact then ToLower; SetLevel/returns only under err == nil", 8)
	c.Rule("R20.3", "HTTP handler: single SetLevel under PUT ∧ decode ok; 4xx before every error body; level read after store; decoders reject missing values", 12)
	c.Rule("R20.4", "LevelFlag registers the variable it returns; Set parses, Get reads", 3)

	lvNamed := c.Named(CorePath, "Level")
	sfd, pk := c.DeclOf(CorePath, "Level", "String")
	cfd, _ := c.DeclOf(CorePath, "Level", "CapitalString")
	ufd, _ := c.DeclOf(CorePath, "Level", "unmarshalText")
	if !c.Anchor("R20.1", "zapcore.Level.String/CapitalString/unmarshalText", lvNamed != nil && sfd != nil && cfd != nil && ufd != nil) {
		return
	}
	info := pk.TypesInfo
	minL, _ := c.ConstVal(CorePath, "_minLevel")
	maxL, _ := c.ConstVal(CorePath, "_maxLevel")
	names, ndef := switchReturnLits(info, sfd)
	caps, cdef := switchReturnLits(info, cfd)
	// unmarshalText: case "lit", ...: *l = CONST
	parse := map[string]string{}
	defaultStores, defaultFalse := false, false
	var usw *ast.SwitchStmt
	ast.Inspect(ufd.Body, func(n ast.Node) bool {
		if s, ok := n.(*ast.SwitchStmt); ok && usw == nil {
			usw = s
		}
		return true
	})
	storesOutside := 0
	if usw != nil {
		c.Check(types.ExprString(usw.Tag) == "string(text)", "R20.1", "zapcore.Level.unmarshalText", "switch-tag", usw.Pos(), "the text is compared as is: switch %s", types.ExprString(usw.Tag))
		for _, s := range usw.Body.List {
			cc := s.(*ast.CaseClause)
			var assigned string
			nassign := 0
			for _, st := range cc.Body {
				ast.Inspect(st, func(n ast.Node) bool {
					if as, ok := n.(*ast.AssignStmt); ok && len(as.Lhs) == 1 && types.ExprString(as.Lhs[0]) == "*l" {
						nassign++
						if k := ConstOf(info, as.Rhs[0]); k != nil {
							assigned = k.Name()
						}
					}
					if rs, ok := n.(*ast.ReturnStmt); ok && cc.List == nil && len(rs.Results) == 1 && types.ExprString(rs.Results[0]) == "false" {
						defaultFalse = true
					}
					return true
				})
			}
			if cc.List == nil {
				defaultStores = nassign > 0
				continue
			}
			for _, e := range cc.List {
				if tv, ok := info.Types[e]; ok && tv.Value != nil && tv.Value.Kind() == constant.String {
					if nassign == 1 && assigned != "" {
						parse[constant.StringVal(tv.Value)] = assigned
					} else {
						parse[constant.StringVal(tv.Value)] = "?"
					}
				}
			}
		}
		// stores to *l outside the switch
		ast.Inspect(ufd.Body, func(n ast.Node) bool {
			if as, ok := n.(*ast.AssignStmt); ok && len(as.Lhs) == 1 && types.ExprString(as.Lhs[0]) == "*l" {
				if as.Pos() < usw.Pos() || as.Pos() > usw.End() {
					storesOutside++
				}
			}
			return true
		})
	}
	nLevels := 0
	for _, k := range c.ConstsOfType(CorePath, lvNamed) {
		v, _ := ConstObjInt(k)
		if v < minL || v > maxL || strings.HasPrefix(k.Name(), "_") {
			continue
		}
		nLevels++
		nm, ok := names[k.Name()]
		c.Check(ok && nm != "", "R20.1", "zapcore.Level.String", "name/"+k.Name(), sfd.Pos(), "%s has the literal name %q", k.Name(), nm)
		c.Check(caps[k.Name()] == strings.ToUpper(nm) && nm != "", "R20.1", "zapcore.Level.CapitalString", "capital/"+k.Name(), cfd.Pos(), "capital name %q is the upper case of %q", caps[k.Name()], nm)
		c.Check(parse[nm] == k.Name(), "R20.1", "zapcore.Level.unmarshalText", "parse/"+k.Name(), ufd.Pos(), "text %q parses to %s (arm assigns %s)", nm, k.Name(), parse[nm])
	}
	c.Check(nLevels == int(maxL-minL+1), "R20.1", "zapcore.Level", "level-count", lvNamed.Obj().Pos(), "%d named level constants cover [_minLevel,_maxLevel] = %d values", nLevels, maxL-minL+1)
	// only documented extra spellings
	var extra []string
	valid := map[string]bool{}
	for _, n := range names {
		valid[n] = true
	}
	for lit, k := range parse {
		if valid[lit] {
			continue
		}
		switch {
		case lit == "warning" && k == "WarnLevel", lit == "" && k == "InfoLevel":
		default:
			extra = append(extra, lit+"→"+k)
		}
	}
	sort.Strings(extra)
	c.Check(len(extra) == 0 && parse["warning"] == "WarnLevel" && parse[""] == "InfoLevel", "R20.1", "zapcore.Level.unmarshalText", "aliases", ufd.Pos(), "besides the level names only \"warning\"→WarnLevel and \"\"→InfoLevel are accepted (others: %v)", extra)
	// distinct names
	seen := map[string]string{}
	dup := ""
	for k, n := range names {
		if o, ok := seen[n]; ok {
			dup = o + "/" + k
		}
		seen[n] = k
	}
	c.Check(dup == "", "R20.1", "zapcore.Level.String", "distinct", sfd.Pos(), "level names are pairwise distinct %s", dup)
	c.Check(strings.Contains(ndef, `"Level(%d)"`) && strings.Contains(cdef, `"LEVEL(%d)"`), "R20.1", "zapcore.Level.String", "default-forms", sfd.Pos(), "out-of-range levels print as Level(%%d) / LEVEL(%%d) (%s, %s)", ndef, cdef)

	// ---------------- R20.2 ----------------
	c.Check(usw != nil && !defaultStores && defaultFalse && storesOutside == 0, "R20.2", "zapcore.Level.unmarshalText", "stores-only-in-matching-arms", ufd.Pos(), "the target is written only inside matching arms; the default arm returns false without storing (stores outside the switch: %d)", storesOutside)
	ut := c.Method(CorePath, "Level", "UnmarshalText")
	if c.Anchor("R20.2", "zapcore.Level.UnmarshalText", ut != nil) {
		name := ut.String()
		var calls []*ssa.Call
		for _, cl := range Calls(ut) {
			if IsCallTo(cl, "(*go.uber.org/zap/zapcore.Level).unmarshalText") {
				calls = append(calls, cl.(*ssa.Call))
			}
		}
		ok := len(calls) == 2
		d1, d2 := "", ""
		if ok {
			d1, d2 = Desc(calls[0].Call.Args[1]), Desc(calls[1].Call.Args[1])
			ok = d1 == "text" && d2 == "ToLower(text)" && Dominates(calls[0], calls[1]) &&
				HasAtom(Guards(calls[1]), func(s string) bool { return s == "!"+Desc(calls[0]) })
		}
		c.Check(ok, "R20.2", name, "exact-then-lowercase", ut.Pos(), "tries the exact text, then exactly bytes.ToLower(text) and nothing else (args %q, %q)", d1, d2)
		for k, r := range Returns(ut) {
			v := RetVals(r)[0]
			if IsNilConst(Strip(v)) {
				continue
			}
			atoms := AtomStrings(Guards(r))
			if len(calls) == 2 && strings.Contains(Desc(v), "Errorf") {
				has := 0
				for _, a := range atoms {
					if a == "!"+Desc(calls[0]) || a == "!"+Desc(calls[1]) {
						has++
					}
				}
				c.Check(has == 2, "R20.2", name, "error-iff-both-fail#"+itoa(k+1), r.Pos(), "the unrecognised-level error is returned exactly when both attempts failed (guards %v)", atoms)
			}
		}
	}
	// SetLevel call sites fed from parsed input
	for _, tgt := range []struct{ pkg, recv, name string }{{ZapPath, "AtomicLevel", "UnmarshalText"}, {ZapPath, "", "ParseAtomicLevel"}} {
		var fn *ssa.Function
		if tgt.recv == "" {
			fn = c.Func(tgt.pkg, tgt.name)
		} else {
			fn = c.Method(tgt.pkg, tgt.recv, tgt.name)
		}
		if !c.Anchor("R20.2", tgt.recv+"."+tgt.name, fn != nil) {
			continue
		}
		c20SetGuarded(c, "R20.2", fn)
	}
	du := c.Func(ZapPath, "decodePutURL")
	if c.Anchor("R20.2", "zap.decodePutURL", du != nil) {
		c20ReturnsParsedOnlyOnSuccess(c, "R20.2", du)
	}

	// ---------------- R20.3 ----------------
	sh := c.Method(ZapPath, "AtomicLevel", "serveHTTP")
	if c.Anchor("R20.3", "zap.AtomicLevel.serveHTTP", sh != nil) {
		name := sh.String()
		var sets []*ssa.Call
		var dec *ssa.Call
		for _, cl := range Calls(sh) {
			if IsCallTo(cl, "(go.uber.org/zap.AtomicLevel).SetLevel") {
				sets = append(sets, cl.(*ssa.Call))
			}
			if IsCallTo(cl, "go.uber.org/zap.decodePutRequest") {
				dec, _ = cl.(*ssa.Call)
			}
		}
		if len(sets) != 1 || dec == nil {
			c.Bad("R20.3", name, "single-set", sh.Pos(), "expected exactly one SetLevel call and one decodePutRequest call (SetLevel=%d)", len(sets))
		} else {
			set := sets[0]
			atoms := AtomStrings(Guards(set))
			put, okErr := false, false
			for _, a := range atoms {
				if a == `r.Method == "PUT"` {
					put = true
				}
				if a == Desc(dec)+"#1 == nil" {
					okErr = true
				}
			}
			arg := Desc(set.Call.Args[1])
			c.Check(put && okErr && arg == Desc(dec)+"#0", "R20.3", name, "set-only-on-valid-put", set.Pos(), "SetLevel(%s) is dominated by Method == PUT and a nil decode error (guards %v)", arg, atoms)
			// reported level read after the store in the PUT arm
			for _, cl := range Calls(sh) {
				if IsCallTo(cl, "(go.uber.org/zap.AtomicLevel).Level") {
					lvCall := cl.(*ssa.Call)
					if HasAtom(Guards(lvCall), func(s string) bool { return s == `r.Method == "PUT"` }) {
						c.Check(Dominates(set, lvCall), "R20.3", name, "reports-level-in-force", lvCall.Pos(), "the PUT response reads the level after the store")
					}
				}
			}
		}
		// every Encode of an error body is preceded by a 4xx WriteHeader
		nErr := 0
		for _, cl := range Calls(sh) {
			if !IsCallTo(cl, "(*encoding/json.Encoder).Encode") {
				continue
			}
			arg := Args(cl)[1]
			mi, ok := arg.(*ssa.MakeInterface)
			if !ok {
				continue
			}
			tn := TypeName(mi.X.Type())
			if !strings.Contains(tn, "errorResponse") {
				// success body: no WriteHeader with an error code may precede it
				bad := false
				for _, w := range Calls(sh) {
					if IsCallTo(w, "(net/http.ResponseWriter).WriteHeader") && Dominates(w, cl) {
						bad = true
					}
				}
				c.Check(!bad, "R20.3", name, "success-body-200/"+itoa(c.Fset.Position(cl.Pos()).Line-c.Fset.Position(sh.Pos()).Line), cl.Pos(), "a success body is not preceded by an error status")
				continue
			}
			nErr++
			var code int64 = -1
			for _, w := range Calls(sh) {
				if IsCallTo(w, "(net/http.ResponseWriter).WriteHeader") && Dominates(w, cl) && w.Block() == cl.Block() {
					code, _ = ConstInt(Args(w)[1])
				}
			}
			c.Check(code >= 400 && code < 500, "R20.3", name, "4xx-before-error-body#"+itoa(nErr), cl.Pos(), "an error body is preceded by WriteHeader(%d) with a 4xx status", code)
			c.Check(!ExistsPath(sh, cl, func(i ssa.Instruction) bool { return len(sets) == 1 && i == ssa.Instruction(sets[0]) }, nil), "R20.3", name, "no-set-after-error#"+itoa(nErr), cl.Pos(), "no SetLevel is reachable after an error response")
		}
		if nErr < 2 {
			c.Bad("R20.3", name, "error-bodies", sh.Pos(), "expected error responses for bad PUT and other methods, found %d", nErr)
		}
	}
	dj := c.Func(ZapPath, "decodePutJSON")
	if c.Anchor("R20.3", "zap.decodePutJSON", dj != nil) {
		for k, r := range Returns(dj) {
			rv := RetVals(r)
			if !IsNilConst(Strip(rv[1])) {
				v, isC := ConstInt(rv[0])
				c.Check(isC && v == 0, "R20.3", dj.String(), "error-returns-zero#"+itoa(k+1), r.Pos(), "error returns carry the zero level")
				continue
			}
			atoms := AtomStrings(Guards(r))
			okD, okN := false, false
			for _, a := range atoms {
				if strings.HasPrefix(a, "Decode(") && strings.HasSuffix(a, " == nil") {
					okD = true
				}
				if a == "pld.Level != nil" {
					okN = true
				}
			}
			c.Check(okD && okN && Desc(rv[0]) == "pld.Level", "R20.3", dj.String(), "success-needs-level#"+itoa(k+1), r.Pos(), "a level is returned only after a successful decode that produced a non-nil level (guards %v, value *%s)", atoms, Desc(rv[0]))
		}
	}
	if du != nil {
		// empty value rejected
		for k, r := range Returns(du) {
			rv := RetVals(r)
			if IsNilConst(Strip(rv[1])) {
				ok := HasAtom(Guards(r), func(s string) bool { return s == `FormValue(r, "level") != ""` })
				c.Check(ok, "R20.3", du.String(), "empty-value-rejected#"+itoa(k+1), r.Pos(), "the form decoder succeeds only for a non-empty level value (guards %v)", AtomStrings(Guards(r)))
			}
		}
	}
	dr := c.Func(ZapPath, "decodePutRequest")
	if c.Anchor("R20.3", "zap.decodePutRequest", dr != nil) {
		n := 0
		for _, r := range Returns(dr) {
			rv := RetVals(r)
			ex, ok := Strip(rv[0]).(*ssa.Extract)
			if !ok {
				continue
			}
			call, _ := ex.Tuple.(*ssa.Call)
			ex1, ok1 := Strip(rv[1]).(*ssa.Extract)
			if call != nil && ok1 && ex1.Tuple == ex.Tuple && ex.Index == 0 && ex1.Index == 1 {
				n++
			}
		}
		c.Check(n == 2, "R20.3", dr.String(), "relays-decoder", dr.Pos(), "both content-type arms relay their decoder's (level, error) unchanged")
	}
	shw := c.Method(ZapPath, "AtomicLevel", "ServeHTTP")
	if c.Anchor("R20.3", "zap.AtomicLevel.ServeHTTP", shw != nil) {
		n := 0
		for _, cl := range Calls(shw) {
			if IsCallTo(cl, "(go.uber.org/zap.AtomicLevel).serveHTTP") {
				n++
			}
			if IsCallTo(cl, "(go.uber.org/zap.AtomicLevel).SetLevel") {
				n = -100
			}
		}
		c.Check(n == 1, "R20.3", shw.String(), "delegates", shw.Pos(), "ServeHTTP only delegates to serveHTTP and never sets the level itself")
	}

	// ---------------- R20.4 ----------------
	lf := c.Func(ZapPath, "LevelFlag")
	if c.Anchor("R20.4", "zap.LevelFlag", lf != nil) {
		var reg ssa.Value
		for _, cl := range Calls(lf) {
			if IsCallTo(cl, "flag.Var") {
				if mi, ok := cl.Common().Args[0].(*ssa.MakeInterface); ok {
					reg = mi.X
				}
			}
		}
		ok := reg != nil
		for _, r := range Returns(lf) {
			ok = ok && RetVals(r)[0] == reg
		}
		al, isAlloc := reg.(*ssa.Alloc)
		ok = ok && isAlloc && Strip(singleStoreLoose(al)) == ssa.Value(lf.Params[1])
		c.Check(ok, "R20.4", lf.String(), "registers-returned-var", lf.Pos(), "flag.Var receives the address of the very variable that is returned, initialised with the default")
	}
	set := c.Method(CorePath, "Level", "Set")
	get := c.Method(CorePath, "Level", "Get")
	if c.Anchor("R20.4", "zapcore.Level.Set/Get", set != nil && get != nil) {
		for _, r := range Returns(set) {
			c.Check(Desc(RetVals(r)[0]) == "UnmarshalText(l, conv[[]byte](s))", "R20.4", set.String(), "set-parses", r.Pos(), "Set is UnmarshalText of the flag text (%s)", Desc(RetVals(r)[0]))
		}
		for _, r := range Returns(get) {
			c.Check(Desc(RetVals(r)[0]) == "l", "R20.4", get.String(), "get-reads", r.Pos(), "Get returns *l (%s)", Desc(RetVals(r)[0]))
		}
	}
	_ = token.NoPos
}

// singleStoreLoose: the only whole-value Store into the alloc, whatever else refers to it.
func singleStoreLoose(a *ssa.Alloc) ssa.Value {
	var v ssa.Value
	n := 0
	if a.Referrers() != nil {
		for _, r := range *a.Referrers() {
			if st, ok := r.(*ssa.Store); ok && st.Addr == ssa.Value(a) {
				v = st.Val
				n++
			}
		}
	}
	if n == 1 {
		return v
	}
	return nil
}

// c20SetGuarded: every SetLevel call in fn is dominated by `<err of a parse call> == nil`.
func c20SetGuarded(c *Ctx, rule string, fn *ssa.Function) {
	name := fn.String()
	n := 0
	for _, cl := range Calls(fn) {
		if !IsCallTo(cl, "(go.uber.org/zap.AtomicLevel).SetLevel") {
			continue
		}
		n++
		atoms := AtomStrings(Guards(cl))
		ok := false
		for _, a := range atoms {
			if strings.HasSuffix(a, " == nil") && (strings.HasPrefix(a, "UnmarshalText(") || strings.HasPrefix(a, "ParseLevel(")) {
				ok = true
			}
		}
		c.Check(ok, rule, name, "set-only-after-successful-parse#"+itoa(n), cl.Pos(), "SetLevel is reached only when the parse returned a nil error (guards %v); otherwise rejected text would still overwrite the level", atoms)
	}
	if n == 0 {
		c.Bad(rule, name, "set", fn.Pos(), "no SetLevel call found")
	}
}

// c20ReturnsParsedOnlyOnSuccess: a (Level, error) function returns a nil
// error only under the parse's err == nil, and the zero level with errors.
func c20ReturnsParsedOnlyOnSuccess(c *Ctx, rule string, fn *ssa.Function) {
	for k, r := range Returns(fn) {
		rv := RetVals(r)
		if IsNilConst(Strip(rv[1])) {
			ok := HasAtom(Guards(r), func(s string) bool { return strings.HasPrefix(s, "UnmarshalText(") && strings.HasSuffix(s, " == nil") })
			c.Check(ok, rule, fn.String(), "success-after-parse#"+itoa(k+1), r.Pos(), "a nil error is returned only when UnmarshalText succeeded")
		} else {
			v, isC := ConstInt(rv[0])
			c.Check(isC && v == 0, rule, fn.String(), "error-returns-zero#"+itoa(k+1), r.Pos(), "error returns carry the zero level, not a half-parsed one")
		}
	}
}
