package zv

import (
	"go/types"
	"sort"
	"strconv"

	"golang.org/x/tools/go/ssa"
)

// derivedObj: one path of a deriving method (With, clone …) that returns a freshly allocated object of the expected
// type: what every field of that object holds when it is returned, rendered in the method's own terms. A field nobody
// assigned renders as "" when the object was built from nothing and as "<recv>.<field>" when it started as a whole
// copy of the receiver.
type derivedObj struct {
	Fields map[string]string
	Vals   map[string]ssa.Value
	St     *ConcState
}

func concResolve(st *ConcState, v ssa.Value) ssa.Value {
	for k := 0; k < 16; k++ {
		switch x := v.(type) {
		case *ssa.MakeInterface:
			v = x.X
			continue
		case *ssa.ChangeInterface:
			v = x.X
			continue
		}
		nx := st.Step(v)
		if nx == nil {
			break
		}
		v = nx
	}
	return v
}

// DerivedObjects explores fn (helpers inline, constructors of the module that return the type as well) and reports,
// per path, the object of type named it returns (see derivedObj); other: what the other paths return (renderings);
// trunc: the exploration was incomplete. each is called on every returned object while the path's state is live.
func DerivedObjects(fn *ssa.Function, named *types.Named, each func(o derivedObj)) (other []string, trunc bool, n int) {
	return DerivedObjectsFrom(fn, named, nil, each)
}

// DerivedObjectsFrom: DerivedObjects where the returned object counts when source approves of where it came from
// (nil: a fresh allocation) - a pooled object, say.
func DerivedObjectsFrom(fn *ssa.Function, named *types.Named, source func(obj ssa.Value) bool, each func(o derivedObj)) (other []string, trunc bool, n int) {
	st0, _ := named.Underlying().(*types.Struct)
	if st0 == nil || len(fn.Params) == 0 {
		return nil, true, 0
	}
	rc := PN(fn.Params[0])
	isCtor := func(h *ssa.Function) bool {
		// an unexported function of the module whose result is the type: a constructor shared by the deriving methods
		if h.Signature.Results().Len() != 1 || h.Pkg == nil || fn.Pkg == nil || h.Pkg != fn.Pkg {
			return false
		}
		rn, _ := types.Unalias(deref(h.Signature.Results().At(0).Type())).(*types.Named)
		return rn != nil && rn.Origin() == named.Origin()
	}
	seen := map[string]bool{}
	_, trunc = ConcPaths(fn, ConcCfg{
		InlineAny: isCtor,
		Event: func(in ssa.Instruction, st *ConcState) string {
			r, ok := in.(*ssa.Return)
			if !ok || len(r.Results) != 1 || len(st.cfg.stackDepth()) != 0 {
				return ""
			}
			obj := concResolve(st, r.Results[0])
			on, _ := types.Unalias(deref(obj.Type())).(*types.Named)
			_, fresh := obj.(*ssa.Alloc)
			if source != nil {
				fresh = source(obj)
			}
			if !fresh || on == nil || on.Origin() != named.Origin() {
				d := st.Desc(r.Results[0])
				if !seen[d] {
					seen[d] = true
					other = append(other, d)
				}
				return "ret-other"
			}
			o := derivedObj{Fields: map[string]string{}, Vals: map[string]ssa.Value{}, St: st}
			for i := 0; i < st0.NumFields(); i++ {
				f := FN(st0.Field(i))
				cur := ssa.Value(obj)
				for hop := 0; hop < 6; hop++ {
					k, isInt, v := st.FieldOf(cur, f)
					if isInt {
						o.Fields[f] = strconv.FormatInt(k, 10)
						break
					}
					if v != nil {
						o.Fields[f] = st.Desc(v)
						o.Vals[f] = concResolve(st, v)
						break
					}
					src := st.FieldValsOf(cur)["*"]
					if src == nil {
						break
					}
					if d := st.Desc(src); d == "*"+rc || d == rc {
						o.Fields[f] = rc + "." + f
						break
					}
					cur = src
				}
			}
			n++
			each(o)
			return "ret-derived"
		},
	})
	sort.Strings(other)
	return other, trunc, n
}
