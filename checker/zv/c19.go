package zv

import (
	"fmt"
	"go/constant"
	"go/token"
	"go/types"
	"os"
	"regexp"
	"sort"
	"strings"

	"golang.org/x/tools/go/ssa"
)

func init() {
	Props["C19"] = Prop{
		Title: "Open, Config.Build and std-log redirection are all-or-nothing; URLs validated",
		Fn:    checkC19,
		Explanation: "Decides, for all inputs, the release-on-error SHAPE of Open/Config.Build (after any call that successfully acquired sinks, every return with a possibly non-nil error is preceded on its path by the matching closer) and, by path exploration of open() over two destinations with each newSink outcome forked, that every sink that opened is recorded for closing, that a failure anywhere closes everything recorded before the error is returned, and that success hands out the closer of that same list (the closer visits all); file destinations are opened under exactly the given path, for writing with O_APPEND|O_CREATE, with stdout/stderr recognised in the path as given; " +
			"that redirectStdLogAt cannot return an error after it changed the standard logger's settings and that its restore closure puts back the values read before the change, " +
			"the guard set of the file-URL open (user, fragment, query, port, host tests dominate it; exactly u.Path is opened), and the registry discipline, by path exploration of RegisterSink / RegisterEncoder (validator opaque, its outcome forked by the branch on its error): a store happens only after the emptiness and validity tests and a failed lookup of the same key, under the validated (lower-cased) key, with the lock held, at most once, and nil is returned exactly when something was stored; the scheme validator is evaluated over every byte value in first and later position. " +
			"NOT decided: url.Parse behaviour, OS file semantics, what registered factories do.",
		Assumptions: commonAssumptions,
	}
}

// errResultMayBeNonNil: the last result of r is an error that is not the nil constant.
func errResultMayBeNonNil(r *ssa.Return) bool {
	rv := RetVals(r)
	if len(rv) == 0 {
		return false
	}
	last := rv[len(rv)-1]
	if TStr(last.Type()) != "error" {
		return false
	}
	return !IsNilConst(Strip(last))
}

// successStart returns the instruction after which the acquisition made by
// call a is known to have succeeded: the start of the `err == nil` successor
// of the branch on a's error result (or a itself when its error is not tested).
func successStart(fn *ssa.Function, a *ssa.Call) ssa.Instruction {
	n := a.Type().(*types.Tuple).Len()
	errDesc := Desc(a) + "#" + itoa(n-1)
	if _, t, _ := BranchOn(fn, errDesc+" == nil"); t != nil {
		return AtBlock(t)
	}
	return a
}

func checkC19(c *Ctx) {
	c.Rule("R19.1", "after a successful sink acquisition every error return is preceded by the matching closer; opened sinks are all recorded; closer visits all", 6)
	c.Rule("R19.7", "a std-log bridge either fails having installed nothing (any level that is not one of the seven) or installs a writer whose every Write reaches the logger, at the level asked for", 22)
	c.As(map[string]string{"R6.2": "R19.7"}, func() { c6StdBridge(c, "R6.2", c5LevelValues(c)) })
	if mw := c.Method(CorePath, "multiWriteSyncer", "Write"); mw != nil {
		c.Rule("R19.8", "every configured destination receives every write: the combined writer Open returns visits all its sinks whatever the earlier ones returned", 2)
		c.As(map[string]string{"R13.2": "R19.8"}, func() { c13MultiWrite(c, mw) })
	}
	c.Rule("R19.2", "redirectStdLogAt: no error return after a log.SetX call; restore closure writes back the values read before the change", 5)
	c.Rule("R19.3", "file URL: open of exactly u.Path is dominated by the user/fragment/query/port/host rejections", 4)
	c.Rule("R19.4", "registries: single map store dominated by validity+absence tests, normalised key, under the lock, no error return after it", 10)
	c.Rule("R19.6", "file sinks: exactly the given path is opened, for writing with O_APPEND|O_CREATE; stdout/stderr recognised verbatim", 4)
	c.Rule("R19.5", "newEncoder rejects TimeKey without EncodeTime before the registry lookup", 1)

	zp := ZapPath
	// ---------------- R19.1 ----------------
	type acq struct {
		fn        *ssa.Function
		callee    string // full name of the acquiring callee
		closerIdx int    // index of the func() closer in callee's results, -1 none, -2 = closure capturing the closers slice
	}
	Open := c.Func(zp, "Open")
	// open: the function of package zap that tries newSink for every path (a helper of Open, or Open itself)
	var open *ssa.Function
	c.EachRootFunc(func(f *ssa.Function) {
		if f.Pkg == nil || f.Pkg.Pkg.Path() != zp || f.Parent() != nil {
			return
		}
		for _, cl := range Calls(f) {
			if isNewSink(cl) {
				open = f
			}
		}
	})
	build := c.Method(zp, "Config", "Build")
	// openSinks: the helper through which Build opens the output and the error-output sinks (a function or method of
	// package zap that Build calls and that calls Open), if there is one
	var openSinks *ssa.Function
	if build != nil && Open != nil {
		for _, cl := range Calls(build) {
			h := StaticCallee(cl)
			if h == nil || h == Open || h.Pkg == nil || h.Pkg.Pkg.Path() != zp {
				continue
			}
			for _, c2 := range Calls(h) {
				if StaticCallee(c2) == Open {
					openSinks = h
				}
			}
		}
	}
	if !c.Anchor("R19.1", "zap.open/Open/Config.Build", open != nil && Open != nil && build != nil) {
		return
	}
	// every call, in Open / openSinks (if it exists as a function of its own) / Build, of a function that hands back
	// opened sinks together with their closer
	var acqs []acq
	for _, fn := range []*ssa.Function{Open, openSinks, build} {
		if fn == nil {
			continue
		}
		for _, callee := range []*ssa.Function{open, Open, openSinks} {
			if callee == nil || callee == fn {
				continue
			}
			calls := false
			for _, cl := range Calls(fn) {
				if StaticCallee(cl) == callee {
					calls = true
				}
			}
			if !calls {
				continue
			}
			idx := -1
			res := callee.Signature.Results()
			for k := 0; k < res.Len(); k++ {
				if sg, ok := types.Unalias(res.At(k).Type()).Underlying().(*types.Signature); ok && sg.Params().Len() == 0 && sg.Results().Len() == 0 {
					idx = k
				}
			}
			acqs = append(acqs, acq{fn, FStr(callee), idx})
		}
	}
	for _, a := range acqs {
		name := FStr(a.fn)
		n := 0
		for _, cl := range Calls(a.fn) {
			call, ok := cl.(*ssa.Call)
			if !ok || !IsCallTo(cl, a.callee) {
				continue
			}
			n++
			slot := "acquire#" + itoa(n)
			// release calls for this acquisition
			isRelease := func(x ssa.Instruction) bool {
				rc, ok := x.(*ssa.Call)
				if !ok {
					return false
				}
				v := Strip(rc.Call.Value)
				switch {
				case a.closerIdx >= 0:
					ex, ok := v.(*ssa.Extract)
					return ok && ex.Tuple == ssa.Value(call) && ex.Index == a.closerIdx
				case a.closerIdx == -2:
					_, isClosure := v.(*ssa.MakeClosure)
					return isClosure
				}
				return false
			}
			start := successStart(a.fn, call)
			bad := 0
			errReturns := 0
			for _, r := range Returns(a.fn) {
				if !errResultMayBeNonNil(r) {
					continue
				}
				// reachable from the success point?
				if !ExistsPath(a.fn, start, func(x ssa.Instruction) bool { return x == ssa.Instruction(r) }, nil) {
					continue
				}
				errReturns++
				if ExistsPath(a.fn, start, func(x ssa.Instruction) bool { return x == ssa.Instruction(r) }, isRelease) {
					bad++
					c.Bad("R19.1", name, slot+"/leak", r.Pos(), "return with a possibly non-nil error is reachable after %s succeeded without passing through its closer (closer: %s)",
						a.callee, map[int]string{-1: "none is returned by the callee, so nothing fallible may follow", -2: "the closure over the recorded closers", 1: "result #1 of the call"}[a.closerIdx])
				}
			}
			if bad == 0 {
				c.OK("R19.1", name, slot+"/release-on-error", call.Pos(), "%d error return(s) reachable after %s succeeded; each is preceded by the closer on every path", errReturns, a.callee)
			}
		}
		if n == 0 {
			c.Und("R19.1", name, "acquire", a.fn.Pos(), "no call of %s found", a.callee)
		}
	}
	// open: by path exploration (two destinations): every sink that was opened is recorded for closing; a failure
	// anywhere closes everything recorded before the error is returned; success hands out the closer of the same list
	{
		name := FStr(open)
		// functions that close every element of a list of closers
		closeAll := map[*ssa.Function]bool{}
		c.EachRootFunc(func(f *ssa.Function) {
			if f.Pkg == nil || f.Pkg.Pkg.Path() != zp {
				return
			}
			for _, g := range WithClosures(f) {
				for _, cl := range Calls(g) {
					cm := cl.Common()
					if IsCallTo(cl, "(io.Closer).Close") || (cm.IsInvoke() && FNm(cm.Method) == "Close" && len(cm.Args) == 0) {
						if ok, _, _ := LoopVisitsAll(g, cl); ok {
							closeAll[g] = true
						}
					}
				}
			}
		})
		var newSink *ssa.Call
		for _, cl := range Calls(open) {
			if isNewSink(cl) {
				newSink, _ = cl.(*ssa.Call)
			}
		}
		if newSink == nil || len(closeAll) == 0 {
			if newSink != nil {
				// sinks are opened, but nothing closes them all: a loop that can stop early (at the first Close error, say)
				// leaves the later sinks open when Open fails
				c.Bad("R19.1", name, "closes-every-recorded-sink", open.Pos(), "no function of package zap closes EVERY recorded sink (a loop over the closers with no early exit)")
			} else {
				c.Und("R19.1", name, "record", open.Pos(), "cannot find the newSink call")
			}
		} else {
			resolve := func(st *ConcState, v ssa.Value) ssa.Value {
				v = Strip(v)
				for k := 0; k < 12; k++ {
					nx := st.Step(v)
					if nx == nil {
						break
					}
					v = Strip(nx)
				}
				return v
			}
			// is fv a function value that closes everything: a close-all literal/method value, or a literal that only calls one
			var closerVal func(v ssa.Value, d int) bool
			closerVal = func(v ssa.Value, d int) bool {
				if d > 3 {
					return false
				}
				var f *ssa.Function
				switch x := v.(type) {
				case *ssa.MakeClosure:
					f, _ = x.Fn.(*ssa.Function)
				case *ssa.Function:
					f = x
				}
				if f == nil {
					return false
				}
				if closeAll[f] {
					return true
				}
				for _, cl := range Calls(f) {
					if sc := StaticCallee(cl); sc != nil && closeAll[sc] {
						return true
					}
				}
				return false
			}
			// how many recorded sinks the list a close-all function value will walk holds: "live" when the function reads
			// the variable itself (a literal that captured it), the number of appends behind the slice VALUE it was
			// given otherwise (a method value binds a copy of its receiver - the slice header as it was then), "?" when
			// that is not evident
			var listDepth func(st *ConcState, v ssa.Value, d int) int
			listDepth = func(st *ConcState, v ssa.Value, d int) int {
				if d > 8 {
					return -1
				}
				v = resolve(st, v)
				switch x := v.(type) {
				case *ssa.Call:
					if CallBuiltin(x) == "append" && len(x.Call.Args) >= 1 {
						if k := listDepth(st, x.Call.Args[0], d+1); k >= 0 {
							return k + 1
						}
					}
					return -1
				case *ssa.MakeSlice:
					return 0
				case *ssa.Const:
					if x.Value == nil {
						return 0
					}
				case *ssa.ChangeType:
					return listDepth(st, x.X, d+1)
				case *ssa.Slice:
					if _, isArr := types.Unalias(deref(x.X.Type())).Underlying().(*types.Array); isArr && x.Low == nil && x.High == nil {
						return -1
					}
				}
				return -1
			}
			isCloserSlice := func(t types.Type) bool {
				sl, ok := types.Unalias(t).Underlying().(*types.Slice)
				if !ok {
					return false
				}
				m, _, _ := types.LookupFieldOrMethod(sl.Elem(), true, nil, "Close")
				return m != nil
			}
			closerSees := func(st *ConcState, v ssa.Value) string {
				mk, ok := v.(*ssa.MakeClosure)
				if !ok {
					return "?"
				}
				for _, b := range mk.Bindings {
					if a, isA := b.(*ssa.Alloc); isA && isCloserSlice(deref(a.Type())) {
						return "live" // reads the variable when it runs
					}
					if isCloserSlice(b.Type()) {
						if k := listDepth(st, b, 0); k >= 0 {
							return itoa(k)
						}
						return "?"
					}
				}
				// a literal that calls a close-all literal: look through
				if f, isF := mk.Fn.(*ssa.Function); isF {
					for i, fv := range f.FreeVars {
						if i < len(mk.Bindings) {
							if inner, isMk := resolve(st, mk.Bindings[i]).(*ssa.MakeClosure); isMk && closerVal(inner, 0) {
								_ = fv
								return closerSeesInner(st, inner, listDepth, isCloserSlice)
							}
						}
					}
				}
				return "?"
			}
			cut := 0
			seqs, trunc := ConcPaths(open, ConcCfg{
				MaxIter: 2, Cut: &cut,
				Inline: func(h *ssa.Function) bool {
					return !closeAll[h] && FStr(h) != "(*go.uber.org/zap.sinkRegistry).newSink"
				},
				Event: func(in ssa.Instruction, st *ConcState) string {
					switch x := in.(type) {
					case *ssa.Call:
						if x == newSink || isNewSink(x) {
							return "open"
						}
						if sc := StaticCallee(x); sc != nil && closeAll[sc] {
							for _, a := range x.Call.Args {
								if isCloserSlice(a.Type()) {
									if k := listDepth(st, a, 0); k >= 0 {
										return "closeall:" + itoa(k)
									}
								}
							}
							return "closeall:?"
						}
						if !x.Call.IsInvoke() && x.Call.StaticCallee() == nil && closerVal(resolve(st, x.Call.Value), 0) {
							return "closeall:" + closerSees(st, resolve(st, x.Call.Value))
						}
						if mk, ok := x.Call.Value.(*ssa.MakeClosure); ok && closerVal(mk, 0) {
							return "closeall:" + closerSees(st, mk)
						}
						if CallBuiltin(x) == "append" {
							if sl, ok := types.Unalias(x.Type()).Underlying().(*types.Slice); ok {
								if m, _, _ := types.LookupFieldOrMethod(sl.Elem(), true, nil, "Close"); m != nil {
									return "record"
								}
							}
						}
					case *ssa.Return:
						if n, known := st.IsNil(x.Results[len(x.Results)-1]); known && n {
							if len(x.Results) >= 2 && closerVal(resolve(st, x.Results[1]), 0) {
								return "ret-ok(closer:" + closerSees(st, resolve(st, x.Results[1])) + ")"
							}
							return "ret-ok(" + st.Desc(x.Results[1]) + ")"
						}
						return "ret-err"
					}
					return ""
				},
				Branch: func(cond ssa.Value, taken bool, st *ConcState) string {
					pol := taken
					for k := 0; k < 8; k++ {
						if u, ok := cond.(*ssa.UnOp); ok && u.Op == token.NOT {
							cond, pol = u.X, !pol
							continue
						}
						if nx := st.Step(cond); nx != nil {
							cond = nx
							continue
						}
						break
					}
					bo, ok := cond.(*ssa.BinOp)
					if !ok || !IsNilConst(bo.Y) {
						if os.Getenv("ZV_DEBUG") != "" {
							return "cond?" + st.Desc(cond)
						}
						return ""
					}
					var ex *ssa.Extract
					for v, k := bo.X, 0; k < 12 && ex == nil; k++ {
						if e, ok := v.(*ssa.Extract); ok {
							ex = e
							break
						}
						nx := st.Step(v)
						if nx == nil {
							break
						}
						v = nx
					}
					if ex != nil && ex.Index == 1 {
						if cl, ok := ex.Tuple.(*ssa.Call); ok && isNewSink(cl) {
							if pol == (bo.Op == token.NEQ) {
								return "fail"
							}
							return "ok"
						}
					}
					return ""
				},
			})
			re := regexp.MustCompile(`^(open (ok record|fail) )*(closeall:\S+ ret-err|ret-ok\(closer:\S+\)) $`)
			reSees := regexp.MustCompile(`(?:closeall:|closer:)([^ )]+)`)
			var bad []string
			if os.Getenv("ZV_DEBUG") != "" {
				for _, sq := range seqs {
					fmt.Println("SEQ", sq)
				}
			}
			for _, sq := range seqs {
				toks := strings.Split(sq, " ; ")
				line := strings.Join(toks, " ") + " "
				failed := strings.Contains(line, " fail ") || strings.HasPrefix(line, "open fail ")
				okForm := re.MatchString(line)
				if okForm && failed != strings.HasSuffix(line, "ret-err ") {
					okForm = false
				}
				// the list that is closed / handed out holds every sink recorded on this path (a function value that
				// reads the variable when it runs sees them all; one bound to an earlier copy of the slice does not)
				if m := reSees.FindStringSubmatch(line); okForm && m != nil && m[1] != "live" && m[1] != "?" {
					if m[1] != itoa(strings.Count(line, " record ")) {
						okForm = false
					}
				}
				if !okForm {
					bad = append(bad, sq)
				}
			}
			if len(bad) > 4 {
				bad = append(bad[:4:4], "… "+itoa(len(bad)-4)+" more")
			}
			c.Check(!trunc && len(seqs) > 0 && len(bad) == 0, "R19.1", name, "all-or-nothing", newSink.Pos(), "over %d paths (two destinations, helpers inline; %d longer paths cut): every sink that opened is appended to the list of closers before anything else; if any destination failed, every recorded sink is closed and an error returned; otherwise the function that closes exactly that list is handed out: %v", len(seqs), cut, bad)
			// loop over all paths, no early exit
			ok, over, why := LoopVisitsAll(open, newSink)
			c.Check(ok && over == "paths", "R19.1", name, "tries-all-paths", newSink.Pos(), "newSink is attempted for every path (%s) %s", over, why)
		}
		// Open relays closer on success
		for k, r := range Returns(Open) {
			if open == Open {
				break // one function: what it hands out was decided on its paths above
			}
			rv := RetVals(r)
			if IsNilConst(Strip(rv[2])) {
				ex, ok := Strip(rv[1]).(*ssa.Extract)
				okc := ok && ex.Index == 1
				if okc {
					cc, _ := ex.Tuple.(*ssa.Call)
					okc = cc != nil && (cc.Call.StaticCallee() == open || relaysAllResultsOf(cc.Call.StaticCallee(), open))
				}
				c.Check(okc, "R19.1", FStr(Open), "returns-closer#"+itoa(k+1), r.Pos(), "success return hands the caller open's closer unchanged (%s)", Desc(rv[1]))
			}
		}
	}

	// ---------------- R19.2 ----------------
	// the function of package zap that re-points the standard library's logger: the one that calls log.SetOutput
	var red *ssa.Function
	c.EachRootFunc(func(f *ssa.Function) {
		if f.Pkg == nil || f.Pkg.Pkg.Path() != zp || f.Parent() != nil {
			return
		}
		sets, saves := false, false
		for _, cl := range Calls(f) {
			sets = sets || IsCallTo(cl, "log.SetOutput")
		}
		for _, cl := range CallsDeep(f) {
			saves = saves || IsCallTo(cl, "log.Flags")
		}
		// (the function that puts the old settings back sets the output too; it reads nothing)
		if sets && saves && (red == nil || FStr(f) < FStr(red)) {
			red = f
		}
	})
	if c.Anchor("R19.2", "zap: the function that calls log.SetOutput", red != nil) {
		name := "zap.std-log-redirection"
		// ... and none of the functions that use it as a helper reports an error once it has run
		for _, site := range sitesOf(red) {
			g := site.Parent()
			var w ssa.Instruction
			for _, r := range Returns(g) {
				if !errResultMayBeNonNil(r) || !ExistsPath(g, site, func(x ssa.Instruction) bool { return x == ssa.Instruction(r) }, nil) {
					continue
				}
				// the helper's own error handed on: it reports one only before it changed anything (decided below)
				rv := RetVals(r)
				if ex, isEx := Strip(rv[len(rv)-1]).(*ssa.Extract); isEx && ex.Tuple == site.Value() {
					continue
				}
				w = r
			}
			if w != nil {
				c.Bad("R19.2", name, "no-error-after-helper/"+FNm(g), site.Pos(), "%s can return an error (%s) after %s changed the standard logger; the change is not undone on that path", FNm(g), c.Pos(w.Pos()), FNm(red))
			}
		}
		setters := map[string]string{"log.SetFlags": "log.Flags", "log.SetPrefix": "log.Prefix", "log.SetOutput": ""}
		getCalls := map[string]*ssa.Call{}
		for _, cl := range CallsDeep(red) {
			if f := CalleeFunc(cl); f != nil && (f.FullName() == "log.Flags" || f.FullName() == "log.Prefix") {
				getCalls[f.FullName()], _ = cl.(*ssa.Call)
			}
		}
		nset := 0
		for _, cl := range Calls(red) {
			f := CalleeFunc(cl)
			if f == nil {
				continue
			}
			getter, isSetter := setters[f.FullName()]
			if !isSetter {
				continue
			}
			nset++
			var w ssa.Instruction
			for _, r := range Returns(red) {
				if errResultMayBeNonNil(r) && ExistsPath(red, cl, func(x ssa.Instruction) bool { return x == ssa.Instruction(r) }, nil) {
					w = r
				}
			}
			if w != nil {
				c.Bad("R19.2", name, "no-error-after/"+FNm(f), cl.Pos(), "an error return (%s) is reachable after %s changed the standard logger; the change is not undone on that path", c.Pos(w.Pos()), f.FullName())
			} else {
				c.OK("R19.2", name, "no-error-after/"+FNm(f), cl.Pos(), "no return with a possibly non-nil error is reachable after %s", f.FullName())
			}
			if getter != "" {
				g := getCalls[getter]
				c.Check(g != nil && Dominates(g, cl), "R19.2", name, "saved-before/"+FNm(f), cl.Pos(), "%s() is read before %s overwrites it", getter, f.FullName())
			}
		}
		if nset < 3 {
			c.Bad("R19.2", name, "setters", red.Pos(), "expected SetFlags, SetPrefix and SetOutput calls, found %d", nset)
		}
		// restore closure
		var restore *ssa.Function
		for _, r := range Returns(red) {
			if mk, ok := Strip(RetVals(r)[0]).(*ssa.MakeClosure); ok {
				restore = mk.Fn.(*ssa.Function)
				bind := map[string]ssa.Value{}
				for i, fv := range restore.FreeVars {
					bind[fv.Name()] = mk.Bindings[i]
				}
				// a method value (saved.restore): look at the method itself; its receiver is the bound value
				var recvParam *ssa.Parameter
				var recvVal ssa.Value
				if strings.HasSuffix(FNm(restore), "$bound") && len(mk.Bindings) == 1 {
					for _, cl := range Calls(restore) {
						if sc := StaticCallee(cl); sc != nil && len(sc.Params) > 0 && len(sc.Blocks) > 0 {
							restore, recvParam, recvVal = sc, sc.Params[0], mk.Bindings[0]
						}
					}
				}
				// source of a restored value: the getter call whose result was saved
				source := func(arg ssa.Value) *ssa.Call {
					if u, isLoad := arg.(*ssa.UnOp); isLoad {
						if fv, ok := u.X.(*ssa.FreeVar); ok {
							b := bind[fv.Name()]
							if al, isAlloc := b.(*ssa.Alloc); isAlloc {
								b = singleStore(al)
							}
							bc, _ := Strip(b).(*ssa.Call)
							return bc
						}
					}
					// a field of the bound receiver
					fld := ""
					switch x := Strip(arg).(type) {
					case *ssa.Field:
						if Strip(x.X) == ssa.Value(recvParam) {
							fld = fieldName(x.X.Type(), x.Field)
						}
					case *ssa.UnOp:
						if fa, ok := x.X.(*ssa.FieldAddr); ok {
							base := Strip(fa.X)
							if al, isAlloc := base.(*ssa.Alloc); isAlloc {
								if sv := singleStore(al); sv != nil {
									base = Strip(sv)
								}
							}
							if recvParam != nil && base == ssa.Value(recvParam) {
								fld = fieldName(fa.X.Type(), fa.Field)
							}
						}
					}
					if fld == "" || recvVal == nil {
						return nil
					}
					named, _ := types.Unalias(deref(recvParam.Type())).(*types.Named)
					if named == nil {
						return nil
					}
					builder := red
					if bc, ok := Strip(recvVal).(*ssa.Call); ok {
						if hh := helperOf(bc); hh != nil {
							builder = hh
						}
					} else if u, ok := Strip(recvVal).(*ssa.UnOp); ok {
						if al, ok := u.X.(*ssa.Alloc); ok {
							if sv := singleStore(al); sv != nil {
								if bc, ok := Strip(sv).(*ssa.Call); ok {
									if hh := helperOf(bc); hh != nil {
										builder = hh
									}
								}
							}
						}
					}
					if bf, ok := BuiltFields(builder, named)[fld]; ok && bf.Val != nil {
						bc, _ := Strip(bf.Val).(*ssa.Call)
						return bc
					}
					return nil
				}
				for _, cl := range Calls(restore) {
					f := CalleeFunc(cl)
					if f == nil {
						continue
					}
					arg := cl.Common().Args[0]
					switch f.FullName() {
					case "log.SetFlags", "log.SetPrefix":
						bc := source(arg)
						ok := bc != nil && IsCallTo(bc, setters[f.FullName()])
						c.Check(ok, "R19.2", name, "restore/"+FNm(f), cl.Pos(), "the restore function calls %s with the value read by %s before the change (arg %s)", f.FullName(), setters[f.FullName()], Desc(arg))
					case "log.SetOutput":
						c.Check(strings.HasSuffix(Desc(arg), "Stderr"), "R19.2", name, "restore/SetOutput", cl.Pos(), "the restore function resets the output to os.Stderr (arg %s)", Desc(arg))
					}
				}
			}
		}
		if restore == nil {
			c.Bad("R19.2", name, "restore", red.Pos(), "no restore closure is returned")
		}
	}

	// ---------------- R19.3 ----------------
	if nsk := c.Method(zp, "sinkRegistry", "newSink"); c.Anchor("R19.3", "zap.sinkRegistry.newSink", nsk != nil) {
		// an absolute path is opened verbatim, before (and instead of) any URL parsing, on every platform
		raw := nsk.Params[1]
		var direct, parse *ssa.Call
		for _, cl := range CallsDeep(nsk) {
			c2, ok := cl.(*ssa.Call)
			if !ok {
				continue
			}
			if IsCallTo(cl, "(*go.uber.org/zap.sinkRegistry).newFileSinkFromPath") {
				if Strip(Args(cl)[1]) == ssa.Value(raw) {
					direct = c2
				}
			}
			if IsCallTo(cl, "net/url.Parse") {
				parse = c2
			}
		}
		ok := direct != nil && parse != nil
		var g []string
		if ok {
			g = AtomStrings(GuardsOfBlock(direct.Block()))
			ok = len(g) == 1 && g[0] == "IsAbs("+raw.Name()+")"
			// and the parse is only reached when it is not absolute
			pg := false
			var site ssa.Instruction = parse
			if parse.Parent() != nsk {
				site = nil
				for _, cl := range Calls(nsk) {
					if h := helperOf(cl); h != nil {
						for _, f := range Region(h) {
							if f == parse.Parent() {
								site = cl
							}
						}
					}
				}
			}
			pg = site != nil && containsS(AtomStrings(GuardsOfBlock(site.Block())), "!IsAbs("+raw.Name()+")")
			ok = ok && pg
		}
		c.Check(ok, "R19.3", FStr(nsk), "absolute-path-verbatim", nsk.Pos(), "a destination that filepath.IsAbs accepts is opened as exactly that path, under that single condition and without URL parsing (escapes, '#', '?' in a file name must not be reinterpreted); guards of the direct open: %v", g)
	}
	fu := c.Method(zp, "sinkRegistry", "newFileSinkFromURL")
	if c.Anchor("R19.3", "zap.sinkRegistry.newFileSinkFromURL", fu != nil) {
		name := FStr(fu)
		n := 0
		for _, cl := range Calls(fu) {
			if !IsCallTo(cl, "(*go.uber.org/zap.sinkRegistry).newFileSinkFromPath") {
				continue
			}
			n++
			arg := Desc(cl.Common().Args[1])
			c.Check(arg == "u.Path", "R19.3", name, "opens-exactly-path", cl.Pos(), "the path opened is %s (must be exactly u.Path)", arg)
			dnf := PathConds(cl.Block())
			req := []struct {
				slot string
				ok   func(string) bool
			}{
				{"no-userinfo", func(s string) bool { return s == "u.User == nil" }},
				{"no-fragment", func(s string) bool { return s == `u.Fragment == ""` }},
				{"no-query", func(s string) bool { return s == `u.RawQuery == ""` }},
				{"no-port", func(s string) bool { return s == `Port(u) == ""` }},
				{"host-empty-or-localhost", func(s string) bool { return s == `Hostname(u) == ""` || s == `Hostname(u) == "localhost"` }},
			}
			// the tests may live in a package-level table of predicates walked by a loop that returns at the first one
			// violated: reaching the open then means every predicate of the table came out false
			if extra, ok := c19PredicateTable(c, fu, cl); ok {
				var nd [][]string
				for _, d := range dnf {
					for _, e := range extra {
						nd = append(nd, uniqSorted(append(append([]string{}, d...), e...)))
					}
				}
				dnf = nd
			}
			for _, rq := range req {
				ok, cex := AllDisjunctsHave(dnf, rq.ok)
				c.Check(ok, "R19.3", name, rq.slot, cl.Pos(), "every way of reaching the open carries the %s test (counter-example path conditions: %v)", rq.slot, cex)
			}
		}
		if n != 1 {
			c.Bad("R19.3", name, "single-open", fu.Pos(), "expected exactly one newFileSinkFromPath call, found %d", n)
		}
	}

	// ---------------- R19.4 ----------------
	c19Registry(c, c.Method(zp, "sinkRegistry", "RegisterSink"), "factories", "sr.mu",
		[]string{`scheme != ""`, `normalizeScheme(scheme)#1 == nil`}, "normalizeScheme(scheme)#0")
	c19Registry(c, c.Func(zp, "RegisterEncoder"), "_encoderNameToConstructor", "_encoderMutex",
		[]string{`name != ""`}, "name")
	// the stores above are the only ones in the program
	for _, reg := range []string{"factories", "_encoderNameToConstructor"} {
		n := 0
		var where []string
		c.EachRootFunc(func(fn *ssa.Function) {
			AllInstrs(fn, func(i ssa.Instruction) {
				if mu, ok := i.(*ssa.MapUpdate); ok && strings.HasSuffix(Desc(mu.Map), reg) {
					n++
					where = append(where, FStr(fn))
				}
				// a store made by a small generic helper into the map it is handed: counts where it is handed this one
				if cl, ok := i.(*ssa.Call); ok && smallGenericHelper(cl.Call.StaticCallee()) {
					h := cl.Call.StaticCallee()
					for ai, a := range cl.Call.Args {
						if ai >= len(h.Params) || !strings.HasSuffix(Desc(a), reg) {
							continue
						}
						AllInstrs(h, func(hi ssa.Instruction) {
							if mu, isMu := hi.(*ssa.MapUpdate); isMu && mu.Map == ssa.Value(h.Params[ai]) {
								n++
								where = append(where, FStr(fn)+" (through "+h.Name()+")")
							}
						})
					}
				}
			})
		})
		c.Check(n == 1, "R19.4", "registry "+reg, "single-writer", 0, "exactly one map store into %s in non-test code (found %d in %v)", reg, n, where)
	}
	// lookups under the lock
	for _, lk := range []struct {
		fn      *ssa.Function
		reg, mu string
	}{
		{c.Method(zp, "sinkRegistry", "newSink"), "factories", "sr.mu"},
		{c.Func(zp, "newEncoder"), "_encoderNameToConstructor", "_encoderMutex"},
	} {
		if !c.Anchor("R19.4", "lookup function for "+lk.reg, lk.fn != nil) {
			continue
		}
		n := 0
		muSuffix := lk.mu[strings.LastIndex(lk.mu, ".")+1:]
		for _, f := range Region(lk.fn) {
			held := MustHeldCtx(f)
			if f == lk.fn {
				held = MustHeld(f, nil)
			}
			AllInstrs(f, func(i ssa.Instruction) {
				if l, ok := i.(*ssa.Lookup); ok && strings.HasSuffix(Desc(l.X), lk.reg) {
					n++
					locked := false
					for m, k := range held[i] {
						if k != 0 && (m == lk.mu || strings.HasSuffix(m, "."+muSuffix) || m == muSuffix) {
							locked = true
						}
					}
					c.Check(locked, "R19.4", FStr(lk.fn), "lookup-locked", l.Pos(), "registry lookup runs with lockset %s", held[i])
				}
			})
		}
		if n == 0 {
			c.Bad("R19.4", FStr(lk.fn), "lookup", lk.fn.Pos(), "no lookup of %s found", lk.reg)
		}
	}
	// normalizeScheme lower-cases first and returns the lowered value
	ns := c.Func(zp, "normalizeScheme")
	if c.Anchor("R19.4", "zap.normalizeScheme", ns != nil) {
		// evaluated byte by byte: the accepted grammar is RFC 3986's  ALPHA *( ALPHA / DIGIT / "+" / "-" / "." ), for every
		// byte value in first and in later position (a multi-byte character must not slip through as Latin-1 letters)
		it := NewInterp(c)
		alpha := func(b byte) bool { return b >= 'a' && b <= 'z' || b >= 'A' && b <= 'Z' }
		rest := func(b byte) bool { return alpha(b) || b >= '0' && b <= '9' || b == '+' || b == '-' || b == '.' }
		var wrong []string
		evalErr := ""
		nEval := 0
		try := func(in string, want bool) {
			if evalErr != "" {
				return
			}
			r, err := it.Run(ns, []IVal{IStr(in)})
			if err != nil || len(r) != 2 {
				evalErr = fmt.Sprintf("normalizeScheme(%q): %v %v", in, r, err)
				return
			}
			nEval++
			accepted := r[1].K == ivNil
			switch {
			case accepted != want:
				wrong = append(wrong, fmt.Sprintf("%q accepted=%v", in, accepted))
			case accepted && (r[0].K != ivStr || r[0].S != strings.ToLower(in)):
				wrong = append(wrong, fmt.Sprintf("%q normalised to %s", in, r[0]))
			}
		}
		for b := 0; b < 256; b++ {
			try(string([]byte{byte(b)}), alpha(byte(b)))
			try(string([]byte{'a', byte(b)}), rest(byte(b)))
			try(string([]byte{'Z', byte(b), 'q'}), rest(byte(b)))
		}
		for _, sch := range []string{"http", "FILE", "a.b+c-1", "men\u00fa", "x\u00b5", "1a", "+a", "a b"} {
			ok := len(sch) > 0 && alpha(sch[0])
			for i := 1; i < len(sch); i++ {
				ok = ok && rest(sch[i])
			}
			try(sch, ok)
		}
		if evalErr != "" {
			c.Und("R19.4", FStr(ns), "scheme-grammar", ns.Pos(), "cannot evaluate the scheme validator: %s", evalErr)
		} else {
			if len(wrong) > 6 {
				wrong = append(wrong[:6:6], fmt.Sprintf("… %d more", len(wrong)-6))
			}
			c.Check(len(wrong) == 0, "R19.4", FStr(ns), "scheme-grammar", ns.Pos(), "evaluated on %d scheme strings covering every byte value in first and in later position: accepted exactly when the first byte is an ASCII letter and every other byte an ASCII letter, digit, '+', '-' or '.', and then returned lower-cased: %v", nEval, wrong)
		}
		for k, r := range Returns(ns) {
			rv := RetVals(r)
			if IsNilConst(Strip(rv[1])) {
				c.Check(Desc(rv[0]) == "ToLower(s)", "R19.4", FStr(ns), "returns-lowered#"+itoa(k+1), r.Pos(), "success returns strings.ToLower of the parameter (returns %s)", Desc(rv[0]))
			}
		}
	}

	c19FileOpen(c, "R19.6")

	// ---------------- R19.5 ----------------
	ne := c.Func(zp, "newEncoder")
	if c.Anchor("R19.5", "zap.newEncoder", ne != nil) {
		// by path exploration (helpers inline): every path that consults the constructor registry has established that
		// the configuration's TimeKey is empty or its EncodeTime is set
		cfgField := func(v ssa.Value) string {
			for k := 0; k < 6; k++ {
				switch x := v.(type) {
				case *ssa.ChangeType:
					v = x.X
					continue
				case *ssa.UnOp:
					if x.Op == token.MUL {
						if fa, ok := x.X.(*ssa.FieldAddr); ok && strings.HasSuffix(TypeName(deref(fa.X.Type())), "EncoderConfig") {
							return fieldName(fa.X.Type(), fa.Field)
						}
					}
				case *ssa.Field:
					if strings.HasSuffix(TypeName(x.X.Type()), "EncoderConfig") {
						if st, ok := types.Unalias(x.X.Type()).Underlying().(*types.Struct); ok {
							return FN(st.Field(x.Field))
						}
					}
				}
				break
			}
			return ""
		}
		seqs, trunc := ConcPaths(ne, ConcCfg{
			Event: func(in ssa.Instruction, st *ConcState) string {
				if l, ok := in.(*ssa.Lookup); ok {
					if mt, isM := types.Unalias(l.X.Type()).Underlying().(*types.Map); isM && strings.Contains(TStr(types.Unalias(mt.Elem()).Underlying()), "EncoderConfig") {
						return "lookup"
					}
				}
				return ""
			},
			Branch: func(cond ssa.Value, taken bool, st *ConcState) string {
				pol := taken
				for k := 0; k < 8; k++ {
					if u, ok := cond.(*ssa.UnOp); ok && u.Op == token.NOT {
						cond, pol = u.X, !pol
						continue
					}
					if nx := st.Step(cond); nx != nil {
						cond = nx
						continue
					}
					break
				}
				bo, ok := cond.(*ssa.BinOp)
				if !ok || bo.Op != token.EQL && bo.Op != token.NEQ {
					return ""
				}
				eq := (bo.Op == token.EQL) == pol
				x, y := bo.X, bo.Y
				if cfgField(x) == "" {
					x, y = y, x
				}
				switch cfgField(x) {
				case "TimeKey":
					if s, isS := ConstString(y); isS && s == "" {
						if eq {
							return "timekey-empty"
						}
						return "timekey-set"
					}
				case "EncodeTime":
					if IsNilConst(y) {
						if eq {
							return "encodetime-nil"
						}
						return "encodetime-set"
					}
				}
				return ""
			},
		})
		var bad []string
		nLookup := 0
		for _, sq := range seqs {
			toks := strings.Split(sq, " ; ")
			okSoFar := false
			for _, t := range toks {
				switch t {
				case "timekey-empty", "encodetime-set":
					okSoFar = true
				case "lookup":
					nLookup++
					if !okSoFar {
						bad = append(bad, sq)
					}
				}
			}
		}
		c.Check(!trunc && nLookup > 0 && len(bad) == 0, "R19.5", FStr(ne), "time-encoder-validated", ne.Pos(), "on every one of the %d explored paths (helpers inline) the constructor lookup is reached only after TimeKey was found empty or EncodeTime set (offending: %v)", len(seqs), bad)
	}
}

func c19Registry(c *Ctx, fn *ssa.Function, reg, mutex string, guards []string, keyDesc string) {
	if !c.Anchor("R19.4", "register function for "+reg, fn != nil) {
		return
	}
	name := FStr(fn)
	normalise := strings.HasPrefix(keyDesc, "normalizeScheme(")
	var keyParam *ssa.Parameter
	for _, p := range fn.Params {
		if b, ok := p.Type().Underlying().(*types.Basic); ok && b.Kind() == types.String {
			keyParam = p
			break
		}
	}
	if !c.Anchor("R19.4", "string parameter of "+name, keyParam != nil) {
		return
	}
	// by path exploration (helpers explored inline, the validator opaque): what each path does to the registry
	resolve := func(st *ConcState, v ssa.Value) ssa.Value {
		v = stripConv(v)
		for k := 0; k < 12; k++ {
			nx := st.Step(v)
			if nx == nil {
				break
			}
			v = stripConv(nx)
		}
		return v
	}
	isNorm := func(st *ConcState, v ssa.Value) (*ssa.Call, bool) {
		cl, ok := v.(*ssa.Call)
		if !ok || !IsCallTo(cl, "go.uber.org/zap.normalizeScheme") || len(cl.Call.Args) != 1 {
			return nil, false
		}
		return cl, resolve(st, cl.Call.Args[0]) == ssa.Value(keyParam)
	}
	keyName := func(st *ConcState, k ssa.Value) string {
		r := resolve(st, k)
		if normalise {
			if ex, ok := r.(*ssa.Extract); ok && ex.Index == 0 {
				if _, good := isNorm(st, ex.Tuple); good {
					return "key"
				}
			}
		} else if r == ssa.Value(keyParam) {
			return "key"
		}
		return "other(" + st.Desc(k) + ")"
	}
	isReg := func(st *ConcState, m ssa.Value) bool {
		return strings.HasSuffix(st.Desc(m), reg) || strings.HasSuffix(Desc(m), reg)
	}
	muSuffix := mutex[strings.LastIndex(mutex, ".")+1:]
	lockEv := func(st *ConcState, cc *ssa.CallCommon) string {
		sc := cc.StaticCallee()
		if sc == nil || len(cc.Args) == 0 {
			return ""
		}
		d := Desc(cc.Args[0])
		if !strings.HasSuffix(strings.TrimPrefix(d, "&"), muSuffix) {
			return ""
		}
		switch FStr(sc) {
		case "(*sync.Mutex).Lock", "(*sync.RWMutex).Lock":
			return "lock"
		case "(*sync.RWMutex).RLock":
			return "rlock"
		case "(*sync.Mutex).Unlock", "(*sync.RWMutex).Unlock", "(*sync.RWMutex).RUnlock":
			return "unlock"
		}
		return ""
	}
	nStores := 0
	AllInstrs(fn, func(i ssa.Instruction) {})
	seqs, trunc := ConcPaths(fn, ConcCfg{
		Inline:    func(h *ssa.Function) bool { return FStr(h) != "go.uber.org/zap.normalizeScheme" },
		InlineAny: smallGenericHelper,
		Event: func(in ssa.Instruction, st *ConcState) string {
			switch x := in.(type) {
			case *ssa.Call:
				return lockEv(st, &x.Call)
			case *ssa.MapUpdate:
				if isReg(st, x.Map) {
					nStores++
					return "store:" + keyName(st, x.Key)
				}
			case *ssa.Return:
				if len(x.Results) == 0 {
					return "ret-nil"
				}
				if n, known := st.IsNil(x.Results[len(x.Results)-1]); known && n {
					return "ret-nil"
				}
				return "ret-err"
			}
			return ""
		},
		Branch: func(cond ssa.Value, taken bool, st *ConcState) string {
			pol := taken
			for k := 0; k < 8; k++ {
				if u, ok := cond.(*ssa.UnOp); ok && u.Op == token.NOT {
					cond, pol = u.X, !pol
					continue
				}
				if nx := st.Step(cond); nx != nil {
					cond = nx
					continue
				}
				break
			}
			side := func(yes bool, a, b string) string {
				if yes == pol {
					return a
				}
				return b
			}
			if ex, ok := cond.(*ssa.Extract); ok && ex.Index == 1 {
				if lk, ok := ex.Tuple.(*ssa.Lookup); ok && isReg(st, lk.X) {
					return side(true, "present:", "absent:") + keyName(st, lk.Index)
				}
			}
			bo, ok := cond.(*ssa.BinOp)
			if !ok {
				return ""
			}
			x, y := resolve(st, bo.X), resolve(st, bo.Y)
			if IsNilConst(bo.Y) && (bo.Op == token.EQL || bo.Op == token.NEQ) {
				if ex, ok := x.(*ssa.Extract); ok && ex.Index == 1 {
					if _, good := isNorm(st, ex.Tuple); good {
						return side(bo.Op == token.EQL, "valid", "invalid")
					}
				}
				if lk, ok := x.(*ssa.Lookup); ok && !lk.CommaOk && isReg(st, lk.X) {
					return side(bo.Op == token.NEQ, "present:", "absent:") + keyName(st, lk.Index)
				}
				return ""
			}
			// emptiness of the key parameter: key == "" / len(key) <op> k
			op := bo.Op
			if kc, isC := x.(*ssa.Const); isC {
				if _, isC2 := y.(*ssa.Const); !isC2 {
					x, y = y, kc
					switch op {
					case token.LSS:
						op = token.GTR
					case token.GTR:
						op = token.LSS
					case token.LEQ:
						op = token.GEQ
					case token.GEQ:
						op = token.LEQ
					}
				}
			}
			yc, ok := y.(*ssa.Const)
			if !ok || yc.Value == nil {
				return ""
			}
			var atZero, known bool
			if x == ssa.Value(keyParam) && yc.Value.Kind() == constant.String && constant.StringVal(yc.Value) == "" {
				switch op {
				case token.EQL:
					atZero, known = true, true
				case token.NEQ:
					atZero, known = false, true
				}
			} else if cl, isCall := x.(*ssa.Call); isCall && CallBuiltin(cl) == "len" && resolve(st, cl.Call.Args[0]) == ssa.Value(keyParam) {
				if k, isInt := ConstInt(yc); isInt {
					known = true
					switch op {
					case token.EQL:
						atZero = 0 == k
					case token.NEQ:
						atZero = 0 != k
					case token.LSS:
						atZero = 0 < k
					case token.LEQ:
						atZero = 0 <= k
					case token.GTR:
						atZero = 0 > k
					case token.GEQ:
						atZero = 0 >= k
					default:
						known = false
					}
				}
			}
			if !known {
				return ""
			}
			// the side on which the condition's value differs from its value for the empty string excludes ""
			if pol != atZero {
				return "nonempty"
			}
			return "maybe-empty"
		},
	})
	if trunc || len(seqs) == 0 {
		c.Und("R19.4", name, "paths", fn.Pos(), "path exploration of %s incomplete (%d sequences)", name, len(seqs))
		return
	}
	type slot struct {
		name, doc string
		bad       []string
	}
	var slots []*slot
	get := func(n, doc string) *slot {
		for _, s := range slots {
			if s.name == n {
				return s
			}
		}
		s := &slot{name: n, doc: doc}
		slots = append(slots, s)
		return s
	}
	for _, g := range guards {
		get("guard/"+g, "the store into "+reg+" happens only after "+g)
	}
	get("guard/not-present", "the store happens only after a failed lookup of the same key")
	get("key", "stored under "+keyDesc)
	get("locked", "store and lookups run with "+mutex+" write-locked")
	get("no-error-after-store", "no error is returned after the registry was modified; a nil return means the factory was stored")
	get("single-store", "one store per call")
	withStore := 0
	for _, sq := range seqs {
		toks := strings.Split(sq, " ; ")
		storeAt := -1
		nst := 0
		for i, t := range toks {
			if strings.HasPrefix(t, "store:") {
				if storeAt < 0 {
					storeAt = i
				}
				nst++
			}
		}
		// lock state along the path
		locked := false
		lockOK := true
		for _, t := range toks {
			switch {
			case t == "lock":
				locked = true
			case t == "unlock", t == "rlock":
				locked = false
			case strings.HasPrefix(t, "store:"), strings.HasPrefix(t, "present:"), strings.HasPrefix(t, "absent:"):
				if !locked {
					lockOK = false
				}
			}
		}
		if !lockOK {
			s := get("locked", "")
			s.bad = append(s.bad, sq)
		}
		last := toks[len(toks)-1]
		if storeAt < 0 {
			if last == "ret-nil" {
				s := get("no-error-after-store", "")
				s.bad = append(s.bad, "returns nil without storing: "+sq)
			}
			continue
		}
		withStore++
		before := map[string]bool{}
		for _, t := range toks[:storeAt] {
			before[t] = true
		}
		for _, g := range guards {
			need := "nonempty"
			if strings.HasPrefix(g, "normalizeScheme(") {
				need = "valid"
			}
			if !before[need] {
				s := get("guard/"+g, "")
				s.bad = append(s.bad, sq)
			}
		}
		if !before["absent:key"] {
			s := get("guard/not-present", "")
			s.bad = append(s.bad, sq)
		}
		if toks[storeAt] != "store:key" {
			s := get("key", "")
			s.bad = append(s.bad, sq)
		}
		if nst != 1 {
			s := get("single-store", "")
			s.bad = append(s.bad, sq)
		}
		if last != "ret-nil" {
			s := get("no-error-after-store", "")
			s.bad = append(s.bad, sq)
		}
	}
	if withStore == 0 {
		s := get("single-store", "")
		s.bad = append(s.bad, "no path stores into "+reg)
	}
	for _, s := range slots {
		ex := ""
		if len(s.bad) > 0 {
			ex = s.bad[0]
		}
		c.Check(len(s.bad) == 0, "R19.4", name, s.name, fn.Pos(), "by path exploration (%d paths, %d storing): %s (offending path: %s)", len(seqs), withStore, s.doc, ex)
	}
}

// c19FileOpen: what newFileSinkFromPath does with the path it is given, by path exploration. The words "stdout" and
// "stderr" are recognised in the path exactly as given; everything else is opened under exactly that name, for
// writing, in append mode (two descriptors on one file - the same path twice in zap.Open, OutputPaths and
// ErrorOutputPaths naming one file - then still add whole lines at the end instead of overwriting each other) and
// created when missing.
func c19FileOpen(c *Ctx, rule string) {
	fn := c.Method(ZapPath, "sinkRegistry", "newFileSinkFromPath")
	if !c.Anchor(rule, "zap.sinkRegistry.newFileSinkFromPath", fn != nil) {
		return
	}
	name := FStr(fn)
	var param *ssa.Parameter
	for _, p := range fn.Params {
		if b, ok := p.Type().Underlying().(*types.Basic); ok && b.Kind() == types.String {
			param = p
		}
	}
	osConst := func(n string) (int64, bool) {
		if o, ok := c.Obj("os", n).(*types.Const); ok {
			return constant.Int64Val(o.Val())
		}
		return 0, false
	}
	oAppend, ok1 := osConst("O_APPEND")
	oCreate, ok2 := osConst("O_CREATE")
	oWronly, ok3 := osConst("O_WRONLY")
	oRdwr, ok4 := osConst("O_RDWR")
	if !c.Anchor(rule, "string parameter and os.O_* constants", param != nil && ok1 && ok2 && ok3 && ok4) {
		return
	}
	resolve := func(st *ConcState, v ssa.Value) ssa.Value {
		v = stripConv(v)
		for k := 0; k < 12; k++ {
			nx := st.Step(v)
			if nx == nil {
				break
			}
			v = stripConv(nx)
		}
		return v
	}
	isOpener := func(cc *ssa.CallCommon) bool {
		if cc.IsInvoke() {
			return false
		}
		sig, ok := cc.Value.Type().Underlying().(*types.Signature)
		if !ok || sig.Params().Len() != 3 || sig.Results().Len() != 2 {
			return false
		}
		return TStr(sig.Params().At(0).Type()) == "string" && TStr(sig.Results().At(0).Type()) == "*os.File" &&
			strings.HasSuffix(TStr(sig.Params().At(2).Type()), "FileMode")
	}
	seqs, trunc := ConcPaths(fn, ConcCfg{
		Event: func(in ssa.Instruction, st *ConcState) string {
			switch x := in.(type) {
			case *ssa.Call:
				if isOpener(&x.Call) {
					nm := "path"
					if resolve(st, x.Call.Args[0]) != ssa.Value(param) {
						nm = "other(" + st.Desc(x.Call.Args[0]) + ")"
					}
					fl := "?"
					if k, ok := st.Int(x.Call.Args[1]); ok {
						fl = "flags-ok"
						if k&oAppend == 0 {
							fl = "no-append"
						} else if k&oCreate == 0 {
							fl = "no-create"
						} else if k&(oWronly|oRdwr) == 0 {
							fl = "not-writable"
						}
					}
					return "open:" + nm + ":" + fl
				}
			case *ssa.Return:
				return "ret"
			}
			return ""
		},
		Branch: func(cond ssa.Value, taken bool, st *ConcState) string {
			pol := taken
			for k := 0; k < 8; k++ {
				if u, ok := cond.(*ssa.UnOp); ok && u.Op == token.NOT {
					cond, pol = u.X, !pol
					continue
				}
				if nx := st.Step(cond); nx != nil {
					cond = nx
					continue
				}
				break
			}
			// a lookup of the path in a package-level table whose keys are exactly the two words
			if ex, isEx := cond.(*ssa.Extract); isEx && ex.Index == 1 {
				if lk, isLk := ex.Tuple.(*ssa.Lookup); isLk {
					if ld, isLd := lk.X.(*ssa.UnOp); isLd && ld.Op == token.MUL {
						if g, isG := ld.X.(*ssa.Global); isG {
							keys := globalStringMapKeys(g)
							sort.Strings(keys)
							if strings.Join(keys, ",") == "stderr,stdout" {
								who := "path"
								if resolve(st, lk.Index) != ssa.Value(param) {
									who = "other(" + st.Desc(lk.Index) + ")"
								}
								if pol {
									return who + "==stdout"
								}
								return who + "!=stdout ; " + who + "!=stderr"
							}
						}
					}
				}
			}
			bo, ok := cond.(*ssa.BinOp)
			if !ok || (bo.Op != token.EQL && bo.Op != token.NEQ) {
				return ""
			}
			x, y := resolve(st, bo.X), resolve(st, bo.Y)
			if _, isC := x.(*ssa.Const); isC {
				x, y = y, x
			}
			yc, ok := y.(*ssa.Const)
			if !ok || yc.Value == nil || yc.Value.Kind() != constant.String {
				return ""
			}
			w := constant.StringVal(yc.Value)
			if w != "stdout" && w != "stderr" {
				return ""
			}
			eq := pol == (bo.Op == token.EQL)
			who := "path"
			if x != ssa.Value(param) {
				who = "other(" + st.Desc(x) + ")"
			}
			if eq {
				return who + "==" + w
			}
			return who + "!=" + w
		},
	})
	if trunc || len(seqs) == 0 {
		c.Und(rule, name, "file-open", fn.Pos(), "path exploration incomplete (%d sequences)", len(seqs))
		return
	}
	var badName, badFlags, badWords, badShape []string
	opens := 0
	for _, sq := range seqs {
		toks := strings.Split(sq, " ; ")
		nOpen, std := 0, false
		for _, t := range toks {
			switch {
			case strings.HasPrefix(t, "open:"):
				nOpen++
				f := strings.Split(t, ":")
				if f[1] != "path" {
					badName = append(badName, sq)
				}
				if f[len(f)-1] != "flags-ok" {
					badFlags = append(badFlags, sq)
				}
			case strings.HasPrefix(t, "other("):
				badWords = append(badWords, sq)
			case t == "path==stdout", t == "path==stderr":
				std = true
			}
		}
		opens += nOpen
		if (std && nOpen != 0) || (!std && nOpen != 1) {
			badShape = append(badShape, sq)
		}
	}
	first := func(l []string) string {
		if len(l) == 0 {
			return ""
		}
		return l[0]
	}
	c.Check(len(badName) == 0 && opens > 0, rule, name, "opens-exactly-path", fn.Pos(), "by path exploration (%d paths): the file opener is called with exactly the path given (offending path: %s)", len(seqs), first(badName))
	c.Check(len(badFlags) == 0 && opens > 0, rule, name, "append-create-write", fn.Pos(), "the file is opened for writing with O_APPEND and O_CREATE (evaluated flag word; offending path: %s)", first(badFlags))
	c.Check(len(badWords) == 0, rule, name, "std-words-verbatim", fn.Pos(), "\"stdout\"/\"stderr\" are recognised in the path exactly as given, not in a rewritten form (offending path: %s)", first(badWords))
	c.Check(len(badShape) == 0, rule, name, "open-or-std", fn.Pos(), "every path either recognised stdout/stderr and opens nothing, or opens exactly one file (offending path: %s)", first(badShape))
}

// globalStringMapKeys: the constant string keys a package-level map is filled with by its package initialiser (nil if
// it is written anywhere else or with a key that is not a constant).
func globalStringMapKeys(g *ssa.Global) []string {
	if g.Pkg == nil {
		return nil
	}
	init := g.Pkg.Func("init")
	if init == nil {
		return nil
	}
	var mk ssa.Value
	AllInstrs(init, func(in ssa.Instruction) {
		if st, ok := in.(*ssa.Store); ok && st.Addr == ssa.Value(g) {
			mk = st.Val
		}
	})
	if mk == nil {
		return nil
	}
	var keys []string
	bad := false
	for _, fn := range curProg.RootFuncs() {
		AllInstrs(fn, func(in ssa.Instruction) {
			mu, ok := in.(*ssa.MapUpdate)
			if !ok {
				return
			}
			if mu.Map == mk {
				if k, isC := ConstString(mu.Key); isC {
					keys = append(keys, k)
				} else {
					bad = true
				}
				return
			}
			if ld, ok := mu.Map.(*ssa.UnOp); ok && ld.X == ssa.Value(g) {
				bad = true
			}
		})
	}
	if bad {
		return nil
	}
	return keys
}

// closerSeesInner: as closerSees (c19 open rule) for a close-all literal reached through another literal.
func closerSeesInner(st *ConcState, mk *ssa.MakeClosure, listDepth func(*ConcState, ssa.Value, int) int, isCloserSlice func(types.Type) bool) string {
	for _, b := range mk.Bindings {
		if a, isA := b.(*ssa.Alloc); isA && isCloserSlice(deref(a.Type())) {
			return "live"
		}
		if isCloserSlice(b.Type()) {
			if k := listDepth(st, b, 0); k >= 0 {
				return itoa(k)
			}
		}
	}
	return "?"
}

// isNewSink: the call opens one destination through the sink registry: sinkRegistry.newSink itself, or a call through a
// function parameter that every call site binds to that method (open(paths, _sinkRegistry.newSink)).
// relaysAllResultsOf: h does nothing but call target and return what it returned.
func relaysAllResultsOf(h, target *ssa.Function) bool {
	if h == nil || target == nil || len(h.Blocks) != 1 {
		return false
	}
	rets := Returns(h)
	if len(rets) != 1 {
		return false
	}
	var call *ssa.Call
	for i, v := range rets[0].Results {
		ex, ok := v.(*ssa.Extract)
		if !ok || ex.Index != i {
			return false
		}
		cl, ok := ex.Tuple.(*ssa.Call)
		if !ok || cl.Call.StaticCallee() != target || call != nil && call != cl {
			return false
		}
		call = cl
	}
	return call != nil
}

func isNewSink(cl ssa.CallInstruction) bool {
	if IsCallTo(cl, "(*go.uber.org/zap.sinkRegistry).newSink") {
		// (not the call inside the bound-method wrapper: that one is counted where the wrapper is called)
		return !strings.HasSuffix(cl.Parent().Name(), "$bound")
	}
	cc := cl.Common()
	if cc.IsInvoke() || cc.StaticCallee() != nil {
		return false
	}
	p, ok := cc.Value.(*ssa.Parameter)
	if !ok || p.Parent() == nil {
		return false
	}
	h := p.Parent()
	idx := -1
	for i, q := range h.Params {
		if q == p {
			idx = i
		}
	}
	sites := sitesOf(h)
	if idx < 0 || len(sites) == 0 {
		return false
	}
	for _, site := range sites {
		a := Args(site)
		if idx >= len(a) {
			return false
		}
		mk, isMk := Strip(a[idx]).(*ssa.MakeClosure)
		if !isMk {
			return false
		}
		bound, _ := mk.Fn.(*ssa.Function)
		okB := false
		if bound != nil && strings.HasSuffix(bound.Name(), "$bound") {
			for _, bc := range Calls(bound) {
				if IsCallTo(bc, "(*go.uber.org/zap.sinkRegistry).newSink") {
					okB = true
				}
			}
		}
		if !okB {
			return false
		}
	}
	return true
}

// c19PredicateTable: fn walks a package-level table (written by the package initialiser only) of entries holding a
// predicate func(arg) bool, calls the predicate of EVERY entry with one of its own parameters and returns before
// `after` at the first predicate that holds. The result is the DNF - in fn's terms - of "all predicates false", i.e.
// what is known where `after` runs.
func c19PredicateTable(c *Ctx, fn *ssa.Function, after ssa.Instruction) ([][]string, bool) {
	// the predicate call: a dynamic call of a value loaded from a field of a table element, with a parameter of fn
	var pcall *ssa.Call
	var tbl *ssa.Global
	var argP *ssa.Parameter
	for _, cl := range Calls(fn) {
		x, ok := cl.(*ssa.Call)
		if !ok || x.Call.IsInvoke() || x.Call.StaticCallee() != nil || len(x.Call.Args) != 1 {
			continue
		}
		p, isP := Strip(x.Call.Args[0]).(*ssa.Parameter)
		if !isP {
			continue
		}
		// value: load of FieldAddr(elem) or Field(elem value), elem from IndexAddr/range over load of a Global
		v := x.Call.Value
		var g *ssa.Global
		for k := 0; k < 10 && v != nil; k++ {
			switch y := v.(type) {
			case *ssa.UnOp:
				if gg, isG := y.X.(*ssa.Global); isG {
					g = gg
					v = nil
				} else {
					v = y.X
				}
			case *ssa.FieldAddr:
				v = y.X
			case *ssa.Field:
				v = y.X
			case *ssa.IndexAddr:
				v = y.X
			case *ssa.Index:
				v = y.X
			case *ssa.Extract:
				v = y.Tuple
			case *ssa.Next:
				v = y.Iter
			case *ssa.Range:
				v = y.X
			case *ssa.Alloc:
				// the loop variable: what is stored into it (one store)
				v = nil
				if y.Referrers() != nil {
					n := 0
					for _, r := range *y.Referrers() {
						if st, isSt := r.(*ssa.Store); isSt && st.Addr == ssa.Value(y) {
							n++
							v = st.Val
						}
					}
					if n != 1 {
						v = nil
					}
				}
			default:
				v = nil
			}
		}
		if g != nil {
			pcall, tbl, argP = x, g, p
		}
	}
	if pcall == nil || !curProgRoot(fn) || tbl.Pkg == nil {
		return nil, false
	}
	// every element is asked, and `after` runs only once the loop is over
	hdr := LoopHeader(pcall.Block())
	if hdr == nil || !hdr.Dominates(after.Block()) || LoopHeader(after.Block()) == hdr {
		return nil, false
	}
	// a range loop over the whole table whose only ways out are its own end and "this predicate holds"
	isRange := false
	for _, in := range hdr.Instrs {
		if ph, ok := in.(*ssa.Phi); ok && ph.Comment == "rangeindex" {
			isRange = true
		}
	}
	if !isRange {
		return nil, false
	}
	trueBlocks := map[*ssa.BasicBlock]bool{}
	for _, b := range edgeTrue(pcall) {
		trueBlocks[b] = true
	}
	for _, b := range fn.Blocks {
		if b == hdr || LoopHeader(b) != hdr {
			continue
		}
		for _, sc := range b.Succs {
			if sc != hdr && LoopHeader(sc) != hdr && !trueBlocks[sc] {
				return nil, false // another way out of the loop: not every predicate need have been asked
			}
		}
	}
	// a predicate that holds leads to a return that does not reach `after`
	holds := false
	for _, a := range edgeTrue(pcall) {
		if WitnessPath(fn, AtBlock(a), func(i ssa.Instruction) bool { return i == after }, nil) == nil {
			holds = true
		}
	}
	if !holds {
		return nil, false
	}
	// the table is written by the initialiser only; its predicates are the function literals of the initialiser with
	// the predicate's signature that are stored into it
	ini := tbl.Pkg.Func("init")
	if ini == nil {
		return nil, false
	}
	written := 0
	c.EachRootFunc(func(f *ssa.Function) {
		AllInstrs(f, func(in ssa.Instruction) {
			if st, ok := in.(*ssa.Store); ok && st.Addr == ssa.Value(tbl) && f != ini {
				written++
			}
		})
	})
	if written > 0 {
		return nil, false
	}
	sig := pcall.Call.Signature()
	var preds []*ssa.Function
	AllInstrs(ini, func(in ssa.Instruction) {
		st, ok := in.(*ssa.Store)
		if !ok {
			return
		}
		var f *ssa.Function
		switch y := Strip(st.Val).(type) {
		case *ssa.Function:
			f = y
		case *ssa.MakeClosure:
			f, _ = y.Fn.(*ssa.Function)
		}
		if f == nil || f.Parent() != ini || !types.Identical(f.Signature, sig) && !(f.Signature.Params().Len() == sig.Params().Len() && f.Signature.Results().Len() == 1) {
			return
		}
		// stored into an element of the array the table is made of
		root := st.Addr
		for k := 0; k < 6; k++ {
			switch y := root.(type) {
			case *ssa.FieldAddr:
				root = y.X
				continue
			case *ssa.IndexAddr:
				root = y.X
				continue
			}
			break
		}
		if root == ssa.Value(tbl) {
			preds = append(preds, f) // the table is an array: its elements are stored in place
			return
		}
		arr, isA := root.(*ssa.Alloc)
		if !isA || arr.Referrers() == nil {
			return
		}
		feeds := false
		for _, r := range *arr.Referrers() {
			if sl, isSl := r.(*ssa.Slice); isSl && sl.Referrers() != nil {
				for _, rr := range *sl.Referrers() {
					if s2, isS := rr.(*ssa.Store); isS && s2.Addr == ssa.Value(tbl) {
						feeds = true
					}
				}
			}
		}
		if feeds {
			preds = append(preds, f)
		}
	})
	if len(preds) == 0 {
		return nil, false
	}
	out := [][]string{{}}
	for _, pf := range preds {
		dnf, ok := boolDNFOf(pf, []ssa.Value{argP}, 0, false, 0)
		if !ok {
			return nil, false
		}
		var nx [][]string
		for _, o := range out {
			for _, d := range dnf {
				nx = append(nx, uniqSorted(append(append([]string{}, o...), d...)))
			}
		}
		if len(nx) > 64 {
			return nil, false
		}
		out = nx
	}
	return out, true
}

// edgeTrue: the blocks entered when the boolean result of call is found true (the If that tests it directly).
func edgeTrue(call *ssa.Call) []*ssa.BasicBlock {
	var out []*ssa.BasicBlock
	if call.Referrers() == nil {
		return nil
	}
	for _, r := range *call.Referrers() {
		if iff, ok := r.(*ssa.If); ok && iff.Cond == ssa.Value(call) {
			out = append(out, iff.Block().Succs[0])
		}
	}
	return out
}
