package zv

import (
	"fmt"
	"go/types"
	"strings"

	"golang.org/x/tools/go/ssa"
)

func init() {
	Props["C19"] = Prop{
		Title: "Open, Config.Build and std-log redirection are all-or-nothing; URLs validated",
		Fn:    checkC19,
		Explanation: "Decides, for all inputs, the release-on-error SHAPE of open/Open/openSinks/Config.Build (after any call that successfully acquired sinks, every return with a possibly non-nil error is preceded on its path by the matching closer; every successfully opened sink is recorded for closing; the closer visits all), " +
			"that redirectStdLogAt cannot return an error after it changed the standard logger's settings and that its restore closure puts back the values read before the change, " +
			"the guard set of the file-URL open (user, fragment, query, port, host tests dominate it; exactly u.Path is opened), and the registry discipline (single map store, dominated by the validity and absence tests, under the lock, normalised key, no error return after the store). " +
			"NOT decided: url.Parse behaviour, OS file semantics, what registered factories do.",
		Assumptions: commonAssumptions,
	}
}

// errResultMayBeNonNil: the last result of r is an error that is not the nil constant.
func errResultMayBeNonNil(r *ssa.Return) bool {
	rv := RetVals(r)
	if len(rv) == 0 {
		return false
	}
	last := rv[len(rv)-1]
	if last.Type().String() != "error" {
		return false
	}
	return !IsNilConst(Strip(last))
}

// successStart returns the instruction after which the acquisition made by
// call a is known to have succeeded: the start of the `err == nil` successor
// of the branch on a's error result (or a itself when its error is not tested).
func successStart(fn *ssa.Function, a *ssa.Call) ssa.Instruction {
	n := a.Type().(*types.Tuple).Len()
	errDesc := Desc(a) + "#" + itoa(n-1)
	if _, t, _ := BranchOn(fn, errDesc+" == nil"); t != nil {
		return AtBlock(t)
	}
	return a
}

func checkC19(c *Ctx) {
	c.Rule("R19.1", "after a successful sink acquisition every error return is preceded by the matching closer; opened sinks are all recorded; closer visits all", 6)
	c.Rule("R19.2", "redirectStdLogAt: no error return after a log.SetX call; restore closure writes back the values read before the change", 5)
	c.Rule("R19.3", "file URL: open of exactly u.Path is dominated by the user/fragment/query/port/host rejections", 4)
	c.Rule("R19.4", "registries: single map store dominated by validity+absence tests, normalised key, under the lock, no error return after it", 10)
	c.Rule("R19.5", "newEncoder rejects TimeKey without EncodeTime before the registry lookup", 1)

	zp := ZapPath
	// ---------------- R19.1 ----------------
	type acq struct {
		fn        *ssa.Function
		callee    string // full name of the acquiring callee
		closerIdx int    // index of the func() closer in callee's results, -1 none, -2 = closure capturing the closers slice
	}
	open := c.Func(zp, "open")
	Open := c.Func(zp, "Open")
	openSinks := c.Method(zp, "Config", "openSinks")
	build := c.Method(zp, "Config", "Build")
	if !c.Anchor("R19.1", "zap.open/Open/Config.openSinks/Config.Build", open != nil && Open != nil && openSinks != nil && build != nil) {
		return
	}
	acqs := []acq{
		{open, "(*go.uber.org/zap.sinkRegistry).newSink", -2},
		{Open, "go.uber.org/zap.open", 1},
		{openSinks, "go.uber.org/zap.Open", 1},
		{build, "(go.uber.org/zap.Config).openSinks", -1},
	}
	for _, a := range acqs {
		name := a.fn.String()
		n := 0
		for _, cl := range Calls(a.fn) {
			call, ok := cl.(*ssa.Call)
			if !ok || !IsCallTo(cl, a.callee) {
				continue
			}
			n++
			slot := "acquire#" + itoa(n)
			// release calls for this acquisition
			isRelease := func(x ssa.Instruction) bool {
				rc, ok := x.(*ssa.Call)
				if !ok {
					return false
				}
				v := Strip(rc.Call.Value)
				switch {
				case a.closerIdx >= 0:
					ex, ok := v.(*ssa.Extract)
					return ok && ex.Tuple == ssa.Value(call) && ex.Index == a.closerIdx
				case a.closerIdx == -2:
					_, isClosure := v.(*ssa.MakeClosure)
					return isClosure
				}
				return false
			}
			start := successStart(a.fn, call)
			bad := 0
			errReturns := 0
			for _, r := range Returns(a.fn) {
				if !errResultMayBeNonNil(r) {
					continue
				}
				// reachable from the success point?
				if !ExistsPath(a.fn, start, func(x ssa.Instruction) bool { return x == ssa.Instruction(r) }, nil) {
					continue
				}
				errReturns++
				if ExistsPath(a.fn, start, func(x ssa.Instruction) bool { return x == ssa.Instruction(r) }, isRelease) {
					bad++
					c.Bad("R19.1", name, slot+"/leak", r.Pos(), "return with a possibly non-nil error is reachable after %s succeeded without passing through its closer (closer: %s)",
						a.callee, map[int]string{-1: "none is returned by the callee, so nothing fallible may follow", -2: "the closure over the recorded closers", 1: "result #1 of the call"}[a.closerIdx])
				}
			}
			if bad == 0 {
				c.OK("R19.1", name, slot+"/release-on-error", call.Pos(), "%d error return(s) reachable after %s succeeded; each is preceded by the closer on every path", errReturns, a.callee)
			}
		}
		if n == 0 {
			c.Und("R19.1", name, "acquire", a.fn.Pos(), "no call of %s found", a.callee)
		}
	}
	// open: every successfully opened sink is recorded in the closers slice captured by the closer closure
	{
		name := open.String()
		var mk *ssa.MakeClosure
		AllInstrs(open, func(i ssa.Instruction) {
			if m, ok := i.(*ssa.MakeClosure); ok {
				mk = m
			}
		})
		var newSink *ssa.Call
		for _, cl := range Calls(open) {
			if IsCallTo(cl, "(*go.uber.org/zap.sinkRegistry).newSink") {
				newSink, _ = cl.(*ssa.Call)
			}
		}
		if mk == nil || newSink == nil || len(mk.Bindings) != 1 {
			c.Und("R19.1", name, "record", open.Pos(), "cannot find the closer closure (with exactly one captured variable) / the newSink call")
		} else {
			closers := mk.Bindings[0]
			// record = store to closers of append(load closers, …sink…)
			var record ssa.Instruction
			sinkRecorded := false
			AllInstrs(open, func(i ssa.Instruction) {
				st, ok := i.(*ssa.Store)
				if !ok || st.Addr != closers {
					return
				}
				ap, ok := st.Val.(*ssa.Call)
				if !ok || CallBuiltin(ap) != "append" {
					return
				}
				record = st
				// appended elements: stores into the varargs array
				if sl, ok := ap.Call.Args[1].(*ssa.Slice); ok {
					if arr, ok := sl.X.(*ssa.Alloc); ok && arr.Referrers() != nil {
						for _, r := range *arr.Referrers() {
							if ia, ok := r.(*ssa.IndexAddr); ok && ia.Referrers() != nil {
								for _, rr := range *ia.Referrers() {
									if s2, ok := rr.(*ssa.Store); ok {
										if ex, ok := Strip(s2.Val).(*ssa.Extract); ok && ex.Tuple == ssa.Value(newSink) && ex.Index == 0 {
											sinkRecorded = true
										}
									}
								}
							}
						}
					}
				}
			})
			h := LoopHeader(newSink.Block())
			start := successStart(open, newSink)
			skips := record == nil || h == nil || ExistsPath(open, start, func(x ssa.Instruction) bool { return x.Block() == h }, func(x ssa.Instruction) bool { return x == record })
			c.Check(record != nil && sinkRecorded && !skips, "R19.1", name, "every-opened-sink-recorded", newSink.Pos(),
				"on every path after newSink succeeded the sink itself is appended to the slice captured by the closer before the next iteration (recorded=%v, skippable=%v)", sinkRecorded, skips)
			// closer visits all
			var closeCall *ssa.Call
			for _, cl := range Calls(mk.Fn.(*ssa.Function)) {
				if IsCallTo(cl, "(io.Closer).Close") {
					closeCall, _ = cl.(*ssa.Call)
				}
			}
			if closeCall == nil {
				c.Bad("R19.1", name, "closer-visits-all", mk.Pos(), "closer closure does not call Close")
			} else {
				ok, over, why := LoopVisitsAll(mk.Fn.(*ssa.Function), closeCall)
				c.Check(ok && over == mk.Fn.(*ssa.Function).FreeVars[0].Name(), "R19.1", name, "closer-visits-all", closeCall.Pos(), "closer ranges over all recorded closers (%s) with no early exit %s", over, why)
			}
			// loop over all paths, no early exit
			ok, over, why := LoopVisitsAll(open, newSink)
			c.Check(ok && over == "paths", "R19.1", name, "tries-all-paths", newSink.Pos(), "newSink is attempted for every path (%s) %s", over, why)
		}
		// Open relays closer on success
		for k, r := range Returns(Open) {
			rv := RetVals(r)
			if IsNilConst(Strip(rv[2])) {
				ex, ok := Strip(rv[1]).(*ssa.Extract)
				okc := ok && ex.Index == 1
				if okc {
					cc, _ := ex.Tuple.(*ssa.Call)
					okc = cc != nil && IsCallTo(cc, "go.uber.org/zap.open")
				}
				c.Check(okc, "R19.1", Open.String(), "returns-closer#"+itoa(k+1), r.Pos(), "success return hands the caller open's closer unchanged (%s)", Desc(rv[1]))
			}
		}
	}

	// ---------------- R19.2 ----------------
	red := c.Func(zp, "redirectStdLogAt")
	if c.Anchor("R19.2", "zap.redirectStdLogAt", red != nil) {
		name := red.String()
		setters := map[string]string{"log.SetFlags": "log.Flags", "log.SetPrefix": "log.Prefix", "log.SetOutput": ""}
		getCalls := map[string]*ssa.Call{}
		for _, cl := range CallsDeep(red) {
			if f := CalleeFunc(cl); f != nil && (f.FullName() == "log.Flags" || f.FullName() == "log.Prefix") {
				getCalls[f.FullName()], _ = cl.(*ssa.Call)
			}
		}
		nset := 0
		for _, cl := range Calls(red) {
			f := CalleeFunc(cl)
			if f == nil {
				continue
			}
			getter, isSetter := setters[f.FullName()]
			if !isSetter {
				continue
			}
			nset++
			var w ssa.Instruction
			for _, r := range Returns(red) {
				if errResultMayBeNonNil(r) && ExistsPath(red, cl, func(x ssa.Instruction) bool { return x == ssa.Instruction(r) }, nil) {
					w = r
				}
			}
			if w != nil {
				c.Bad("R19.2", name, "no-error-after/"+f.Name(), cl.Pos(), "an error return (%s) is reachable after %s changed the standard logger; the change is not undone on that path", c.Pos(w.Pos()), f.FullName())
			} else {
				c.OK("R19.2", name, "no-error-after/"+f.Name(), cl.Pos(), "no return with a possibly non-nil error is reachable after %s", f.FullName())
			}
			if getter != "" {
				g := getCalls[getter]
				c.Check(g != nil && Dominates(g, cl), "R19.2", name, "saved-before/"+f.Name(), cl.Pos(), "%s() is read before %s overwrites it", getter, f.FullName())
			}
		}
		if nset < 3 {
			c.Bad("R19.2", name, "setters", red.Pos(), "expected SetFlags, SetPrefix and SetOutput calls, found %d", nset)
		}
		// restore closure
		var restore *ssa.Function
		for _, r := range Returns(red) {
			if mk, ok := Strip(RetVals(r)[0]).(*ssa.MakeClosure); ok {
				restore = mk.Fn.(*ssa.Function)
				bind := map[string]ssa.Value{}
				for i, fv := range restore.FreeVars {
					bind[fv.Name()] = mk.Bindings[i]
				}
				// a method value (saved.restore): look at the method itself; its receiver is the bound value
				var recvParam *ssa.Parameter
				var recvVal ssa.Value
				if strings.HasSuffix(restore.Name(), "$bound") && len(mk.Bindings) == 1 {
					for _, cl := range Calls(restore) {
						if sc := StaticCallee(cl); sc != nil && len(sc.Params) > 0 && len(sc.Blocks) > 0 {
							restore, recvParam, recvVal = sc, sc.Params[0], mk.Bindings[0]
						}
					}
				}
				// source of a restored value: the getter call whose result was saved
				source := func(arg ssa.Value) *ssa.Call {
					if u, isLoad := arg.(*ssa.UnOp); isLoad {
						if fv, ok := u.X.(*ssa.FreeVar); ok {
							b := bind[fv.Name()]
							if al, isAlloc := b.(*ssa.Alloc); isAlloc {
								b = singleStore(al)
							}
							bc, _ := Strip(b).(*ssa.Call)
							return bc
						}
					}
					// a field of the bound receiver
					fld := ""
					switch x := Strip(arg).(type) {
					case *ssa.Field:
						if Strip(x.X) == ssa.Value(recvParam) {
							fld = fieldName(x.X.Type(), x.Field)
						}
					case *ssa.UnOp:
						if fa, ok := x.X.(*ssa.FieldAddr); ok {
							base := Strip(fa.X)
							if al, isAlloc := base.(*ssa.Alloc); isAlloc {
								if sv := singleStore(al); sv != nil {
									base = Strip(sv)
								}
							}
							if recvParam != nil && base == ssa.Value(recvParam) {
								fld = fieldName(fa.X.Type(), fa.Field)
							}
						}
					}
					if fld == "" || recvVal == nil {
						return nil
					}
					named, _ := types.Unalias(deref(recvParam.Type())).(*types.Named)
					if named == nil {
						return nil
					}
					builder := red
					if bc, ok := Strip(recvVal).(*ssa.Call); ok {
						if hh := helperOf(bc); hh != nil {
							builder = hh
						}
					} else if u, ok := Strip(recvVal).(*ssa.UnOp); ok {
						if al, ok := u.X.(*ssa.Alloc); ok {
							if sv := singleStore(al); sv != nil {
								if bc, ok := Strip(sv).(*ssa.Call); ok {
									if hh := helperOf(bc); hh != nil {
										builder = hh
									}
								}
							}
						}
					}
					if bf, ok := BuiltFields(builder, named)[fld]; ok && bf.Val != nil {
						bc, _ := Strip(bf.Val).(*ssa.Call)
						return bc
					}
					return nil
				}
				for _, cl := range Calls(restore) {
					f := CalleeFunc(cl)
					if f == nil {
						continue
					}
					arg := cl.Common().Args[0]
					switch f.FullName() {
					case "log.SetFlags", "log.SetPrefix":
						bc := source(arg)
						ok := bc != nil && IsCallTo(bc, setters[f.FullName()])
						c.Check(ok, "R19.2", name, "restore/"+f.Name(), cl.Pos(), "the restore function calls %s with the value read by %s before the change (arg %s)", f.FullName(), setters[f.FullName()], Desc(arg))
					case "log.SetOutput":
						c.Check(strings.HasSuffix(Desc(arg), "Stderr"), "R19.2", name, "restore/SetOutput", cl.Pos(), "the restore function resets the output to os.Stderr (arg %s)", Desc(arg))
					}
				}
			}
		}
		if restore == nil {
			c.Bad("R19.2", name, "restore", red.Pos(), "no restore closure is returned")
		}
	}

	// ---------------- R19.3 ----------------
	if nsk := c.Method(zp, "sinkRegistry", "newSink"); c.Anchor("R19.3", "zap.sinkRegistry.newSink", nsk != nil) {
		// an absolute path is opened verbatim, before (and instead of) any URL parsing, on every platform
		raw := nsk.Params[1]
		var direct, parse *ssa.Call
		for _, cl := range CallsDeep(nsk) {
			c2, ok := cl.(*ssa.Call)
			if !ok {
				continue
			}
			if IsCallTo(cl, "(*go.uber.org/zap.sinkRegistry).newFileSinkFromPath") {
				if Strip(Args(cl)[1]) == ssa.Value(raw) {
					direct = c2
				}
			}
			if IsCallTo(cl, "net/url.Parse") {
				parse = c2
			}
		}
		ok := direct != nil && parse != nil
		var g []string
		if ok {
			g = AtomStrings(GuardsOfBlock(direct.Block()))
			ok = len(g) == 1 && g[0] == "IsAbs("+raw.Name()+")"
			// and the parse is only reached when it is not absolute
			pg := false
			var site ssa.Instruction = parse
			if parse.Parent() != nsk {
				site = nil
				for _, cl := range Calls(nsk) {
					if h := helperOf(cl); h != nil {
						for _, f := range Region(h) {
							if f == parse.Parent() {
								site = cl
							}
						}
					}
				}
			}
			pg = site != nil && containsS(AtomStrings(GuardsOfBlock(site.Block())), "!IsAbs("+raw.Name()+")")
			ok = ok && pg
		}
		c.Check(ok, "R19.3", nsk.String(), "absolute-path-verbatim", nsk.Pos(), "a destination that filepath.IsAbs accepts is opened as exactly that path, under that single condition and without URL parsing (escapes, '#', '?' in a file name must not be reinterpreted); guards of the direct open: %v", g)
	}
	fu := c.Method(zp, "sinkRegistry", "newFileSinkFromURL")
	if c.Anchor("R19.3", "zap.sinkRegistry.newFileSinkFromURL", fu != nil) {
		name := fu.String()
		n := 0
		for _, cl := range Calls(fu) {
			if !IsCallTo(cl, "(*go.uber.org/zap.sinkRegistry).newFileSinkFromPath") {
				continue
			}
			n++
			arg := Desc(cl.Common().Args[1])
			c.Check(arg == "u.Path", "R19.3", name, "opens-exactly-path", cl.Pos(), "the path opened is %s (must be exactly u.Path)", arg)
			dnf := PathConds(cl.Block())
			req := []struct {
				slot string
				ok   func(string) bool
			}{
				{"no-userinfo", func(s string) bool { return s == "u.User == nil" }},
				{"no-fragment", func(s string) bool { return s == `u.Fragment == ""` }},
				{"no-query", func(s string) bool { return s == `u.RawQuery == ""` }},
				{"no-port", func(s string) bool { return s == `Port(u) == ""` }},
				{"host-empty-or-localhost", func(s string) bool { return s == `Hostname(u) == ""` || s == `Hostname(u) == "localhost"` }},
			}
			for _, rq := range req {
				ok, cex := AllDisjunctsHave(dnf, rq.ok)
				c.Check(ok, "R19.3", name, rq.slot, cl.Pos(), "every way of reaching the open carries the %s test (counter-example path conditions: %v)", rq.slot, cex)
			}
		}
		if n != 1 {
			c.Bad("R19.3", name, "single-open", fu.Pos(), "expected exactly one newFileSinkFromPath call, found %d", n)
		}
	}

	// ---------------- R19.4 ----------------
	c19Registry(c, c.Method(zp, "sinkRegistry", "RegisterSink"), "factories", "sr.mu",
		[]string{`scheme != ""`, `normalizeScheme(scheme)#1 == nil`}, "normalizeScheme(scheme)#0")
	c19Registry(c, c.Func(zp, "RegisterEncoder"), "_encoderNameToConstructor", "_encoderMutex",
		[]string{`name != ""`}, "name")
	// the stores above are the only ones in the program
	for _, reg := range []string{"factories", "_encoderNameToConstructor"} {
		n := 0
		var where []string
		c.EachRootFunc(func(fn *ssa.Function) {
			AllInstrs(fn, func(i ssa.Instruction) {
				if mu, ok := i.(*ssa.MapUpdate); ok && strings.HasSuffix(Desc(mu.Map), reg) {
					n++
					where = append(where, fn.String())
				}
			})
		})
		c.Check(n == 1, "R19.4", "registry "+reg, "single-writer", 0, "exactly one map store into %s in non-test code (found %d in %v)", reg, n, where)
	}
	// lookups under the lock
	for _, lk := range []struct {
		fn      *ssa.Function
		reg, mu string
	}{
		{c.Method(zp, "sinkRegistry", "newSink"), "factories", "sr.mu"},
		{c.Func(zp, "newEncoder"), "_encoderNameToConstructor", "_encoderMutex"},
	} {
		if !c.Anchor("R19.4", "lookup function for "+lk.reg, lk.fn != nil) {
			continue
		}
		n := 0
		muSuffix := lk.mu[strings.LastIndex(lk.mu, ".")+1:]
		for _, f := range Region(lk.fn) {
			held := MustHeldCtx(f)
			if f == lk.fn {
				held = MustHeld(f, nil)
			}
			AllInstrs(f, func(i ssa.Instruction) {
				if l, ok := i.(*ssa.Lookup); ok && strings.HasSuffix(Desc(l.X), lk.reg) {
					n++
					locked := false
					for m, k := range held[i] {
						if k != 0 && (m == lk.mu || strings.HasSuffix(m, "."+muSuffix) || m == muSuffix) {
							locked = true
						}
					}
					c.Check(locked, "R19.4", lk.fn.String(), "lookup-locked", l.Pos(), "registry lookup runs with lockset %s", held[i])
				}
			})
		}
		if n == 0 {
			c.Bad("R19.4", lk.fn.String(), "lookup", lk.fn.Pos(), "no lookup of %s found", lk.reg)
		}
	}
	// normalizeScheme lower-cases first and returns the lowered value
	ns := c.Func(zp, "normalizeScheme")
	if c.Anchor("R19.4", "zap.normalizeScheme", ns != nil) {
		// evaluated byte by byte: the accepted grammar is RFC 3986's  ALPHA *( ALPHA / DIGIT / "+" / "-" / "." ), for every
		// byte value in first and in later position (a multi-byte character must not slip through as Latin-1 letters)
		it := NewInterp(c)
		alpha := func(b byte) bool { return b >= 'a' && b <= 'z' || b >= 'A' && b <= 'Z' }
		rest := func(b byte) bool { return alpha(b) || b >= '0' && b <= '9' || b == '+' || b == '-' || b == '.' }
		var wrong []string
		evalErr := ""
		nEval := 0
		try := func(in string, want bool) {
			if evalErr != "" {
				return
			}
			r, err := it.Run(ns, []IVal{IStr(in)})
			if err != nil || len(r) != 2 {
				evalErr = fmt.Sprintf("normalizeScheme(%q): %v %v", in, r, err)
				return
			}
			nEval++
			accepted := r[1].K == ivNil
			switch {
			case accepted != want:
				wrong = append(wrong, fmt.Sprintf("%q accepted=%v", in, accepted))
			case accepted && (r[0].K != ivStr || r[0].S != strings.ToLower(in)):
				wrong = append(wrong, fmt.Sprintf("%q normalised to %s", in, r[0]))
			}
		}
		for b := 0; b < 256; b++ {
			try(string([]byte{byte(b)}), alpha(byte(b)))
			try(string([]byte{'a', byte(b)}), rest(byte(b)))
			try(string([]byte{'Z', byte(b), 'q'}), rest(byte(b)))
		}
		for _, sch := range []string{"http", "FILE", "a.b+c-1", "men\u00fa", "x\u00b5", "1a", "+a", "a b"} {
			ok := len(sch) > 0 && alpha(sch[0])
			for i := 1; i < len(sch); i++ {
				ok = ok && rest(sch[i])
			}
			try(sch, ok)
		}
		if evalErr != "" {
			c.Und("R19.4", ns.String(), "scheme-grammar", ns.Pos(), "cannot evaluate the scheme validator: %s", evalErr)
		} else {
			if len(wrong) > 6 {
				wrong = append(wrong[:6:6], fmt.Sprintf("… %d more", len(wrong)-6))
			}
			c.Check(len(wrong) == 0, "R19.4", ns.String(), "scheme-grammar", ns.Pos(), "evaluated on %d scheme strings covering every byte value in first and in later position: accepted exactly when the first byte is an ASCII letter and every other byte an ASCII letter, digit, '+', '-' or '.', and then returned lower-cased: %v", nEval, wrong)
		}
		for k, r := range Returns(ns) {
			rv := RetVals(r)
			if IsNilConst(Strip(rv[1])) {
				c.Check(Desc(rv[0]) == "ToLower(s)", "R19.4", ns.String(), "returns-lowered#"+itoa(k+1), r.Pos(), "success returns strings.ToLower of the parameter (returns %s)", Desc(rv[0]))
			}
		}
	}

	// ---------------- R19.5 ----------------
	ne := c.Func(zp, "newEncoder")
	if c.Anchor("R19.5", "zap.newEncoder", ne != nil) {
		AllInstrs(ne, func(i ssa.Instruction) {
			if l, ok := i.(*ssa.Lookup); ok && strings.HasSuffix(Desc(l.X), "_encoderNameToConstructor") {
				dnf := PathConds(l.Block())
				ok, cex := AllDisjunctsHave(dnf, func(s string) bool {
					return s == `encoderConfig.TimeKey == ""` || s == "encoderConfig.EncodeTime != nil"
				})
				c.Check(ok, "R19.5", ne.String(), "time-encoder-validated", l.Pos(), "the constructor lookup is reached only with TimeKey empty or EncodeTime set (counter-example: %v)", cex)
			}
		})
	}
}

func c19Registry(c *Ctx, fn *ssa.Function, reg, mutex string, guards []string, keyDesc string) {
	if !c.Anchor("R19.4", "register function for "+reg, fn != nil) {
		return
	}
	name := fn.String()
	held := MustHeld(fn, nil)
	n := 0
	AllInstrs(fn, func(i ssa.Instruction) {
		mu, ok := i.(*ssa.MapUpdate)
		if !ok || !strings.HasSuffix(Desc(mu.Map), reg) {
			return
		}
		n++
		atoms := AtomStrings(Guards(mu))
		has := func(w string) bool {
			for _, a := range atoms {
				if a == w {
					return true
				}
			}
			return false
		}
		for _, g := range guards {
			c.Check(has(g), "R19.4", name, "guard/"+g, mu.Pos(), "store into %s is dominated by %s (guards: %v)", reg, g, atoms)
		}
		// absence test: !lookup(reg)[key]#1
		absent := false
		for _, a := range atoms {
			if strings.HasPrefix(a, "!") && strings.Contains(a, reg+"["+keyDesc+"]#1") {
				absent = true
			}
		}
		c.Check(absent, "R19.4", name, "guard/not-present", mu.Pos(), "store is dominated by a failed lookup of the same key (guards: %v)", atoms)
		c.Check(Desc(mu.Key) == keyDesc, "R19.4", name, "key", mu.Pos(), "stored under key %s (must be %s)", Desc(mu.Key), keyDesc)
		c.Check(held[mu][mutex] == 1, "R19.4", name, "locked", mu.Pos(), "store runs with lockset %s (needs W:%s)", held[mu], mutex)
		var w ssa.Instruction
		for _, r := range Returns(fn) {
			if errResultMayBeNonNil(r) && ExistsPath(fn, mu, func(x ssa.Instruction) bool { return x == ssa.Instruction(r) }, nil) {
				w = r
			}
		}
		c.Check(w == nil, "R19.4", name, "no-error-after-store", mu.Pos(), "no error return is reachable after the registry was modified")
	})
	if n != 1 {
		c.Bad("R19.4", name, "single-store", fn.Pos(), "expected exactly one map store into %s, found %d", reg, n)
	}
}
