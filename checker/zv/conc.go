package zv

import (
	"fmt"
	"go/constant"
	"go/token"
	"go/types"
	"os"
	"sort"
	"strconv"
	"strings"

	"golang.org/x/tools/go/ssa"
)

// ---------------------------------------------------------------------------
// Path exploration with some values fixed (constant propagation + branch
// refinement over the SSA, helpers explored as if inlined).
//
// A rule fixes a few quantities (e.g. the entry level and the development
// flag), and asks which EVENTS (calls of interest, the return) can occur, in
// which order, on the paths that remain. Every branch whose condition does not
// evaluate under the fixed values forks. On each branch the facts the
// condition establishes (x == nil, x != nil, x == K, the condition's own
// value) are remembered for the SSA values involved; helper results carry
// the expression, integer value and nil-ness of what the helper returned on
// that path. No solver is involved; whatever is not evident forks.
// ---------------------------------------------------------------------------

// descValEnv, when set, overrides the rendering of individual SSA values (see desc).
var descValEnv map[ssa.Value]string

type ConcState struct {
	ints map[ssa.Value]int64
	nils map[ssa.Value]bool // true: nil, false: non-nil
	syms map[ssa.Value]string
	// alias: the SSA value a register stands for on this path (φ → incoming
	// value, helper call → returned value, parameter → argument, load of a
	// plain local → the value last stored)
	alias map[ssa.Value]ssa.Value
	mem   map[*ssa.Alloc]ssa.Value
	tup   map[*ssa.Call][]ssa.Value // results of an inlined multi-result helper call
	// fmem: integer/boolean values stored into struct fields on this path, keyed by the address rendered in the
	// root function's terms; forgotten at every call into zap code that is not explored inline
	fmem map[string]int64
	// fvals: like fmem, for stored values that are not evident integers (a slice, a pointer): the value stored
	fvals map[string]ssa.Value
	// iters: how often each loop header was entered on this path (MaxIter > 0)
	iters map[*ssa.BasicBlock]int
	// defers: the deferred function literals registered so far on this path, per call depth, in registration order
	defers map[int][]*ssa.Defer
	dargs  map[*ssa.Defer][]ssa.Value
	// slices: the part of a root slice parameter that a slice (or string converted from it) value denotes on this
	// path, when its bounds are evident (ConcCfg.SliceLen fixes the parameter's length)
	slices map[ssa.Value]SliceFact
	// lists: slices built evidently on this path, element by element (conclist.go)
	lists map[ssa.Value][]ssa.Value
	// eqs: comparisons x == y between two values that a branch of this path decided (true: equal)
	eqs map[[2]ssa.Value]bool
	// ltags / vtags: what ConcCfg.ElemTag said about an element when it was put into an evident list, and about a
	// register that was loaded from such an element (the rule's own description of the value at that moment - an
	// argument index, say - which cannot be recomputed later, when the loop variables have moved on)
	ltags map[ssa.Value][]string
	vtags map[ssa.Value]string
	// dyn: what an interface value holds on this path (ConcCfg.Init seeds it for parameters): its dynamic type and,
	// for an integer-like payload, the value. Shared between the states of one exploration (never changed after Init).
	dyn map[ssa.Value]DynFact
	cfg *ConcCfg
}

// pastVal stands for an earlier dynamic instance of a register (a previous loop iteration): what memory, or another
// register, still refers to after the instruction that defines the register runs again.
type pastVal struct {
	ssa.Value
}

// retire: register v is about to be defined anew. Whatever still refers to its current instance - a variable or field
// it was stored into, a register that stands for it - is re-pointed to a stand-in that keeps the facts known about it.
func (st *ConcState) retire(v ssa.Value) {
	used := false
	for _, t := range st.alias {
		if t == v {
			used = true
			break
		}
	}
	if !used {
		for _, t := range st.fvals {
			if t == v {
				used = true
				break
			}
		}
	}
	if !used {
		for _, t := range st.mem {
			if t == v {
				used = true
				break
			}
		}
	}
	if !used {
		for _, l := range st.lists {
			for _, e := range l {
				if e == v {
					used = true
				}
			}
		}
	}
	if !used {
		// comparisons decided about it are about the old instance
		for k := range st.eqs {
			if k[0] == v || k[1] == v {
				used = true
			}
		}
	}
	if !used {
		delete(st.lists, v)
		return
	}
	g := &pastVal{Value: v}
	if k, ok := st.ints[v]; ok {
		st.ints[g] = k
	}
	if n, ok := st.nils[v]; ok {
		st.nils[g] = n
	}
	if sy, ok := st.syms[v]; ok {
		st.syms[g] = sy
	}
	if a, ok := st.alias[v]; ok {
		st.alias[g] = a
	}
	if f, ok := st.slices[v]; ok {
		st.slices[g] = f
	}
	if l, ok := st.lists[v]; ok {
		st.lists[g] = l
		delete(st.lists, v)
		if t, has := st.ltags[v]; has {
			st.ltags[g] = t
			delete(st.ltags, v)
		}
	}
	if t, ok := st.vtags[v]; ok {
		st.vtags[g] = t
		delete(st.vtags, v)
	}
	for k, b := range st.eqs {
		if k[0] == v || k[1] == v {
			nk := k
			if nk[0] == v {
				nk[0] = g
			}
			if nk[1] == v {
				nk[1] = g
			}
			delete(st.eqs, k)
			st.eqs[nk] = b
		}
	}
	for k, l := range st.lists {
		for i, e := range l {
			if e == v {
				nl := append([]ssa.Value{}, l...)
				nl[i] = g
				l = nl
				st.lists[k] = nl
			}
		}
	}
	for w, t := range st.alias {
		if t == v {
			st.alias[w] = g
		}
	}
	for k, t := range st.fvals {
		if t == v {
			st.fvals[k] = g
		}
	}
	for a, t := range st.mem {
		if t == v {
			st.mem[a] = g
		}
	}
}

// DynFact: the dynamic type of an interface value (Typ == nil: some type that none of the code's assertions to a
// concrete type names) and its integer payload when it has one.
type DynFact struct {
	Typ  types.Type
	K    int64
	HasK bool
}

// SetNil / SetInt / SetDyn seed facts about a value (ConcCfg.Init).
func (st *ConcState) SetNil(v ssa.Value, isNil bool) { st.nils[v] = isNil }
func (st *ConcState) SetInt(v ssa.Value, k int64)    { st.ints[v] = k }
func (st *ConcState) SetDyn(v ssa.Value, f DynFact) {
	if st.dyn == nil {
		st.dyn = map[ssa.Value]DynFact{}
	}
	st.dyn[v] = f
	st.nils[v] = false
}

// SetField / SetFieldVal seed what a field of the struct obj denotes holds (ConcCfg.Init).
func (st *ConcState) SetField(obj ssa.Value, field string, k int64) {
	if st.fmem == nil {
		st.fmem = map[string]int64{}
	}
	st.fmem[st.fieldKey(obj, field)] = k
}
func (st *ConcState) SetFieldVal(obj ssa.Value, field string, v ssa.Value) {
	if st.fvals == nil {
		st.fvals = map[string]ssa.Value{}
	}
	st.fvals[st.fieldKey(obj, field)] = v
}

// Mem: what the local variable cell a holds on this path (nil: unknown).
func (st *ConcState) Mem(a *ssa.Alloc) ssa.Value { return st.mem[a] }

// SetAlias: on this exploration v stands for what (ConcCfg.Init: a parameter fixed to a value found elsewhere).
func (st *ConcState) SetAlias(v, what ssa.Value) { st.alias[v] = what }

// DynOf: what is known about the dynamic type of interface value v on this path.
func (st *ConcState) DynOf(v ssa.Value) (DynFact, bool) {
	for k := 0; k < 16 && v != nil; k++ {
		if f, ok := st.dyn[v]; ok {
			return f, true
		}
		switch x := v.(type) {
		case *ssa.ChangeInterface:
			v = x.X
			continue
		case *ssa.ChangeType:
			v = x.X
			continue
		case *ssa.MakeInterface:
			f := DynFact{Typ: x.X.Type()}
			if kv, ok := st.eval(x.X, 0); ok {
				f.K, f.HasK = kv, true
			}
			return f, true
		}
		nx := st.alias[v]
		if nx == nil {
			break
		}
		v = nx
	}
	return DynFact{}, false
}

// assertOK: whether v.(T) succeeds on this path, when evident.
func (st *ConcState) assertOK(x *ssa.TypeAssert) (ok, known bool) {
	if n, kn := st.IsNil(x.X); kn && n {
		return false, true
	}
	f, has := st.DynOf(x.X)
	if !has {
		return false, false
	}
	if _, isIface := types.Unalias(x.AssertedType).Underlying().(*types.Interface); isIface {
		if f.Typ == nil {
			return false, false
		}
		return types.Implements(f.Typ, types.Unalias(x.AssertedType).Underlying().(*types.Interface)), true
	}
	if f.Typ == nil {
		return false, true // a type none of the assertions names
	}
	return types.Identical(f.Typ, x.AssertedType), true
}

// SliceFact: the value is Base[Lo:Hi] (Base a slice parameter of the explored function).
type SliceFact struct {
	Base   ssa.Value
	Key    string // for values that are not parameters (a field of one): its rendering
	Lo, Hi int64
}

// SliceOf reports which part of a root slice parameter v denotes on this path.
func (st *ConcState) SliceOf(v ssa.Value) (SliceFact, bool) {
	for k := 0; k < 16 && v != nil; k++ {
		if f, ok := st.slices[v]; ok {
			return f, true
		}
		switch x := v.(type) {
		case *ssa.ChangeType:
			v = x.X
			continue
		case *ssa.Convert:
			v = x.X
			continue
		case *ssa.MakeInterface:
			v = x.X
			continue
		}
		v = st.alias[v]
	}
	return SliceFact{}, false
}

// Step returns the value v stands for on this path (nil: v itself).
func (st *ConcState) Step(v ssa.Value) ssa.Value { return st.alias[v] }

// bind makes dst stand for src (evaluated in st) in the state ns.
func bind(ns, st *ConcState, dst, src ssa.Value) {
	// a loop-carried variable that the iteration left unchanged: its new value is what it stood for already
	for v, k := src, 0; v != nil && k < 16; k++ {
		if v == dst {
			return
		}
		v = st.alias[v]
	}
	delete(ns.ints, dst)
	delete(ns.nils, dst)
	delete(ns.syms, dst)
	delete(ns.alias, dst)
	if len(ns.slices) > 0 {
		delete(ns.slices, dst)
	}
	if src == nil {
		return
	}
	if f, ok := st.SliceOf(src); ok {
		if ns.slices == nil {
			ns.slices = map[ssa.Value]SliceFact{}
		}
		ns.slices[dst] = f
	}
	if kv, ok := st.eval(src, 0); ok {
		ns.ints[dst] = kv
	}
	if n, ok := st.IsNil(src); ok {
		ns.nils[dst] = n
	}
	if s := st.Desc(src); len(s) < 4000 {
		ns.syms[dst] = s
	}
	ns.alias[dst] = src
}

// plainLocal: an Alloc that is only ever stored to and loaded from as a whole
// in its own function (no field/element addresses, no capture, not passed on).
func plainLocal(a *ssa.Alloc) bool { return localCell(a, false) }

// localCell: like plainLocal, but with captured=true the variable may also be captured by closures (which then access
// it through a free variable); sound only while every such closure is explored inline.
func localCell(a *ssa.Alloc, captured bool) bool {
	if a.Referrers() == nil {
		return false
	}
	for _, r := range *a.Referrers() {
		switch x := r.(type) {
		case *ssa.MakeClosure:
			if !captured && !readOnlyCapture(x, a, 0) {
				// still fine when the literal is only ever deferred or called on the spot: it is then explored inline
				if x.Referrers() == nil {
					return false
				}
				for _, r2 := range *x.Referrers() {
					switch y := r2.(type) {
					case *ssa.Defer:
						if y.Call.Value != ssa.Value(x) {
							return false
						}
					case *ssa.Call:
						if y.Call.Value != ssa.Value(x) {
							return false
						}
					case *ssa.DebugRef:
					default:
						return false
					}
				}
			}
		case *ssa.Store:
			if x.Addr != ssa.Value(a) {
				return false
			}
		case *ssa.UnOp:
			if x.Op != token.MUL {
				return false
			}
		case *ssa.Call:
			// multierr.AppendInto(&v, err) is modelled by the explorer as an assignment to v
			sc := x.Call.StaticCallee()
			if sc == nil || FStr(sc) != "go.uber.org/multierr.AppendInto" || x.Call.Args[0] != ssa.Value(a) {
				return false
			}
		case *ssa.DebugRef:
		default:
			return false
		}
	}
	return true
}

// readOnlyCapture: the function literal mk captures variable cell v and (with the literals nested in it) only ever
// loads from it - whenever it runs, it cannot change what the enclosing function sees in v.
func readOnlyCapture(mk *ssa.MakeClosure, v ssa.Value, depth int) bool {
	f, ok := mk.Fn.(*ssa.Function)
	if !ok || depth > 4 {
		return false
	}
	for i, b := range mk.Bindings {
		if b != v || i >= len(f.FreeVars) {
			continue
		}
		fv := f.FreeVars[i]
		if fv.Referrers() == nil {
			continue
		}
		for _, r := range *fv.Referrers() {
			switch y := r.(type) {
			case *ssa.UnOp:
				if y.Op != token.MUL {
					return false
				}
			case *ssa.MakeClosure:
				if !readOnlyCapture(y, fv, depth+1) {
					return false
				}
			case *ssa.DebugRef:
			default:
				return false
			}
		}
	}
	return true
}

func (st *ConcState) clone() *ConcState {
	n := &ConcState{ints: make(map[ssa.Value]int64, len(st.ints)+2), nils: make(map[ssa.Value]bool, len(st.nils)+2), syms: make(map[ssa.Value]string, len(st.syms)+2), alias: make(map[ssa.Value]ssa.Value, len(st.alias)+2), mem: make(map[*ssa.Alloc]ssa.Value, len(st.mem)+1), cfg: st.cfg, dyn: st.dyn}
	for k, v := range st.alias {
		n.alias[k] = v
	}
	for k, v := range st.mem {
		n.mem[k] = v
	}
	if len(st.tup) > 0 {
		n.tup = make(map[*ssa.Call][]ssa.Value, len(st.tup))
		for k, v := range st.tup {
			n.tup[k] = v
		}
	}
	if len(st.dargs) > 0 {
		n.dargs = make(map[*ssa.Defer][]ssa.Value, len(st.dargs))
		for k, v := range st.dargs {
			n.dargs[k] = v
		}
	}
	if len(st.defers) > 0 {
		n.defers = make(map[int][]*ssa.Defer, len(st.defers))
		for k, v := range st.defers {
			n.defers[k] = v
		}
	}
	if len(st.iters) > 0 {
		n.iters = make(map[*ssa.BasicBlock]int, len(st.iters))
		for k, v := range st.iters {
			n.iters[k] = v
		}
	}
	if len(st.fvals) > 0 {
		n.fvals = make(map[string]ssa.Value, len(st.fvals))
		for k, v := range st.fvals {
			n.fvals[k] = v
		}
	}
	if len(st.fmem) > 0 {
		n.fmem = make(map[string]int64, len(st.fmem))
		for k, v := range st.fmem {
			n.fmem[k] = v
		}
	}
	if len(st.slices) > 0 {
		n.slices = make(map[ssa.Value]SliceFact, len(st.slices))
		for k, v := range st.slices {
			n.slices[k] = v
		}
	}
	if len(st.lists) > 0 {
		n.lists = make(map[ssa.Value][]ssa.Value, len(st.lists))
		for k, v := range st.lists {
			n.lists[k] = v
		}
	}
	if len(st.eqs) > 0 {
		n.eqs = make(map[[2]ssa.Value]bool, len(st.eqs))
		for k, v := range st.eqs {
			n.eqs[k] = v
		}
	}
	if len(st.ltags) > 0 {
		n.ltags = make(map[ssa.Value][]string, len(st.ltags))
		for k, v := range st.ltags {
			n.ltags[k] = v
		}
	}
	if len(st.vtags) > 0 {
		n.vtags = make(map[ssa.Value]string, len(st.vtags))
		for k, v := range st.vtags {
			n.vtags[k] = v
		}
	}
	for k, v := range st.ints {
		n.ints[k] = v
	}
	for k, v := range st.nils {
		n.nils[k] = v
	}
	for k, v := range st.syms {
		n.syms[k] = v
	}
	return n
}

// Desc renders v in the root function's terms along the current path.
func (st *ConcState) Desc(v ssa.Value) string {
	old := descValEnv
	descValEnv = st.syms
	defer func() { descValEnv = old }()
	return Desc(v)
}

func stripConv(v ssa.Value) ssa.Value {
	for {
		switch x := v.(type) {
		case *ssa.ChangeInterface:
			v = x.X
		case *ssa.ChangeType:
			v = x.X
		default:
			return v
		}
	}
}

// IsNil reports what is known about v being nil on this path.
func (st *ConcState) IsNil(v ssa.Value) (isNil, known bool) {
	v = stripConv(v)
	if n, ok := st.nils[v]; ok {
		return n, true
	}
	// ... or of what the register stands for on this path
	for k, w := 0, v; k < 8; k++ {
		nx := st.alias[w]
		if nx == nil {
			break
		}
		w = stripConv(nx)
		if n, ok := st.nils[w]; ok {
			return n, true
		}
		v = w
	}
	switch x := v.(type) {
	case *ssa.Const:
		if x.Value == nil {
			return true, true
		}
	case *ssa.MakeInterface, *ssa.Alloc, *ssa.Function, *ssa.MakeClosure, *ssa.Global, *ssa.MakeSlice, *ssa.MakeMap, *ssa.MakeChan, *ssa.FieldAddr, *ssa.IndexAddr:
		return false, true
	case *ssa.Call:
		// error constructors and combinators whose nil-ness follows from their arguments
		if sc := x.Call.StaticCallee(); sc != nil && !x.Call.IsInvoke() {
			switch FStr(sc) {
			case "fmt.Errorf", "errors.New":
				return false, true
			case "go.uber.org/multierr.Append", "go.uber.org/multierr.Combine", "errors.Join":
				if sc.Signature.Variadic() {
					break
				}
				allNil := true
				for _, a := range x.Call.Args {
					n, known := st.IsNil(a)
					if known && !n {
						return false, true
					}
					if !known {
						allNil = false
					}
				}
				if allNil {
					return true, true
				}
			}
		}
	}
	return false, false
}

// Int evaluates v to an integer (booleans: 0/1) if the path determines it.
func (st *ConcState) Int(v ssa.Value) (int64, bool) { return st.eval(v, 0) }

func (st *ConcState) eval(v ssa.Value, d int) (int64, bool) {
	if d > 12 {
		return 0, false
	}
	if k, ok := st.ints[v]; ok {
		return k, true
	}
	bi := func(c bool) (int64, bool) {
		if c {
			return 1, true
		}
		return 0, true
	}
	switch x := v.(type) {
	case *ssa.Const:
		if k, ok := ConstInt(x); ok {
			return k, true
		}
		if x.Value != nil && x.Value.ExactString() == "true" {
			return 1, true
		}
		if x.Value != nil && x.Value.ExactString() == "false" {
			return 0, true
		}
		return 0, false
	case *ssa.ChangeType:
		return st.eval(x.X, d+1)
	case *ssa.Convert:
		if k, ok := st.eval(x.X, d+1); ok {
			return truncInt(k, x.Type()), true
		}
	case *ssa.UnOp:
		if x.Op == token.NOT {
			if k, ok := st.eval(x.X, d+1); ok {
				return 1 - k, true
			}
		}
	case *ssa.Call:
		// len of a value known to be nil on this path
		if CallBuiltin(x) == "len" && len(x.Call.Args) == 1 {
			if f, ok := st.SliceOf(x.Call.Args[0]); ok {
				return f.Hi - f.Lo, true
			}
			if _, l, ok := st.listOf(x.Call.Args[0]); ok {
				return int64(len(l)), true
			}
			a := x.Call.Args[0]
			for k := 0; k < 8; k++ {
				if sl, isSl := a.(*ssa.Slice); isSl && sl.Low == nil && sl.High == nil {
					// the whole of a local array (the argument list of a variadic call)
					if at, isArr := types.Unalias(deref(sl.X.Type())).Underlying().(*types.Array); isArr {
						return at.Len(), true
					}
				}
				if n, known := st.IsNil(a); known && n {
					return 0, true
				}
				nx := st.alias[a]
				if nx == nil {
					break
				}
				a = nx
			}
		}
	case *ssa.BinOp:
		if x.Op == token.EQL || x.Op == token.NEQ {
			if IsNilConst(x.Y) || IsNilConst(x.X) {
				o := x.X
				if IsNilConst(x.X) {
					o = x.Y
				}
				if n, ok := st.IsNil(o); ok {
					return bi(n == (x.Op == token.EQL))
				}
			}
			if _, isIface := types.Unalias(x.X.Type()).Underlying().(*types.Interface); isIface {
				// two interface values: equal when both are nil, or hold the same type and the same payload
				nx, kx := st.IsNil(x.X)
				ny, ky := st.IsNil(x.Y)
				if kx && ky && (nx || ny) {
					return bi((nx && ny) == (x.Op == token.EQL))
				}
				fx, hx := st.DynOf(x.X)
				fy, hy := st.DynOf(x.Y)
				if hx && hy && kx && ky {
					switch {
					case fx.Typ == nil || fy.Typ == nil:
						if fx.Typ != nil || fy.Typ != nil {
							return bi(x.Op != token.EQL) // one holds a type the code does not name, the other a named one
						}
					case !types.Identical(fx.Typ, fy.Typ):
						return bi(x.Op != token.EQL)
					case fx.HasK && fy.HasK:
						return bi((fx.K == fy.K) == (x.Op == token.EQL))
					}
				}
			}
		}
		l, ok1 := st.eval(x.X, d+1)
		r, ok2 := st.eval(x.Y, d+1)
		if ok1 && ok2 {
			switch x.Op {
			case token.EQL:
				return bi(l == r)
			case token.NEQ:
				return bi(l != r)
			case token.LSS:
				return bi(l < r)
			case token.LEQ:
				return bi(l <= r)
			case token.GTR:
				return bi(l > r)
			case token.GEQ:
				return bi(l >= r)
			case token.ADD:
				return truncInt(l+r, x.Type()), true
			case token.SUB:
				return truncInt(l-r, x.Type()), true
			case token.AND:
				return l & r, true
			case token.OR:
				return l | r, true
			case token.XOR:
				return truncInt(l^r, x.Type()), true
			case token.AND_NOT:
				return l &^ r, true
			case token.MUL:
				return truncInt(l*r, x.Type()), true
			case token.QUO:
				if r != 0 {
					return truncInt(l/r, x.Type()), true
				}
			case token.REM:
				if r != 0 {
					return truncInt(l%r, x.Type()), true
				}
			case token.SHL:
				if r >= 0 && r < 63 {
					return truncInt(l<<uint(r), x.Type()), true
				}
			case token.SHR:
				if r >= 0 && r < 63 && l >= 0 {
					return l >> uint(r), true
				}
			}
		}
	}
	if _, isConst := v.(*ssa.Const); !isConst && st.cfg.Conc != nil {
		if k, ok := st.cfg.Conc(st.Desc(v)); ok {
			return k, true
		}
	}
	return 0, false
}

// nilFact: suffix of the fmem key that remembers whether a pointer-like field was found nil (1) or non-nil (0).
const nilFact = "#nil"

type ConcCfg struct {
	// Conc fixes values by their rendering (in the root function's terms).
	Conc func(desc string) (int64, bool)
	// Event names an instruction of interest ("" otherwise).
	Event func(in ssa.Instruction, st *ConcState) string
	// Branch names a condition that could not be evaluated, once per side ("" to ignore it).
	Branch func(cond ssa.Value, taken bool, st *ConcState) string
	// Inline decides whether an eligible helper is explored; nil: all.
	Inline func(h *ssa.Function) bool
	// InlineAny: static callees with source in the analysed packages (exported ones included) that are explored
	// inline although they are not helpers in the sense of Eligible.
	InlineAny func(h *ssa.Function) bool
	// Devirt: a method invoked through an interface whose dynamic type is evident on the path (the value was wrapped
	// right there: an option applied by the function that made it) is explored inline when this approves of it.
	Devirt func(m *ssa.Function) bool
	// DeferRun names a deferred call that is not explored inline (mu.Unlock(), close(ch)) at the moment it runs.
	DeferRun func(d *ssa.Defer, st *ConcState) string
	// SliceLen fixes the length of a slice parameter of the explored function: slices of it with evident bounds are
	// then tracked as intervals (ConcState.SliceOf), len() of them is evident.
	SliceLen func(p *ssa.Parameter) (int64, bool)
	// MaxDepth: how many helper frames deep calls are explored inline (default 5).
	MaxDepth int
	// Init seeds facts about the parameters of the explored function (SetNil, SetInt, SetDyn).
	Init func(st *ConcState)
	// InitFields: what integer/boolean fields of objects reachable from the parameters hold on entry.
	InitFields []FieldVal
	// SliceLenOf does the same for a string/slice read from a field (identified by its rendering, e.g. "ec.File").
	SliceLenOf func(desc string) (int64, bool)
	// Fork lets a rule split the path after an instruction that was not explored inline (an opaque call, the Extract of
	// its result): one successor per alternative, each with the given facts about values and its own event.
	Fork      func(in ssa.Instruction, st *ConcState) []ConcAlt
	MaxStates int
	// Unroll keeps loop-carried values whose integer value is evident on the path (constant-bounded counting loops are
	// then walked iteration by iteration); all other loop-carried values are forgotten at the loop head.
	Unroll bool
	// MaxIter > 0: loops are walked iteration by iteration with every loop-carried value kept as it is on the path
	// (nothing is forgotten at loop heads); a path is abandoned - silently - when it would enter the same loop a
	// (MaxIter+1)th time. The number of abandoned paths is reported through Cut.
	MaxIter int
	Cut     *int
	// ElemTag describes a value at the moment it is put into an evident list (appended, stored into a slot); the
	// description stays with the element and with every register later loaded from it (ConcState.TagOf).
	ElemTag func(st *ConcState, v ssa.Value) string
	// MaxLoop: with MaxIter == 0, how often a loop head may be re-entered before the exploration gives up (default 40).
	MaxLoop int
	// IterClosures: a call that is not explored inline and receives a function literal (e.g. record.Attrs(func…))
	// is modelled as invoking that literal 0..MaxIter times in sequence (stopping early when it returns false).
	IterClosures bool
	depth        []int // one element per helper frame the explorer is currently in (maintained by ConcPaths)
	// Prune drops, on entering a block, the facts about registers of the current function that can no longer
	// influence anything (no use reachable from that block, not an operand of or alias target of such a register).
	// Paths that differ only in such dead facts then coincide, which keeps large functions tractable.
	Prune bool
}

// ConcAlt is one alternative outcome of an instruction (see ConcCfg.Fork).
type ConcAlt struct {
	Ev     string
	Ints   map[ssa.Value]int64
	Nils   map[ssa.Value]bool
	Slices map[ssa.Value]SliceFact
	Fields []FieldVal
	// ElemTag (in ConcCfg): see there
	// Lists: what a slice value holds after the instruction, element by element (ConcState.ListOf)
	Lists map[ssa.Value][]ssa.Value
	// Alias: what a register stands for on this alternative (the entry of a table looked up with a key that is not
	// evident: one alternative per entry)
	Alias map[ssa.Value]ssa.Value
}

// FieldVal: field Field of the struct that Obj denotes holds Val.
type FieldVal struct {
	Obj   ssa.Value
	Field string
	Val   int64
}

// stackDepth is a placeholder kept for rules that want to know whether an event happens in the root function; the
// explorer reports it through ConcCfg.depth.
func (c *ConcCfg) stackDepth() []int { return c.depth }

func vkey(v ssa.Value) string {
	if p := v.Parent(); p != nil {
		return FNm(p) + "." + v.Name()
	}
	return v.Name()
}

type concFrame struct {
	blk  *ssa.BasicBlock
	idx  int
	call *ssa.Call
	// iter: the frame of a function literal invoked repeatedly by call's callee; left = further invocations allowed
	iter *ssa.MakeClosure
	left int
	// deferred: the frame of a deferred function literal run by the caller's RunDefers (nothing is bound on return)
	deferred bool
}

// ConcPaths explores fn from its entry and returns the distinct event
// sequences of its complete paths ("return"/"panic" terminated by Event).
func ConcPaths(fn *ssa.Function, cfg ConcCfg) (seqs []string, truncated bool) {
	if cfg.MaxStates == 0 {
		cfg.MaxStates = 60000
	}
	out := map[string]bool{}
	visited := map[string]bool{}
	states := 0
	key := func(blk *ssa.BasicBlock, stack []concFrame, ev []string, st *ConcState) string {
		var sb strings.Builder
		for _, f := range stack {
			sb.WriteString(FNm(f.blk.Parent()))
			sb.WriteString(strconv.Itoa(f.blk.Index))
			sb.WriteByte('.')
			sb.WriteString(strconv.Itoa(f.idx))
			sb.WriteByte('/')
		}
		sb.WriteString(FNm(blk.Parent()))
		sb.WriteString(strconv.Itoa(blk.Index))
		sb.WriteByte('|')
		sb.WriteString(strings.Join(ev, ";"))
		sb.WriteByte('|')
		var facts []string
		for v, k := range st.ints {
			facts = append(facts, vkey(v)+"="+strconv.FormatInt(k, 10))
		}
		for v, k := range st.nils {
			facts = append(facts, vkey(v)+"?"+strconv.FormatBool(k))
		}
		for v, k := range st.syms {
			facts = append(facts, vkey(v)+":"+k)
		}
		for v, k := range st.alias {
			facts = append(facts, vkey(v)+">"+vkey(k))
		}
		for v, k := range st.tup {
			f := vkey(v) + "="
			for _, r := range k {
				f += vkey(r) + "/"
			}
			facts = append(facts, f)
		}
		for v, f := range st.slices {
			facts = append(facts, vkey(v)+"["+strconv.FormatInt(f.Lo, 10)+":"+strconv.FormatInt(f.Hi, 10)+"]")
		}
		for a, k := range st.fmem {
			facts = append(facts, "@"+a+"="+strconv.FormatInt(k, 10))
		}
		for a, k := range st.fvals {
			facts = append(facts, "@"+a+">"+vkey(k))
		}
		for d, l := range st.defers {
			facts = append(facts, "defers"+strconv.Itoa(d)+"="+strconv.Itoa(len(l)))
		}
		sort.Strings(facts)
		sb.WriteString(strings.Join(facts, ","))
		return sb.String()
	}
	var run func(blk *ssa.BasicBlock, idx int, ev []string, stack []concFrame, st *ConcState)
	var iterate func(fr concFrame, ev []string, stack []concFrame, st *ConcState)
	enter := func(from, to *ssa.BasicBlock, ev []string, stack []concFrame, st *ConcState) {
		pi := -1
		for i, p := range to.Preds {
			if p == from {
				pi = i
			}
		}
		loopHead := LoopHeader(to) == to
		ns := st
		cloned := false
		if loopHead && cfg.MaxIter == 0 {
			// safety net: a loop whose body adds events never reaches a state seen before; give up on the path (and
			// report the exploration as incomplete) instead of walking it for ever
			lim := 40
			if cfg.MaxLoop > 0 {
				lim = cfg.MaxLoop
			}
			if st.iters[to] > lim {
				truncated = true
				return
			}
			ns = st.clone()
			cloned = true
			if ns.iters == nil {
				ns.iters = map[*ssa.BasicBlock]int{}
			}
			ns.iters[to]++
		}
		if loopHead && cfg.MaxIter > 0 {
			if st.iters[to] > cfg.MaxIter {
				if cfg.Cut != nil {
					*cfg.Cut++
				}
				return
			}
			ns = st.clone()
			cloned = true
			if ns.iters == nil {
				ns.iters = map[*ssa.BasicBlock]int{}
			}
			ns.iters[to]++
			loopHead = false // keep loop-carried values
		}
		for _, in := range to.Instrs {
			ph, ok := in.(*ssa.Phi)
			if !ok {
				break
			}
			if !cloned {
				ns = st.clone()
				cloned = true
			}
			if pi < 0 || loopHead {
				if pi >= 0 && cfg.Unroll {
					// counting loops: keep an induction variable whose value is evident on this path
					if _, ok := st.eval(ph.Edges[pi], 0); ok {
						bind(ns, st, ph, ph.Edges[pi])
						delete(ns.alias, ph)
						delete(ns.syms, ph)
						continue
					}
				}
				bind(ns, st, ph, nil)
				continue
			}
			bind(ns, st, ph, ph.Edges[pi])
		}
		if cfg.Prune {
			if !cloned {
				ns = st.clone()
				cloned = true
			}
			active := map[*ssa.Function]bool{to.Parent(): true}
			for _, f := range stack {
				active[f.blk.Parent()] = true
			}
			pruneDead(ns, to, active)
		}
		if loopHead || states%1 == 0 {
			k := key(to, stack, ev, ns)
			if visited[k] {
				return
			}
			visited[k] = true
		}
		run(to, 0, ev, stack, ns)
	}
	refine := func(st *ConcState, cond ssa.Value, val bool) *ConcState {
		ns := st.clone()
		bv := int64(0)
		if val {
			bv = 1
		}
		ns.ints[cond] = bv
		// ... and so is what the condition stands for on this path (a flag computed once by the caller and handed to
		// a helper that is explored inline again and again: every later test of it agrees with this one)
		for k, v := 0, cond; k < 8; k++ {
			nx := st.alias[v]
			if nx == nil {
				break
			}
			if _, isC := nx.(*ssa.Const); isC {
				break
			}
			ns.ints[nx] = bv
			v = nx
		}
		c := cond
		pol := val
		for {
			if u, ok := c.(*ssa.UnOp); ok && u.Op == token.NOT {
				c, pol = u.X, !pol
				continue
			}
			break
		}
		if ex, ok := c.(*ssa.Extract); ok && ex.Index == 1 && pol {
			// v, ok := x.(I) succeeded: v is a non-nil interface value
			if ta, isTA := ex.Tuple.(*ssa.TypeAssert); isTA && ta.CommaOk && ta.Referrers() != nil {
				if _, isIface := types.Unalias(ta.AssertedType).Underlying().(*types.Interface); isIface {
					for _, r := range *ta.Referrers() {
						if e0, isE := r.(*ssa.Extract); isE && e0.Index == 0 {
							ns.nils[e0] = false
						}
					}
				}
			}
		}
		if ld, ok := c.(*ssa.UnOp); ok && ld.Op == token.MUL {
			if _, isFA := ld.X.(*ssa.FieldAddr); isFA {
				if ns.fmem == nil {
					ns.fmem = map[string]int64{}
				}
				if pol {
					ns.fmem[addrKey(st, ld.X)] = 1
				} else {
					ns.fmem[addrKey(st, ld.X)] = 0
				}
			}
		}
		if bo, ok := c.(*ssa.BinOp); ok && (bo.Op == token.EQL || bo.Op == token.NEQ) {
			// what the two operands stand for right now compare equal / unequal on this path
			_, cx := bo.X.(*ssa.Const)
			_, cy := bo.Y.(*ssa.Const)
			if !cx && !cy {
				rx, ry := bo.X, bo.Y
				for k := 0; k < 8; k++ {
					if nx := st.alias[rx]; nx != nil {
						rx = nx
					} else {
						break
					}
				}
				for k := 0; k < 8; k++ {
					if nx := st.alias[ry]; nx != nil {
						ry = nx
					} else {
						break
					}
				}
				if ns.eqs == nil {
					ns.eqs = map[[2]ssa.Value]bool{}
				}
				ns.eqs[[2]ssa.Value{rx, ry}] = (bo.Op == token.EQL) == pol
			}
			eq := (bo.Op == token.EQL) == pol
			x, y := bo.X, bo.Y
			if IsNilConst(x) {
				x, y = y, x
			}
			if IsNilConst(y) {
				ns.nils[stripConv(x)] = eq
				// ... and so is whatever that register stands for on this path
				for k, v := 0, stripConv(x); k < 8; k++ {
					nx := st.alias[v]
					if nx == nil {
						break
					}
					v = stripConv(nx)
					if _, isC := v.(*ssa.Const); isC {
						break
					}
					ns.nils[v] = eq
				}
				if ld, ok := stripConv(x).(*ssa.UnOp); ok && ld.Op == token.MUL {
					if _, isFA := ld.X.(*ssa.FieldAddr); isFA {
						// what the field holds is (not) nil until something may change it: later loads of the
						// same field on this path see the same
						if ns.fmem == nil {
							ns.fmem = map[string]int64{}
						}
						if eq {
							ns.fmem[addrKey(st, ld.X)+nilFact] = 1
						} else {
							ns.fmem[addrKey(st, ld.X)+nilFact] = 0
						}
					}
				}
			} else if eq {
				if _, isC := x.(*ssa.Const); isC {
					x, y = y, x
				}
				if k, ok := ConstInt(y); ok {
					if _, isC := x.(*ssa.Const); !isC {
						ns.ints[x] = k
					}
				}
			}
		}
		return ns
	}
	// iterate: either stop invoking the function literal of fr (continue after the call), or invoke it once more
	iterate = func(fr concFrame, ev []string, stack []concFrame, st *ConcState) {
		run(fr.blk, fr.idx, ev, stack, st)
		if fr.left <= 0 {
			if cfg.Cut != nil {
				*cfg.Cut++
			}
			return
		}
		f := fr.iter.Fn.(*ssa.Function)
		ns := st.clone()
		for _, p := range f.Params {
			bind(ns, st, p, nil)
		}
		for bi, b := range fr.iter.Bindings {
			if bi < len(f.FreeVars) {
				bind(ns, st, f.FreeVars[bi], b)
			}
		}
		nstack := append(append([]concFrame{}, stack...), fr)
		run(f.Blocks[0], 0, ev, nstack, ns)
	}
	run = func(blk *ssa.BasicBlock, idx int, ev []string, stack []concFrame, st *ConcState) {
		states++
		cfg.depth = make([]int, len(stack))
		if states > cfg.MaxStates {
			truncated = true
			return
		}
		for k := idx; k < len(blk.Instrs); k++ {
			in := blk.Instrs[k]
			if ai, isCall := in.(*ssa.Call); isCall && len(ai.Call.Args) == 2 && !ai.Call.IsInvoke() {
				if sc := ai.Call.StaticCallee(); sc != nil && FStr(sc) == "go.uber.org/multierr.AppendInto" {
					// *into = multierr.Append(*into, err): the variable now holds this call's outcome, nil exactly
					// when both were nil
					if a := cellOf(st, ai.Call.Args[0]); a != nil {
						var n1, k1 bool
						if cur, has := st.mem[a]; has {
							n1, k1 = st.IsNil(cur)
						}
						n2, k2 := st.IsNil(ai.Call.Args[1])
						st = st.clone()
						st.mem[a] = ai
						delete(st.alias, ai)
						delete(st.ints, ai)
						switch {
						case k1 && !n1, k2 && !n2:
							st.nils[ai] = false
						case k1 && k2:
							st.nils[ai] = true
						default:
							delete(st.nils, ai)
						}
						if cfg.Event != nil {
							if e := cfg.Event(in, st); e != "" {
								ev = append(append([]string{}, ev...), e)
							}
						}
						continue
					}
				}
			}
			if v, isV := in.(ssa.Value); isV {
				// a new dynamic instance of this register: facts about the previous one (loop iteration) are stale
				if _, isPhi := in.(*ssa.Phi); !isPhi {
					_, h1 := st.ints[v]
					_, h2 := st.nils[v]
					_, h3 := st.alias[v]
					_, h4 := st.slices[v]
					if _, h5 := st.lists[v]; h5 {
						h4 = true
					}
					// ... or an evident list / a decided comparison still refers to the previous instance
					if !h4 && (len(st.lists) > 0 || len(st.eqs) > 0) {
						for _, l := range st.lists {
							for _, e := range l {
								if e == v {
									h4 = true
								}
							}
						}
						for k := range st.eqs {
							if k[0] == v || k[1] == v {
								h4 = true
							}
						}
					}
					if h1 || h2 || h3 || h4 {
						st = st.clone()
						st.retire(v)
						delete(st.ints, v)
						delete(st.nils, v)
						delete(st.alias, v)
						delete(st.syms, v)
						delete(st.slices, v)
						delete(st.lists, v)
					}
				}
			}
			if cfg.Event != nil {
				if _, isRet := in.(*ssa.Return); !isRet || len(stack) == 0 {
					if e := cfg.Event(in, st); e != "" {
						ev = append(append([]string{}, ev...), e)
					}
				}
			}
			st0 := st // what held before this instruction took effect (Fork looks at this)
			st = listEffects(st, in)
			switch x := in.(type) {
			case *ssa.Defer:
				if sc := x.Call.StaticCallee(); sc != nil && len(sc.Blocks) > 0 && curProgRoot(sc) && sc.Parent() == nil {
					// defer obj.method(args): arguments are evaluated now, the call runs at the function's return
					st = st.clone()
					if st.defers == nil {
						st.defers = map[int][]*ssa.Defer{}
					}
					if st.dargs == nil {
						st.dargs = map[*ssa.Defer][]ssa.Value{}
					}
					var snap []ssa.Value
					for _, a := range x.Call.Args {
						v := a
						if nx := st.alias[a]; nx != nil {
							v = nx
						}
						snap = append(snap, v)
					}
					st.dargs[x] = snap
					d := len(stack)
					st.defers[d] = append(append([]*ssa.Defer{}, st.defers[d]...), x)
				}
				if mk, ok := x.Call.Value.(*ssa.MakeClosure); ok {
					if f, ok := mk.Fn.(*ssa.Function); ok && len(f.Blocks) > 0 {
						st = st.clone()
						if st.defers == nil {
							st.defers = map[int][]*ssa.Defer{}
						}
						d := len(stack)
						st.defers[d] = append(append([]*ssa.Defer{}, st.defers[d]...), x)
					}
				} else if sc := x.Call.StaticCallee(); cfg.DeferRun != nil && !(sc != nil && len(sc.Blocks) > 0 && curProgRoot(sc) && sc.Parent() == nil) {
					// a deferred call that is not explored (mu.Unlock, close(ch)): remembered so that the rule can
					// name it when it actually runs
					st = st.clone()
					if st.defers == nil {
						st.defers = map[int][]*ssa.Defer{}
					}
					d := len(stack)
					st.defers[d] = append(append([]*ssa.Defer{}, st.defers[d]...), x)
				}
			case *ssa.RunDefers:
				d := len(stack)
				if l := st.defers[d]; len(l) > 0 && len(stack) < 5 {
					df := l[len(l)-1]
					ns := st.clone()
					ns.defers[d] = l[:len(l)-1]
					var f *ssa.Function
					if _, isMk := df.Call.Value.(*ssa.MakeClosure); !isMk {
						if sc := df.Call.StaticCallee(); !(sc != nil && len(sc.Blocks) > 0 && curProgRoot(sc) && sc.Parent() == nil) {
							// not explored: the rule names it, then the remaining deferred calls run
							nev := ev
							if cfg.DeferRun != nil {
								if e := cfg.DeferRun(df, st); e != "" {
									nev = append(append([]string{}, ev...), e)
								}
							}
							run(blk, k, nev, stack, ns)
							return
						}
					}
					if mk, ok := df.Call.Value.(*ssa.MakeClosure); ok {
						f = mk.Fn.(*ssa.Function)
						for bi, b := range mk.Bindings {
							if bi < len(f.FreeVars) {
								bind(ns, st, f.FreeVars[bi], b)
							}
						}
					} else {
						f = df.Call.StaticCallee()
						for ai, a := range st.dargs[df] {
							if ai < len(f.Params) {
								bind(ns, st, f.Params[ai], a)
							}
						}
					}
					// resume at this same RunDefers: the remaining deferred literals run next
					nstack := append(append([]concFrame{}, stack...), concFrame{blk: blk, idx: k, deferred: true})
					run(f.Blocks[0], 0, ev, nstack, ns)
					return
				}
			case *ssa.Alloc:
				// a fresh variable holds its zero value
				if localCell(x, cfg.IterClosures) {
					if z := intConst(0, deref(x.Type())); z != nil {
						st = st.clone()
						st.mem[x] = z
					} else {
						switch types.Unalias(deref(x.Type())).Underlying().(type) {
						case *types.Interface, *types.Pointer, *types.Slice, *types.Map, *types.Signature, *types.Chan:
							st = st.clone()
							st.mem[x] = ssa.NewConst(nil, deref(x.Type()))
						}
					}
				} else if stt, ok := types.Unalias(deref(x.Type())).Underlying().(*types.Struct); ok {
					// a fresh struct: its boolean and integer fields start at zero (a later store overrides)
					base := strings.TrimSuffix(addrKey(st, x), ".")
					cloned := false
					for i := 0; i < stt.NumFields(); i++ {
						if b, ok := types.Unalias(stt.Field(i).Type()).Underlying().(*types.Basic); ok && b.Info()&(types.IsBoolean|types.IsInteger) != 0 {
							if !cloned {
								st = st.clone()
								cloned = true
								if st.fmem == nil {
									st.fmem = map[string]int64{}
								}
							}
							st.fmem[base+"."+FN(stt.Field(i))] = 0
						}
						// ... and its slices, pointers, maps, interfaces, functions and channels at nil
						switch types.Unalias(stt.Field(i).Type()).Underlying().(type) {
						case *types.Slice, *types.Pointer, *types.Map, *types.Interface, *types.Signature, *types.Chan:
							if !cloned {
								st = st.clone()
								cloned = true
								if st.fmem == nil {
									st.fmem = map[string]int64{}
								}
							}
							st.fmem[base+"."+FN(stt.Field(i))+nilFact] = 1
						}
					}
				}
			case *ssa.Store:
				if a := cellOf(st, x.Addr); a != nil {
					st = st.clone()
					// remember what the stored register stands for NOW (it may be rebound in a later iteration)
					if kv, ok := st.eval(x.Val, 0); ok && intConst(kv, x.Val.Type()) != nil {
						st.mem[a] = intConst(kv, x.Val.Type())
					} else if nx := st.alias[x.Val]; nx != nil && cfg.MaxIter > 0 {
						st.mem[a] = nx
					} else {
						st.mem[a] = x.Val
					}
				} else if !isElemAddr(x.Addr) && isStructVal(x.Val) {
					// the whole struct (a variable, *p, or a struct-valued field) is overwritten: what was known about
					// its fields is gone; what it now holds is a copy of the struct value stored (remembered under the
					// pseudo-field "*")
					pre := strings.TrimSuffix(addrKey(st, x.Addr), ".") + "."
					st = st.clone()
					for k := range st.fmem {
						if strings.HasPrefix(k, pre) {
							delete(st.fmem, k)
						}
					}
					for k := range st.fvals {
						if strings.HasPrefix(k, pre) {
							delete(st.fvals, k)
						}
					}
					if st.fvals == nil {
						st.fvals = map[string]ssa.Value{}
					}
					v := x.Val
					if nx := st.alias[v]; nx != nil {
						v = nx
					}
					st.fvals[pre+"*"] = v
				} else if pre, key, isArr := localArrElem(st, x.Addr); isArr {
					// an element of a local array that never leaves its function (a table literal)
					st = st.clone()
					if key == "" {
						// an index that is not evident: any element may have changed
						for k := range st.fmem {
							if strings.HasPrefix(k, pre) {
								delete(st.fmem, k)
							}
						}
						for k := range st.fvals {
							if strings.HasPrefix(k, pre) {
								delete(st.fvals, k)
							}
						}
					} else if kv, ok := st.eval(x.Val, 0); ok {
						if st.fmem == nil {
							st.fmem = map[string]int64{}
						}
						st.fmem[key] = kv
						delete(st.fvals, key)
					} else {
						delete(st.fmem, key)
						if st.fvals == nil {
							st.fvals = map[string]ssa.Value{}
						}
						v := x.Val
						if nx := st.alias[v]; nx != nil {
							v = nx
						}
						st.fvals[key] = v
					}
				} else if _, isFA := x.Addr.(*ssa.FieldAddr); isFA {
					ad := addrKey(st, x.Addr)
					st = st.clone()
					delete(st.fmem, ad+nilFact)
					if kv, ok := st.eval(x.Val, 0); ok {
						if st.fmem == nil {
							st.fmem = map[string]int64{}
						}
						st.fmem[ad] = kv
						delete(st.fvals, ad)
					} else {
						delete(st.fmem, ad)
						if st.fvals == nil {
							st.fvals = map[string]ssa.Value{}
						}
						v := x.Val
						if nx := st.alias[v]; nx != nil {
							v = nx
						}
						st.fvals[ad] = v
					}
				}
			case *ssa.Slice:
				if f, ok := st.SliceOf(x.X); ok && x.Max == nil {
					lo, hi, good := f.Lo, f.Hi, true
					if x.Low != nil {
						if k, known := st.eval(x.Low, 0); known {
							lo = f.Lo + k
						} else {
							good = false
						}
					}
					if x.High != nil {
						if k, known := st.eval(x.High, 0); known {
							hi = f.Lo + k
						} else {
							good = false
						}
					}
					if good && lo >= f.Lo && lo <= hi {
						st = st.clone()
						if st.slices == nil {
							st.slices = map[ssa.Value]SliceFact{}
						}
						st.slices[x] = SliceFact{Base: f.Base, Key: f.Key, Lo: lo, Hi: hi}
					}
				}
			case *ssa.Field:
				// a field of a struct value: of the variable it was just loaded from, when that is evident
				if len(st.fmem) > 0 || len(st.fvals) > 0 {
					if st2, isS := types.Unalias(x.X.Type()).Underlying().(*types.Struct); isS && x.Field < st2.NumFields() {
						if kv, isInt, fv := st.FieldOf(x.X, FN(st2.Field(x.Field))); isInt {
							st = st.clone()
							st.ints[x] = kv
						} else if fv != nil {
							ns := st.clone()
							ns.alias[x] = fv
							if n, ok := st.IsNil(fv); ok {
								ns.nils[x] = n
							}
							st = ns
						}
					}
				}
			case *ssa.TypeAssert:
				if !x.CommaOk {
					if ok, known := st.assertOK(x); known && ok {
						if f, has := st.DynOf(x.X); has && f.HasK && f.Typ != nil && types.Identical(f.Typ, x.AssertedType) {
							st = st.clone()
							st.ints[x] = f.K
						}
					}
				}
			case *ssa.Extract:
				if ta, isTA := x.Tuple.(*ssa.TypeAssert); isTA {
					if ok, known := st.assertOK(ta); known {
						st = st.clone()
						if x.Index == 1 {
							st.ints[x] = 0
							if ok {
								st.ints[x] = 1
							}
						} else if f, has := st.DynOf(ta.X); ok && has && f.HasK && f.Typ != nil && types.Identical(f.Typ, ta.AssertedType) {
							st.ints[x] = f.K
						}
					}
				}
				if call, ok := x.Tuple.(*ssa.Call); ok {
					if res, has := st.tup[call]; has && x.Index < len(res) {
						ns := st.clone()
						bind(ns, st, x, res[x.Index])
						st = ns
					}
				}
				if lk, ok := x.Tuple.(*ssa.Lookup); ok {
					if v, found, known := constTableLookup(st, lk.X, lk.Index); known {
						ns := st.clone()
						if x.Index == 0 {
							if found {
								bind(ns, st, x, v)
							}
						} else {
							delete(ns.alias, x)
							delete(ns.syms, x)
							if found {
								ns.ints[x] = 1
							} else {
								ns.ints[x] = 0
							}
						}
						st = ns
					}
				}
			case *ssa.Lookup:
				if !x.CommaOk {
					if v, found, known := constTableLookup(st, x.X, x.Index); known && found {
						ns := st.clone()
						bind(ns, st, x, v)
						st = ns
					}
				}
			case *ssa.UnOp:
				if a := cellOf(st, x.X); a != nil && x.Op == token.MUL {
					if val, has := st.mem[a]; has {
						ns := st.clone()
						bind(ns, st, x, val)
						st = ns
					}
				} else if ia, isIA := x.X.(*ssa.IndexAddr); isIA && x.Op == token.MUL {
					if _, key, isArr := localArrElem(st, ia); isArr && key != "" {
						if kv, has := st.fmem[key]; has {
							st = st.clone()
							st.ints[x] = kv
						} else if fv, has := st.fvals[key]; has {
							ns := st.clone()
							ns.alias[x] = fv
							if n, ok := st.IsNil(fv); ok {
								ns.nils[x] = n
							}
							st = ns
						}
					} else if v, found, known := constTableLookup(st, ia.X, ia.Index); known && found {
						// an element of a package-level table that is never written after initialisation
						ns := st.clone()
						bind(ns, st, x, v)
						st = ns
					}
				} else if _, isFA := x.X.(*ssa.FieldAddr); isFA && x.Op == token.MUL && (len(st.fmem) > 0 || len(st.fvals) > 0) {
					ad := addrKey(st, x.X)
					if nv, has := st.fmem[ad+nilFact]; has {
						st = st.clone()
						st.nils[x] = nv == 1
					}
					if kv, has := st.fmem[ad]; has {
						st = st.clone()
						st.ints[x] = kv
					} else if fv, has := st.fvals[ad]; has {
						// what the field holds on this path, for resolution only: the load keeps its own rendering
						ns := st.clone()
						ns.alias[x] = fv
						if n, ok := st.IsNil(fv); ok {
							ns.nils[x] = n
						}
						st = ns
					} else if fa := x.X.(*ssa.FieldAddr); true {
						// the struct is a whole copy of another one whose field is known
						if kv, isInt, fv := st.FieldOf(fa.X, fieldName(fa.X.Type(), fa.Field)); isInt {
							st = st.clone()
							st.ints[x] = kv
						} else if fv != nil {
							ns := st.clone()
							ns.alias[x] = fv
							if n, ok := st.IsNil(fv); ok {
								ns.nils[x] = n
							}
							st = ns
						} else if n, known := st.fieldNilOf(fa.X, fieldName(fa.X.Type(), fa.Field)); known {
							st = st.clone()
							st.nils[x] = n
						}
					}
				}
			case *ssa.Call:
				h := helperOf(x)
				var hClosure *ssa.MakeClosure
				if mk, ok := x.Call.Value.(*ssa.MakeClosure); ok {
					hClosure = mk
				}
				if h == nil && cfg.InlineAny != nil && !x.Call.IsInvoke() {
					// an exported function of the analysed packages that the rule wants explored like a helper
					if sc := x.Call.StaticCallee(); sc != nil && len(sc.Blocks) > 0 && (sc.Synthetic == "" || strings.HasPrefix(sc.Synthetic, "instance of ")) && curProgRoot(sc) && cfg.InlineAny(sc) {
						h = sc
					}
				}
				if h == nil && !x.Call.IsInvoke() && x.Call.StaticCallee() == nil {
					// a call through a function VALUE that is evident on this path: a literal, a method value
					// (x.m) or a method expression handed down as an argument
					v := x.Call.Value
					for k := 0; k < 12; k++ {
						switch y := v.(type) {
						case *ssa.ChangeType:
							v = y.X
							continue
						}
						nx := st.alias[v]
						if nx == nil {
							break
						}
						v = nx
					}
					switch y := v.(type) {
					case *ssa.MakeClosure:
						if f, ok := y.Fn.(*ssa.Function); ok && len(f.Blocks) > 0 && (curProgRoot(f) || f.Synthetic != "") {
							h, hClosure = f, y
						}
					case *ssa.Function:
						if len(y.Blocks) > 0 && (curProgRoot(y) || y.Synthetic != "") {
							h = y
						}
					}
				}
				if h == nil && x.Call.StaticCallee() != nil && x.Call.StaticCallee().Synthetic != "" && len(x.Call.StaticCallee().Blocks) > 0 && len(stack) > 0 {
					// inside a method-value / method-expression wrapper: its one call is the method itself
					h = nil
				}
				if h == nil && cfg.IterClosures && len(stack) < 4 {
					// a function literal handed to a callee that is not explored: invoke it 0..MaxIter times
					var mk *ssa.MakeClosure
					for _, a := range x.Call.Args {
						// the literal itself, or a parameter / variable that stands for one on this path
						v := a
						for k := 0; k < 12; k++ {
							if _, isMk := v.(*ssa.MakeClosure); isMk {
								break
							}
							if ct, isCT := v.(*ssa.ChangeType); isCT {
								v = ct.X
								continue
							}
							nx := st.alias[v]
							if nx == nil {
								break
							}
							v = nx
						}
						if m, ok := v.(*ssa.MakeClosure); ok {
							if f, ok := m.Fn.(*ssa.Function); ok && len(f.Blocks) > 0 {
								mk = m
							}
						}
					}
					if mk != nil {
						fr := concFrame{blk: blk, idx: k + 1, call: x, iter: mk, left: cfg.MaxIter}
						iterate(fr, ev, stack, st)
						return
					}
				}
				if h == nil && blk.Parent().Synthetic != "" {
					// the body of a method-value / method-expression wrapper: enter the method it stands for
					if sc := x.Call.StaticCallee(); sc != nil && len(sc.Blocks) > 0 && curProgRoot(sc) {
						h = sc
					}
				}
				var devirtRecv ssa.Value
				if h == nil && x.Call.IsInvoke() && cfg.Devirt != nil {
					// a method called through an interface whose dynamic type is evident on this path
					v := x.Call.Value
					for k := 0; k < 12; k++ {
						if ci, isCI := v.(*ssa.ChangeInterface); isCI {
							v = ci.X
							continue
						}
						if _, isMI := v.(*ssa.MakeInterface); isMI {
							break
						}
						nx := st.alias[v]
						if nx == nil {
							break
						}
						v = nx
					}
					if mi, isMI := v.(*ssa.MakeInterface); isMI && curProg != nil {
						if m := curProg.SSA.LookupMethod(mi.X.Type(), x.Call.Method.Pkg(), FNm(x.Call.Method)); m != nil && len(m.Blocks) > 0 && cfg.Devirt(m) {
							h, devirtRecv = m, mi.X
						}
					}
				}
				maxDepth := 5
				if cfg.MaxDepth > 0 {
					maxDepth = cfg.MaxDepth
				}
				if h == nil || len(h.Blocks) == 0 || len(stack) >= maxDepth || devirtRecv == nil && cfg.Inline != nil && h.Synthetic == "" && !cfg.Inline(h) {
					if len(st.fmem) > 0 || len(st.fvals) > 0 {
						_, isBuiltin := x.Call.Value.(*ssa.Builtin)
						if sc := StaticCallee(x); !isBuiltin && (sc == nil || curProgRoot(sc)) {
							// the callee may change what it can reach: the objects handed to it (receiver, pointer-like arguments)
							st = st.clone()
							var reach []string
							all := false
							args := x.Call.Args
							if x.Call.IsInvoke() {
								args = append([]ssa.Value{x.Call.Value}, args...)
							} else if sc == nil {
								all = true // a call through an unknown function value
								if u, ok := x.Call.Value.(*ssa.UnOp); ok && u.Op == token.MUL {
									if _, isG := u.X.(*ssa.Global); isG {
										// a package-level function variable: it can reach what it is handed, and
										// globals - not the objects of this path
										all = false
									}
								}
							}
							for _, a := range args {
								switch types.Unalias(a.Type()).Underlying().(type) {
								case *types.Pointer, *types.Interface, *types.Slice, *types.Map, *types.Signature, *types.Chan:
									reach = append(reach, baseKey(st, a))
								}
							}
							drop := func(key string) bool {
								if all {
									// code we cannot see may change anything it can reach - not a local variable whose
									// address never leaves its function
									if i := strings.Index(key, "."); i > 0 && strings.HasPrefix(key, "alloc@") {
										if a := allocByKey[key[:i]]; a != nil && !allocEscapes(a) {
											return false
										}
									}
									return true
								}
								k := key
								for _, r := range reach {
									if k == r || strings.HasPrefix(k, r+".") || strings.HasPrefix(k, r+"[") {
										return true
									}
								}
								return false
							}
							for k := range st.fmem {
								if drop(k) {
									if os.Getenv("ZV_DEBUG2") != "" {
										println("DROP", k, "at", x.String(), "reach", strings.Join(reach, "|"), all)
									}
									delete(st.fmem, k)
								}
							}
							for k := range st.fvals {
								if drop(k) {
									delete(st.fvals, k)
								}
							}
						}
					}
					break
				}
				onStack := false
				for _, f := range stack {
					if f.call != nil && helperOf(f.call) == h {
						onStack = true
					}
				}
				if onStack || blk.Parent() == h || h == fn {
					break // recursion (into the explored function itself too): the call stays opaque
				}
				ns := st.clone()
				args := Args(x)
				if devirtRecv != nil {
					args = append([]ssa.Value{devirtRecv}, x.Call.Args...)
				}
				for ai, a := range args {
					if ai >= len(h.Params) {
						break
					}
					bind(ns, st, h.Params[ai], a)
				}
				if hClosure != nil {
					for bi, b := range hClosure.Bindings {
						if bi < len(h.FreeVars) {
							bind(ns, st, h.FreeVars[bi], b)
						}
					}
				}
				nstack := append(append([]concFrame{}, stack...), concFrame{blk: blk, idx: k + 1, call: x})
				run(h.Blocks[0], 0, ev, nstack, ns)
				return
			case *ssa.Return:
				if len(stack) > 0 && stack[len(stack)-1].iter != nil {
					top := stack[len(stack)-1]
					rest := stack[:len(stack)-1]
					goOn := true
					if len(x.Results) == 1 {
						if kv, ok := st.eval(x.Results[0], 0); ok && kv == 0 {
							goOn = false // the literal asked its caller to stop
						}
					}
					if goOn {
						top.left--
						iterate(top, ev, rest, st)
					} else {
						run(top.blk, top.idx, ev, rest, st)
					}
					return
				}
				if len(stack) > 0 && stack[len(stack)-1].deferred {
					top := stack[len(stack)-1]
					run(top.blk, top.idx, ev, stack[:len(stack)-1], st)
					return
				}
				if len(stack) > 0 {
					top := stack[len(stack)-1]
					ns := st.clone()
					if len(x.Results) == 1 {
						bind(ns, st, top.call, x.Results[0])
					} else {
						bind(ns, st, top.call, nil)
						if ns.tup == nil {
							ns.tup = map[*ssa.Call][]ssa.Value{}
						}
						ns.tup[top.call] = append([]ssa.Value{}, x.Results...)
					}
					run(top.blk, top.idx, ev, stack[:len(stack)-1], ns)
					return
				}
				out[strings.Join(ev, " ; ")] = true
				return
			case *ssa.Panic:
				out[strings.Join(append(append([]string{}, ev...), "panic"), " ; ")] = true
				return
			case *ssa.If:
				if ph, isPhi := x.Cond.(*ssa.Phi); isPhi {
					// a condition computed into a variable first (`ok := a && b; if ok`): on this path the variable stands
					// for the operand evaluated last - that is what is tested, refined and reported
					var cv ssa.Value = ph
					for k := 0; k < 8; k++ {
						p2, again := cv.(*ssa.Phi)
						if !again || st.alias[p2] == nil {
							break
						}
						cv = st.alias[p2]
					}
					if cv != ssa.Value(ph) {
						if _, known := st.ints[ph]; !known {
							cp := *x
							cp.Cond = cv
							x = &cp
						}
					}
				}
				// a negation that survived to the test (`nok := !a; if nok`): the operand is tested, the successors swapped
				sT, sF := blk.Succs[0], blk.Succs[1]
				if _, known := st.ints[x.Cond]; !known {
					for {
						u, isNot := x.Cond.(*ssa.UnOp)
						if !isNot || u.Op != token.NOT {
							break
						}
						cp := *x
						cp.Cond = u.X
						x = &cp
						sT, sF = sF, sT
					}
				}
				if kv, ok := st.eval(x.Cond, 0); ok {
					if kv != 0 {
						enter(blk, sT, ev, stack, st)
					} else {
						enter(blk, sF, ev, stack, st)
					}
					return
				}
				evT, evF := ev, ev
				if cfg.Branch != nil {
					if e := cfg.Branch(x.Cond, true, st); e != "" {
						evT = append(append([]string{}, ev...), e)
					}
					if e := cfg.Branch(x.Cond, false, st); e != "" {
						evF = append(append([]string{}, ev...), e)
					}
				}
				enter(blk, sT, evT, stack, refine(st, x.Cond, true))
				enter(blk, sF, evF, stack, refine(st, x.Cond, false))
				return
			case *ssa.Jump:
				enter(blk, blk.Succs[0], ev, stack, st)
				return
			}
			if cfg.SliceLenOf != nil {
				if v, isV := in.(ssa.Value); isV {
					isLoad := false
					switch y := in.(type) {
					case *ssa.Field:
						isLoad = true
					case *ssa.UnOp:
						_, fa := y.X.(*ssa.FieldAddr)
						isLoad = y.Op == token.MUL && fa
					}
					if isLoad {
						switch t := types.Unalias(v.Type()).Underlying().(type) {
						case *types.Slice:
							_ = t
						case *types.Basic:
							if t.Kind() != types.String {
								isLoad = false
							}
						default:
							isLoad = false
						}
					}
					if isLoad {
						if _, has := st.SliceOf(v); !has {
							d := st.Desc(v)
							if n, ok := cfg.SliceLenOf(d); ok {
								st = st.clone()
								if st.slices == nil {
									st.slices = map[ssa.Value]SliceFact{}
								}
								st.slices[v] = SliceFact{Key: d, Lo: 0, Hi: n}
							}
						}
					}
				}
			}
			if cfg.Fork != nil {
				if alts := cfg.Fork(in, st0); len(alts) > 0 {
					for _, a := range alts {
						ns := st.clone()
						for v, kv := range a.Ints {
							ns.ints[v] = kv
						}
						for v, n := range a.Nils {
							ns.nils[stripConv(v)] = n
						}
						for v, f := range a.Slices {
							if ns.slices == nil {
								ns.slices = map[ssa.Value]SliceFact{}
							}
							ns.slices[v] = f
						}
						for v, to := range a.Alias {
							ns.alias[v] = to
							delete(ns.ints, v)
							delete(ns.nils, v)
						}
						for v, l := range a.Lists {
							if ns.lists == nil {
								ns.lists = map[ssa.Value][]ssa.Value{}
							}
							ns.lists[v] = l
						}
						for _, fv := range a.Fields {
							if ns.fmem == nil {
								ns.fmem = map[string]int64{}
							}
							key := ns.fieldKey(fv.Obj, fv.Field)
							ns.fmem[key] = fv.Val
							delete(ns.fvals, key)
						}
						nev := ev
						if a.Ev != "" {
							nev = append(append([]string{}, ev...), a.Ev)
						}
						run(blk, k+1, nev, stack, ns)
					}
					return
				}
			}
		}
	}
	st := &ConcState{ints: map[ssa.Value]int64{}, nils: map[ssa.Value]bool{}, syms: map[ssa.Value]string{}, alias: map[ssa.Value]ssa.Value{}, mem: map[*ssa.Alloc]ssa.Value{}, cfg: &cfg}
	if cfg.Init != nil {
		cfg.Init(st)
	}
	for _, fv := range cfg.InitFields {
		if st.fmem == nil {
			st.fmem = map[string]int64{}
		}
		st.fmem[st.fieldKey(fv.Obj, fv.Field)] = fv.Val
	}
	if cfg.SliceLen != nil {
		for _, p := range fn.Params {
			if n, ok := cfg.SliceLen(p); ok {
				if st.slices == nil {
					st.slices = map[ssa.Value]SliceFact{}
				}
				st.slices[p] = SliceFact{Base: p, Lo: 0, Hi: n}
			}
		}
	}
	run(fn.Blocks[0], 0, nil, nil, st)
	for s := range out {
		seqs = append(seqs, s)
	}
	sort.Strings(seqs)
	return seqs, truncated
}

// cellOf resolves an address to the local variable cell it denotes on this path: a plain local, or - with
// IterClosures - a local captured by function literals, reached directly or through a literal's free variable.
func cellOf(st *ConcState, addr ssa.Value) *ssa.Alloc {
	captured := st.cfg != nil && st.cfg.IterClosures
	for k := 0; k < 6; k++ {
		switch x := addr.(type) {
		case *ssa.Alloc:
			if localCell(x, captured) {
				return x
			}
			return nil
		case *ssa.FreeVar:
			nx := st.alias[x]
			if nx == nil {
				return nil
			}
			addr = nx
		default:
			return nil
		}
	}
	return nil
}

var intConsts = map[string]*ssa.Const{}

// intConst makes a constant of type t (integers and booleans) so that a cell can remember an evaluated value.
func intConst(k int64, t types.Type) ssa.Value {
	key := TStr(t) + "#" + strconv.FormatInt(k, 10)
	if c, ok := intConsts[key]; ok {
		return c
	}
	var c *ssa.Const
	if b, ok := types.Unalias(t).Underlying().(*types.Basic); ok && b.Info()&types.IsBoolean != 0 {
		c = ssa.NewConst(constant.MakeBool(k != 0), t)
	} else if ok && b.Info()&types.IsInteger != 0 {
		c = ssa.NewConst(constant.MakeInt64(k), t)
	} else {
		return nil
	}
	intConsts[key] = c
	return c
}

var reachMemo = map[*ssa.Function][][]bool{}

func blockReach(fn *ssa.Function) [][]bool {
	if r, ok := reachMemo[fn]; ok {
		return r
	}
	n := len(fn.Blocks)
	r := make([][]bool, n)
	for i := range r {
		r[i] = make([]bool, n)
		var stack []*ssa.BasicBlock
		stack = append(stack, fn.Blocks[i])
		r[i][i] = true
		for len(stack) > 0 {
			b := stack[len(stack)-1]
			stack = stack[:len(stack)-1]
			for _, s := range b.Succs {
				if !r[i][s.Index] {
					r[i][s.Index] = true
					stack = append(stack, s)
				}
			}
		}
	}
	reachMemo[fn] = r
	return r
}

// pruneDead removes facts about registers of to's function that are dead at the entry of to.
func pruneDead(st *ConcState, to *ssa.BasicBlock, active map[*ssa.Function]bool) {
	fn := to.Parent()
	reach := blockReach(fn)[to.Index]
	cand := map[ssa.Value]bool{}
	add := func(v ssa.Value) {
		if v != nil && (v.Parent() == fn || v.Parent() != nil && !active[v.Parent()]) {
			if _, isParam := v.(*ssa.Parameter); !isParam {
				if _, isFV := v.(*ssa.FreeVar); !isFV {
					cand[v] = true
				}
			}
		}
	}
	for v := range st.ints {
		add(v)
	}
	for v := range st.nils {
		add(v)
	}
	for v := range st.syms {
		add(v)
	}
	for v := range st.alias {
		add(v)
	}
	if len(cand) == 0 {
		return
	}
	live := map[ssa.Value]bool{}
	var work []ssa.Value
	mark := func(v ssa.Value) {
		if v != nil && !live[v] {
			live[v] = true
			work = append(work, v)
		}
	}
	for _, m := range []map[ssa.Value]ssa.Value{st.alias} {
		for v := range m {
			if !cand[v] {
				mark(v) // registers of callers still on the stack, parameters: kept, and keep what they stand for
			}
		}
	}
	for v := range cand {
		if v.Parent() != fn {
			continue // a register of a helper that has returned: alive only through what refers to it
		}
		refs := v.Referrers()
		if refs == nil {
			mark(v)
			continue
		}
		for _, r := range *refs {
			if b := r.Block(); b != nil && reach[b.Index] {
				mark(v)
				break
			}
		}
	}
	// values held in local cells stay meaningful
	for _, v := range st.mem {
		mark(v)
	}
	for _, vs := range st.tup {
		for _, v := range vs {
			mark(v)
		}
	}
	for len(work) > 0 {
		v := work[len(work)-1]
		work = work[:len(work)-1]
		if a := st.alias[v]; a != nil {
			mark(a)
		}
		if in, ok := v.(ssa.Instruction); ok {
			var ops [12]*ssa.Value
			for _, op := range in.Operands(ops[:0]) {
				if op != nil && *op != nil {
					mark(*op)
				}
			}
		}
	}
	for v := range cand {
		if !live[v] {
			delete(st.ints, v)
			delete(st.nils, v)
			delete(st.syms, v)
			delete(st.alias, v)
		}
	}
}

// ---------------------------------------------------------------------------
// Package-level constant tables: a map or array variable that is built once (in
// the package initialiser, from a composite literal with constant keys) and
// never stored to again. A lookup with a key that is evident on the path then
// yields the entry (or "absent").

type constTable struct {
	entries map[int64]ssa.Value
	zero    bool // arrays: absent index = zero value (not resolved)
}

var constTables map[*ssa.Global]*constTable

func buildConstTables() {
	constTables = map[*ssa.Global]*constTable{}
	if curProg == nil {
		return
	}
	written := map[*ssa.Global]int{}
	var inits []*ssa.Function
	curProg.EachRootFunc(func(fn *ssa.Function) {
		if FNm(fn) == "init" && fn.Synthetic != "" {
			inits = append(inits, fn)
		}
		AllInstrs(fn, func(in ssa.Instruction) {
			switch x := in.(type) {
			case *ssa.Store:
				if g, ok := x.Addr.(*ssa.Global); ok {
					if !(FNm(fn) == "init" && fn.Synthetic != "") {
						written[g] += 100
					} else {
						written[g]++
					}
				}
				if ia, ok := x.Addr.(*ssa.IndexAddr); ok {
					if g, ok := ia.X.(*ssa.Global); ok && !(FNm(fn) == "init" && fn.Synthetic != "") {
						written[g] += 100
					}
				}
			case *ssa.MapUpdate:
				// an update of a map loaded from a global outside the initialiser
				if ld, ok := x.Map.(*ssa.UnOp); ok {
					if g, ok := ld.X.(*ssa.Global); ok && !(FNm(fn) == "init" && fn.Synthetic != "") {
						written[g] += 100
					}
				}
			}
		})
	})
	for _, fn := range inits {
		made := map[ssa.Value]*ssa.Global{}
		AllInstrs(fn, func(in ssa.Instruction) {
			if st, ok := in.(*ssa.Store); ok {
				if g, ok := st.Addr.(*ssa.Global); ok {
					if mk, ok := st.Val.(*ssa.MakeMap); ok {
						made[mk] = g
					}
				}
			}
		})
		AllInstrs(fn, func(in ssa.Instruction) {
			switch x := in.(type) {
			case *ssa.MapUpdate:
				g := made[x.Map]
				if g == nil || written[g] >= 100 {
					return
				}
				k, ok := ConstInt(x.Key)
				if !ok {
					written[g] += 100
					return
				}
				t := constTables[g]
				if t == nil {
					t = &constTable{entries: map[int64]ssa.Value{}}
					constTables[g] = t
				}
				t.entries[k] = x.Value
			case *ssa.Store:
				if ia, ok := x.Addr.(*ssa.IndexAddr); ok {
					if g, ok := ia.X.(*ssa.Global); ok && written[g] < 100 {
						if k, ok := ConstInt(ia.Index); ok {
							t := constTables[g]
							if t == nil {
								t = &constTable{entries: map[int64]ssa.Value{}, zero: true}
								constTables[g] = t
							}
							t.entries[k] = x.Val
						}
					}
				}
			}
		})
	}
	// a table computed once by a function the initialiser calls (var t = func() (a [256]bool) { … }()): the function is
	// explored with its counting loops unrolled; when it has a single path on which every element store has an evident
	// index and value, those stores are the table
	for _, fn := range inits {
		AllInstrs(fn, func(in ssa.Instruction) {
			st, ok := in.(*ssa.Store)
			if !ok {
				return
			}
			g, isG := st.Addr.(*ssa.Global)
			call, isCall := st.Val.(*ssa.Call)
			if !isG || !isCall || written[g] != 1 || constTables[g] != nil {
				return
			}
			at, isArr := types.Unalias(deref(g.Type())).Underlying().(*types.Array)
			if !isArr || intConst(0, at.Elem()) == nil {
				return
			}
			var f *ssa.Function
			switch v := call.Call.Value.(type) {
			case *ssa.Function:
				f = v
			case *ssa.MakeClosure:
				if len(v.Bindings) == 0 {
					f, _ = v.Fn.(*ssa.Function)
				}
			}
			if f == nil || len(f.Params) != 0 || len(f.Blocks) == 0 || len(call.Call.Args) != 0 {
				return
			}
			if entries, ok := evalTableInit(f, at); ok {
				constTables[g] = &constTable{entries: entries, zero: true}
			}
		})
	}
	for g := range constTables {
		if written[g] >= 100 {
			delete(constTables, g)
		}
	}
}

// evalTableInit: see buildConstTables.
func evalTableInit(f *ssa.Function, at *types.Array) (map[int64]ssa.Value, bool) {
	entries := map[int64]ssa.Value{}
	okAll := true
	var arr *ssa.Alloc
	saved := constTables
	seqs, trunc := ConcPaths(f, ConcCfg{
		Unroll: true, MaxStates: 50000, MaxLoop: int(at.Len()) + 8,
		Inline: func(*ssa.Function) bool { return false },
		Event: func(in ssa.Instruction, st *ConcState) string {
			switch x := in.(type) {
			case *ssa.Store:
				ia, ok := x.Addr.(*ssa.IndexAddr)
				if !ok {
					return ""
				}
				a, isA := ia.X.(*ssa.Alloc)
				if !isA || !types.Identical(types.Unalias(deref(a.Type())).Underlying(), at) {
					return ""
				}
				if arr == nil {
					arr = a
				}
				k, ok1 := st.Int(ia.Index)
				v, ok2 := st.Int(x.Val)
				if arr != a || !ok1 || !ok2 || k < 0 || k >= at.Len() {
					okAll = false
					return ""
				}
				entries[k] = intConst(v, at.Elem())
			case *ssa.Return:
				// what is returned is that array
				if len(x.Results) != 1 {
					okAll = false
					return "ret"
				}
				ld, isLd := x.Results[0].(*ssa.UnOp)
				if !isLd || ld.Op != token.MUL || arr == nil || ld.X != ssa.Value(arr) {
					okAll = false
				}
				return "ret"
			case *ssa.Call:
				if _, isB := x.Call.Value.(*ssa.Builtin); !isB {
					okAll = false // anything but plain stores: not a table we can evaluate
				}
			}
			return ""
		},
	})
	constTables = saved
	return entries, okAll && !trunc && len(seqs) == 1 && arr != nil
}

// constTableLookup: tbl is (a load of) a constant package-level table and key is evident: the entry, whether it is
// present, and whether anything could be said at all.
func constTableLookup(st *ConcState, tbl, key ssa.Value) (v ssa.Value, found, known bool) {
	if constTables == nil {
		buildConstTables()
	}
	for k := 0; k < 6; k++ {
		if nx := st.alias[tbl]; nx != nil {
			tbl = nx
			continue
		}
		break
	}
	var g *ssa.Global
	switch x := tbl.(type) {
	case *ssa.Global:
		g = x
	case *ssa.UnOp:
		g, _ = x.X.(*ssa.Global)
	case *ssa.MakeMap:
		return localMapLookup(st, x, key)
	}
	if g == nil {
		return nil, false, false
	}
	t := constTables[g]
	if t == nil {
		return nil, false, false
	}
	kv, ok := st.eval(key, 0)
	if !ok {
		return nil, false, false
	}
	if e, has := t.entries[kv]; has {
		return e, true, true
	}
	if t.zero {
		// an array element the literal does not mention holds the zero value
		if at, ok := types.Unalias(deref(g.Type())).Underlying().(*types.Array); ok && kv >= 0 && kv < at.Len() {
			if z := intConst(0, at.Elem()); z != nil {
				return z, true, true
			}
			switch types.Unalias(at.Elem()).Underlying().(type) {
			case *types.Signature, *types.Pointer, *types.Interface, *types.Slice, *types.Map, *types.Chan:
				// a table of functions (pointers, …): the entry the literal leaves out is nil
				return ssa.NewConst(nil, at.Elem()), true, true
			}
		}
		return nil, false, false
	}
	return nil, false, true
}

// localMapLookup: mk is a map built right where it is declared (a literal: updates with constant keys only) that never
// leaves its function and is only consulted afterwards; the entry under an evident key.
func localMapLookup(st *ConcState, mk *ssa.MakeMap, key ssa.Value) (v ssa.Value, found, known bool) {
	if mk.Referrers() == nil {
		return nil, false, false
	}
	kv, ok := st.eval(key, 0)
	if !ok {
		return nil, false, false
	}
	var hit ssa.Value
	for _, r := range *mk.Referrers() {
		switch x := r.(type) {
		case *ssa.MapUpdate:
			if x.Map != ssa.Value(mk) || x.Block() != mk.Block() {
				return nil, false, false // updated later on / stored as a value of another map
			}
			k, isC := ConstInt(x.Key)
			if !isC {
				return nil, false, false
			}
			if k == kv {
				hit = x.Value
			}
		case *ssa.Lookup:
			if x.X != ssa.Value(mk) {
				return nil, false, false
			}
		case *ssa.DebugRef:
		default:
			return nil, false, false // handed on: someone else may update it
		}
	}
	if hit != nil {
		return hit, true, true
	}
	return nil, false, true
}

// ConstTableInt: element k of the constant package-level table g as an integer (booleans 0/1), if it is evident.
func ConstTableInt(g *ssa.Global, k int64) (int64, bool) {
	if constTables == nil {
		buildConstTables()
	}
	t := constTables[g]
	if t == nil {
		return 0, false
	}
	if e, has := t.entries[k]; has {
		if c, ok := e.(*ssa.Const); ok {
			if n, ok := ConstInt(c); ok {
				return n, true
			}
			if c.Value != nil && c.Value.Kind() == constant.Bool {
				if constant.BoolVal(c.Value) {
					return 1, true
				}
				return 0, true
			}
		}
		return 0, false
	}
	if t.zero {
		if at, ok := types.Unalias(deref(g.Type())).Underlying().(*types.Array); ok && k >= 0 && k < at.Len() {
			return 0, true
		}
	}
	return 0, false
}

var (
	allocByKey   = map[string]*ssa.Alloc{}
	allocEscMemo = map[*ssa.Alloc]bool{}
)

// allocEscapes: the address of the local variable is handed to something (stored, passed, captured, returned) - as
// opposed to the variable only being assigned, read, and having its fields assigned and read in its own function.
func allocEscapes(a *ssa.Alloc) bool {
	if r, ok := allocEscMemo[a]; ok {
		return r
	}
	var addrOnlyDeref func(v ssa.Value, d int) bool
	addrOnlyDeref = func(v ssa.Value, d int) bool {
		refs := v.Referrers()
		if refs == nil || d > 6 {
			return false
		}
		for _, r := range *refs {
			switch x := r.(type) {
			case *ssa.Store:
				if x.Addr != v {
					return false // the address itself is stored somewhere
				}
			case *ssa.UnOp:
				if x.Op != token.MUL {
					return false
				}
			case *ssa.FieldAddr:
				if !addrOnlyDeref(x, d+1) {
					return false
				}
			case *ssa.IndexAddr:
				if x.X != v || !addrOnlyDeref(x, d+1) {
					return false
				}
			case *ssa.DebugRef:
			default:
				return false
			}
		}
		return true
	}
	esc := a.Heap || !addrOnlyDeref(a, 0)
	allocEscMemo[a] = esc
	return esc
}

// localArrElem: addr is the address of an element of a local array variable whose address never leaves its function;
// pre is the key prefix of all its elements, key that of this element ("" when the index is not evident).
func localArrElem(st *ConcState, addr ssa.Value) (pre, key string, ok bool) {
	ia, isIA := addr.(*ssa.IndexAddr)
	if !isIA {
		return "", "", false
	}
	v := ia.X
	for k := 0; k < 8; k++ {
		if nx := st.alias[v]; nx != nil {
			v = nx
			continue
		}
		break
	}
	varargs := false
	if sl, isSl := v.(*ssa.Slice); isSl && sl.Low == nil && sl.High == nil {
		// the argument list of a variadic call: the array behind it is written once, where the call is made
		if a2, isA2 := sl.X.(*ssa.Alloc); isA2 && a2.Comment == "varargs" {
			v, varargs = a2, true
		}
	}
	a, isA := v.(*ssa.Alloc)
	if !isA {
		return "", "", false
	}
	if _, isArr := types.Unalias(deref(a.Type())).Underlying().(*types.Array); !isArr || !(varargs || a.Comment == "varargs") && allocEscapes(a) {
		return "", "", false
	}
	pre = fmt.Sprintf("alloc@%p.[", a)
	allocByKey[fmt.Sprintf("alloc@%p", a)] = a
	if kv, evident := st.eval(ia.Index, 0); evident {
		return pre, pre + strconv.FormatInt(kv, 10) + "]", true
	}
	return pre, "", true
}

// addrKey names the memory location addr denotes on this path: the object it is rooted in (an allocation, a
// parameter, a global - registers are resolved through what they stand for on the path) plus the field path.
func addrKey(st *ConcState, addr ssa.Value) string {
	var path []string
	v := addr
	for k := 0; k < 16; k++ {
		switch x := v.(type) {
		case *ssa.FieldAddr:
			if fnm := fieldName(x.X.Type(), x.Field); fnm != "" { // (a transparent grouping field adds no step)
				path = append([]string{fnm}, path...)
			}
			v = x.X
			continue
		case *ssa.ChangeType:
			v = x.X
			continue
		case *ssa.MakeInterface:
			v = x.X
			continue
		case *ssa.TypeAssert:
			v = x.X
			continue
		}
		if nx := st.alias[v]; nx != nil {
			v = nx
			continue
		}
		break
	}
	base := ""
	switch x := v.(type) {
	case *ssa.Alloc:
		base = fmt.Sprintf("alloc@%p", x)
		allocByKey[base] = x
	case *ssa.Global:
		base = "global " + x.String()
	default:
		base = strings.TrimPrefix(st.Desc(v), "&")
	}
	return base + "." + strings.Join(path, ".")
}

// baseKey: the object a pointer-like value denotes, in addrKey's naming.
func baseKey(st *ConcState, v ssa.Value) string {
	k := addrKey(st, v)
	return strings.TrimSuffix(k, ".")
}

// fieldKey: the key under which field `field` of the struct that obj denotes (an allocation, a pointer to or a load
// of one, possibly wrapped in an interface) is remembered.
func (st *ConcState) fieldKey(obj ssa.Value, field string) string {
	v := obj
	for i := 0; i < 12; i++ {
		if u, ok := v.(*ssa.UnOp); ok && u.Op == token.MUL {
			v = u.X
			continue
		}
		if mi, ok := v.(*ssa.MakeInterface); ok {
			v = mi.X
			continue
		}
		if nx := st.alias[v]; nx != nil {
			v = nx
			continue
		}
		break
	}
	return strings.TrimSuffix(addrKey(st, v), ".") + "." + field
}

// isElemAddr: the address of a field or element (as opposed to a variable or *p as a whole)
func isElemAddr(a ssa.Value) bool {
	switch a.(type) {
	case *ssa.FieldAddr, *ssa.IndexAddr:
		return true
	}
	return false
}

func isStructVal(v ssa.Value) bool {
	_, ok := types.Unalias(v.Type()).Underlying().(*types.Struct)
	return ok
}

// FieldsOf lists what is known about the fields of the struct obj denotes, nested fields included (key: the dotted
// field path below obj; value: the rendering of what the field holds on this path).
func (st *ConcState) FieldsOf(obj ssa.Value) map[string]string {
	out := map[string]string{}
	prefix := strings.TrimSuffix(st.fieldKey(obj, ""), ".") + "."
	for k, n := range st.fmem {
		if strings.HasPrefix(k, prefix) && !strings.HasSuffix(k, nilFact) {
			out[k[len(prefix):]] = strconv.FormatInt(n, 10)
		}
	}
	for k, v := range st.fvals {
		if strings.HasPrefix(k, prefix) {
			// a load of another object's field whose content is evident on this path stands for that content
			for n := 0; n < 6; n++ {
				ld, isLd := v.(*ssa.UnOp)
				if !isLd || ld.Op != token.MUL {
					break
				}
				fa, isFA := ld.X.(*ssa.FieldAddr)
				if !isFA {
					break
				}
				if _, isAlloc := fa.X.(*ssa.Alloc); !isAlloc {
					break
				}
				src, has := st.fvals[addrKey(st, fa)]
				if !has || src == v {
					break
				}
				v = src
			}
			out[k[len(prefix):]] = st.Desc(v)
		}
	}
	return out
}

// FieldValsOf: like FieldsOf, the values themselves (fields holding something other than an evident integer).
func (st *ConcState) FieldValsOf(obj ssa.Value) map[string]ssa.Value {
	out := map[string]ssa.Value{}
	prefix := strings.TrimSuffix(st.fieldKey(obj, ""), ".") + "."
	for k, v := range st.fvals {
		if strings.HasPrefix(k, prefix) {
			out[k[len(prefix):]] = v
		}
	}
	return out
}

// fieldNilOf: is field `field` of the struct obj denotes known to be nil / non-nil on this path (through whole copies)?
func (st *ConcState) fieldNilOf(obj ssa.Value, field string) (isNil, known bool) {
	for hop := 0; hop < 6; hop++ {
		key := st.fieldKey(obj, field)
		if _, h := st.fvals[key]; h {
			return false, false
		}
		if nv, h := st.fmem[key+nilFact]; h {
			return nv == 1, true
		}
		src, copied := st.fvals[st.fieldKey(obj, "*")]
		if !copied {
			return false, false
		}
		obj = src
	}
	return false, false
}

// FieldOf reports what field `field` of the struct that obj denotes (an allocation, or a load of one) holds on this
// path: an evident integer/boolean, or the value last stored (nil if nothing is known).
func (st *ConcState) FieldOf(obj ssa.Value, field string) (k int64, isInt bool, val ssa.Value) {
	key := st.fieldKey(obj, field)
	for hop := 0; hop < 6; hop++ {
		_, h1 := st.fmem[key]
		_, h2 := st.fvals[key]
		if h1 || h2 {
			break
		}
		// the object is a whole copy of another struct whose field is known
		src, copied := st.fvals[st.fieldKey(obj, "*")]
		if !copied {
			break
		}
		obj = src
		key = st.fieldKey(obj, field)
	}
	if n, ok := st.fmem[key]; ok {
		return n, true, nil
	}
	if fv, ok := st.fvals[key]; ok {
		return 0, false, fv
	}
	if st.cfg != nil && st.cfg.Conc != nil {
		// a field inherited through a whole copy from an object whose fields the rule fixed by their rendering
		if n, ok := st.cfg.Conc(st.fieldDesc(obj, field)); ok {
			return n, true, nil
		}
	}
	return 0, false, nil
}

// fieldDesc: field `field` of the struct obj denotes, as a load of it would be rendered ("c.jsonEncoder.spaced").
func (st *ConcState) fieldDesc(obj ssa.Value, field string) string {
	v := obj
	for i := 0; i < 12; i++ {
		if u, ok := v.(*ssa.UnOp); ok && u.Op == token.MUL {
			v = u.X
			continue
		}
		if mi, ok := v.(*ssa.MakeInterface); ok {
			v = mi.X
			continue
		}
		if nx := st.alias[v]; nx != nil {
			v = nx
			continue
		}
		break
	}
	return strings.TrimPrefix(st.Desc(v), "&") + "." + field
}

// FieldFrom: the rendering ("enc.EncoderConfig") of the field that field `field` of obj is a copy of, when obj got it
// through whole-struct copies (*clone = *enc) and nothing was stored into it since; "" otherwise.
func (st *ConcState) FieldFrom(obj ssa.Value, field string) string {
	key := st.fieldKey(obj, field)
	hops := 0
	for ; hops < 6; hops++ {
		_, h1 := st.fmem[key]
		_, h2 := st.fvals[key]
		if h1 || h2 {
			return ""
		}
		src, copied := st.fvals[st.fieldKey(obj, "*")]
		if !copied {
			break
		}
		obj = src
		key = st.fieldKey(obj, field)
	}
	if hops == 0 {
		return ""
	}
	return st.fieldDesc(obj, field)
}

// StringMapEntries: the entries of a package-level map with constant string keys that the package initialiser builds
// and nothing else writes (m is the map operand of a lookup: a load of the global).
func StringMapEntries(m ssa.Value) (map[string]ssa.Value, bool) {
	ld, ok := m.(*ssa.UnOp)
	if !ok || ld.Op != token.MUL {
		return nil, false
	}
	g, ok := ld.X.(*ssa.Global)
	if !ok || g.Pkg == nil || curProg == nil {
		return nil, false
	}
	ini := g.Pkg.Func("init")
	if ini == nil {
		return nil, false
	}
	var mk ssa.Value
	nStore := 0
	bad := false
	curProg.EachRootFunc(func(f *ssa.Function) {
		AllInstrs(f, func(in ssa.Instruction) {
			switch x := in.(type) {
			case *ssa.Store:
				if x.Addr == ssa.Value(g) {
					nStore++
					if f == ini {
						mk = x.Val
					} else {
						bad = true
					}
				}
			case *ssa.MapUpdate:
				if u, isU := x.Map.(*ssa.UnOp); isU && u.X == ssa.Value(g) {
					bad = true // written through the global after initialisation
				}
			}
		})
	})
	AllInstrs(ini, func(in ssa.Instruction) {
		if x, isSt := in.(*ssa.Store); isSt && x.Addr == ssa.Value(g) {
			nStore++
			mk = x.Val
		}
	})
	if bad || mk == nil || nStore < 1 {
		return nil, false
	}
	if _, isMk := mk.(*ssa.MakeMap); !isMk {
		return nil, false
	}
	out := map[string]ssa.Value{}
	okAll := true
	AllInstrs(ini, func(in ssa.Instruction) {
		if mu, isMu := in.(*ssa.MapUpdate); isMu && mu.Map == mk {
			k, isS := ConstString(mu.Key)
			if !isS {
				okAll = false
				return
			}
			out[k] = mu.Value
		}
	})
	return out, okAll && len(out) > 0
}
