package zv

import (
	"fmt"
	"go/ast"
	"go/token"
	"go/types"
	"regexp"
	"sort"
	"strings"

	"golang.org/x/tools/go/packages"
	"golang.org/x/tools/go/ssa"
)

func init() {
	Props["C03"] = Prop{
		Title: "Field constructors and zap.Any deliver exactly the value they were given",
		Fn:    checkC03,
		Explanation: "Decides, from types alone and therefore for every value of each parameter type, that packing (constructor composite literals, per FieldType) and unpacking (the Field.AddTo arm) agree: same slot, identical asserted/static type, conversion chain parameter → slot → encoder argument lossless for the build's type widths (no narrowing, no numeric float/int conversion, matching Float*bits/frombits), encoder method's parameter type identical to the constructor's; every FieldType has an arm and the default panics; " +
			"pointer variants return nilField under nil and delegate to the value constructor of the pointee type otherwise; every arm of zap.Any asserts the case type itself and dispatches to a constructor of exactly that type, no arm is shadowed by an earlier one, interface arms keep the structured-first order, every exported (string,T) constructor type is covered; slice wrappers convert without copying and append every element through the Append method of the element type; the time split and nil-error rules; and that every == in Field.Equals is only reachable for field types whose Interface payload is statically comparable. " +
			"NOT decided: reflect.DeepEqual semantics, NaN reflexivity, time.Location identity, what encoders do with the delivered value.",
		Assumptions: commonAssumptions,
	}
}

type fieldLit struct {
	pk    *packages.Package
	fd    *ast.FuncDecl
	lit   *ast.CompositeLit
	ftype *types.Const
	slots map[string]ast.Expr // Integer, String, Interface, Key
}

func (c *Ctx) fieldNamed() *types.Named { return c.Named(CorePath, "Field") }

func collectFieldLits(c *Ctx) []fieldLit {
	field := c.fieldNamed()
	var out []fieldLit
	c.EachFuncDecl(func(pk *packages.Package, fd *ast.FuncDecl) {
		ast.Inspect(fd.Body, func(n ast.Node) bool {
			lit, ok := n.(*ast.CompositeLit)
			if !ok {
				return true
			}
			t := pk.TypesInfo.TypeOf(lit)
			if t == nil || !types.Identical(t, field) {
				return true
			}
			fl := fieldLit{pk: pk, fd: fd, lit: lit, slots: map[string]ast.Expr{}}
			for _, el := range lit.Elts {
				kv, ok := el.(*ast.KeyValueExpr)
				if !ok {
					continue
				}
				k, _ := kv.Key.(*ast.Ident)
				if k == nil {
					continue
				}
				if k.Name == "Type" {
					fl.ftype = ConstOf(pk.TypesInfo, kv.Value)
				} else {
					fl.slots[k.Name] = kv.Value
				}
			}
			out = append(out, fl)
			return true
		})
	})
	return expandHelperLits(c, expandModifiedLits(out))
}

// expandModifiedLits: `f := Field{…}` followed by assignments `f.Slot = e` - unconditional ones, and if/else
// statements whose branches consist of nothing but such assignments - stands for one literal per branch combination.
func expandModifiedLits(lits []fieldLit) []fieldLit {
	var out []fieldLit
	for _, l := range lits {
		info := l.pk.TypesInfo
		// the statement list that holds `v := <lit>`
		var list []ast.Stmt
		var at int
		var vobj types.Object
		ast.Inspect(l.fd.Body, func(n ast.Node) bool {
			blk, ok := n.(*ast.BlockStmt)
			if !ok {
				return true
			}
			for i, st := range blk.List {
				as, ok := st.(*ast.AssignStmt)
				if !ok || len(as.Lhs) != 1 || len(as.Rhs) != 1 || ast.Unparen(as.Rhs[0]) != ast.Expr(l.lit) {
					continue
				}
				if id, ok := as.Lhs[0].(*ast.Ident); ok {
					if o := info.Defs[id]; o != nil {
						vobj, list, at = o, blk.List, i
					} else if o := info.Uses[id]; o != nil {
						vobj, list, at = o, blk.List, i
					}
				}
			}
			return true
		})
		if vobj == nil {
			out = append(out, l)
			continue
		}
		slotAssign := func(st ast.Stmt) (string, ast.Expr, bool) {
			as, ok := st.(*ast.AssignStmt)
			if !ok || len(as.Lhs) != 1 || len(as.Rhs) != 1 || as.Tok != token.ASSIGN {
				return "", nil, false
			}
			sel, ok := as.Lhs[0].(*ast.SelectorExpr)
			if !ok {
				return "", nil, false
			}
			id, ok := sel.X.(*ast.Ident)
			if !ok || info.Uses[id] != vobj {
				return "", nil, false
			}
			return sel.Sel.Name, as.Rhs[0], true
		}
		clone := func(b fieldLit) fieldLit {
			n := b
			n.slots = map[string]ast.Expr{}
			for k, v := range b.slots {
				n.slots[k] = v
			}
			return n
		}
		apply := func(b *fieldLit, name string, e ast.Expr) {
			if name == "Type" {
				b.ftype = ConstOf(info, e)
			} else {
				b.slots[name] = e
			}
		}
		variants := []fieldLit{clone(l)}
		changed := false
		for _, st := range list[at+1:] {
			if name, e, ok := slotAssign(st); ok {
				for i := range variants {
					apply(&variants[i], name, e)
				}
				changed = true
				continue
			}
			if ifs, ok := st.(*ast.IfStmt); ok && ifs.Init == nil {
				onlyAssigns := func(b *ast.BlockStmt) bool {
					if b == nil {
						return false
					}
					for _, s2 := range b.List {
						if _, _, ok := slotAssign(s2); !ok {
							return false
						}
					}
					return true
				}
				elseBlk, _ := ifs.Else.(*ast.BlockStmt)
				if onlyAssigns(ifs.Body) && (ifs.Else == nil || onlyAssigns(elseBlk)) {
					var next []fieldLit
					for _, v := range variants {
						a, b := clone(v), clone(v)
						for _, s2 := range ifs.Body.List {
							n2, e2, _ := slotAssign(s2)
							apply(&a, n2, e2)
						}
						if elseBlk != nil {
							for _, s2 := range elseBlk.List {
								n2, e2, _ := slotAssign(s2)
								apply(&b, n2, e2)
							}
						}
						next = append(next, a, b)
					}
					variants = next
					changed = true
					continue
				}
			}
			break
		}
		if !changed {
			out = append(out, l)
			continue
		}
		out = append(out, variants...)
	}
	return out
}

// expandHelperLits: a Field literal inside an unexported helper whose Type (and slots) are the helper's own
// parameters - func integerField(key string, typ FieldType, ival int64) Field { return Field{Key: key, Type: typ,
// Integer: ival} } - stands for one literal per call site, with the call's arguments substituted.
func expandHelperLits(c *Ctx, lits []fieldLit) []fieldLit {
	var out []fieldLit
	for _, l := range lits {
		if l.ftype != nil || l.fd.Recv != nil || ast.IsExported(l.fd.Name.Name) {
			out = append(out, l)
			continue
		}
		info := l.pk.TypesInfo
		paramIdx := func(e ast.Expr) int {
			id, ok := ast.Unparen(e).(*ast.Ident)
			if !ok {
				return -1
			}
			obj := info.Uses[id]
			k := 0
			for _, fl := range l.fd.Type.Params.List {
				for _, n := range fl.Names {
					if info.Defs[n] == obj && obj != nil {
						return k
					}
					k++
				}
			}
			return -1
		}
		var typeExpr ast.Expr
		for _, el := range l.lit.Elts {
			if kv, ok := el.(*ast.KeyValueExpr); ok {
				if k, _ := kv.Key.(*ast.Ident); k != nil && k.Name == "Type" {
					typeExpr = kv.Value
				}
			}
		}
		ti := -1
		if typeExpr != nil {
			ti = paramIdx(typeExpr)
		}
		hobj, _ := info.Defs[l.fd.Name].(*types.Func)
		if ti < 0 || hobj == nil {
			out = append(out, l)
			continue
		}
		n := 0
		c.EachFuncDecl(func(pk *packages.Package, fd *ast.FuncDecl) {
			if pk != l.pk || fd == l.fd {
				return
			}
			ast.Inspect(fd.Body, func(nd ast.Node) bool {
				call, ok := nd.(*ast.CallExpr)
				if !ok || CalleeOf(pk.TypesInfo, call) != hobj || ti >= len(call.Args) {
					return true
				}
				v := fieldLit{pk: pk, fd: fd, lit: l.lit, slots: map[string]ast.Expr{}}
				v.ftype = ConstOf(pk.TypesInfo, call.Args[ti])
				for name, e := range l.slots {
					if pi := paramIdx(e); pi >= 0 && pi < len(call.Args) {
						v.slots[name] = call.Args[pi]
					} else {
						v.slots[name] = e
					}
				}
				out = append(out, v)
				n++
				return true
			})
		})
		if n == 0 {
			out = append(out, l)
		}
	}
	return out
}

// chain step
type cop struct {
	kind string // conv | call
	typ  types.Type
	name string
}

// exprChain peels conversions / math.Float*bits calls / type assertions off e
// (outermost first) and returns the leaf.
func exprChain(info *types.Info, e ast.Expr) (ops []cop, leaf ast.Expr) {
	for {
		e = ast.Unparen(e)
		switch x := e.(type) {
		case *ast.CallExpr:
			if t, ok := IsConversion(info, x); ok && len(x.Args) == 1 {
				ops = append(ops, cop{kind: "conv", typ: t})
				e = x.Args[0]
				continue
			}
			if f := CalleeOf(info, x); f != nil && f.Pkg() != nil && f.Pkg().Path() == "math" && len(x.Args) == 1 {
				ops = append(ops, cop{kind: "call", name: FNm(f), typ: info.TypeOf(x)})
				e = x.Args[0]
				continue
			}
			return ops, e
		case *ast.TypeAssertExpr:
			if x.Type != nil {
				ops = append(ops, cop{kind: "assert", typ: info.TypeOf(x.Type)})
				e = x.X
				continue
			}
			return ops, e
		default:
			return ops, e
		}
	}
}

// lossless simulates a pack/unpack chain for source type P (ops in application order).
func lossless(sizes types.Sizes, P types.Type, ops []cop) (final types.Type, why string) {
	cur := P
	pw := sizes.Sizeof(P)
	basic := func(t types.Type) *types.Basic { b, _ := t.Underlying().(*types.Basic); return b }
	pb := basic(P)
	if pb == nil {
		return nil, "source type " + TypeName(P) + " is not a basic type"
	}
	isFloat := func(b *types.Basic) bool { return b != nil && b.Info()&types.IsFloat != 0 }
	isInt := func(b *types.Basic) bool { return b != nil && b.Info()&types.IsInteger != 0 }
	inBits := false
	for _, op := range ops {
		cb := basic(cur)
		switch op.kind {
		case "conv":
			tb := basic(op.typ)
			switch {
			case isInt(cb) && isInt(tb):
				if sizes.Sizeof(op.typ) < pw {
					return nil, fmt.Sprintf("conversion %s→%s narrows below the %d-byte source type %s", TypeName(cur), TypeName(op.typ), pw, TypeName(P))
				}
			case isFloat(cb) || isFloat(tb):
				return nil, fmt.Sprintf("numeric conversion %s→%s involves a float (changes the value/bits)", TypeName(cur), TypeName(op.typ))
			default:
				return nil, fmt.Sprintf("unsupported conversion %s→%s", TypeName(cur), TypeName(op.typ))
			}
			cur = op.typ
		case "call":
			switch op.name {
			case "Float64bits", "Float32bits":
				w := int64(8)
				if op.name == "Float32bits" {
					w = 4
				}
				if !isFloat(cb) || sizes.Sizeof(cur) != w || inBits {
					return nil, op.name + " applied to " + TypeName(cur)
				}
				inBits = true
			case "Float64frombits", "Float32frombits":
				if !inBits {
					return nil, op.name + " without a preceding bits call"
				}
				inBits = false
			default:
				return nil, "unexpected math call " + op.name
			}
			cur = op.typ
		default:
			return nil, "unexpected step " + op.kind
		}
	}
	if inBits {
		return nil, "float bits never converted back"
	}
	return cur, ""
}

func reverseOps(o []cop) []cop {
	r := make([]cop, len(o))
	for i := range o {
		r[len(o)-1-i] = o[i]
	}
	return r
}

type addToArm struct {
	consts []*types.Const
	clause *ast.CaseClause
	isDef  bool
}

func switchArms(info *types.Info, sw *ast.SwitchStmt) []addToArm {
	var arms []addToArm
	for _, s := range sw.Body.List {
		cc := s.(*ast.CaseClause)
		a := addToArm{clause: cc, isDef: cc.List == nil}
		for _, e := range cc.List {
			if k := ConstOf(info, e); k != nil {
				a.consts = append(a.consts, k)
			}
		}
		arms = append(arms, a)
	}
	return arms
}

func findSwitchOn(fd *ast.FuncDecl, tagSuffix string) *ast.SwitchStmt {
	var sw *ast.SwitchStmt
	ast.Inspect(fd.Body, func(n ast.Node) bool {
		if s, ok := n.(*ast.SwitchStmt); ok && s.Tag != nil && strings.HasSuffix(types.ExprString(s.Tag), tagSuffix) && sw == nil {
			sw = s
		}
		return true
	})
	return sw
}

func checkC03(c *Ctx) {
	c.Rule("R3.1", "pack/unpack agreement per FieldType: slot, type, lossless chain, encoder parameter type; exhaustive arms, default panics", 50)
	c.Rule("R3.2", "pointer constructors: nilField under nil, value constructor of the pointee type otherwise", 12)
	c.Rule("R3.3", "zap.Any: case type = asserted type = constructor parameter type; no shadowing; interface order; coverage", 86)
	c.Rule("R3.4", "slice wrappers: no-copy conversion; every element appended through the Append method of the element type", 41)
	c.Rule("R3.5", "time split: int64-nanosecond form only inside the representable range, with its location", 3)
	c.Rule("R3.6", "nil error is skipped; Error uses the key \"error\"", 2)
	c.Rule("R3.7", "Field.Equals: every == is reachable only for field types with a statically comparable Interface payload", 2)

	field := c.fieldNamed()
	ftNamed := c.Named(CorePath, "FieldType")
	addTo, cpk := c.DeclOf(CorePath, "Field", "AddTo")
	if !c.Anchor("R3.1", "zapcore.Field / FieldType / Field.AddTo", field != nil && ftNamed != nil && addTo != nil) {
		return
	}
	sizes := cpk.TypesSizes
	lits := collectFieldLits(c)
	byType := map[string][]fieldLit{}
	for _, l := range lits {
		if l.ftype == nil {
			c.Und("R3.1", l.pk.PkgPath+"."+l.fd.Name.Name, "literal-type", l.lit.Pos(), "Field literal without a constant Type")
			continue
		}
		byType[l.ftype.Name()] = append(byType[l.ftype.Name()], l)
	}
	addToFn := c.Method(CorePath, "Field", "AddTo")
	if !c.Anchor("R3.1", "zapcore.Field.AddTo (two parameters)", addToFn != nil && len(addToFn.Params) == 2) {
		return
	}
	// what AddTo does for each FieldType: by path exploration with f.Type fixed (c03arm.go)
	armOf := map[string]*armInfo{}
	used := map[int64]bool{}
	for _, k := range c.ConstsOfType(CorePath, ftNamed) {
		kv, _ := ConstObjInt(k)
		used[kv] = true
		if k.Name() == "UnknownType" {
			continue
		}
		ai := c3ArmSSA(c, addToFn, kv)
		if ai.trunc {
			c.Und("R3.1", "zapcore.Field.AddTo", "arm/"+k.Name(), addTo.Pos(), "path exploration of AddTo for %s incomplete", k.Name())
			continue
		}
		armOf[k.Name()] = ai
		c.Check(!ai.panics, "R3.1", "zapcore.Field.AddTo", "arm/"+k.Name(), addTo.Pos(), "FieldType %s has an AddTo arm: no path for it reaches the unknown-type panic", k.Name())
		if k.Name() != "SkipType" {
			c.Check(!ai.silent, "R3.1", "zapcore.Field.AddTo", "arm-always-delivers/"+k.Name(), addTo.Pos(), "every returning path of the %s arm hands the encoder something: no payload (a nil slice, a zero value) makes the field vanish", k.Name())
		}
		if len(byType[k.Name()]) == 0 {
			c.Bad("R3.1", "constructors", "literal/"+k.Name(), token.NoPos, "no constructor builds a Field of type %s", k.Name())
		}
	}
	// a value that is no FieldType constant (and the explicit UnknownType) panics instead of being silently dropped
	defPanics := true
	unk := int64(0)
	for used[unk] {
		unk++
	}
	probes := []int64{unk}
	for _, k := range c.ConstsOfType(CorePath, ftNamed) {
		if kv, ok := ConstObjInt(k); ok && k.Name() == "UnknownType" {
			probes = append(probes, kv)
		}
	}
	for _, pv := range probes {
		ai := c3ArmSSA(c, addToFn, pv)
		if ai.trunc || ai.nopanic || !ai.panics {
			defPanics = false
		}
	}
	c.Check(defPanics, "R3.1", "zapcore.Field.AddTo", "default-panics", addTo.Pos(), "an unknown FieldType panics instead of being silently dropped (explored with f.Type = %v)", probes)

	// per literal agreement
	names := []string{}
	for n := range byType {
		names = append(names, n)
	}
	sort.Strings(names)
	for _, tn := range names {
		arm, ok := armOf[tn]
		if !ok {
			continue
		}
		asserts := arm.asserts
		rd := arm.readList()
		for li, l := range byType[tn] {
			cname := l.pk.PkgPath + "." + l.fd.Name.Name
			slot := tn
			if li > 0 {
				slot += "#" + itoa(li+1)
			}
			linfo := l.pk.TypesInfo
			// slot agreement
			var written []string
			for s := range l.slots {
				if s != "Key" {
					written = append(written, s)
				}
			}
			sort.Strings(written)
			c.Check(strings.Join(written, ",") == strings.Join(rd, ","), "R3.1", cname, "slots/"+slot, l.lit.Pos(), "constructor writes slots {%s}; the AddTo arm for %s reads {%s}", strings.Join(written, ","), tn, strings.Join(rd, ","))
			// the stored values are the parameter itself (not a reassigned/clamped copy): SSA provenance
			c3Provenance(c, cname, slot, l)
			// Integer slot chain
			if e, ok := l.slots["Integer"]; ok {
				c3IntegerChain(c, cname, slot, l, e, arm, linfo, sizes)
			}
			if e, ok := l.slots["String"]; ok {
				pt := linfo.TypeOf(e)
				_, leaf := exprChain(linfo, e)
				isParam := isParamIdent(linfo, l.fd, leaf)
				okEnc := false
				for _, ec := range arm.calls {
					if ec.fn != nil && ec.onEnc && len(ec.args) == 2 && ec.args[1].leaf == "String" && len(ec.args[1].ops) == 0 {
						q := ec.fn.Type().(*types.Signature).Params().At(1).Type()
						okEnc = types.Identical(q, pt)
					}
				}
				c.Check(isParam && okEnc && types.Identical(pt, types.Typ[types.String]), "R3.1", cname, "string/"+slot, e.Pos(), "the parameter is stored unconverted in String and handed to an encoder method taking %s", TypeName(pt))
			}
			if e, ok := l.slots["Interface"]; ok {
				st := linfo.TypeOf(e)
				if len(asserts) == 0 {
					// payload passed on as interface{} (Reflect, Stringer)
					c.OK("R3.1", cname, "interface/"+slot, e.Pos(), "payload of static type %s is handed on unasserted", TypeName(st))
				} else {
					match := false
					var as []string
					for _, a := range asserts {
						as = append(as, TypeName(a))
						if types.Identical(a, st) {
							match = true
						}
					}
					c.Check(match, "R3.1", cname, "interface/"+slot, e.Pos(), "static type stored in Interface (%s) is the type the AddTo arm asserts (%s); a mismatch panics or yields another value at run time", TypeName(st), strings.Join(as, "|"))
				}
			}
		}
		// encoder parameter type = asserted type (Interface arms)
		for _, ec := range arm.calls {
			if ec.fn == nil || !ec.onEnc || !isInvokeOnEnc(ec) || len(ec.args) != 2 {
				continue
			}
			ops, leaf := ec.args[1].ops, ec.args[1].leaf
			if leaf == "Interface" && len(ops) == 1 && ops[0].kind == "assert" {
				q := ec.fn.Type().(*types.Signature).Params().At(1).Type()
				c.Check(types.Identical(q, ops[0].typ), "R3.1", "zapcore.Field.AddTo", "enc-param/"+tn, ec.pos, "%s takes %s, the arm passes f.Interface.(%s)", FNm(ec.fn), TypeName(q), TypeName(ops[0].typ))
			}
		}
	}
	c3Bool(c)
	c3Pointers(c)
	c3Any(c)
	c3Slices(c)
	c3Time(c)
	c3NilError(c)
	c3DeepTypes = map[string]bool{}
	c3Equals(c, byType)
	c.Rule("R3.11", "the pooled wrappers that carry a field's value to the encoder (error elements, buffers, encoders) are never touched after their release (a write into a wrapper the pool has handed on replaces another call's value)", 8)
	c8UseAfterRelease(c, "R3.11", c8ReleaseFns(c))
	c.Rule("R3.10", "payloads that Field.Equals compares with reflect.DeepEqual are never functions (DeepEqual of non-nil functions is false: such a field would not equal itself)", 6)
	c3NoFuncPayload(c, "R3.10", byType)
	c3NilPlaceholder(c)
	c.Rule("R3.9", "float payloads are unpacked as bit patterns: Float64frombits/Float32frombits of the Integer slot, no float-to-float conversion on the way", 2)
	c3FloatBits(c, "R3.9")
}

// c3NilPlaceholder: a Stringer / error payload is delivered as whatever its own String()/Error() returns; the
// "<nil>" placeholder is produced only while recovering from a panic of that call (a nil pointer whose method copes
// with a nil receiver keeps its own text), consistently across the single-value and the slice encoders.
func c3NilPlaceholder(c *Ctx) {
	c.Rule("R3.8", "the \"<nil>\" placeholder for Stringer/error payloads is produced only inside the recover handler (the value's own method is always tried first)", 1)
	var inHandler func(f *ssa.Function, depth int) bool
	inHandler = func(f *ssa.Function, depth int) bool {
		if f == nil || depth > 3 {
			return false
		}
		for _, cl := range Calls(f) {
			if CallBuiltin(cl) == "recover" {
				if f.Parent() != nil {
					return true
				}
				// a named handler: recover() only works when the function is deferred directly
				sites := sitesOf(f)
				all := len(sites) > 0
				for _, s := range sites {
					if _, isDefer := s.(*ssa.Defer); !isDefer {
						all = false
					}
				}
				if all {
					return true
				}
			}
		}
		if !Eligible(f) {
			return false
		}
		sites := sitesOf(f)
		if len(sites) == 0 {
			return false
		}
		for _, s := range sites {
			// the call itself must be conditional on a recovered panic: inside a handler closure
			if !inHandler(s.Parent(), depth+1) {
				return false
			}
		}
		return true
	}
	c.EachRootFunc(func(fn *ssa.Function) {
		if fn.Pkg == nil || (fn.Pkg.Pkg.Path() != ZapPath && fn.Pkg.Pkg.Path() != CorePath) {
			return
		}
		k := 0
		AllInstrs(fn, func(in ssa.Instruction) {
			var ops [12]*ssa.Value
			for _, op := range in.Operands(ops[:0]) {
				if op == nil || *op == nil {
					continue
				}
				if sv, ok := ConstString(*op); ok && sv == "<nil>" {
					k++
					c.Check(inHandler(fn, 0) || underRecovered(in), "R3.8", FuncKey(fn), "placeholder#"+itoa(k), in.Pos(), "the \"<nil>\" placeholder is written only while recovering from a panic of the payload's own String()/Error()")
				}
			}
		})
	})
}

// isInvokeOnEnc: the call is a method of the encoder interface (not a helper that is merely handed the encoder).
func isInvokeOnEnc(ec armCall) bool {
	sig, ok := ec.fn.Type().(*types.Signature)
	if !ok || sig.Recv() == nil {
		return false
	}
	_, isIface := types.Unalias(sig.Recv().Type()).Underlying().(*types.Interface)
	return isIface
}

func TypeNameOrEmpty(t types.Type) string {
	if t == nil {
		return ""
	}
	return "(" + TypeName(t) + ")"
}

func isParamIdent(info *types.Info, fd *ast.FuncDecl, e ast.Expr) bool {
	id, ok := ast.Unparen(e).(*ast.Ident)
	if !ok {
		return false
	}
	obj := info.Uses[id]
	if obj == nil {
		return false
	}
	for _, fl := range fd.Type.Params.List {
		for _, n := range fl.Names {
			if info.Defs[n] == obj {
				return true
			}
		}
	}
	return false
}

func c3IntegerChain(c *Ctx, cname, slot string, l fieldLit, e ast.Expr, arm *armInfo, linfo *types.Info, sizes types.Sizes) {
	if l.ftype.Name() == "BoolType" {
		return // decided on SSA by c3Bool
	}
	ops, leaf := exprChain(linfo, e)
	var P types.Type
	pack := reverseOps(ops)
	if isParamIdent(linfo, l.fd, leaf) {
		P = linfo.TypeOf(leaf)
	} else if call, ok := ast.Unparen(leaf).(*ast.CallExpr); ok && l.ftype.Name() == "TimeType" {
		// val.UnixNano(): decided by R3.5
		_ = call
		return
	} else if fn := c.Func(ZapPath, l.fd.Name.Name); fn != nil && len(fn.Params) == 2 && (l.ftype.Name() == "Float64Type" || l.ftype.Name() == "Float32Type") {
		// the bits are taken by a helper of the module: by path exploration (the helper inline), on every path the
		// Integer slot holds the IEEE bits of the parameter itself - of nothing computed from it
		bitsFn := map[string]string{"Float64Type": "Float64bits", "Float32Type": "Float32bits"}[l.ftype.Name()]
		var bad []string
		seqs, trunc := ConcPaths(fn, ConcCfg{
			InlineAny: func(h *ssa.Function) bool { return curProgRoot(h) && h.Parent() == nil },
			Event: func(in ssa.Instruction, st *ConcState) string {
				r, ok := in.(*ssa.Return)
				if !ok || len(r.Results) != 1 || len(st.cfg.stackDepth()) != 0 {
					return ""
				}
				_, _, v := st.FieldOf(r.Results[0], "Integer")
				if v == nil {
					return "ret(?)"
				}
				for k := 0; k < 8; k++ {
					switch x := v.(type) {
					case *ssa.Convert:
						v = x.X
						continue
					case *ssa.ChangeType:
						v = x.X
						continue
					}
					if nx := st.Step(v); nx != nil {
						v = nx
						continue
					}
					break
				}
				if cl, isCall := v.(*ssa.Call); isCall && IsCallTo(cl, "math."+bitsFn) {
					a := cl.Call.Args[0]
					for k := 0; k < 8; k++ {
						if nx := st.Step(a); nx != nil {
							a = nx
							continue
						}
						break
					}
					if a == ssa.Value(fn.Params[1]) {
						return "ret(bits-of-param)"
					}
					return "ret(" + bitsFn + "(" + st.Desc(a) + "))"
				}
				return "ret(" + st.Desc(v) + ")"
			},
		})
		for _, sq := range seqs {
			if sq != "ret(bits-of-param)" {
				bad = append(bad, sq)
			}
		}
		c.Check(!trunc && len(seqs) > 0 && len(bad) == 0, "R3.1", cname, "integer/"+slot, e.Pos(), "on every path (helpers inline) the Integer slot holds math.%s of the parameter itself - every bit pattern, NaN payloads and signs included, reaches the encoder: %v", bitsFn, uniqSorted(bad))
		return
	} else {
		c.Und("R3.1", cname, "integer/"+slot, e.Pos(), "Integer slot expression %s does not start from a parameter", types.ExprString(e))
		return
	}
	// unpack: the encoder call whose value argument is rooted at f.Integer
	var uops []cop
	var enc *types.Func
	for _, ec := range arm.calls {
		if ec.fn == nil || !ec.onEnc || len(ec.args) != 2 {
			continue
		}
		if ec.args[1].leaf == "Integer" {
			uops, enc = reverseOps(ec.args[1].ops), ec.fn
		}
	}
	if enc == nil {
		c.Und("R3.1", cname, "integer/"+slot, e.Pos(), "no encoder call fed from f.Integer in the %s arm", l.ftype.Name())
		return
	}
	all := append(append([]cop{}, pack...), uops...)
	final, why := lossless(sizes, P, all)
	var steps []string
	for _, o := range all {
		if o.kind == "conv" {
			steps = append(steps, TypeName(o.typ))
		} else {
			steps = append(steps, o.name)
		}
	}
	q := enc.Type().(*types.Signature).Params().At(1).Type()
	ok := why == "" && types.Identical(final, P) && types.Identical(q, P)
	if why == "" && !types.Identical(final, P) {
		why = "the value arrives as " + TypeName(final) + " instead of " + TypeName(P)
	}
	if why == "" && !types.Identical(q, P) {
		why = "encoder method " + FNm(enc) + " takes " + TypeName(q)
	}
	c.Check(ok, "R3.1", cname, "integer/"+slot, e.Pos(), "%s → [%s] → %s(%s): value-preserving for every %s on this build (int=%d bytes) %s", TypeName(P), strings.Join(steps, " → "), FNm(enc), TypeName(q), TypeName(P), sizes.Sizeof(types.Typ[types.Int]), why)
}

func c3Bool(c *Ctx) {
	fn := c.Func(ZapPath, "Bool")
	if !c.Anchor("R3.1", "zap.Bool", fn != nil) {
		return
	}
	// stored Integer is φ(0, 1) with 1 on the val edge
	ok := false
	for _, st := range FieldStoresOf(fn, c.fieldNamed()) {
		if st.Field != "Integer" {
			continue
		}
		ph, isPhi := st.Instr.Val.(*ssa.Phi)
		if !isPhi || len(ph.Edges) != 2 {
			continue
		}
		for i, e := range ph.Edges {
			v, isC := ConstInt(e)
			o, isC2 := ConstInt(ph.Edges[1-i])
			if isC && isC2 && v == 1 && o == 0 {
				// the edge carrying 1 comes from the block guarded by val
				pred := ph.Block().Preds[i]
				other := ph.Block().Preds[1-i]
				one := HasAtom(GuardsOfBlock(pred), func(s string) bool { return s == "val" }) || HasAtom(edgeAtoms(pred, ph.Block()), func(s string) bool { return s == "val" })
				zero := HasAtom(GuardsOfBlock(other), func(s string) bool { return s == "!val" }) || HasAtom(edgeAtoms(other, ph.Block()), func(s string) bool { return s == "!val" })
				if one && zero {
					ok = true
				}
			}
		}
	}
	c.Check(ok, "R3.1", FStr(fn), "integer/BoolType", fn.Pos(), "true is packed as 1 and false as 0")
	addTo := c.Method(CorePath, "Field", "AddTo")
	okU := false
	for _, cl := range CallsDeep(addTo) {
		if f := CalleeFunc(cl); f != nil && FNm(f) == "AddBool" {
			okU = Desc(Args(cl)[2]) == "(f.Integer == 1)"
		}
	}
	if !okU {
		// the arm lives in a function of its own (an entry of a table of adders): explored with the type fixed
		if k, isK := c.ConstVal(CorePath, "BoolType"); isK {
			ai := c3ArmSSA(c, addTo, k)
			for _, ec := range ai.calls {
				if ec.name != "AddBool" || !ec.onEnc || len(ec.args) != 2 {
					continue
				}
				for _, o := range ec.args[1].ops {
					if o.kind == "expr" && regexp.MustCompile(`^\(\w+\.Integer == 1\)$`).MatchString(o.name) {
						okU = !ai.trunc
					}
				}
			}
		}
	}
	c.Check(okU, "R3.1", "zapcore.Field.AddTo", "unpack/BoolType", addTo.Pos(), "the Bool arm unpacks with f.Integer == 1")
}

func edgeAtoms(pred, to *ssa.BasicBlock) []Atom {
	if len(pred.Instrs) == 0 {
		return nil
	}
	if iff, ok := pred.Instrs[len(pred.Instrs)-1].(*ssa.If); ok {
		return []Atom{{iff.Cond, pred.Succs[0] == to}}
	}
	return nil
}

func c3Pointers(c *Ctx) {
	zp := c.Pkg(ZapPath)
	sc := zp.Types.Scope()
	field := c.fieldNamed()
	for _, n := range sc.Names() {
		fo, ok := sc.Lookup(n).(*types.Func)
		if !ok || !fo.Exported() {
			continue
		}
		sig := fo.Type().(*types.Signature)
		if sig.Params().Len() != 2 || sig.Results().Len() != 1 || !types.Identical(sig.Results().At(0).Type(), field) || sig.TypeParams().Len() > 0 {
			continue
		}
		pt, isPtr := sig.Params().At(1).Type().(*types.Pointer)
		if !isPtr {
			continue
		}
		fn := c.SSA.FuncValue(fo)
		name := FStr(fn)
		val := fn.Params[1]
		var nilOK, valOK bool
		detail := ""
		// idiom 2: delegation to a shared helper  return helper(key, val, <value constructor>)
		if rs := Returns(fn); len(rs) == 1 {
			if call, isCall := Strip(RetVals(rs[0])[0]).(*ssa.Call); isCall && len(call.Call.Args) == 3 {
				h := call.Call.StaticCallee()
				var ctor *ssa.Function
				switch a := call.Call.Args[2].(type) {
				case *ssa.Function:
					ctor = a
				case *ssa.ChangeType:
					ctor, _ = a.X.(*ssa.Function)
				}
				if h != nil && ctor != nil && call.Call.Args[0] == ssa.Value(fn.Params[0]) && call.Call.Args[1] == ssa.Value(val) {
					csig := ctor.Signature
					okC := csig.Params().Len() == 2 && types.Identical(csig.Params().At(1).Type(), pt.Elem()) && FNm(ctor)+"p" == FNm(fo)
					okH := ptrHelperShape(h)
					c.Check(okC && okH, "R3.2", name, "nil-or-deref", fn.Pos(), "delegates to %s(key, val, %s): the helper returns nilField(key) exactly under nil and otherwise calls the given value constructor of %s with *val (constructor ok=%v, helper shape ok=%v)", FNm(h), FNm(ctor), TypeName(pt.Elem()), okC, okH)
					continue
				}
			}
		}
		for _, r := range Returns(fn) {
			call, isCall := Strip(RetVals(r)[0]).(*ssa.Call)
			if !isCall {
				detail += " non-call return " + Desc(RetVals(r)[0])
				continue
			}
			callee := CalleeFunc(call)
			if callee == nil {
				continue
			}
			atoms := AtomStrings(Guards(r))
			if FNm(callee) == "nilField" {
				nilOK = len(atoms) == 1 && atoms[0] == PN(val)+" == nil" && call.Call.Args[0] == ssa.Value(fn.Params[0])
				continue
			}
			csig := callee.Type().(*types.Signature)
			u, isLoad := call.Call.Args[1].(*ssa.UnOp)
			valOK = csig.Params().Len() == 2 && types.Identical(csig.Params().At(1).Type(), pt.Elem()) &&
				isLoad && u.Op == token.MUL && u.X == ssa.Value(val) && call.Call.Args[0] == ssa.Value(fn.Params[0]) &&
				FNm(callee)+"p" == FNm(fo) && len(atoms) == 1 && atoms[0] == PN(val)+" != nil"
			detail += " delegates to " + FNm(callee) + "(" + TypeName(csig.Params().At(1).Type()) + ")"
		}
		c.Check(nilOK && valOK, "R3.2", name, "nil-or-deref", fn.Pos(), "returns nilField(key) exactly under nil and otherwise the value constructor of %s applied to *val (%s)", TypeName(pt.Elem()), strings.TrimSpace(detail))
	}
	nf := c.Func(ZapPath, "nilField")
	if c.Anchor("R3.2", "zap.nilField", nf != nil) {
		for _, r := range Returns(nf) {
			c.Check(Desc(RetVals(r)[0]) == "Reflect(key, nil)", "R3.2", FStr(nf), "explicit-null", r.Pos(), "nil pointers are rendered through Reflect(key, nil), i.e. an explicit null")
		}
	}
}

func c3Any(c *Ctx) {
	fd, pk := c.DeclOf(ZapPath, "", "Any")
	if !c.Anchor("R3.3", "zap.Any", fd != nil) {
		return
	}
	info := pk.TypesInfo
	field := c.fieldNamed()
	var ts *ast.TypeSwitchStmt
	ast.Inspect(fd.Body, func(n ast.Node) bool {
		if s, ok := n.(*ast.TypeSwitchStmt); ok && ts == nil {
			ts = s
		}
		return true
	})
	// the clauses examined: those of Any's own switch, or - when Any delegates - those of the switches of the helpers it
	// calls, in the order of the calls (a helper whose switch finds nothing returns nil and Any goes on to the next: the
	// arms of all of them in that order are one switch; only the last default is the fallback)
	var clauses []ast.Stmt
	if ts != nil {
		clauses = ts.Body.List
	} else if sfn := c.Func(ZapPath, "Any"); sfn != nil {
		bySyntax := map[*types.Func]*ast.FuncDecl{}
		for _, h := range Region(sfn) {
			if hd, ok := h.Syntax().(*ast.FuncDecl); ok && h != sfn && hd.Body != nil {
				if fo, ok := h.Object().(*types.Func); ok {
					bySyntax[fo] = hd
				}
			}
		}
		var switches []*ast.TypeSwitchStmt
		seenH := map[*ast.FuncDecl]bool{}
		ast.Inspect(fd.Body, func(n ast.Node) bool {
			call, ok := n.(*ast.CallExpr)
			if !ok {
				return true
			}
			var fo *types.Func
			switch f := call.Fun.(type) {
			case *ast.Ident:
				fo, _ = info.Uses[f].(*types.Func)
			case *ast.SelectorExpr:
				fo, _ = info.Uses[f.Sel].(*types.Func)
			}
			if hd := bySyntax[fo]; hd != nil && !seenH[hd] {
				seenH[hd] = true
				ast.Inspect(hd.Body, func(m ast.Node) bool {
					if sw, ok := m.(*ast.TypeSwitchStmt); ok {
						switches = append(switches, sw)
						return false
					}
					return true
				})
			}
			return true
		})
		for i, sw := range switches {
			if ts == nil {
				ts = sw
			}
			for _, st := range sw.Body.List {
				cc := st.(*ast.CaseClause)
				if cc.List == nil && i+1 < len(switches) {
					// an intermediate default must find nothing (return nil / nothing at all), or the later switches never run
					finds := false
					ast.Inspect(cc, func(m ast.Node) bool {
						switch m.(type) {
						case *ast.CallExpr, *ast.CompositeLit:
							finds = true
						}
						return true
					})
					c.Check(!finds, "R3.3", "go.uber.org/zap.Any", "intermediate-default", cc.Pos(), "the default of a switch that is not the last one finds nothing")
					continue
				}
				clauses = append(clauses, st)
			}
		}
	}
	if ts == nil {
		c.Und("R3.3", "go.uber.org/zap.Any", "typeswitch", fd.Pos(), "no type switch")
		return
	}
	type armT struct {
		t    types.Type
		ctor *types.Func
		pos  token.Pos
	}
	var armsT []armT
	hasDefault := false
	for _, s := range clauses {
		cc := s.(*ast.CaseClause)
		// body: c = anyFieldC[Y](F)
		var inst types.Type
		var ctor *types.Func
		// body: c = <an anyFieldC[Y] value built from the constructor F> - a conversion anyFieldC[Y](F), a literal
		// anyFieldC[Y]{F} or anyFieldC[Y]{field: F}
		ast.Inspect(cc, func(n ast.Node) bool {
			e, ok := n.(ast.Expr)
			if !ok || inst != nil {
				return true
			}
			switch e.(type) {
			case *ast.CallExpr, *ast.CompositeLit:
			default:
				return true
			}
			tv, has := info.Types[e]
			if !has || tv.Type == nil {
				return true
			}
			nt, ok := types.Unalias(tv.Type).(*types.Named)
			if !ok || TNm(nt.Origin().Obj()) != "anyFieldC" || nt.TypeArgs().Len() != 1 {
				return true
			}
			inst = nt.TypeArgs().At(0)
			ast.Inspect(e, func(m ast.Node) bool {
				if ctor != nil {
					return false
				}
				switch a := m.(type) {
				case *ast.Ident:
					if f, ok := info.Uses[a].(*types.Func); ok {
						ctor = f
					}
				case *ast.SelectorExpr:
					if f, ok := info.Uses[a.Sel].(*types.Func); ok {
						ctor = f
						return false
					}
				}
				return true
			})
			return false
		})
		if cc.List == nil {
			hasDefault = true
			okd := inst != nil && ctor != nil && FNm(ctor) == "Reflect" && types.Identical(inst, types.Universe.Lookup("any").Type())
			c.Check(okd, "R3.3", "go.uber.org/zap.Any", "default-reflect", cc.Pos(), "every other type falls back to Reflect")
			continue
		}
		for _, te := range cc.List {
			X := info.TypeOf(te)
			slot := TypeName(X)
			if inst == nil || ctor == nil {
				c.Und("R3.3", "go.uber.org/zap.Any", "arm/"+slot, cc.Pos(), "arm body is not c = anyFieldC[T](F)")
				continue
			}
			sig := ctor.Type().(*types.Signature)
			okT := types.Identical(X, inst)
			okF := sig.Params().Len() == 2 && types.Identical(sig.Params().At(1).Type(), X) && types.Identical(sig.Results().At(0).Type(), field)
			c.Check(okT && okF, "R3.3", "go.uber.org/zap.Any", "arm/"+slot, cc.Pos(), "case %s asserts %s (a different type would silently yield the zero value) and calls %s whose value parameter is %s", slot, TypeName(inst), FNm(ctor), TypeName(sig.Params().At(1).Type()))
			armsT = append(armsT, armT{X, ctor, cc.Pos()})
		}
	}
	c.Check(hasDefault, "R3.3", "go.uber.org/zap.Any", "has-default", ts.Pos(), "the type switch has a default arm")
	// documented choice among constructors sharing a parameter type
	choice := map[string]string{"[]byte": "Binary", "string": "String", "error": "NamedError", "fmt.Stringer": "Stringer", "zapcore.ObjectMarshaler": "Object", "zapcore.ArrayMarshaler": "Array", "[]zapcore.Field": "dictField"}
	for _, a := range armsT {
		if w, ok := choice[TypeName(a.t)]; ok {
			c.Check(FNm(a.ctor) == w, "R3.3", "go.uber.org/zap.Any", "choice/"+TypeName(a.t), a.pos, "%s is represented by %s (documented choice %s)", TypeName(a.t), FNm(a.ctor), w)
		}
	}
	// shadowing
	for i, a := range armsT {
		for j := 0; j < i; j++ {
			b := armsT[j]
			ib, isIface := b.t.Underlying().(*types.Interface)
			if !isIface {
				continue
			}
			if types.Implements(a.t, ib) && !types.Identical(a.t, b.t) {
				c.Bad("R3.3", "go.uber.org/zap.Any", "shadow/"+TypeName(a.t), a.pos, "arm %s can never be chosen: every such value already matches the earlier interface arm %s", TypeName(a.t), TypeName(b.t))
			}
		}
	}
	c.OK("R3.3", "go.uber.org/zap.Any", "no-shadowing", ts.Pos(), "no concrete or interface arm is subsumed by an earlier interface arm (%d arms compared pairwise)", len(armsT))
	// interface arm order: structured marshalers before error before Stringer
	order := []string{"zapcore.ObjectMarshaler", "zapcore.ArrayMarshaler", "error", "fmt.Stringer"}
	idx := map[string]int{}
	for i, a := range armsT {
		idx[TypeName(a.t)] = i + 1
	}
	okOrder := true
	for i := 0; i+1 < len(order); i++ {
		if idx[order[i]] == 0 || idx[order[i+1]] == 0 || idx[order[i]] > idx[order[i+1]] {
			okOrder = false
		}
	}
	// interface arms must also precede... concrete arms are disjoint from each other, so only the relative order of interface arms matters
	c.Check(okOrder, "R3.3", "go.uber.org/zap.Any", "interface-order", ts.Pos(), "a value implementing several of the supported interfaces is represented structurally first: ObjectMarshaler ≺ ArrayMarshaler ≺ error ≺ fmt.Stringer (positions %v)", idx2(order, idx))
	// coverage: every exported constructor func(string, T) Field with a concrete non-generic T
	except := map[string]string{
		"ByteString": "[]byte is documented to mean Binary", "Reflect": "the fallback itself", "Any": "itself",
		"Stack": "takes no value", "StackSkip": "takes a skip count, not a value", "Namespace": "takes no value",
		"Object": "interface arm", "Array": "interface arm", "Stringer": "interface arm", "NamedError": "interface arm", "Dict": "variadic; covered by []Field",
		"ByteStrings": "[][]byte has no Any arm (documented: falls back to reflection)",
	}
	haveT := func(T types.Type) bool {
		for _, a := range armsT {
			if types.Identical(a.t, T) {
				return true
			}
		}
		return false
	}
	sc := c.Pkg(ZapPath).Types.Scope()
	for _, n := range sc.Names() {
		fo, ok := sc.Lookup(n).(*types.Func)
		if !ok || !fo.Exported() {
			continue
		}
		sig := fo.Type().(*types.Signature)
		if sig.TypeParams().Len() > 0 || sig.Variadic() || sig.Params().Len() != 2 || sig.Results().Len() != 1 || !types.Identical(sig.Results().At(0).Type(), field) {
			continue
		}
		if !types.Identical(sig.Params().At(0).Type(), types.Typ[types.String]) {
			continue
		}
		if why, ok := except[FNm(fo)]; ok {
			c.Triv("R3.3", "go.uber.org/zap.Any", "coverage/"+FNm(fo), fo.Pos(), "exempt: %s", why)
			continue
		}
		T := sig.Params().At(1).Type()
		c.Check(haveT(T), "R3.3", "go.uber.org/zap.Any", "coverage/"+FNm(fo), fo.Pos(), "constructor %s(%s) has a matching Any arm", FNm(fo), TypeName(T))
	}
	// anyFieldC.Any asserts T and calls f
	af := c.Named(ZapPath, "anyFieldC")
	if c.Anchor("R3.3", "zap.anyFieldC", af != nil) {
		afd, apk := c.DeclOf(ZapPath, "anyFieldC", "Any")
		ok := false
		if afd != nil && afd.Recv != nil && len(afd.Recv.List) == 1 && len(afd.Recv.List[0].Names) == 1 && len(afd.Type.Params.List) >= 1 {
			// the returned call passes (key, <val asserted to T>) to the constructor the receiver carries (the receiver
			// itself when it is a function type, or a function-valued field of it)
			recvName := afd.Recv.List[0].Names[0].Name
			var params []string
			for _, f := range afd.Type.Params.List {
				for _, n := range f.Names {
					params = append(params, n.Name)
				}
			}
			assertOK := false
			asserted := map[string]bool{}
			ast.Inspect(afd.Body, func(n ast.Node) bool {
				if as, ok := n.(*ast.AssignStmt); ok && len(as.Rhs) == 1 {
					if ta, ok := ast.Unparen(as.Rhs[0]).(*ast.TypeAssertExpr); ok && ta.Type != nil && len(params) == 2 &&
						types.ExprString(ta.Type) == "T" && types.ExprString(ta.X) == params[1] {
						assertOK = true
						if id, ok := as.Lhs[0].(*ast.Ident); ok {
							asserted[id.Name] = true
						}
					}
				}
				return true
			})
			if rs, isRet := afd.Body.List[len(afd.Body.List)-1].(*ast.ReturnStmt); isRet && len(rs.Results) == 1 && assertOK && len(params) == 2 {
				if call, isCall := ast.Unparen(rs.Results[0]).(*ast.CallExpr); isCall && len(call.Args) == 2 {
					fun := types.ExprString(call.Fun)
					a0, a1 := types.ExprString(call.Args[0]), types.ExprString(call.Args[1])
					ok = (fun == recvName || strings.HasPrefix(fun, recvName+".")) && a0 == params[0] && asserted[a1]
				}
			}
			_ = apk
		}
		c.Check(ok, "R3.3", "go.uber.org/zap.anyFieldC.Any", "assert-and-call", posOf(afd), "the adapter asserts the value to T and calls the constructor with the same key")
		// ... and on every path on which the value IS a T, what Any returns is that constructor's field (a nil pointer
		// that implements a marshaler interface is still handed to the interface's constructor): by path exploration
		if afn := c.Method(ZapPath, "anyFieldC", "Any"); c.Anchor("R3.3", "zap.anyFieldC.Any (SSA)", afn != nil && len(afn.Params) == 3) {
			recv, key, val := afn.Params[0], afn.Params[1], afn.Params[2]
			resolve := func(st *ConcState, v ssa.Value) ssa.Value {
				for k := 0; k < 12; k++ {
					if ct, ok := v.(*ssa.ChangeType); ok {
						v = ct.X
						continue
					}
					nx := st.Step(v)
					if nx == nil {
						break
					}
					v = nx
				}
				return v
			}
			seqs, trunc := ConcPaths(afn, ConcCfg{
				Event: func(in ssa.Instruction, st *ConcState) string {
					r, isR := in.(*ssa.Return)
					if !isR || len(r.Results) != 1 {
						return ""
					}
					cl, isCall := resolve(st, r.Results[0]).(*ssa.Call)
					if !isCall || cl.Call.IsInvoke() || cl.Call.StaticCallee() != nil || len(cl.Call.Args) != 2 {
						return "ret-other(" + st.Desc(r.Results[0]) + ")"
					}
					fv := resolve(st, cl.Call.Value)
					// the constructor the receiver carries: the receiver itself, or a field of it
					switch y := fv.(type) {
					case *ssa.Field:
						fv = resolve(st, y.X)
					case *ssa.UnOp:
						if fa, isFA := y.X.(*ssa.FieldAddr); isFA {
							fv = resolve(st, fa.X)
							if a, isA := fv.(*ssa.Alloc); isA && a.Referrers() != nil {
								// the receiver spilled into a local
								for _, r := range *a.Referrers() {
									if sto, isSt := r.(*ssa.Store); isSt && sto.Addr == ssa.Value(a) && sto.Val == ssa.Value(recv) {
										fv = recv
									}
								}
							}
						}
					}
					a1 := resolve(st, cl.Call.Args[1])
					okArg := false
					switch y := a1.(type) {
					case *ssa.Extract:
						if ta, isTA := y.Tuple.(*ssa.TypeAssert); isTA && y.Index == 0 && resolve(st, ta.X) == ssa.Value(val) {
							okArg = true
						}
					case *ssa.TypeAssert:
						okArg = resolve(st, y.X) == ssa.Value(val)
					}
					if fv == ssa.Value(recv) && resolve(st, cl.Call.Args[0]) == ssa.Value(key) && okArg {
						return "ret-ctor"
					}
					return "ret-other(" + st.Desc(r.Results[0]) + ")"
				},
				Branch: func(cond ssa.Value, taken bool, st *ConcState) string {
					pol := taken
					for k := 0; k < 8; k++ {
						if u, ok := cond.(*ssa.UnOp); ok && u.Op == token.NOT {
							cond, pol = u.X, !pol
							continue
						}
						if nx := st.Step(cond); nx != nil {
							cond = nx
							continue
						}
						break
					}
					if ex, ok := cond.(*ssa.Extract); ok && ex.Index == 1 {
						if ta, isTA := ex.Tuple.(*ssa.TypeAssert); isTA && resolve(st, ta.X) == ssa.Value(val) {
							if pol {
								return "is-T"
							}
							return "not-T"
						}
					}
					return ""
				},
			})
			var bad []string
			nCtor := 0
			for _, sq := range seqs {
				if strings.HasSuffix(sq, "ret-ctor") {
					nCtor++
					continue
				}
				if !strings.Contains(sq, "not-T") {
					bad = append(bad, sq)
				}
			}
			c.Check(!trunc && nCtor > 0 && len(bad) == 0, "R3.3", FStr(afn), "value-of-T-reaches-constructor", afn.Pos(), "on every path of the adapter on which the value is a T (every path that did not establish the opposite) the result is the typed constructor's field for (key, value) - %d paths, offending: %v", len(seqs), bad)
		}
	}
}

func idx2(order []string, idx map[string]int) []string {
	var s []string
	for _, o := range order {
		s = append(s, fmt.Sprintf("%s@%d", o, idx[o]))
	}
	return s
}

// c3ObjectElems: the generic object-array wrappers hand the encoder the caller's own elements: Objects the element
// itself, ObjectValues the address of the element inside the caller's slice (not of a copy: a marshaler with a pointer
// receiver sees - and may lock or update - the original); every element is visited, and the first error is returned.
func c3ObjectElems(c *Ctx, fn *ssa.Function, byAddr bool) {
	name := FStr(fn)
	if fn.Origin() != nil && fn.Origin() != fn {
		return // decided once, on the generic body
	}
	recv := fn.Params[0]
	isApp := func(cl ssa.CallInstruction) bool {
		return cl.Common().IsInvoke() && FNm(cl.Common().Method) == "AppendObject"
	}
	var app *ssa.Call
	n := 0
	for _, cl := range CallsDeep(fn) {
		if isApp(cl) {
			app, _ = cl.(*ssa.Call)
			n++
		}
	}
	if n == 0 || app != nil && app.Parent() != fn {
		if c3ObjectElemsViaHelper(c, fn, byAddr, isApp) {
			return
		}
	}
	if n != 1 || app == nil {
		c.Bad("R3.4", name, "append", fn.Pos(), "expected exactly one AppendObject call per element, found %d", n)
		return
	}
	v := app.Call.Args[0]
	for k := 0; k < 6; k++ {
		switch x := v.(type) {
		case *ssa.MakeInterface:
			v = x.X
			continue
		case *ssa.ChangeType:
			v = x.X
			continue
		case *ssa.ChangeInterface:
			v = x.X
			continue
		}
		break
	}
	ok := false
	what := "the element itself"
	if byAddr {
		what = "the address of the element in the caller's slice"
		ia, isIA := v.(*ssa.IndexAddr)
		ok = isIA && Strip(ia.X) == ssa.Value(recv)
	} else {
		if ld, isLd := v.(*ssa.UnOp); isLd && ld.Op == token.MUL {
			ia, isIA := ld.X.(*ssa.IndexAddr)
			ok = isIA && Strip(ia.X) == ssa.Value(recv)
		}
	}
	// every element, unless an element's error ends the loop (the returns are decided below: nil, or that error)
	visits, over, why := LoopVisitsAll(app.Parent(), app)
	if !visits && strings.Contains(why, "early return") && app.Parent() == fn {
		visits, why = true, ""
	}
	c.Check(ok && visits && over == PN(recv), "R3.4", name, "every-element-itself", app.Pos(), "AppendObject receives %s (%s), for every element of %s until one fails %s", what, Desc(app.Call.Args[0]), over, why)
	for k, r := range Returns(fn) {
		rv := RetVals(r)[0]
		c.Check(IsNilConst(Strip(rv)) || Strip(rv) == ssa.Value(app), "R3.4", name, "return#"+itoa(k+1), r.Pos(), "returns nil or the error just received (%s)", Desc(rv))
	}
}

// c3ObjectElemsViaHelper: the same delivery through a counting helper: fn hands a (generic) helper of the module the
// number of elements - len of the receiver - and an accessor literal; the helper calls AppendObject(at(i)) for i from 0
// up to that number, leaving only by returning an element's error; the accessor yields element i of the receiver
// (ObjectValues: its address). Reports the obligations itself; false when the code does not have this shape.
func c3ObjectElemsViaHelper(c *Ctx, fn *ssa.Function, byAddr bool, isApp func(ssa.CallInstruction) bool) bool {
	name := FStr(fn)
	recv := fn.Params[0]
	strip := func(v ssa.Value) ssa.Value {
		for k := 0; k < 6; k++ {
			switch x := v.(type) {
			case *ssa.MakeInterface:
				v = x.X
				continue
			case *ssa.ChangeType:
				v = x.X
				continue
			case *ssa.ChangeInterface:
				v = x.X
				continue
			}
			break
		}
		return v
	}
	for _, cl := range Calls(fn) {
		site, isCall := cl.(*ssa.Call)
		h := loopHelperOf(cl)
		if !isCall || h == nil {
			continue
		}
		var app *ssa.Call
		na := 0
		for _, hc := range Calls(h) {
			if isApp(hc) {
				app, _ = hc.(*ssa.Call)
				na++
			}
		}
		if na != 1 || app == nil {
			continue
		}
		// AppendObject(at(i)): at is a parameter of the helper, i the loop counter
		get, isGet := strip(app.Call.Args[0]).(*ssa.Call)
		if !isGet || len(get.Call.Args) != 1 {
			continue
		}
		atParam, isP := get.Call.Value.(*ssa.Parameter)
		if !isP || atParam.Parent() != h {
			continue
		}
		ai, ni := -1, -1
		for i, q := range h.Params {
			if q == atParam {
				ai = i
			}
		}
		// the loop: counter from 0, compared with a parameter of the helper, left early only by returning the error
		hd := LoopHeader(app.Block())
		okLoop := false
		why := "AppendObject is not in a counting loop"
		if hd != nil {
			if iff, isIf := hd.Instrs[len(hd.Instrs)-1].(*ssa.If); isIf {
				if bo, isBO := iff.Cond.(*ssa.BinOp); isBO && bo.Op == token.LSS && Strip(bo.X) == Strip(get.Call.Args[0]) {
					if np, isNP := Strip(bo.Y).(*ssa.Parameter); isNP && np.Parent() == h {
						for i, q := range h.Params {
							if q == np {
								ni = i
							}
						}
						if phi, isPhi := Strip(bo.X).(*ssa.Phi); isPhi && len(phi.Edges) == 2 {
							zero, step := false, false
							for _, e := range phi.Edges {
								if k, isC := ConstInt(e); isC && k == 0 {
									zero = true
								}
								if inc, isInc := e.(*ssa.BinOp); isInc && inc.Op == token.ADD && inc.X == ssa.Value(phi) {
									if k, isC := ConstInt(inc.Y); isC && k == 1 {
										step = true
									}
								}
							}
							okLoop = zero && step
							why = ""
						}
					}
				}
			}
		}
		if ai < 0 || ni < 0 || !okLoop || ai >= len(site.Call.Args) || ni >= len(site.Call.Args) {
			continue
		}
		for k, r := range Returns(h) {
			rv := RetVals(r)[0]
			c.Check(IsNilConst(Strip(rv)) || Strip(rv) == ssa.Value(app), "R3.4", name, "helper-return#"+itoa(k+1), r.Pos(), "the helper returns nil or the error just received (%s)", Desc(rv))
		}
		// the call site: the count is len(receiver), the accessor yields element i (or its address)
		cnt := Desc(site.Call.Args[ni]) == "len("+PN(recv)+")"
		okAt := false
		what := "element i itself"
		if byAddr {
			what = "the address of element i in the caller's slice"
		}
		got := Desc(site.Call.Args[ai])
		if mk, isMk := site.Call.Args[ai].(*ssa.MakeClosure); isMk {
			g, _ := mk.Fn.(*ssa.Function)
			if g != nil && len(g.Params) == 1 && len(Returns(g)) == 1 {
				rv := strip(RetVals(Returns(g)[0])[0])
				got = Desc(rv)
				var ia *ssa.IndexAddr
				if byAddr {
					ia, _ = rv.(*ssa.IndexAddr)
				} else if ld, isLd := rv.(*ssa.UnOp); isLd && ld.Op == token.MUL {
					ia, _ = ld.X.(*ssa.IndexAddr)
				}
				okAt = ia != nil && Desc(ia.X) == PN(recv) && Strip(ia.Index) == ssa.Value(g.Params[0])
			}
		}
		for k, r := range Returns(fn) {
			rv := RetVals(r)[0]
			c.Check(IsNilConst(Strip(rv)) || Strip(rv) == ssa.Value(site), "R3.4", name, "return#"+itoa(k+1), r.Pos(), "returns nil or what the helper returned (%s)", Desc(rv))
		}
		c.Check(cnt && okAt, "R3.4", name, "every-element-itself", site.Pos(), "through %s: AppendObject receives %s (accessor yields %s) for i = 0 … len(%s)-1 (count handed over: %s) until one fails %s", FNm(h), what, got, PN(recv), Desc(site.Call.Args[ni]), why)
		return true
	}
	return false
}

func c3Slices(c *Ctx) {
	arrEnc := c.Named(CorePath, "ArrayEncoder")
	if !c.Anchor("R3.4", "zapcore.ArrayEncoder", arrEnc != nil) {
		return
	}
	exempt := map[string]string{
		"errArray":     "nil elements are skipped and each error is wrapped in a pooled object (R2.7/C10)",
		"objects":      "generic: elements are ObjectMarshalers appended through AppendObject, errors returned",
		"objectValues": "generic: pointer-receiver marshalers, errors returned",
		"stringers":    "generic: elements rendered through String() under recover (C10)",
		"invalidPairs": "sugar diagnostics, not a user value (C14)",
		"dictObject":   "not an array",
	}
	n := 0
	for _, pkgPath := range []string{ZapPath, "go.uber.org/zap/exp/zapfield"} {
		for _, fn := range c.MethodsNamed("MarshalLogArray", nil) {
			if fn.Pkg == nil || fn.Pkg.Pkg.Path() != pkgPath {
				continue
			}
			rn := RecvNamed(fn)
			if rn == nil {
				continue
			}
			name := FStr(fn)
			if on := TNm(rn.Obj()); on == "objects" || on == "objectValues" {
				c3ObjectElems(c, fn, on == "objectValues")
				continue
			}
			if why, ok := exempt[TNm(rn.Obj())]; ok {
				c.Triv("R3.4", name, "exempt", fn.Pos(), "decided elsewhere: %s", why)
				continue
			}
			n++
			sl, isSlice := rn.Underlying().(*types.Slice)
			if !isSlice {
				c.Und("R3.4", name, "slice", fn.Pos(), "receiver is not a slice type")
				continue
			}
			elem := sl.Elem()
			isApp := func(cl ssa.CallInstruction) bool {
				return cl.Common().IsInvoke() && strings.HasPrefix(FNm(cl.Common().Method), "Append")
			}
			// the one Append call: in the method, in a function literal of it, or in the function (a method
			// expression, say) it hands to the helper that owns the loop
			var app *ssa.Call
			var appFn *ssa.Function
			cnt := 0
			for _, cl := range CallsDeep(fn) {
				if isApp(cl) {
					app, _ = cl.(*ssa.Call)
					appFn = cl.Parent()
					cnt++
				}
			}
			for _, cl := range Calls(fn) {
				for _, a := range Args(cl) {
					var g *ssa.Function
					switch x := Strip(a).(type) {
					case *ssa.Function:
						if x.Synthetic != "" {
							g = x
						}
					case *ssa.MakeClosure:
						g, _ = x.Fn.(*ssa.Function)
					}
					if g != nil {
						for _, gc := range Calls(g) {
							if isApp(gc) {
								app, _ = gc.(*ssa.Call)
								appFn = g
								cnt++
							}
						}
					}
				}
			}
			if cnt != 1 || app == nil {
				c.Bad("R3.4", name, "append", fn.Pos(), "expected exactly one Append call per element, found %d", cnt)
				continue
			}
			q := app.Call.Method.Type().(*types.Signature).Params().At(0).Type()
			recvN := PN(fn.Params[0])
			// unconverted(v, f, base): v is an element of base - base[i] - or a value-preserving conversion of one
			unconverted := func(arg ssa.Value, base string) bool {
				d := Desc(arg)
				direct := strings.HasPrefix(d, base+"[") && !strings.Contains(d, "conv[")
				// generic ~string element: a string(x) conversion to the identical underlying type is value preserving
				if cv, ok := arg.(*ssa.Convert); ok && types.Identical(cv.X.Type().Underlying(), cv.Type().Underlying()) {
					direct = strings.HasPrefix(Desc(cv.X), base+"[")
				}
				if ct, ok := arg.(*ssa.ChangeType); ok {
					direct = strings.HasPrefix(Desc(ct.X), base+"[")
				}
				return direct
			}
			arg := app.Call.Args[0]
			d := Desc(arg)
			visits, why, loopCall, loopFn := VisitsAll(fn, isApp, fn.Params[0])
			direct, over := false, recvN
			if visits && loopFn == fn && loopCall == app {
				direct = unconverted(arg, recvN)
			} else if visits && loopCall != nil && loopFn != nil && loopFn != appFn {
				// the loop is a helper's: it hands its elements, unconverted, to the function it was given, and that
				// function hands its own parameter, unconverted, to the Append method
				_, ov, _ := LoopVisitsAll(loopFn, loopCall)
				largs := loopCall.Call.Args
				if len(largs) > 0 && len(appFn.Params) > 0 {
					last := appFn.Params[len(appFn.Params)-1]
					inner := Strip(arg) == ssa.Value(last)
					if cv, ok := arg.(*ssa.Convert); ok && types.Identical(cv.X.Type().Underlying(), cv.Type().Underlying()) {
						inner = Strip(cv.X) == ssa.Value(last)
					}
					if ct, ok := arg.(*ssa.ChangeType); ok {
						inner = Strip(ct.X) == ssa.Value(last)
					}
					direct = inner && unconverted(largs[len(largs)-1], ov)
					d = Desc(largs[len(largs)-1]) + " → " + d
				}
			} else if !visits {
				// (reported below with the reason)
				_, over, _ = LoopVisitsAll(fn, app)
				direct = unconverted(arg, recvN)
			}
			okT := types.Identical(q, elem) || types.Identical(q.Underlying(), coreType(elem))
			c.Check(direct && okT && visits && over == recvN, "R3.4", name, "every-element-unconverted", app.Pos(), "%s(%s) is called for every element of the receiver (elements of type %s, argument %s) %s", FNm(app.Call.Method), TypeName(q), TypeName(elem), d, why)
			// returns nil (or the error just received)
			for k, r := range Returns(fn) {
				v := RetVals(r)[0]
				c.Check(IsNilConst(Strip(v)) || Strip(v) == ssa.Value(app), "R3.4", name, "return#"+itoa(k+1), r.Pos(), "returns nil or the error just received (%s)", Desc(v))
			}
		}
	}
	// constructors: Xs(key, v) = Array(key, xs(v)) with a no-copy conversion of the parameter
	field := c.fieldNamed()
	sc := c.Pkg(ZapPath).Types.Scope()
	for _, nme := range sc.Names() {
		fo, ok := sc.Lookup(nme).(*types.Func)
		if !ok || !fo.Exported() {
			continue
		}
		sig := fo.Type().(*types.Signature)
		if sig.Params().Len() != 2 || sig.Results().Len() != 1 || !types.Identical(sig.Results().At(0).Type(), field) {
			continue
		}
		if _, isSlice := sig.Params().At(1).Type().Underlying().(*types.Slice); !isSlice {
			continue
		}
		if sig.TypeParams().Len() > 0 || sig.Variadic() || FNm(fo) == "Binary" || FNm(fo) == "ByteString" {
			continue
		}
		fn := c.SSA.FuncValue(fo)
		// wraps(f, key, vals): every return of f is Array(key, <named slice type>(vals)), directly or through a
		// (generic) helper of the module that is handed key and vals and does just that
		var wraps func(f *ssa.Function, v ssa.Value, key, vals ssa.Value, d int) bool
		wraps = func(f *ssa.Function, v ssa.Value, key, vals ssa.Value, d int) bool {
			call, isCall := Strip(v).(*ssa.Call)
			if !isCall || d > 2 {
				return false
			}
			if IsCallTo(call, "go.uber.org/zap.Array") {
				if call.Call.Args[0] != key {
					return false
				}
				mi, isMI := call.Call.Args[1].(*ssa.MakeInterface)
				if !isMI {
					return false
				}
				ct, isCT := mi.X.(*ssa.ChangeType)
				return isCT && ct.X == vals
			}
			h := call.Call.StaticCallee()
			if h == nil || len(h.Blocks) == 0 || !curProgRoot(h) || len(h.Params) != 2 || len(call.Call.Args) != 2 || call.Call.Args[0] != key || call.Call.Args[1] != vals {
				return false
			}
			n := 0
			for _, hr := range Returns(h) {
				if !wraps(h, RetVals(hr)[0], h.Params[0], h.Params[1], d+1) {
					return false
				}
				n++
			}
			return n > 0
		}
		for k, r := range Returns(fn) {
			ok := wraps(fn, RetVals(r)[0], fn.Params[0], fn.Params[1], 0)
			c.Check(ok, "R3.4", FStr(fn), "wraps-parameter#"+itoa(k+1), r.Pos(), "returns Array(key, <named slice type>(param)): the slice itself, no copy, no element conversion (%s)", Desc(RetVals(r)[0]))
		}
	}
	if n < 20 {
		c.Bad("R3.4", "array wrappers", "count", token.NoPos, "only %d slice wrappers found", n)
	}
}

func c3Time(c *Ctx) {
	fn := c.Func(ZapPath, "Time")
	if !c.Anchor("R3.5", "zap.Time", fn != nil) {
		return
	}
	name := FStr(fn)
	field := c.fieldNamed()
	tt, _ := c.ConstVal(CorePath, "TimeType")
	tf, _ := c.ConstVal(CorePath, "TimeFullType")
	_ = field
	// Path exploration: which form is returned after which outcome of the two range tests
	vn := PN(fn.Params[1])
	sawBounds := map[string]bool{}
	seqs, trunc := ConcPaths(fn, ConcCfg{
		Event: func(in ssa.Instruction, st *ConcState) string {
			r, ok := in.(*ssa.Return)
			if !ok {
				return ""
			}
			k, isInt, _ := st.FieldOf(r.Results[0], "Type")
			typ := "?"
			if isInt {
				typ = itoa(int(k))
			}
			render := func(f string) string {
				n, isI, v := st.FieldOf(r.Results[0], f)
				switch {
				case isI:
					return itoa(int(n))
				case v != nil:
					return st.Desc(v)
				}
				return "-"
			}
			return "ret(type=" + typ + ",int=" + render("Integer") + ",iface=" + render("Interface") + ")"
		},
		Branch: func(cond ssa.Value, taken bool, st *ConcState) string {
			pol := taken
			for k := 0; k < 8; k++ {
				if u, ok := cond.(*ssa.UnOp); ok && u.Op == token.NOT {
					cond, pol = u.X, !pol
					continue
				}
				if nx := st.Step(cond); nx != nil {
					cond = nx
					continue
				}
				break
			}
			d := st.Desc(cond)
			tf := func(n string) string {
				if pol {
					return n + "=T"
				}
				return n + "=F"
			}
			// val.Before(<the earliest instant UnixNano can represent>) / val.After(<the latest>): the bound is
			// whatever package-level variable (or field of one) the initialiser sets to time.Unix(0, MinInt64/MaxInt64)
			if cl, isCall := cond.(*ssa.Call); isCall && len(cl.Call.Args) == 2 && st.Desc(cl.Call.Args[0]) == vn {
				bound := c3GlobalInit(c, st, cl.Call.Args[1])
				switch {
				case IsCallTo(cl, "(time.Time).Before") && bound == "Unix(0, -9223372036854775808)":
					sawBounds["min"] = true
					return tf("before")
				case IsCallTo(cl, "(time.Time).After") && bound == "Unix(0, 9223372036854775807)":
					sawBounds["max"] = true
					return tf("after")
				}
				return "cond(" + d + " with bound " + bound + ")"
			}
			return "cond(" + d + ")"
		},
	})
	var bad []string
	sawT, sawF := false, false
	for _, sq := range seqs {
		ev := strings.Split(sq, " ; ")
		out := false
		inRangeKnown := 0
		ret := ""
		for _, e := range ev {
			switch e {
			case "before=T", "after=T":
				out = true
			case "before=F", "after=F":
				inRangeKnown++
			default:
				if strings.HasPrefix(e, "ret(") {
					ret = e
				} else {
					bad = append(bad, sq)
				}
			}
		}
		wantIn := "ret(type=" + itoa(int(tt)) + ",int=UnixNano(" + vn + "),iface=Location(" + vn + "))"
		wantOut := "ret(type=" + itoa(int(tf)) + ",int=0,iface=" + vn + ")"
		wantOut2 := "ret(type=" + itoa(int(tf)) + ",int=-,iface=" + vn + ")"
		switch {
		case out:
			sawF = true
			if ret != wantOut && ret != wantOut2 {
				bad = append(bad, sq)
			}
		case inRangeKnown == 2:
			sawT = true
			if ret != wantIn {
				bad = append(bad, sq)
			}
		default:
			bad = append(bad, sq)
		}
	}
	c.Check(!trunc && len(bad) == 0 && sawT && sawF, "R3.5", name, "nanos-only-in-range", fn.Pos(), "over all %d paths of zap.Time: the int64-nanosecond form (TimeType, UnixNano, Location) is returned exactly after both range tests (before _minTimeInt64, after _maxTimeInt64) came out false; otherwise the time is carried whole (TimeFullType, Interface = the value): %v", len(seqs), bad)
	c.Check(sawBounds["min"] && sawBounds["max"], "R3.5", "go.uber.org/zap._minTimeInt64/_maxTimeInt64", "bounds", fn.Pos(), "the range tests compare with time.Unix(0, math.MinInt64) and time.Unix(0, math.MaxInt64), as set by the package initialiser (%v)", sawBounds)
	// AddTo rebuild
	addTo := c.Method(CorePath, "Field", "AddTo")
	nT := 0
	scanTime := func(calls []ssa.CallInstruction, f0 string) {
		for _, cl := range calls {
			if f := CalleeFunc(cl); f != nil && FNm(f) == "AddTime" {
				for _, alt := range valueAlternatives(Args(cl)[2], cl.Block()) {
					d := alt.desc
					conds := append(append([]string{}, alt.conds...), AtomStrings(Guards(cl))...)
					switch {
					case d == "In(Unix(0, "+f0+".Integer), "+f0+".Interface.(*time.Location))":
						nT++
						c.Check(containsS(conds, f0+".Interface != nil"), "R3.5", "zapcore.Field.AddTo", "rebuild-with-location", cl.Pos(), "TimeType is rebuilt as time.Unix(0, n).In(loc) when a location is present")
					case d == "Unix(0, "+f0+".Integer)":
						nT++
						c.OK("R3.5", "zapcore.Field.AddTo", "rebuild-without-location", cl.Pos(), "TimeType without location is rebuilt as time.Unix(0, n)")
					case d == f0+".Interface.(time.Time)":
					default:
						c.Bad("R3.5", "zapcore.Field.AddTo", "rebuild", cl.Pos(), "unexpected time reconstruction %s", d)
					}
				}
			}
		}
	}
	scanTime(CallsDeep(addTo), "f")
	if nT == 0 {
		// the arms live in functions of their own (a package-level table of adders AddTo indexes by the field type):
		// the function literals of the package initialiser that take a Field
		if ini := c.SSAPkg[CorePath].Func("init"); ini != nil {
			for _, lit := range ini.AnonFuncs {
				if len(lit.Params) == 0 {
					continue
				}
				if n, _ := types.Unalias(lit.Params[0].Type()).(*types.Named); n == nil || n.Obj() != c.fieldNamed().Obj() {
					continue
				}
				scanTime(Calls(lit), PN(lit.Params[0]))
			}
		}
	}
	if nT != 2 {
		c.Bad("R3.5", "zapcore.Field.AddTo", "rebuild", addTo.Pos(), "expected two TimeType reconstructions, found %d", nT)
	}
}

func c3NilError(c *Ctx) { c3NilErrorR(c, "R3.6") }

func c3NilErrorR(c *Ctx, rule string) {
	ne := c.Func(ZapPath, "NamedError")
	er := c.Func(ZapPath, "Error")
	if !c.Anchor(rule, "zap.NamedError/Error", ne != nil && er != nil) {
		return
	}
	sawSkip, sawLit := false, false
	for _, r := range Returns(ne) {
		atoms := AtomStrings(Guards(r))
		if call, ok := Strip(RetVals(r)[0]).(*ssa.Call); ok && IsCallTo(call, "go.uber.org/zap.Skip") {
			sawSkip = len(atoms) == 1 && atoms[0] == "err == nil"
		} else {
			sawLit = len(atoms) == 1 && atoms[0] == "err != nil"
		}
	}
	c.Check(sawSkip && sawLit, rule, FStr(ne), "nil-skipped", ne.Pos(), "NamedError returns Skip() exactly for a nil error and an ErrorType field otherwise")
	for _, r := range Returns(er) {
		c.Check(Desc(RetVals(r)[0]) == `NamedError("error", err)`, rule, FStr(er), "key-error", r.Pos(), "Error(err) is NamedError(\"error\", err) (%s)", Desc(RetVals(r)[0]))
	}
	sk := c.Func(ZapPath, "Skip")
	st, _ := c.ConstVal(CorePath, "SkipType")
	okS := false
	for _, s := range FieldStoresOf(sk, c.fieldNamed()) {
		if v, ok := ConstInt(s.Instr.Val); ok && s.Field == "Type" && v == st {
			okS = true
		}
	}
	c.Check(okS, rule, FStr(sk), "skip-type", sk.Pos(), "Skip() builds a SkipType field")
}

func c3Equals(c *Ctx, byType map[string][]fieldLit) {
	ftNamed := c.Named(CorePath, "FieldType")
	fn := c.Method(CorePath, "Field", "Equals")
	if !c.Anchor("R3.7", "zapcore.Field.Equals", fn != nil && ftNamed != nil) {
		return
	}
	rn := PN(fn.Params[0])
	isDanger := func(t types.Type) bool {
		if t == nil {
			return false
		}
		if _, ok := t.Underlying().(*types.Interface); ok {
			return true
		}
		if st, ok := t.Underlying().(*types.Struct); ok {
			for i := 0; i < st.NumFields(); i++ {
				if _, ok := st.Field(i).Type().Underlying().(*types.Interface); ok {
					return true
				}
			}
		}
		return false
	}
	// Path exploration with the receiver's FieldType fixed to each constant in turn (helpers inline): which
	// comparison of the payload can be reached for that type?
	nEq := 0
	var badEq, badBytes, badDirected, badDeepBytes []string
	nPaths := 0
	for _, k := range c.ConstsOfType(CorePath, ftNamed) {
		kv, _ := ConstObjInt(k)
		tn := k.Name()
		seqs, trunc := ConcPaths(fn, ConcCfg{
			Conc: func(d string) (int64, bool) {
				if d == rn+".Type" {
					return kv, true
				}
				return 0, false
			},
			Event: func(in ssa.Instruction, st *ConcState) string {
				switch x := in.(type) {
				case *ssa.BinOp:
					if (x.Op == token.EQL || x.Op == token.NEQ) && isDanger(x.X.Type()) && !IsNilConst(x.Y) && !IsNilConst(x.X) {
						return "iface-eq"
					}
				case *ssa.Call:
					if f := CalleeFunc(x); f != nil {
						switch f.FullName() {
						case "bytes.Equal":
							return "bytes.Equal"
						case "reflect.DeepEqual":
							return "DeepEqual"
						case "errors.Is", "errors.As", "strings.HasPrefix", "strings.HasSuffix", "strings.Contains", "bytes.HasPrefix", "bytes.Contains":
							// a relation that treats its two arguments differently cannot give a symmetric Equals
							badDirected = append(badDirected, tn+": "+f.FullName())
						}
					}
				}
				return ""
			},
		})
		if trunc || len(seqs) == 0 {
			c.Und("R3.7", FStr(fn), "paths/"+tn, fn.Pos(), "path exploration incomplete (%d, truncated=%v)", len(seqs), trunc)
			return
		}
		for _, sq := range seqs {
			nPaths++
			if strings.Contains(sq, "iface-eq") {
				nEq++
				for _, l := range byType[tn] {
					e, has := l.slots["Interface"]
					if !has {
						continue
					}
					st := l.pk.TypesInfo.TypeOf(e)
					_, isIface := st.Underlying().(*types.Interface)
					if isIface || !types.Comparable(st) {
						badEq = append(badEq, tn+" (payload "+TypeName(st)+" from "+l.fd.Name.Name+")")
					}
				}
			}
			if strings.Contains(sq, "DeepEqual") {
				c3DeepTypes[tn] = true
				// a []byte payload compared by reflect.DeepEqual: nil and empty slices come out different, although
				// both are the same zero-length value to every encoder
				for _, l := range byType[tn] {
					if e, has := l.slots["Interface"]; has && TypeName(l.pk.TypesInfo.TypeOf(e)) == "[]byte" {
						badDeepBytes = append(badDeepBytes, tn)
					}
				}
			}
			if strings.Contains(sq, "bytes.Equal") {
				for _, l := range byType[tn] {
					if e, has := l.slots["Interface"]; has && TypeName(l.pk.TypesInfo.TypeOf(e)) != "[]byte" {
						badBytes = append(badBytes, tn)
					}
				}
			}
		}
	}
	badEq = uniqSorted(badEq)
	c.Check(len(badDirected) == 0, "R3.7", FStr(fn), "symmetric-relations-only", fn.Pos(), "Equals compares payloads with symmetric relations only (==, bytes.Equal, time.Equal, reflect.DeepEqual); a directed one (errors.Is unwraps only its first argument) makes a.Equals(b) differ from b.Equals(a): %v", uniqSorted(badDirected))
	c.Check(len(badEq) == 0, "R3.7", FStr(fn), "interface-eq-only-for-comparable-payloads", fn.Pos(), "over %d paths (FieldType fixed to each of its constants, helpers inline; %d reach a == on interface-carrying operands): such a == is reachable only for field types whose Interface payload has a comparable concrete static type; offending: %v (an uncomparable dynamic value makes == panic)", nPaths, nEq, badEq)
	c.Check(len(badDeepBytes) == 0, "R3.7", FStr(fn), "byte-payloads-by-content", fn.Pos(), "[]byte payloads are compared by content (bytes.Equal), not with reflect.DeepEqual, which tells a nil slice from an empty one: fields built from equal inputs must compare equal: %v", uniqSorted(badDeepBytes))
	c.Check(len(badBytes) == 0, "R3.7", FStr(fn), "bytes-equal-only-for-byte-payloads", fn.Pos(), "bytes.Equal is reached only for field types whose payload is []byte: %v", uniqSorted(badBytes))
}

// c3Provenance: in the constructor's SSA, every value stored into the
// Integer/String/Interface slot of the literal is derived from a Parameter
// through conversions / Float*bits / method calls on the parameter only - not
// from a phi (a conditionally replaced value) or arithmetic.
func c3Provenance(c *Ctx, cname, slot string, l fieldLit) {
	obj, _ := l.pk.TypesInfo.Defs[l.fd.Name].(*types.Func)
	if obj == nil {
		return
	}
	fn := c.SSA.FuncValue(obj)
	if fn == nil {
		return
	}
	if l.ftype.Name() == "BoolType" {
		return
	}
	for _, st := range FieldStoresOf(fn, c.fieldNamed()) {
		if st.Field == "Key" || st.Field == "Type" {
			continue
		}
		v := st.Instr.Val
		steps := 0
		for steps < 10 {
			steps++
			switch x := v.(type) {
			case *ssa.Convert:
				v = x.X
				continue
			case *ssa.ChangeType:
				v = x.X
				continue
			case *ssa.MakeInterface:
				v = x.X
				continue
			case *ssa.ChangeInterface:
				v = x.X
				continue
			case *ssa.Call:
				if f := CalleeFunc(x); f != nil && len(Args(x)) == 1 {
					v = Args(x)[0] // Float64bits(val), val.UnixNano(), val.Location()
					continue
				}
			case *ssa.UnOp:
				if x.Op == token.MUL {
					if a, ok := x.X.(*ssa.Alloc); ok {
						if s := singleStore(a); s != nil {
							v = s
							continue
						}
					}
				}
			}
			break
		}
		_, isParam := v.(*ssa.Parameter)
		c.Check(isParam, "R3.1", cname, "provenance/"+slot+"/"+st.Field, st.Instr.Pos(), "the %s slot holds the parameter itself (through conversions only); found %s — a phi/arithmetic here means the value is replaced for part of its domain", st.Field, Desc(st.Instr.Val))
	}
}

// ptrHelperShape: func(key, val *T, ctor func(string, T) Field) Field that
// returns nilField(key) exactly under val == nil and ctor(key, *val) otherwise.
func ptrHelperShape(h *ssa.Function) bool {
	if o := h.Origin(); o != nil {
		h = o
	}
	if len(h.Params) != 3 || len(h.Blocks) == 0 {
		return false
	}
	key, val, ctor := h.Params[0], h.Params[1], h.Params[2]
	nilOK, valOK := false, false
	for _, r := range Returns(h) {
		call, ok := Strip(RetVals(r)[0]).(*ssa.Call)
		if !ok {
			return false
		}
		atoms := AtomStrings(GuardsOfBlock(r.Block()))
		if f := CalleeFunc(call); f != nil && FNm(f) == "nilField" {
			nilOK = len(atoms) == 1 && atoms[0] == PN(val)+" == nil" && call.Call.Args[0] == ssa.Value(key)
			continue
		}
		if call.Call.Value == ssa.Value(ctor) && len(call.Call.Args) == 2 {
			u, isLoad := call.Call.Args[1].(*ssa.UnOp)
			valOK = call.Call.Args[0] == ssa.Value(key) && isLoad && u.Op == token.MUL && u.X == ssa.Value(val) && len(atoms) == 1 && atoms[0] == PN(val)+" != nil"
			continue
		}
		return false
	}
	return nilOK && valOK
}

// c3FloatBits: float payloads travel as bit patterns. With the field's type fixed to Float64Type / Float32Type (and
// the complex types, which travel in the Interface slot, left to R3.1), every path of Field.AddTo - helpers explored
// inline - hands the encoder math.Float64frombits / Float32frombits of the Integer slot with no conversion between
// floating-point types in between: float32→float64→float32 preserves every value but not every bit pattern (it
// quiets signalling NaNs), and the property promises floats bit for bit.
func c3FloatBits(c *Ctx, rule string) {
	ftNamed := c.Named(CorePath, "FieldType")
	fn := c.Method(CorePath, "Field", "AddTo")
	if !c.Anchor(rule, "zapcore.Field.AddTo", fn != nil && ftNamed != nil && len(fn.Params) == 2) {
		return
	}
	isFloat := func(t types.Type) bool {
		b, ok := types.Unalias(t).Underlying().(*types.Basic)
		return ok && b.Info()&types.IsFloat != 0
	}
	isInt := func(t types.Type) bool {
		b, ok := types.Unalias(t).Underlying().(*types.Basic)
		return ok && b.Info()&types.IsInteger != 0
	}
	sizes := c.Pkg(CorePath).TypesSizes
	n := 0
	for _, k := range c.ConstsOfType(CorePath, ftNamed) {
		if k.Name() != "Float64Type" && k.Name() != "Float32Type" {
			continue
		}
		kv, _ := ConstObjInt(k)
		wantCall := map[string]string{"Float64Type": "Float64frombits", "Float32Type": "Float32frombits"}[k.Name()]
		width := map[string]int64{"Float64Type": 8, "Float32Type": 4}[k.Name()]
		ai := c3ArmSSA(c, fn, kv)
		if ai.trunc {
			c.Und(rule, FStr(fn), "float-bits/"+k.Name(), fn.Pos(), "path exploration incomplete")
			continue
		}
		n++
		var bad []string
		nEnc := 0
		for _, ec := range ai.calls {
			if !ec.onEnc {
				continue
			}
			nEnc++
			if len(ec.args) != 2 {
				bad = append(bad, ec.name+": unexpected arity")
				continue
			}
			a := ec.args[1]
			// outermost first: the frombits call, then only integer conversions that keep all the bits, then the slot
			ok := a.leaf == "Integer" && len(a.ops) >= 1 && a.ops[0].kind == "call" && a.ops[0].name == wantCall
			var steps []string
			for i, o := range a.ops {
				steps = append(steps, o.kind+":"+o.name+TypeNameOrEmpty(o.typ))
				if i == 0 {
					continue
				}
				if o.kind != "conv" || !isInt(o.typ) || isFloat(o.typ) || sizes.Sizeof(o.typ) < width {
					ok = false
				}
			}
			if !ok {
				bad = append(bad, ec.name+":"+strings.Join(steps, "←")+"←"+a.leaf)
			}
		}
		if nEnc != 1 {
			bad = append(bad, "expected exactly one encoder call, found "+itoa(nEnc))
		}
		c.Check(len(bad) == 0, rule, FStr(fn), "float-bits/"+k.Name(), fn.Pos(), "for a %s field every path hands the encoder math.%s of the Integer slot, with only integer conversions that keep all %d bytes (no conversion between floating-point types) on the way: bit patterns, not just values: %v", k.Name(), wantCall, width, bad)
	}
	if n != 2 {
		c.Bad(rule, FStr(fn), "float-bits/count", fn.Pos(), "expected Float64Type and Float32Type, decided %d", n)
	}
}

// c3DeepTypes: the field types whose payloads Field.Equals compares with reflect.DeepEqual (found by c3Equals' path
// exploration).
var c3DeepTypes = map[string]bool{}

// c3NoFuncPayload: for every field type that Equals compares with reflect.DeepEqual, every constructor call inside
// the analysed packages hands over a payload whose static type holds no function: reflect.DeepEqual reports two
// non-nil functions as different even when they are the same, so a field carrying one does not equal itself and
// Equals stops being reflexive.
func c3NoFuncPayload(c *Ctx, rule string, byType map[string][]fieldLit) {
	var holdsFunc func(t types.Type, d int) bool
	holdsFunc = func(t types.Type, d int) bool {
		if t == nil || d > 3 {
			return false
		}
		switch u := types.Unalias(t).Underlying().(type) {
		case *types.Signature:
			return true
		case *types.Struct:
			for i := 0; i < u.NumFields(); i++ {
				if holdsFunc(u.Field(i).Type(), d+1) {
					return true
				}
			}
		case *types.Slice:
			return holdsFunc(u.Elem(), d+1)
		case *types.Array:
			return holdsFunc(u.Elem(), d+1)
		case *types.Pointer:
			return holdsFunc(u.Elem(), d+1)
		}
		return false
	}
	type ctorParam struct {
		fn  *types.Func
		idx int
		tn  string
	}
	var ctors []ctorParam
	var tns []string
	for tn := range c3DeepTypes {
		tns = append(tns, tn)
	}
	sort.Strings(tns)
	if len(tns) == 0 {
		c.Bad(rule, "zapcore.Field.Equals", "deep-equal-types", token.NoPos, "no field type is compared with reflect.DeepEqual (the exploration of Equals found none)")
		return
	}
	for _, tn := range tns {
		for _, l := range byType[tn] {
			e, has := l.slots["Interface"]
			if !has {
				continue
			}
			info := l.pk.TypesInfo
			cname := l.pk.PkgPath + "." + l.fd.Name.Name
			// the payload is a parameter of the constructor: its call sites decide; otherwise the expression itself
			pi := -1
			if id, ok := ast.Unparen(e).(*ast.Ident); ok {
				k := 0
				for _, fl := range l.fd.Type.Params.List {
					for _, n := range fl.Names {
						if info.Defs[n] != nil && info.Defs[n] == info.Uses[id] {
							pi = k
						}
						k++
					}
				}
			}
			if pi >= 0 {
				if fo, ok := info.Defs[l.fd.Name].(*types.Func); ok {
					ctors = append(ctors, ctorParam{fo, pi, tn})
				}
				if t := info.TypeOf(e); t != nil {
					if _, isIface := types.Unalias(t).Underlying().(*types.Interface); !isIface {
						c.Check(!holdsFunc(t, 0), rule, cname, "payload/"+tn, e.Pos(), "the %s payload has static type %s, which holds no function", tn, TypeName(t))
					}
				}
				continue
			}
			t := info.TypeOf(e)
			c.Check(!holdsFunc(t, 0), rule, cname, "payload/"+tn, e.Pos(), "the %s payload has static type %s, which holds no function", tn, TypeName(t))
		}
	}
	c.EachFuncDecl(func(pk *packages.Package, fd *ast.FuncDecl) {
		if fd.Body == nil {
			return
		}
		n := 0
		ast.Inspect(fd.Body, func(nd ast.Node) bool {
			call, ok := nd.(*ast.CallExpr)
			if !ok {
				return true
			}
			callee := CalleeOf(pk.TypesInfo, call)
			if callee == nil {
				return true
			}
			for _, ct := range ctors {
				if callee.Origin() != ct.fn || ct.idx >= len(call.Args) {
					continue
				}
				t := pk.TypesInfo.TypeOf(call.Args[ct.idx])
				if t == nil {
					continue
				}
				if _, isIface := types.Unalias(t).Underlying().(*types.Interface); isIface {
					continue // handed on as an interface: decided where the concrete value is made
				}
				n++
				c.Check(!holdsFunc(t, 0), rule, pk.PkgPath+"."+fd.Name.Name, "call/"+FNm(ct.fn)+"#"+itoa(n), call.Pos(), "%s is handed a payload of static type %s (compared by reflect.DeepEqual as a %s field), which holds no function", FNm(ct.fn), TypeName(t), ct.tn)
			}
			return true
		})
	})
}

// c3GlobalInit: v is (a load of) a package-level variable of zap, or of a field of one (possibly reached through a
// local pointer to it): the rendering of what the package initialiser stores there ("" when that is not evident).
func c3GlobalInit(c *Ctx, st *ConcState, v ssa.Value) string {
	for k := 0; k < 8; k++ {
		nx := st.Step(v)
		if nx == nil {
			break
		}
		v = nx
	}
	ld, ok := v.(*ssa.UnOp)
	if !ok || ld.Op != token.MUL {
		return ""
	}
	// access path below the global
	var path []string
	a := ld.X
	for k := 0; k < 8; k++ {
		if fa, isFA := a.(*ssa.FieldAddr); isFA {
			path = append([]string{fieldName(fa.X.Type(), fa.Field)}, path...)
			a = fa.X
			continue
		}
		if nx := st.Step(a); nx != nil {
			a = nx
			continue
		}
		break
	}
	g, isG := a.(*ssa.Global)
	if !isG || g.Pkg == nil {
		return ""
	}
	init := g.Pkg.Func("init")
	if init == nil {
		return ""
	}
	want := strings.Join(path, ".")
	res, n := "", 0
	AllInstrs(init, func(in ssa.Instruction) {
		sto, isSt := in.(*ssa.Store)
		if !isSt {
			return
		}
		var p2 []string
		b := sto.Addr
		for {
			if fa, isFA := b.(*ssa.FieldAddr); isFA {
				p2 = append([]string{fieldName(fa.X.Type(), fa.Field)}, p2...)
				b = fa.X
				continue
			}
			break
		}
		if b == ssa.Value(g) && strings.Join(p2, ".") == want {
			res = Desc(sto.Val)
			n++
		}
	})
	if n != 1 {
		return ""
	}
	// nobody else writes it
	written := false
	c.EachRootFunc(func(fn *ssa.Function) {
		if fn == init {
			return
		}
		AllInstrs(fn, func(in ssa.Instruction) {
			if sto, isSt := in.(*ssa.Store); isSt && Root(sto.Addr) == ssa.Value(g) {
				written = true
			}
		})
	})
	if written {
		return ""
	}
	return res
}

// returnsRecovered: fn hands the value its deferred literal recovered back to its caller as result #idx (the handler
// stores recover() into a named result): the caller converts it.
func returnsRecovered(fn *ssa.Function) (idx int, ok bool) {
	if fn == nil || len(fn.Blocks) == 0 {
		return 0, false
	}
	var cell *ssa.Alloc
	AllInstrs(fn, func(i ssa.Instruction) {
		df, isDf := i.(*ssa.Defer)
		if !isDf {
			return
		}
		mk, isMk := df.Call.Value.(*ssa.MakeClosure)
		if !isMk {
			return
		}
		g, _ := mk.Fn.(*ssa.Function)
		if g == nil {
			return
		}
		AllInstrs(g, func(j ssa.Instruction) {
			st, isSt := j.(*ssa.Store)
			if !isSt {
				return
			}
			v := Strip(st.Val)
			if cl, isCall := v.(*ssa.Call); !isCall || CallBuiltin(cl) != "recover" {
				return
			}
			if fv, isFV := st.Addr.(*ssa.FreeVar); isFV {
				for bi, b := range mk.Bindings {
					if bi < len(g.FreeVars) && g.FreeVars[bi] == fv {
						if a, isA := b.(*ssa.Alloc); isA {
							cell = a
						}
					}
				}
			}
		})
	})
	if cell == nil {
		return 0, false
	}
	for _, r := range Returns(fn) {
		for i, rv := range r.Results {
			if u, isU := rv.(*ssa.UnOp); isU && u.Op == token.MUL && u.X == ssa.Value(cell) {
				return i, true
			}
		}
	}
	return 0, false
}

// underRecovered: the instruction runs only where a value that a callee recovered (returnsRecovered) was found non-nil.
func underRecovered(in ssa.Instruction) bool {
	for _, a := range Guards(in) {
		bo, ok := a.Cond.(*ssa.BinOp)
		if !ok || !IsNilConst(bo.Y) || !((bo.Op == token.NEQ && a.Pol) || (bo.Op == token.EQL && !a.Pol)) {
			continue
		}
		x := Strip(bo.X)
		idx := 0
		if ex, isEx := x.(*ssa.Extract); isEx {
			x, idx = ex.Tuple, ex.Index
		}
		if cl, isCall := x.(*ssa.Call); isCall {
			if ri, ok := returnsRecovered(cl.Call.StaticCallee()); ok && ri == idx {
				return true
			}
		}
	}
	return false
}
