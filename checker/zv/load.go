package zv

import (
	"fmt"
	"go/ast"
	"go/token"
	"go/types"
	"os"
	"os/exec"
	"path/filepath"
	"sort"
	"strings"

	"golang.org/x/tools/go/packages"
	"golang.org/x/tools/go/ssa"
	"golang.org/x/tools/go/ssa/ssautil"
)

// Program is the resolved program: every non-test package of the zap module
// and of the exp module, type-checked in ONE type universe (loaded from the
// exp module, whose go.mod replaces go.uber.org/zap by the working tree), plus
// SSA for them and for all their dependencies (including std log, log/slog).
type Program struct {
	Repo      string
	Fset      *token.FileSet
	Pkgs      map[string]*packages.Package // by import path, all (incl. deps)
	Roots     []*packages.Package          // the zap + exp packages
	SSA       *ssa.Program
	SSAPkg    map[string]*ssa.Package
	GOOS      string
	GOARCH    string
	NumFuncs  int
	rootFuncs []*ssa.Function
	lockSum   map[*ssa.Function]map[string]bool
	sites     map[*ssa.Function][]ssa.CallInstruction
}

const (
	ZapPath  = "go.uber.org/zap"
	CorePath = "go.uber.org/zap/zapcore"
)

func goEnv(extra ...string) []string {
	env := []string{}
	for _, e := range os.Environ() {
		if strings.HasPrefix(e, "GOWORK=") || strings.HasPrefix(e, "GOFLAGS=") || strings.HasPrefix(e, "GOPROXY=") ||
			strings.HasPrefix(e, "GOSUMDB=") || strings.HasPrefix(e, "GOTOOLCHAIN=") {
			continue
		}
		env = append(env, e)
	}
	env = append(env, "GOWORK=off", "GOFLAGS=-mod=mod", "GOPROXY=off", "GOSUMDB=off", "GOTOOLCHAIN=local")
	env = append(env, extra...)
	return env
}

// Load loads the working tree at repo. goos/goarch may be empty (host).
func Load(repo, goos, goarch string) (*Program, error) {
	var extra []string
	if goos != "" {
		extra = append(extra, "GOOS="+goos, "CGO_ENABLED=0")
	}
	if goarch != "" {
		extra = append(extra, "GOARCH="+goarch)
	}
	env := goEnv(extra...)
	// 1. enumerate the root module's packages.
	cmd := exec.Command("go", "list", "./...")
	cmd.Dir = repo
	cmd.Env = env
	out, err := cmd.Output()
	if err != nil {
		return nil, fmt.Errorf("go list in %s: %v", repo, err)
	}
	var patterns []string
	for _, l := range strings.Fields(string(out)) {
		if strings.HasPrefix(l, ZapPath) {
			patterns = append(patterns, l)
		}
	}
	if len(patterns) < 10 {
		return nil, fmt.Errorf("only %d packages listed in %s", len(patterns), repo)
	}
	nroot := len(patterns)
	patterns = append(patterns, "./...")
	fset := token.NewFileSet()
	cfg := &packages.Config{
		Mode:  packages.LoadAllSyntax,
		Dir:   filepath.Join(repo, "exp"),
		Env:   env,
		Fset:  fset,
		Tests: false,
	}
	pkgs, err := packages.Load(cfg, patterns...)
	if err != nil {
		return nil, err
	}
	p := &Program{Repo: repo, Fset: fset, Pkgs: map[string]*packages.Package{}, SSAPkg: map[string]*ssa.Package{}, GOOS: goos, GOARCH: goarch}
	var errs []string
	packages.Visit(pkgs, nil, func(pk *packages.Package) {
		p.Pkgs[pk.PkgPath] = pk
		if strings.HasPrefix(pk.PkgPath, ZapPath) {
			for _, e := range pk.Errors {
				errs = append(errs, e.Error())
			}
			if pk.IllTyped {
				errs = append(errs, pk.PkgPath+": ill-typed")
			}
		}
	})
	if len(errs) > 0 {
		sort.Strings(errs)
		return nil, fmt.Errorf("load errors: %s", strings.Join(errs, "; "))
	}
	for _, pk := range pkgs {
		if strings.HasPrefix(pk.PkgPath, ZapPath) {
			p.Roots = append(p.Roots, pk)
		}
	}
	sort.Slice(p.Roots, func(i, j int) bool { return p.Roots[i].PkgPath < p.Roots[j].PkgPath })
	if len(p.Roots) < nroot+2 {
		return nil, fmt.Errorf("loaded %d zap packages, expected at least %d (+2 exp)", len(p.Roots), nroot)
	}
	prog, _ := ssautil.AllPackages(pkgs, ssa.InstantiateGenerics)
	prog.Build()
	p.SSA = prog
	for _, sp := range prog.AllPackages() {
		p.SSAPkg[sp.Pkg.Path()] = sp
	}
	p.NumFuncs = len(ssautil.AllFunctions(prog))
	InitTypeCanon(p)
	InitFieldCanon(p)
	InitFuncCanon(p)
	InitGlobalCanon(p)
	InitCmpCanon(p)
	InitConstCanon(p)
	return p, nil
}

// Pkg returns the loaded package or nil.
func (p *Program) Pkg(path string) *packages.Package { return p.Pkgs[path] }

// Pos formats a position relative to the repo root.
func (p *Program) Pos(pos token.Pos) string {
	if !pos.IsValid() {
		return "-"
	}
	ps := p.Fset.Position(pos)
	rel, err := filepath.Rel(p.Repo, ps.Filename)
	if err != nil || strings.HasPrefix(rel, "..") {
		rel = ps.Filename
	}
	return fmt.Sprintf("%s:%d", rel, ps.Line)
}

// Obj looks up a package-level object.
func (p *Program) Obj(pkg, name string) types.Object {
	pk := p.Pkgs[pkg]
	if pk == nil || pk.Types == nil {
		return nil
	}
	if o := pk.Types.Scope().Lookup(name); o != nil {
		return o
	}
	// an unexported constant carried on under another name (see canonconst.go)
	if k := renamedConst[pkg+"."+name]; k != nil {
		return k
	}
	return nil
}

// Named looks up a named type.
func (p *Program) Named(pkg, name string) *types.Named {
	o := p.Obj(pkg, name)
	if o == nil {
		// carried on under another name (see typeCanon)
		if tn := renamedType[pkg+"."+name]; tn != nil {
			n, _ := types.Unalias(tn.Type()).(*types.Named)
			return n
		}
		return nil
	}
	n, _ := types.Unalias(o.Type()).(*types.Named)
	return n
}

// Func returns the SSA function for a package-level function.
func (p *Program) Func(pkg, name string) *ssa.Function {
	sp := p.SSAPkg[pkg]
	if sp == nil {
		return nil
	}
	if f := sp.Func(name); f != nil {
		return f
	}
	// carried on under another name (see funcCanon)
	if g := renamedTo[pkg+"."+name]; g != nil {
		return p.SSA.FuncValue(g)
	}
	return nil
}

// Method returns the SSA function of method name on type tname (ptr selects *T).
func (p *Program) Method(pkg, tname, name string) *ssa.Function {
	n := p.Named(pkg, tname)
	if n == nil {
		return nil
	}
	for _, t := range []types.Type{types.NewPointer(n), n} {
		sel := p.SSA.MethodSets.MethodSet(t).Lookup(n.Obj().Pkg(), name)
		if sel != nil {
			f := p.SSA.MethodValue(sel)
			if f != nil {
				// unwrap promoted/wrapper: we want the declared one
				if f.Synthetic == "" {
					return f
				}
				if fo, ok := sel.Obj().(*types.Func); ok {
					if g := p.SSA.FuncValue(fo); g != nil {
						return g
					}
				}
				return f
			}
		}
	}
	// a method of a generic type: the function built for its declaration
	for i := 0; i < n.NumMethods(); i++ {
		if m := n.Method(i); FNm(m) == name {
			if g := p.SSA.FuncValue(m); g != nil && len(g.Blocks) > 0 {
				return g
			}
		}
	}
	// carried on under another name (see funcCanon)
	for _, recv := range []string{"(*" + pkg + "." + tname + ")", "(" + pkg + "." + tname + ")"} {
		if g := renamedTo[recv+"."+name]; g != nil {
			return p.SSA.FuncValue(g)
		}
	}
	return nil
}

// FuncDecl finds the AST declaration of an SSA function.
func (p *Program) FuncDecl(f *ssa.Function) *ast.FuncDecl {
	if f == nil {
		return nil
	}
	if fd, ok := f.Syntax().(*ast.FuncDecl); ok {
		return fd
	}
	return nil
}

// InfoFor returns the types.Info of the package declaring pos.
func (p *Program) InfoOf(pkgPath string) *types.Info {
	if pk := p.Pkgs[pkgPath]; pk != nil {
		return pk.TypesInfo
	}
	return nil
}
