package zv

import (
	"go/token"
	"go/types"
	"strings"

	"golang.org/x/tools/go/ssa"
)

// c1Grammar: the token sequence every path of every JSON-encoder method writes is a well-formed JSON fragment of the
// method's kind.
//
// Each ObjectEncoder / ArrayEncoder method of jsonEncoder and EncodeEntry is explored with its helpers inline down to
// the writes into the encoder's buffer, which are abstracted to tokens:
//
//	{ } [ ] , : " and space   structural bytes written as constants
//	w                          any other constant byte (null, true, NaN, …)
//	n                          a bare scalar written by buffer.AppendInt/Uint/Float/Bool
//	s                          text that went through the escaper (safeAddString & co.)
//	t                          raw text from buffer.AppendTime (only legal inside quotes)
//	S                          addElementSeparator (writes ',' if needed - decided by R1.5)
//	U then W|Z                 a user sub-encoder call, then the outcome of the wrote-nothing test (Z: nothing written)
//	M / E                      user ObjectMarshaler / ArrayMarshaler (or Field.AddTo) given the encoder: members / elements
//	C J L                      the logger's context bytes, a reflected (encoding/json) value, the line ending
//	r                          anything else written raw
//
// and the sequence is parsed with a small JSON grammar over these tokens: an Add* method writes nothing (error
// return) or exactly one member `S? "s*": value`, an Append* method one element, OpenNamespace a key and '{',
// EncodeEntry `{ members } L`. A key without a value, a value without a key, an unquoted text, an unclosed string or a
// sub-encoder call without its fallback do not parse.
func c1Grammar(c *Ctx, rule string) {
	jn := c.Named(CorePath, "jsonEncoder")
	if !c.Anchor(rule, "zapcore.jsonEncoder", jn != nil) {
		return
	}
	isJSONEnc := func(t types.Type) bool {
		n, _ := types.Unalias(deref(t)).(*types.Named)
		return n != nil && n.Obj() == jn.Obj()
	}
	resolve := func(st *ConcState, v ssa.Value) ssa.Value {
		for k := 0; k < 16 && v != nil; k++ {
			switch x := v.(type) {
			case *ssa.ChangeType:
				v = x.X
				continue
			case *ssa.ChangeInterface:
				v = x.X
				continue
			case *ssa.MakeInterface:
				v = x.X
				continue
			}
			nx := st.Step(v)
			if nx == nil {
				break
			}
			v = nx
		}
		return v
	}
	opaque := map[string]string{
		"safeAddString": "s", "safeAddByteString": "s", "safeAppendStringLike": "s",
		"addElementSeparator": "S", "addFields": "M", "AddTo": "M",
	}
	var kindOfFn func(fn *ssa.Function) string
	inl := func(h *ssa.Function) bool {
		if h.Pkg == nil || h.Pkg.Pkg.Path() != CorePath {
			return false
		}
		if kindOfFn != nil && kindOfFn(h) != "" {
			return false // a unit of its own: decided separately, a single token here
		}
		if _, isOpaque := opaque[FNm(h)]; isOpaque {
			return false
		}
		return FNm(h) != "encodeReflected" && FNm(h) != "closeOpenNamespaces" && FNm(h) != "putJSONEncoder" && FNm(h) != "clone"
	}
	tokenOfBytes := func(b []byte) string {
		out := ""
		for _, ch := range b {
			switch ch {
			case '{', '}', '[', ']', ',', ':', '"', ' ':
				out += string(rune(ch))
			default:
				out += "w"
			}
		}
		return out
	}
	kindOf := func(fn *ssa.Function) string {
		rn := RecvNamed(fn)
		if rn == nil || rn.Obj() != jn.Obj() || fn.Parent() != nil || len(fn.Params) == 0 {
			return ""
		}
		switch {
		case FNm(fn) == "EncodeEntry":
			return "entry"
		case FNm(fn) == "OpenNamespace":
			return "namespace"
		case FNm(fn) == "addKey":
			return "key"
		case strings.HasPrefix(FNm(fn), "Add") && len(FNm(fn)) > 3 && FNm(fn)[3] >= 'A' && FNm(fn)[3] <= 'Z':
			return "member"
		case strings.HasPrefix(FNm(fn), "Append") && len(FNm(fn)) > 6:
			return "element"
		}
		return ""
	}
	kindOfFn = kindOf
	unit := map[string]string{"key": "k", "member": "m", "element": "v", "namespace": "o"}
	n := 0
	for _, fn := range coreFuncs(c) {
		kind := kindOf(fn)
		if kind == "" {
			continue
		}
		name := FStr(fn)
		seqs, trunc := ConcPaths(fn, ConcCfg{
			Prune: true, MaxStates: 600000, MaxDepth: 9,
			InitFields: []FieldVal{{Obj: fn.Params[0], Field: "openNamespaces", Val: 0}},
			Inline:     inl,
			InlineAny:  func(h *ssa.Function) bool { r := RecvNamed(h); return inl(h) && r != nil && r.Obj() == jn.Obj() },
			Event: func(in ssa.Instruction, st *ConcState) string {
				switch x := in.(type) {
				case *ssa.Call:
					if sc := x.Call.StaticCallee(); sc != nil && sc.Pkg != nil && sc.Pkg.Pkg.Path() == CorePath {
						if k := kindOf(sc); k != "" && unit[k] != "" {
							return unit[k]
						}
						if t, ok := opaque[FNm(sc)]; ok {
							// only when it is given a JSON encoder (the receiver or an argument)
							for _, a := range x.Call.Args {
								if r := resolve(st, a); r != nil && isJSONEnc(r.Type()) {
									return t
								}
							}
							return ""
						}
						if FNm(sc) == "clone" || FNm(sc) == "putJSONEncoder" || FNm(sc) == "closeOpenNamespaces" {
							return ""
						}
					}
					// hand-over of the encoder to user code
					if x.Call.IsInvoke() || x.Call.StaticCallee() == nil {
						for _, a := range x.Call.Args {
							if _, isIface := types.Unalias(a.Type()).Underlying().(*types.Interface); !isIface {
								continue
							}
							if r := resolve(st, a); r != nil && isJSONEnc(r.Type()) {
								if x.Call.IsInvoke() {
									switch FNm(x.Call.Method) {
									case "MarshalLogObject":
										return "M"
									case "MarshalLogArray":
										return "E"
									}
								}
								return "U"
							}
						}
					}
					f := CalleeFunc(x)
					if f == nil || f.Pkg() == nil || f.Pkg().Path() != "go.uber.org/zap/buffer" {
						return ""
					}
					args := Args(x)
					if len(args) == 0 || !encBufRecv(c, args[0]) {
						return ""
					}
					switch FNm(f) {
					case "AppendByte", "WriteByte":
						if k, ok := st.Int(args[1]); ok {
							return tokenOfBytes([]byte{byte(k)})
						}
						return "r"
					case "AppendString", "WriteString", "AppendBytes", "Write":
						if b, ok := constBytes(args[1]); ok {
							return tokenOfBytes(b)
						}
						if b, ok := constBytes(resolve(st, args[1])); ok {
							return tokenOfBytes(b) // a constant that came back from a helper
						}
						d := st.Desc(args[1])
						src := resolve(st, args[1])
						if n, known := st.IsNil(args[1]); known && n {
							return "" // a nil slice: nothing is written (cloneWith(nil))
						}
						if k, isC := src.(*ssa.Const); isC && k.Value == nil {
							return ""
						}
						switch {
						case strings.HasSuffix(d, ".LineEnding"):
							return "L"
						case strings.Contains(d, "encodeReflected("):
							return "J"
						}
						if cl, ok := src.(*ssa.Call); ok && IsCallTo(cl, "(*go.uber.org/zap/buffer.Buffer).Bytes", "(*go.uber.org/zap/buffer.Buffer).String") {
							if encBufRecv(c, Args(cl)[0]) {
								return "C"
							}
							return "J"
						}
						if ex, ok := src.(*ssa.Extract); ok {
							if cl, ok := ex.Tuple.(*ssa.Call); ok && CalleeFunc(cl) != nil && FNm(CalleeFunc(cl)) == "encodeReflected" {
								return "J"
							}
						}
						return "r"
					case "AppendInt", "AppendUint", "AppendFloat", "AppendBool":
						return "n"
					case "AppendTime":
						return "t"
					case "Len", "Cap", "Bytes", "String", "Free":
						return ""
					}
					return "r"
				case *ssa.Return:
					if len(x.Results) > 0 {
						last := x.Results[len(x.Results)-1]
						if TStr(last.Type()) == "error" {
							if nl, known := st.IsNil(last); !known || !nl {
								return "!"
							}
						}
					}
					return "."
				}
				return ""
			},
			Branch: func(cond ssa.Value, taken bool, st *ConcState) string {
				// the wrote-nothing test after a user sub-encoder call: <len before> == <len now>
				pol := taken
				for k := 0; k < 8; k++ {
					if u, ok := cond.(*ssa.UnOp); ok && u.Op == token.NOT {
						cond, pol = u.X, !pol
						continue
					}
					if nx := st.Step(cond); nx != nil {
						cond = nx
						continue
					}
					break
				}
				bo, ok := cond.(*ssa.BinOp)
				if !ok || (bo.Op != token.EQL && bo.Op != token.NEQ) {
					return ""
				}
				isLen := func(v ssa.Value) bool {
					cl, ok := resolve(st, v).(*ssa.Call)
					return ok && IsCallTo(cl, "(*go.uber.org/zap/buffer.Buffer).Len") && encBufRecv(c, Args(cl)[0])
				}
				if !isLen(bo.X) || !isLen(bo.Y) {
					return ""
				}
				if pol == (bo.Op == token.EQL) {
					return "Z"
				}
				return "W"
			},
		})
		if trunc || len(seqs) == 0 {
			c.Und(rule, name, "grammar", fn.Pos(), "path exploration incomplete (%d sequences, truncated=%v)", len(seqs), trunc)
			continue
		}
		n++
		var bad []string
		for _, sq := range seqs {
			toks := strings.ReplaceAll(sq, " ; ", "")
			if why := c1Parse(kind, toks); why != "" {
				bad = append(bad, toks+" ("+why+")")
			}
		}
		if len(bad) > 3 {
			bad = append(bad[:3:3], "… "+itoa(len(bad)-3)+" more")
		}
		c.Check(len(bad) == 0, rule, name, "grammar/"+kind, fn.Pos(), "over %d paths: what the method writes, as a token sequence, is exactly one well-formed %s (or nothing, when it returns an error): %v", len(seqs), kind, bad)
	}
	if n < 20 {
		c.Bad(rule, "zapcore.jsonEncoder", "grammar/count", jn.Obj().Pos(), "expected at least 20 encoder methods to be decided, got %d", n)
	}
}

// c1Parse parses a token sequence as a fragment of the given kind; "" when it is well-formed.
func c1Parse(kind, s string) string {
	// the trailing return marker: '.' success, '!' error return
	if s == "" {
		return "no return"
	}
	end := s[len(s)-1]
	body := s[:len(s)-1]
	if strings.ContainsAny(body, ".!") {
		return "return marker inside the sequence"
	}
	if end == '!' && body == "" {
		return "" // an error return that wrote nothing
	}
	// a wrote-something outcome without a sub-encoder having run is not a feasible path
	for i := 0; i < len(body); i++ {
		if body[i] == 'W' && (i == 0 || body[i-1] != 'U') {
			return ""
		}
	}
	// where addElementSeparator is called is R1.5's business; what it writes is a separator or nothing
	body = strings.ReplaceAll(body, "S", "")
	p := &gramParser{s: body}
	var ok bool
	switch kind {
	case "key":
		p.sep()
		ok = p.key()
	case "member":
		p.sep()
		ok = p.member()
	case "element":
		p.sep()
		ok = p.value()
	case "namespace":
		p.sep()
		ok = p.key() && p.lit('{')
	case "entry":
		ok = p.lit('{') && p.members() && p.lit('}') && p.lit('L')
	}
	if !ok || p.i != len(p.s) {
		at := p.i
		if p.far > at {
			at = p.far
		}
		return "does not parse as " + kind + " at offset " + itoa(at)
	}
	if strings.Contains(body, "r") {
		return "raw bytes of unknown origin are written"
	}
	return ""
}

type gramParser struct {
	s   string
	i   int
	far int
}

func (p *gramParser) peek() byte {
	if p.i < len(p.s) {
		return p.s[p.i]
	}
	return 0
}

func (p *gramParser) lit(ch byte) bool {
	if p.peek() == ch {
		p.i++
		if p.i > p.far {
			p.far = p.i
		}
		return true
	}
	return false
}

// sep: what addElementSeparator may write - itself as a token, or inline ',' and ' '
func (p *gramParser) sep() {
	for p.lit('S') || p.lit(',') || p.lit(' ') {
	}
}

func (p *gramParser) str() bool {
	save := p.i
	if !p.lit('"') {
		return false
	}
	for p.i < len(p.s) && p.s[p.i] != '"' {
		switch p.s[p.i] {
		case 's', 't', 'n', 'w', ' ', ':', ',':
			p.i++
		default:
			p.i = save
			return false
		}
	}
	if !p.lit('"') {
		p.i = save
		return false
	}
	return true
}

func (p *gramParser) key() bool {
	save := p.i
	if p.lit('k') {
		return true
	}
	if p.str() && p.lit(':') {
		p.lit(' ')
		return true
	}
	p.i = save
	return false
}

func (p *gramParser) member() bool {
	save := p.i
	if p.lit('m') {
		return true
	}
	if p.lit('o') {
		// a namespace opened inside: its members follow, its '}' is owed by closeOpenNamespaces
		return true
	}
	if p.key() && p.value() {
		return true
	}
	p.i = save
	return false
}

func (p *gramParser) members() bool {
	for {
		save := p.i
		p.sep()
		switch {
		case p.lit('M'), p.lit('C'):
		case p.member():
		default:
			p.i = save
			return true
		}
	}
}

func (p *gramParser) elems() bool {
	for {
		save := p.i
		p.sep()
		switch {
		case p.lit('E'):
		case p.value():
		default:
			p.i = save
			return true
		}
	}
}

func (p *gramParser) value() bool {
	save := p.i
	switch {
	case p.str():
		return true
	case p.lit('n'), p.lit('J'), p.lit('v'):
		return true
	case p.lit('Z'):
		// no sub-encoder configured: the built-in rendering
		if p.value() {
			return true
		}
	case p.peek() == 'w':
		for p.lit('w') {
		}
		return true
	case p.lit('{'):
		if p.members() && p.lit('}') {
			return true
		}
	case p.lit('['):
		if p.elems() && p.lit(']') {
			return true
		}
	case p.lit('U'):
		// the user's sub-encoder: it wrote a value (W), or it wrote nothing (Z) and the built-in fallback follows
		if p.lit('W') {
			return true
		}
		if p.lit('Z') && p.value() {
			return true
		}
	}
	p.i = save
	return false
}
