package zv

import (
	"go/token"
	"go/types"

	"golang.org/x/tools/go/ssa"
)

// retainsParam: may function p.Parent() keep a reference to (the storage of) the slice, pointer or map it receives as
// parameter p after it returns? It does when the value - or a re-slice of it - is stored into memory other than a
// plain local, is captured by a function literal that outlives the call, or is handed to a function of the module
// that does one of these (interface calls: any implementation in the module). Functions outside the module are taken
// not to retain what they are given (fmt, append's element copy, encoders).
var retainMemo = map[*ssa.Parameter]int{} // 1 yes, 2 no, 3 in progress

func retainsParam(p *ssa.Parameter, depth int) bool {
	switch retainMemo[p] {
	case 1:
		return true
	case 2, 3:
		return false
	}
	if depth > 5 {
		return false
	}
	retainMemo[p] = 3
	r := retainsValue(p, depth, map[ssa.Value]bool{})
	if r {
		retainMemo[p] = 1
	} else {
		retainMemo[p] = 2
	}
	return r
}

// retainingCallee: the module functions a call may reach, with the parameter that receives argument index ai.
func calleeParams(cl ssa.CallInstruction, ai int) []*ssa.Parameter {
	cc := cl.Common()
	var out []*ssa.Parameter
	if cc.IsInvoke() {
		if curProg == nil {
			return nil
		}
		iface, _ := types.Unalias(cc.Value.Type()).Underlying().(*types.Interface)
		if iface == nil {
			return nil
		}
		for _, t := range curProg.Implementers(iface) {
			for _, recvT := range []types.Type{t, types.NewPointer(t)} {
				sel := curProg.SSA.MethodSets.MethodSet(recvT).Lookup(cc.Method.Pkg(), FNm(cc.Method))
				if sel == nil {
					continue
				}
				if m := curProg.SSA.MethodValue(sel); m != nil && len(m.Blocks) > 0 && ai+1 < len(m.Params) {
					out = append(out, m.Params[ai+1])
				}
				break
			}
		}
		return out
	}
	f := cc.StaticCallee()
	if f == nil {
		if mk, ok := cc.Value.(*ssa.MakeClosure); ok {
			f, _ = mk.Fn.(*ssa.Function)
		}
	}
	if f == nil || len(f.Blocks) == 0 || !curProgRoot(f) || ai >= len(f.Params) {
		return nil
	}
	return []*ssa.Parameter{f.Params[ai]}
}

func retainsValue(v ssa.Value, depth int, seen map[ssa.Value]bool) bool {
	if v == nil || seen[v] || v.Referrers() == nil {
		return false
	}
	seen[v] = true
	for _, r := range *v.Referrers() {
		switch x := r.(type) {
		case *ssa.Store:
			if x.Val != v {
				continue
			}
			if a, ok := x.Addr.(*ssa.Alloc); ok {
				if !allocEscapes(a) {
					// a plain local: what is loaded from it is the value again
					for _, ar := range *a.Referrers() {
						if ld, isLd := ar.(*ssa.UnOp); isLd && ld.Op == token.MUL && retainsValue(ld, depth, seen) {
							return true
						}
					}
					continue
				}
				if cellOfTransientClosures(a) {
					// captured only by literals that are called and dropped: what they do with it counts
					for _, ar := range *a.Referrers() {
						switch y := ar.(type) {
						case *ssa.UnOp:
							if y.Op == token.MUL && retainsValue(y, depth, seen) {
								return true
							}
						case *ssa.MakeClosure:
							g, _ := y.Fn.(*ssa.Function)
							for bi, b := range y.Bindings {
								if b != ssa.Value(a) || g == nil || bi >= len(g.FreeVars) || g.FreeVars[bi].Referrers() == nil {
									continue
								}
								for _, fr := range *g.FreeVars[bi].Referrers() {
									if ld, isLd := fr.(*ssa.UnOp); isLd && ld.Op == token.MUL && retainsValue(ld, depth, seen) {
										return true
									}
								}
							}
						}
					}
					continue
				}
				if a.Comment == "varargs" {
					continue
				}
				return true
			}
			// a field or element of an object that lives and dies with this call: a local struct whose address goes
			// nowhere but to functions of the module that do not keep it
			if root, isA := Root(x.Addr).(*ssa.Alloc); isA && root.Comment != "varargs" && !ptrLeaks(root, depth, map[ssa.Value]bool{}) {
				continue
			}
			if ia, ok := x.Addr.(*ssa.IndexAddr); ok {
				if a, isA := ia.X.(*ssa.Alloc); isA && a.Comment == "varargs" {
					// an element of a variadic argument list: follow the slice made of the array
					for _, ar := range *a.Referrers() {
						if sl, isSl := ar.(*ssa.Slice); isSl && retainsValue(sl, depth, seen) {
							return true
						}
					}
					continue
				}
			}
			return true
		case *ssa.Slice:
			if x.X == v && retainsValue(x, depth, seen) {
				return true
			}
		case *ssa.ChangeType, *ssa.Phi, *ssa.MakeInterface, *ssa.ChangeInterface:
			if retainsValue(x.(ssa.Value), depth, seen) {
				return true
			}
		case *ssa.MakeClosure:
			return true // bound by value into a function literal
		case ssa.CallInstruction:
			cc := x.Common()
			if b := CallBuiltin(x); b != "" {
				if b == "append" && len(cc.Args) > 0 && cc.Args[0] == v {
					if cv, isV := x.(ssa.Value); isV && retainsValue(cv, depth, seen) {
						return true
					}
				}
				continue
			}
			for ai, a := range cc.Args {
				if a != v {
					continue
				}
				for _, q := range calleeParams(x, ai) {
					if retainsParam(q, depth+1) {
						return true
					}
				}
			}
		}
	}
	return false
}

// ptrLeaks: may the address v (of a local object, or of a part of it) outlive the function - stored somewhere, returned,
// captured, or handed to a function that keeps it?
func ptrLeaks(v ssa.Value, depth int, seen map[ssa.Value]bool) bool {
	if seen[v] || v.Referrers() == nil {
		return false
	}
	seen[v] = true
	for _, r := range *v.Referrers() {
		switch x := r.(type) {
		case *ssa.DebugRef:
		case *ssa.FieldAddr:
			if x.X == v && ptrLeaks(x, depth, seen) {
				return true
			}
		case *ssa.IndexAddr:
			if x.X == v && ptrLeaks(x, depth, seen) {
				return true
			}
		case *ssa.UnOp:
			if x.Op != token.MUL {
				return true
			}
		case *ssa.Store:
			if x.Val == v {
				return true
			}
		case ssa.CallInstruction:
			if _, isGo := x.(*ssa.Go); isGo {
				return true
			}
			cc := x.Common()
			if CallBuiltin(x) != "" {
				continue
			}
			for ai, a := range cc.Args {
				if a != v {
					continue
				}
				qs := calleeParams(x, ai)
				if len(qs) == 0 {
					if sc := cc.StaticCallee(); sc != nil && !curProgRoot(sc) {
						continue // outside the module: taken not to keep it
					}
					return true
				}
				for _, q := range qs {
					if retainsParam(q, depth+1) {
						return true
					}
				}
			}
			if cc.IsInvoke() && cc.Value == v {
				return true
			}
		default:
			return true
		}
	}
	return false
}
