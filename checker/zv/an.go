package zv

import (
	"fmt"
	"go/constant"
	"go/token"
	"go/types"
	"sort"
	"strconv"
	"strings"

	"golang.org/x/tools/go/ssa"
)

// ---------------------------------------------------------------------------
// instruction helpers

func instrIndex(i ssa.Instruction) int {
	for k, x := range i.Block().Instrs {
		if x == i {
			return k
		}
	}
	return -1
}

// Dominates reports whether a is executed before b on every path reaching b.
func Dominates(a, b ssa.Instruction) bool {
	if a == nil || b == nil {
		return false
	}
	if a.Parent() == b.Parent() {
		return dominatesRaw(a, b)
	}
	return domDeep(a, b, 0)
}

func dominatesRaw(a, b ssa.Instruction) bool {
	if a.Block() == b.Block() {
		return instrIndex(a) < instrIndex(b)
	}
	return a.Block().Dominates(b.Block())
}

// domDeep: dominance across the boundary of an eligible helper.
func domDeep(a, b ssa.Instruction, depth int) bool {
	fa, fb := a.Parent(), b.Parent()
	if fa == fb {
		return dominatesRaw(a, b)
	}
	if depth > 4 {
		return false
	}
	// b sits in a helper: every call site of that helper is dominated by a
	if Eligible(fb) {
		sites := sitesOf(fb)
		all := len(sites) > 0
		for _, s := range sites {
			if !(s.Parent() == fa && dominatesRaw(a, s)) && !domDeep(a, s, depth+1) {
				all = false
			}
		}
		if all {
			return true
		}
	}
	// a sits in a helper that always executes it, and a call of that helper dominates b
	if Eligible(fa) && witnessPathRaw(fa, nil, IsReturn, func(i ssa.Instruction) bool { return i == a }) == nil {
		for _, s := range sitesOf(fa) {
			if _, isDefer := s.(*ssa.Defer); isDefer {
				continue
			}
			if (s.Parent() == fb && dominatesRaw(s, b)) || domDeep(s, b, depth+1) {
				return true
			}
		}
	}
	return false
}

// AllInstrs visits every instruction of fn (not of its closures).
func AllInstrs(fn *ssa.Function, f func(ssa.Instruction)) {
	if fn == nil {
		return
	}
	for _, b := range fn.Blocks {
		for _, i := range b.Instrs {
			f(i)
		}
	}
}

// WithClosures returns fn and all anonymous functions nested in it.
func WithClosures(fn *ssa.Function) []*ssa.Function {
	if fn == nil {
		return nil
	}
	out := []*ssa.Function{fn}
	for _, a := range fn.AnonFuncs {
		out = append(out, WithClosures(a)...)
	}
	return out
}

// Calls returns all call-like instructions (call, defer, go) of fn.
func Calls(fn *ssa.Function) []ssa.CallInstruction {
	var out []ssa.CallInstruction
	AllInstrs(fn, func(i ssa.Instruction) {
		if c, ok := i.(ssa.CallInstruction); ok {
			out = append(out, c)
		}
	})
	return out
}

// CalleeFunc is the types.Func called (static function, method, or interface
// method), with generic instantiation mapped back to its origin. nil for
// calls of func values and builtins.
func CalleeFunc(c ssa.CallInstruction) *types.Func {
	cc := c.Common()
	if cc.IsInvoke() {
		return cc.Method
	}
	if f := cc.StaticCallee(); f != nil {
		if f.Origin() != nil {
			f = f.Origin()
		}
		if o, ok := f.Object().(*types.Func); ok {
			return o.Origin()
		}
	}
	return nil
}

// StaticCallee returns the SSA function statically called, or nil.
func StaticCallee(c ssa.CallInstruction) *ssa.Function { return c.Common().StaticCallee() }

// FuncName renders pkg.Func or pkg.(Recv).Method for a types.Func.
func FuncName(f *types.Func) string {
	if f == nil {
		return "<dynamic>"
	}
	return CanonFullName(f)
}

// IsCallTo reports whether c calls the function/method with the given full
// name as rendered by types.Func.FullName, e.g.
// "(*go.uber.org/zap/buffer.Buffer).AppendByte" or "go.uber.org/zap.Any" or
// "(go.uber.org/zap/zapcore.Core).Check" (interface method).
func IsCallTo(c ssa.CallInstruction, full ...string) bool {
	f := CalleeFunc(c)
	if f == nil {
		return false
	}
	n := CanonFullName(f)
	for _, x := range full {
		if n == x {
			return true
		}
	}
	return false
}

// CallBuiltin returns the builtin name if c calls a builtin.
func CallBuiltin(c ssa.CallInstruction) string {
	if b, ok := c.Common().Value.(*ssa.Builtin); ok {
		return b.Name()
	}
	return ""
}

// Args returns the call's arguments including the receiver first (for both
// static method calls and invokes).
func Args(c ssa.CallInstruction) []ssa.Value {
	cc := c.Common()
	if cc.IsInvoke() {
		return append([]ssa.Value{cc.Value}, cc.Args...)
	}
	return cc.Args
}

// ---------------------------------------------------------------------------
// path queries (A2)

// ExistsPath reports whether some path starting right after `from` (or at the
// function entry when from == nil) reaches an instruction satisfying target
// without first executing an instruction satisfying avoid.
func ExistsPath(fn *ssa.Function, from ssa.Instruction, target, avoid func(ssa.Instruction) bool) bool {
	return WitnessPath(fn, from, target, avoid) != nil
}

// WitnessPath is ExistsPath returning the target instruction reached.
func WitnessPath(fn *ssa.Function, from ssa.Instruction, target, avoid func(ssa.Instruction) bool) ssa.Instruction {
	q := &deepQ{target: target, avoid: avoid, mayMemo: map[*ssa.Function]int{}, blockMemo: map[*ssa.Function]int{}}
	var av func(ssa.Instruction) bool
	if avoid != nil {
		av = q.deepAvoid
	}
	return witnessFrom(fn, from, q, av, 0)
}

// witnessFrom starts the search at `from`, which may lie inside an eligible
// helper of fn: the search then continues after the helper's call sites.
func witnessFrom(fn *ssa.Function, from ssa.Instruction, q *deepQ, av func(ssa.Instruction) bool, depth int) ssa.Instruction {
	if from == nil {
		return witnessPathRaw(fn, nil, q.deepTarget, av)
	}
	if _, isBS := from.(blockStart); isBS || from.Parent() == fn || depth > 4 {
		return witnessPathRaw(fn, from, q.deepTarget, av)
	}
	h := from.Parent()
	if h == nil || !Eligible(h) {
		return witnessPathRaw(fn, from, q.deepTarget, av)
	}
	inner := func(i ssa.Instruction) bool {
		switch i.(type) {
		case *ssa.Return, *ssa.Panic:
			return false
		}
		return q.deepTarget(i)
	}
	if w := witnessPathRaw(h, from, inner, av); w != nil {
		return w
	}
	// can the helper return from here?
	if witnessPathRaw(h, from, IsReturn, av) == nil {
		return nil
	}
	for _, s := range sitesOf(h) {
		if _, isDefer := s.(*ssa.Defer); isDefer {
			continue
		}
		if s.Parent() != fn && !inRegion(fn, s.Parent()) {
			continue // this call site does not return into fn
		}
		if w := witnessFrom(fn, s, q, av, depth+1); w != nil {
			return w
		}
	}
	return nil
}

// witnessPathRaw is the intra-procedural search.
func witnessPathRaw(fn *ssa.Function, from ssa.Instruction, target, avoid func(ssa.Instruction) bool) ssa.Instruction {
	if fn == nil || len(fn.Blocks) == 0 {
		return nil
	}
	visited := map[*ssa.BasicBlock]bool{}
	type item struct {
		b     *ssa.BasicBlock
		start int
	}
	var work []item
	if from == nil {
		work = append(work, item{fn.Blocks[0], 0})
		visited[fn.Blocks[0]] = true
	} else if bs, ok := from.(blockStart); ok {
		work = append(work, item{bs.b, 0})
		visited[bs.b] = true
	} else {
		work = append(work, item{from.Block(), instrIndex(from) + 1})
	}
	for len(work) > 0 {
		it := work[len(work)-1]
		work = work[:len(work)-1]
		stopped := false
		for k := it.start; k < len(it.b.Instrs); k++ {
			in := it.b.Instrs[k]
			if target(in) {
				return in
			}
			if avoid != nil && avoid(in) {
				stopped = true
				break
			}
		}
		if stopped {
			continue
		}
		for _, s := range it.b.Succs {
			if !visited[s] {
				visited[s] = true
				work = append(work, item{s, 0})
			}
		}
	}
	return nil
}

func IsReturn(i ssa.Instruction) bool { _, ok := i.(*ssa.Return); return ok }
func IsExit(i ssa.Instruction) bool {
	switch i.(type) {
	case *ssa.Return, *ssa.Panic:
		return true
	}
	return false
}

// ---------------------------------------------------------------------------
// guards (A1)

// Atom is a branch condition that must have evaluated to Pol for the guarded
// instruction to execute.
type Atom struct {
	Cond ssa.Value
	Pol  bool
}

// GuardsOfBlock returns the control-dependence atoms of block b along its
// dominator chain.
func GuardsOfBlock(b *ssa.BasicBlock) []Atom {
	var out []Atom
	for d := b.Idom(); d != nil; d = d.Idom() {
		if len(d.Instrs) == 0 {
			continue
		}
		iff, ok := d.Instrs[len(d.Instrs)-1].(*ssa.If)
		if !ok {
			continue
		}
		t, f := d.Succs[0], d.Succs[1]
		if t == f {
			continue
		}
		td := len(t.Preds) == 1 && (t == b || t.Dominates(b))
		fd := len(f.Preds) == 1 && (f == b || f.Dominates(b))
		if fd && !td && countingLoopExit(d, iff) {
			// "the counting loop before this block has finished" is not a condition on the data: a `for i := 0; i < len(xs); i++`
			// written out by hand reads like the range loop it replaces (whose exit test rules skip by its rangeindex name)
			continue
		}
		if td && !fd {
			out = append(out, Atom{iff.Cond, true})
		} else if fd && !td {
			out = append(out, Atom{iff.Cond, false})
		}
	}
	return out
}

// countingLoopExit: d is the header of a hand-written counting loop - its test compares a phi of d that every back edge
// increments by one with a length or another value not computed in the loop - and the false edge leaves the loop.
func countingLoopExit(d *ssa.BasicBlock, iff *ssa.If) bool {
	cmp, ok := iff.Cond.(*ssa.BinOp)
	if !ok || (cmp.Op != token.LSS && cmp.Op != token.NEQ) {
		return false
	}
	ph, ok := cmp.X.(*ssa.Phi)
	if !ok || ph.Block() != d || ph.Comment == "rangeindex" || len(ph.Edges) < 2 {
		return false
	}
	incs := 0
	for k, e := range ph.Edges {
		back := d.Dominates(d.Preds[k])
		if bo, isB := e.(*ssa.BinOp); isB && back && bo.Op == token.ADD && bo.X == ssa.Value(ph) {
			if v, isC := ConstInt(bo.Y); isC && v == 1 {
				incs++
				continue
			}
		}
		if back {
			return false
		}
	}
	if incs == 0 {
		return false
	}
	// the bound is not computed from anything the loop changes: a len/cap of a value defined outside, a constant, a
	// parameter or a value of a dominating block
	bound := cmp.Y
	if c, isCall := bound.(*ssa.Call); isCall {
		if bi, isBi := c.Call.Value.(*ssa.Builtin); isBi && (bi.Name() == "len" || bi.Name() == "cap") && len(c.Call.Args) == 1 {
			bound = c.Call.Args[0]
			if u, isU := bound.(*ssa.UnOp); isU && u.Op == token.MUL {
				// a field or variable read in the header: accepted (a loop shrinking its own slice is not a counting loop
				// the rules would meet as a guard; the range form reads the length once, this one each round)
				return true
			}
		}
	}
	switch x := bound.(type) {
	case *ssa.Const, *ssa.Parameter, *ssa.FreeVar:
		return true
	case ssa.Instruction:
		return x.Block() != d && x.Block().Dominates(d)
	}
	return false
}

func Guards(i ssa.Instruction) []Atom {
	own := GuardsOfBlock(i.Block())
	if bs, ok := i.(blockStart); ok {
		_ = bs
		return own
	}
	return append(own, contextAtoms(i.Parent(), 0)...)
}

var ctxBusy = map[*ssa.Function]bool{}

// contextAtoms: the conditions common to all call sites of an eligible helper.
func contextAtoms(f *ssa.Function, depth int) []Atom {
	if depth > 4 || ctxBusy[f] || !Eligible(f) {
		return nil
	}
	ctxBusy[f] = true
	defer delete(ctxBusy, f)
	var common []Atom
	for k, s := range sitesOf(f) {
		g := append(GuardsOfBlock(s.Block()), contextAtoms(s.Parent(), depth+1)...)
		if k == 0 {
			common = g
			continue
		}
		have := map[string]bool{}
		for _, a := range g {
			have[AtomString(a)] = true
		}
		var keep []Atom
		for _, a := range common {
			if have[AtomString(a)] {
				keep = append(keep, a)
			}
		}
		common = keep
	}
	return common
}

// AtomStrings renders the atoms in normalised textual form (sorted).
func AtomStrings(atoms []Atom) []string {
	var out []string
	seen := map[string]bool{}
	for _, a := range atoms {
		for _, s := range expandAtomConj(a, 0) {
			if !seen[s] {
				seen[s] = true
				out = append(out, s)
			}
		}
	}
	sort.Strings(out)
	return out
}

var negOp = map[token.Token]token.Token{
	token.EQL: token.NEQ, token.NEQ: token.EQL,
	token.LSS: token.GEQ, token.GEQ: token.LSS,
	token.GTR: token.LEQ, token.LEQ: token.GTR,
}

// AtomString renders one atom (boolean helpers expanded), polarity folded into the operator.
func AtomString(a Atom) string {
	return strings.Join(expandAtomConj(a, 0), " ∧ ")
}

// atomStringRaw renders one atom without helper expansion.
func atomStringRaw(a Atom) string {
	v, pol := a.Cond, a.Pol
	for {
		if u, ok := v.(*ssa.UnOp); ok && u.Op == token.NOT {
			v, pol = u.X, !pol
			continue
		}
		break
	}
	if b, ok := v.(*ssa.BinOp); ok {
		if _, isCmp := negOp[b.Op]; isCmp {
			op := b.Op
			if !pol {
				op = negOp[op]
			}
			if nonNegative(b.X) {
				if k, isC := ConstInt(b.Y); isC {
					switch {
					case k == 0 && op == token.NEQ, k == 1 && op == token.GEQ:
						return Desc(b.X) + " > 0"
					case k == 0 && op == token.LEQ, k == 1 && op == token.LSS:
						return Desc(b.X) + " == 0"
					}
				}
			}
			if _, xc := b.X.(*ssa.Const); !xc {
				if _, yc := b.Y.(*ssa.Const); !yc && (op == token.LSS || op == token.LEQ) {
					return Desc(b.Y) + " " + swapOp(op).String() + " " + Desc(b.X)
				}
			}
			x, y := Desc(b.X), Desc(b.Y)
			// constants to the right
			if _, ok := b.X.(*ssa.Const); ok {
				if _, ok2 := b.Y.(*ssa.Const); !ok2 {
					x, y = y, x
					op = swapOp(op)
				}
			}
			return x + " " + op.String() + " " + y
		}
	}
	if pol {
		return Desc(v)
	}
	return "!" + Desc(v)
}

func swapOp(op token.Token) token.Token {
	switch op {
	case token.LSS:
		return token.GTR
	case token.GTR:
		return token.LSS
	case token.LEQ:
		return token.GEQ
	case token.GEQ:
		return token.LEQ
	}
	return op
}

// HasAtom reports whether some rendered atom satisfies pred.
func HasAtom(atoms []Atom, pred func(s string) bool) bool {
	for _, s := range AtomStrings(atoms) {
		if pred(s) {
			return true
		}
	}
	return false
}

// ---------------------------------------------------------------------------
// value description / provenance (A5)

// Desc renders an SSA value as a canonical access path. Loads are
// transparent; single-store locals are resolved to the stored value.
func Desc(v ssa.Value) string { return desc(v, 0) }

func desc(v ssa.Value, depth int) string {
	if depth > 12 {
		return "…"
	}
	if descValEnv != nil && v != nil {
		if s, ok := descValEnv[v]; ok {
			return s
		}
	}
	switch x := v.(type) {
	case nil:
		return "<nil>"
	case *pastVal:
		return desc(x.Value, depth+1)
	case *ssa.Parameter:
		return paramDesc(x, depth)
	case *ssa.FreeVar:
		return freeVarName(x)
	case *ssa.Const:
		if x.Value == nil {
			return "nil"
		}
		if x.Value.Kind() == constant.String {
			return fmt.Sprintf("%q", constant.StringVal(x.Value))
		}
		return x.Value.ExactString()
	case *ssa.Global:
		return GN(x)
	case *ssa.Function:
		return "func " + FStr(x)
	case *ssa.Builtin:
		return x.Name()
	case *ssa.FieldAddr:
		if a, ok := x.X.(*ssa.Alloc); ok {
			ss := singleStore(a)
			if p, isP := ss.(*ssa.Parameter); isP {
				return joinField(desc(p, depth+1), fieldName(x.X.Type(), x.Field))
			}
			// a local that is a never-modified copy of (a part of) a parameter: `caller := ent.Caller`
			if ld, isLoad := ss.(*ssa.UnOp); isLoad && ld.Op == token.MUL {
				rt := Root(ld)
				if ra, isA := rt.(*ssa.Alloc); isA {
					if sp := singleStore(ra); sp != nil {
						rt = sp
					}
				}
				if _, isP := rt.(*ssa.Parameter); isP {
					return joinField(desc(ld, depth+1), fieldName(x.X.Type(), x.Field))
				}
			}
			return joinField(allocName(a), fieldName(x.X.Type(), x.Field))
		}
		return joinField(desc(x.X, depth+1), fieldName(x.X.Type(), x.Field))
	case *ssa.Field:
		return joinField(desc(x.X, depth+1), fieldName(x.X.Type(), x.Field))
	case *ssa.IndexAddr:
		if a, ok := x.X.(*ssa.Alloc); ok {
			return allocName(a) + "[" + desc(x.Index, depth+1) + "]"
		}
		return desc(x.X, depth+1) + "[" + desc(x.Index, depth+1) + "]"
	case *ssa.Index:
		return desc(x.X, depth+1) + "[" + desc(x.Index, depth+1) + "]"
	case *ssa.Lookup:
		return desc(x.X, depth+1) + "[" + desc(x.Index, depth+1) + "]"
	case *ssa.UnOp:
		if x.Op == token.MUL {
			if a, ok := x.X.(*ssa.Alloc); ok {
				if s := singleStore(a); s != nil {
					return desc(s, depth+1)
				}
				return "var " + allocName(a)
			}
			return desc(x.X, depth+1)
		}
		return x.Op.String() + desc(x.X, depth+1)
	case *ssa.BinOp:
		return "(" + desc(x.X, depth+1) + " " + x.Op.String() + " " + desc(x.Y, depth+1) + ")"
	case *ssa.Alloc:
		return "&" + allocName(x)
	case *ssa.ChangeType:
		return desc(x.X, depth+1)
	case *ssa.ChangeInterface:
		return desc(x.X, depth+1)
	case *ssa.MakeInterface:
		return desc(x.X, depth+1)
	case *ssa.Convert:
		return "conv[" + types.TypeString(x.Type(), shortQual) + "](" + desc(x.X, depth+1) + ")"
	case *ssa.Slice:
		s := desc(x.X, depth+1) + "["
		if x.Low != nil {
			s += desc(x.Low, depth+1)
		}
		s += ":"
		if x.High != nil {
			s += desc(x.High, depth+1)
		}
		if x.Max != nil {
			s += ":" + desc(x.Max, depth+1)
		}
		return s + "]"
	case *ssa.Extract:
		return desc(x.Tuple, depth+1) + "#" + fmt.Sprint(x.Index)
	case *ssa.TypeAssert:
		s := desc(x.X, depth+1) + ".(" + types.TypeString(x.AssertedType, shortQual) + ")"
		if x.CommaOk {
			s += "?"
		}
		return s
	case *ssa.Call:
		if s, ok := callProjection(x, depth); ok {
			return s
		}
		// len(buf.Bytes()) is buf.Len() for zap's buffer (and bytes.Buffer): one canonical form
		if CallBuiltin(x) == "len" && len(x.Call.Args) == 1 {
			if bc, ok := x.Call.Args[0].(*ssa.Call); ok {
				if f := CalleeFunc(bc); f != nil && FNm(f) == "Bytes" && f.Pkg() != nil && (f.Pkg().Path() == "go.uber.org/zap/buffer" || f.Pkg().Path() == "bytes") && len(Args(bc)) == 1 {
					return "Len(" + desc(Args(bc)[0], depth+1) + ")"
				}
			}
		}
		var args []string
		for _, a := range Args(x) {
			args = append(args, desc(a, depth+1))
		}
		name := ""
		if f := CalleeFunc(x); f != nil {
			name = FNm(f)
		} else if b := CallBuiltin(x); b != "" {
			name = b
		} else {
			name = "(" + desc(x.Call.Value, depth+1) + ")"
		}
		return name + "(" + strings.Join(args, ", ") + ")"
	case *ssa.Phi:
		if x.Comment != "" {
			return "φ" + x.Comment
		}
		if depth > 3 {
			return "φ" + x.Name()
		}
		var parts []string
		for _, e := range x.Edges {
			if e == v {
				continue
			}
			if _, isPhi := e.(*ssa.Phi); isPhi {
				parts = append(parts, "φ"+e.Name())
				continue
			}
			parts = append(parts, desc(e, depth+4))
		}
		return "φ(" + strings.Join(parts, " | ") + ")"
	case *ssa.MakeClosure:
		return "closure " + x.Fn.Name()
	case *ssa.MakeSlice:
		return "make(" + types.TypeString(x.Type(), shortQual) + ")"
	case *ssa.MakeMap:
		return "makemap"
	}
	return v.Name()
}

func shortQual(p *types.Package) string { return p.Name() }

func allocName(a *ssa.Alloc) string {
	if a.Comment != "" {
		// a value receiver spilled into a local of the same name
		// a parameter (the value receiver, say) spilled into a local of the same name
		if f := a.Parent(); f != nil {
			for _, q := range f.Params {
				if q.Name() == a.Comment && types.Identical(deref(a.Type()), q.Type()) {
					return PN(q)
				}
			}
		}
		return a.Comment
	}
	return a.Name()
}

// canonRecv: the name the rules use for the receiver of a method of the named type, whatever the source calls it (the
// renderings the rules compare mention receivers - "log.core", "s.base", "enc.buf"; renaming a receiver must not change
// them). Types not listed render under their own receiver name.
var canonRecv = map[string]string{
	"buffer.Buffer": "b", "buffer.Pool": "p", "pool.Pool": "p", "stacktrace.Formatter": "sf", "stacktrace.Stack": "st",
	"zap.AtomicLevel": "lvl", "zap.Config": "cfg", "zap.Logger": "log", "zap.SugaredLogger": "s", "zap.anyFieldC": "f", "zap.dictObject": "d",
	"zap.errArray": "errs", "zap.errArrayElem": "e", "zap.invalidPairs": "ps", "zap.loggerWriter": "l", "zap.sinkRegistry": "sr",
	"zapcore.BufferedWriteSyncer": "s", "zapcore.CheckWriteAction": "a", "zapcore.CheckedEntry": "ce", "zapcore.EntryCaller": "ec",
	"zapcore.Field": "f", "zapcore.Level": "l", "zapcore.MapObjectEncoder": "m", "zapcore.consoleEncoder": "c", "zapcore.counter": "c",
	"zapcore.counters": "cs", "zapcore.errArray": "errs", "zapcore.errArrayElem": "e", "zapcore.hooked": "h", "zapcore.ioCore": "c",
	"zapcore.jsonEncoder": "enc", "zapcore.lazyWithCore": "d", "zapcore.levelFilterCore": "c", "zapcore.lockedWriteSyncer": "s",
	"zapcore.multiCore": "mc", "zapcore.multiWriteSyncer": "ws", "zapcore.sampler": "s", "zapcore.sliceArrayEncoder": "s",
	"zapcore.writerWrapper": "w", "zapgrpc.Logger": "l", "zapgrpc.printer": "v", "zapio.Writer": "w", "zapslog.Handler": "h",
}

// PN: the name a parameter is rendered under: its own, or - for the receiver of a method of a listed type - the
// canonical one.
func PN(p *ssa.Parameter) string {
	f := p.Parent()
	if f == nil || f.Signature.Recv() == nil || len(f.Params) == 0 || f.Params[0] != p {
		if cn, ok := canonParamName(p); ok {
			return cn
		}
		return p.Name()
	}
	if rn := RecvNamed(f); rn != nil && rn.Obj().Pkg() != nil {
		if cn, ok := canonRecv[rn.Obj().Pkg().Name()+"."+TNm(rn.Obj())]; ok {
			return cn
		}
	}
	return p.Name()
}

// canonParamName: the name parameter p had on the reference tree (table canonParams, generated by `zapverif
// dump-params`), when the function still exists there under the same name with the same number of parameters.
// Renderings then do not depend on what a parameter is called.
func canonParamName(p *ssa.Parameter) (string, bool) {
	f := p.Parent()
	if f == nil || f.Parent() != nil {
		return "", false
	}
	names, ok := canonParams[FStr(f)]
	if !ok || len(names) != len(f.Params) {
		return "", false
	}
	for i, q := range f.Params {
		if q == p {
			return names[i], true
		}
	}
	return "", false
}

// DumpParamTable renders the table of parameter names of the loaded tree as Go source.
func DumpParamTable(p *Program) string {
	var keys []string
	tbl := map[string][]string{}
	p.EachRootFunc(func(f *ssa.Function) {
		if f.Parent() != nil || f.Synthetic != "" || len(f.Params) == 0 {
			return
		}
		var ns []string
		for _, q := range f.Params {
			ns = append(ns, q.Name())
		}
		tbl[FStr(f)] = ns
		keys = append(keys, FStr(f))
	})
	sort.Strings(keys)
	var sb strings.Builder
	sb.WriteString("// Code generated by `zapverif dump-params` on the reference tree; DO NOT EDIT.\n\npackage zv\n\n// canonParams: the parameter names every function of the analysed packages had on the reference tree.\nvar canonParams = map[string][]string{\n")
	for _, k := range keys {
		sb.WriteString("\t" + strconv.Quote(k) + ": {")
		for i, n := range tbl[k] {
			if i > 0 {
				sb.WriteString(", ")
			}
			sb.WriteString(strconv.Quote(n))
		}
		sb.WriteString("},\n")
	}
	sb.WriteString("}\n")
	return sb.String()
}

// freeVarName: a captured receiver renders like the receiver.
func freeVarName(fv *ssa.FreeVar) string {
	f := fv.Parent()
	for f != nil && f.Parent() != nil {
		f = f.Parent()
	}
	if f != nil {
		for _, q := range f.Params {
			if q.Name() == fv.Name() && (types.Identical(deref(fv.Type()), q.Type()) || types.Identical(fv.Type(), q.Type())) {
				return PN(q)
			}
		}
	}
	return fv.Name()
}

// singleStore returns the only value ever stored to the alloc (ignoring the
// zero-initialisation), or nil.
func singleStore(a *ssa.Alloc) ssa.Value {
	var val ssa.Value
	n := 0
	if a.Referrers() == nil {
		return nil
	}
	for _, r := range *a.Referrers() {
		switch s := r.(type) {
		case *ssa.Store:
			if s.Addr == a {
				n++
				val = s.Val
			}
		case *ssa.UnOp, *ssa.DebugRef:
		case *ssa.FieldAddr, *ssa.IndexAddr:
			if !readOnlyAddr(r.(ssa.Value), 0) {
				return nil
			}
		case *ssa.MakeClosure:
			// captured by reference: fine if the closure only loads it
			fn := s.Fn.(*ssa.Function)
			for i, b := range s.Bindings {
				if b != ssa.Value(a) || i >= len(fn.FreeVars) {
					continue
				}
				if refs := fn.FreeVars[i].Referrers(); refs != nil {
					for _, fr := range *refs {
						switch fr.(type) {
						case *ssa.UnOp, *ssa.DebugRef:
						default:
							return nil
						}
					}
				}
			}
		default:
			return nil // address escapes / field addr etc.
		}
	}
	if n == 1 {
		return val
	}
	return nil
}

// joinField: base.field - or base alone when the field is a transparent grouping (fieldTransparent).
func joinField(base, field string) string {
	if field == "" {
		return base
	}
	return base + "." + field
}

func fieldName(t types.Type, idx int) string {
	t = deref(t)
	if st, ok := t.Underlying().(*types.Struct); ok && idx < st.NumFields() {
		return FN(st.Field(idx))
	}
	return fmt.Sprintf("f%d", idx)
}

func deref(t types.Type) types.Type {
	if p, ok := t.Underlying().(*types.Pointer); ok {
		return types.Unalias(p.Elem())
	}
	return types.Unalias(t)
}

// coreType returns the single underlying type of a type parameter's type set
// (e.g. string for [T ~string]), or t's own underlying type.
func coreType(t types.Type) types.Type {
	tp, ok := types.Unalias(t).(*types.TypeParam)
	if !ok {
		return t.Underlying()
	}
	iface, _ := tp.Constraint().Underlying().(*types.Interface)
	if iface == nil {
		return t.Underlying()
	}
	var core types.Type
	for i := 0; i < iface.NumEmbeddeds(); i++ {
		switch e := iface.EmbeddedType(i).(type) {
		case *types.Union:
			for j := 0; j < e.Len(); j++ {
				u := e.Term(j).Type().Underlying()
				if core != nil && !types.Identical(core, u) {
					return t.Underlying()
				}
				core = u
			}
		default:
			u := e.Underlying()
			if _, isI := u.(*types.Interface); !isI {
				core = u
			}
		}
	}
	if core == nil {
		return t.Underlying()
	}
	return core
}

// Strip removes value-preserving wrappers (interface boxing, type changes,
// loads of single-store locals).
func Strip(v ssa.Value) ssa.Value {
	for {
		switch x := v.(type) {
		case *ssa.ChangeType:
			v = x.X
		case *ssa.ChangeInterface:
			v = x.X
		case *ssa.MakeInterface:
			v = x.X
		case *ssa.UnOp:
			if x.Op == token.MUL {
				if a, ok := x.X.(*ssa.Alloc); ok {
					if s := singleStore(a); s != nil {
						v = s
						continue
					}
				}
			}
			return v
		default:
			return v
		}
	}
}

// Root strips field/index/slice/deref steps to the base value of an address
// or aggregate expression.
func Root(v ssa.Value) ssa.Value {
	for {
		switch x := v.(type) {
		case *ssa.FieldAddr:
			v = x.X
		case *ssa.Field:
			v = x.X
		case *ssa.IndexAddr:
			v = x.X
		case *ssa.Index:
			v = x.X
		case *ssa.Slice:
			v = x.X
		case *ssa.ChangeType:
			v = x.X
		case *ssa.MakeInterface:
			v = x.X
		case *ssa.ChangeInterface:
			v = x.X
		case *ssa.UnOp:
			if x.Op == token.MUL {
				if a, ok := x.X.(*ssa.Alloc); ok {
					if s := singleStore(a); s != nil {
						v = s
						continue
					}
					return a
				}
				v = x.X
				continue
			}
			return v
		default:
			return v
		}
	}
}

// IsFresh reports whether v is an object allocated in this function (or the
// result of one of the named constructor functions).
func IsFresh(v ssa.Value, constructors ...string) bool {
	switch x := Root(v).(type) {
	case *ssa.Alloc, *ssa.MakeSlice, *ssa.MakeMap, *ssa.MakeChan:
		return true
	case *ssa.Call:
		if f := CalleeFunc(x); f != nil {
			for _, c := range constructors {
				if CanonFullName(f) == c {
					return true
				}
			}
		}
		if CallBuiltin(x) == "append" {
			return false
		}
	}
	return false
}

// ConstInt returns the integer value of a constant SSA value.
func ConstInt(v ssa.Value) (int64, bool) {
	c, ok := Strip(v).(*ssa.Const)
	if !ok || c.Value == nil {
		if cv, ok2 := v.(*ssa.Convert); ok2 {
			return ConstInt(cv.X)
		}
		return 0, false
	}
	if c.Value.Kind() != constant.Int {
		return 0, false
	}
	n, exact := constant.Int64Val(c.Value)
	return n, exact
}

// ConstString returns the string value of a constant SSA value.
func ConstString(v ssa.Value) (string, bool) {
	c, ok := Strip(v).(*ssa.Const)
	if !ok || c.Value == nil || c.Value.Kind() != constant.String {
		return "", false
	}
	return constant.StringVal(c.Value), true
}

// IsNilConst reports whether v is the nil constant.
func IsNilConst(v ssa.Value) bool {
	c, ok := v.(*ssa.Const)
	return ok && c.Value == nil
}

// Returns lists the Return instructions of fn.
func Returns(fn *ssa.Function) []*ssa.Return {
	var out []*ssa.Return
	AllInstrs(fn, func(i ssa.Instruction) {
		if r, ok := i.(*ssa.Return); ok && r.Block() != fn.Recover {
			// (the synthetic recover block only re-loads the named results)
			out = append(out, r)
		}
	})
	return out
}

// FieldStores lists stores in fn (and closures) whose address is a field of a
// struct of the given named type; returns the field names with instructions.
type FieldStore struct {
	Field string
	Instr *ssa.Store
	Addr  *ssa.FieldAddr
	Fn    *ssa.Function
}

func FieldStoresOf(fn *ssa.Function, named *types.Named) []FieldStore {
	var out []FieldStore
	for _, f := range WithClosures(fn) {
		AllInstrs(f, func(i ssa.Instruction) {
			st, ok := i.(*ssa.Store)
			if !ok {
				return
			}
			fa, ok := st.Addr.(*ssa.FieldAddr)
			if !ok {
				return
			}
			if n, ok := types.Unalias(deref(fa.X.Type())).(*types.Named); ok && n.Origin() == named.Origin() {
				out = append(out, FieldStore{fieldName(fa.X.Type(), fa.Field), st, fa, f})
			} else if outer, isFA := fa.X.(*ssa.FieldAddr); isFA && fieldName(outer.X.Type(), outer.Field) == "" {
				// a setting regrouped into a nested struct (a transparent grouping field of named)
				if n, ok := types.Unalias(deref(outer.X.Type())).(*types.Named); ok && n.Origin() == named.Origin() {
					out = append(out, FieldStore{fieldName(fa.X.Type(), fa.Field), st, fa, f})
				}
			}
		})
	}
	return out
}

// TypeName renders a type with package names (not paths).
func TypeName(t types.Type) string { return canonTypeNames(types.TypeString(t, shortQual)) }

// FuncKey renders an SSA function as a stable construct name for keys.
func FuncKey(f *ssa.Function) string {
	if f == nil {
		return "<nil>"
	}
	if f.Parent() != nil {
		return FuncKey(f.Parent()) + "$" + strings.TrimPrefix(f.Name(), f.Parent().Name()+"$")
	}
	return FStr(f)
}

// RetVals returns the values a Return yields, resolving "defer-spilled"
// results: in a function with defers go/ssa stores the results into result
// allocs right before rundefers and the Return loads them back.
func RetVals(r *ssa.Return) []ssa.Value {
	out := make([]ssa.Value, len(r.Results))
	for k, v := range r.Results {
		out[k] = v
		u, ok := v.(*ssa.UnOp)
		if !ok || u.Op != token.MUL {
			continue
		}
		a, ok := u.X.(*ssa.Alloc)
		if !ok {
			continue
		}
		// nearest preceding store to a, walking back through single-pred chains
		b := r.Block()
		idx := instrIndex(r)
		for b != nil {
			found := false
			for i := idx - 1; i >= 0; i-- {
				if st, ok := b.Instrs[i].(*ssa.Store); ok && st.Addr == ssa.Value(a) {
					out[k] = st.Val
					found = true
					break
				}
			}
			if found || len(b.Preds) != 1 {
				break
			}
			b = b.Preds[0]
			idx = len(b.Instrs)
		}
	}
	return out
}

// blockStart is a pseudo-instruction used as the `from` of path queries to
// start at the beginning of a block (e.g. one successor of a branch).
type blockStart struct {
	ssa.Instruction
	b *ssa.BasicBlock
}

func (b blockStart) Block() *ssa.BasicBlock { return b.b }

// AtBlock makes a path-query origin at the start of block b.
func AtBlock(b *ssa.BasicBlock) ssa.Instruction { return blockStart{b: b} }

// BranchOn finds the If in fn that tests `v <op> nil`-style condition whose
// rendered atom (positive polarity) equals one of want; returns the
// successor blocks (whenTrue, whenFalse).
func BranchOn(fn *ssa.Function, want ...string) (iff *ssa.If, t, f *ssa.BasicBlock) {
	for _, b := range fn.Blocks {
		if len(b.Instrs) == 0 {
			continue
		}
		i, ok := b.Instrs[len(b.Instrs)-1].(*ssa.If)
		if !ok {
			continue
		}
		pos := AtomString(Atom{i.Cond, true})
		neg := AtomString(Atom{i.Cond, false})
		for _, w := range want {
			if pos == w {
				return i, b.Succs[0], b.Succs[1]
			}
			if neg == w {
				return i, b.Succs[1], b.Succs[0]
			}
		}
	}
	return nil, nil, nil
}

// PathConds returns the conditions under which block b executes as a DNF:
// one conjunction (sorted atom strings) per way of entering b. For a block
// with one predecessor this is its dominator guard set; for a join block
// each incoming edge contributes its own conjunction (depth-limited; back
// edges are ignored).
func PathConds(b *ssa.BasicBlock) [][]string {
	return pathCondsCtx(b, 0)
}

func pathCondsNoCtx(b *ssa.BasicBlock) [][]string {
	return pathConds(b, map[*ssa.BasicBlock]bool{}, 0)
}

// pathCondsFrom: the conditions under which b executes, given that head (a dominator of b) does - what lies before head
// is left out.
func pathCondsFrom(b, head *ssa.BasicBlock) [][]string {
	if head == nil || !(head == b || head.Dominates(b)) {
		return pathCondsNoCtx(b)
	}
	pcStop = append(pcStop, head)
	defer func() { pcStop = pcStop[:len(pcStop)-1] }()
	return pathConds(b, map[*ssa.BasicBlock]bool{}, 0)
}

var pcStop []*ssa.BasicBlock

var pcBusy = map[*ssa.Function]bool{}

// pathCondsCtx: own path conditions combined with those of the call sites of an eligible helper.
func pathCondsCtx(b *ssa.BasicBlock, depth int) [][]string {
	own := pathCondsNoCtx(b)
	f := b.Parent()
	if depth > 3 || pcBusy[f] || !Eligible(f) {
		return own
	}
	pcBusy[f] = true
	defer delete(pcBusy, f)
	var ctx [][]string
	for _, s := range sitesOf(f) {
		ctx = append(ctx, pathCondsCtx(s.Block(), depth+1)...)
	}
	if len(ctx) == 0 || len(ctx)*len(own) > 256 {
		return own
	}
	var out [][]string
	seen := map[string]bool{}
	for _, o := range own {
		for _, c := range ctx {
			conj := uniqSorted(append(append([]string{}, o...), c...))
			k := strings.Join(conj, " && ")
			if !seen[k] {
				seen[k] = true
				out = append(out, conj)
			}
		}
	}
	return out
}

func pathConds(b *ssa.BasicBlock, onPath map[*ssa.BasicBlock]bool, depth int) [][]string {
	if len(b.Preds) == 0 || len(pcStop) > 0 && pcStop[len(pcStop)-1] == b {
		return [][]string{{}}
	}
	if depth > 40 {
		return [][]string{AtomStrings(GuardsOfBlock(b))}
	}
	onPath[b] = true
	defer delete(onPath, b)
	var out [][]string
	seen := map[string]bool{}
	for _, p := range b.Preds {
		if onPath[p] || b.Dominates(p) {
			continue // back edge
		}
		edges := [][]string{{}}
		if len(p.Instrs) > 0 {
			if iff, ok := p.Instrs[len(p.Instrs)-1].(*ssa.If); ok && p.Succs[0] != p.Succs[1] {
				edges = expandAtomDNF(Atom{iff.Cond, p.Succs[0] == b}, 0)
			}
		}
		for _, conj := range pathConds(p, onPath, depth+1) {
			for _, edge := range edges {
				c := uniqSorted(append(append([]string{}, conj...), edge...))
				k := strings.Join(c, " && ")
				if !seen[k] {
					seen[k] = true
					out = append(out, c)
				}
			}
		}
		if len(out) > 256 {
			return [][]string{AtomStrings(GuardsOfBlock(b))}
		}
	}
	if len(out) == 0 {
		return [][]string{AtomStrings(GuardsOfBlock(b))}
	}
	return out
}

// AllDisjunctsHave reports whether every conjunction of the DNF contains an
// atom accepted by pred; returns a counter-example conjunction otherwise.
func AllDisjunctsHave(dnf [][]string, pred func(string) bool) (bool, []string) {
	for _, conj := range dnf {
		ok := false
		for _, a := range conj {
			if pred(a) {
				ok = true
				break
			}
		}
		if !ok {
			return false, conj
		}
	}
	return true, nil
}

// readOnlyAddr: the derived address is only loaded from (possibly through
// further field/index steps), never stored to or passed on.
func readOnlyAddr(v ssa.Value, depth int) bool {
	if depth > 6 || v.Referrers() == nil {
		return depth <= 6
	}
	for _, r := range *v.Referrers() {
		switch x := r.(type) {
		case *ssa.UnOp, *ssa.DebugRef:
		case *ssa.FieldAddr:
			if !readOnlyAddr(x, depth+1) {
				return false
			}
		case *ssa.IndexAddr:
			if !readOnlyAddr(x, depth+1) {
				return false
			}
		default:
			return false
		}
	}
	return true
}

// nonNegative: v is a length/size-like quantity (len, cap, Len(), Buffered(), Available(), Size()).
func nonNegative(v ssa.Value) bool {
	c, ok := v.(*ssa.Call)
	if !ok {
		return false
	}
	switch CallBuiltin(c) {
	case "len", "cap":
		return true
	}
	if f := CalleeFunc(c); f != nil {
		switch FNm(f) {
		case "Len", "Cap", "Buffered", "Available", "Size", "Count", "NumAttrs":
			sig := f.Type().(*types.Signature)
			return sig.Params().Len() == 0 && sig.Results().Len() == 1
		}
	}
	return false
}

// fieldCanon: the name every field of a named struct of the analysed packages is rendered under - its name on the
// reference tree (table canonFields, generated by `zapverif dump-fields`). A field whose name the reference struct
// does not have is matched to the one reference field of the same type that the current struct no longer has; fields
// that cannot be matched keep their own name. Filled by InitFieldCanon at load time.
var fieldCanon = map[*types.Var]string{}

// fieldTransparent: a field that only groups settings the reference struct holds directly (log.callSite.skip is the
// reference's log.callerSkip): renderings skip it.
var fieldTransparent = map[*types.Var]bool{}

func fieldTypeString(t types.Type) string {
	return canonTypeNames(types.TypeString(t, func(p *types.Package) string { return p.Name() }))
}

// FN: the canonical name of a struct field (see fieldCanon).
func FN(v *types.Var) string {
	if v == nil {
		return ""
	}
	if fieldTransparent[v.Origin()] {
		return ""
	}
	if cn, ok := fieldCanon[v.Origin()]; ok {
		return cn
	}
	return v.Name()
}

func eachNamedStruct(p *Program, f func(key string, st *types.Struct)) {
	var paths []string
	for path := range p.Pkgs {
		paths = append(paths, path)
	}
	sort.Strings(paths)
	for _, path := range paths {
		pk := p.Pkgs[path]
		if pk.Types == nil || !strings.HasPrefix(path, ZapPath) {
			continue
		}
		sc := pk.Types.Scope()
		for _, n := range sc.Names() {
			tn, ok := sc.Lookup(n).(*types.TypeName)
			if !ok || tn.IsAlias() {
				continue
			}
			if st, ok := tn.Type().Underlying().(*types.Struct); ok {
				f(pk.Types.Name()+"."+TNm(tn), st)
			}
		}
	}
}

func InitFieldCanon(p *Program) {
	eachNamedStruct(p, func(key string, st *types.Struct) {
		ref, ok := canonFields[key]
		if !ok {
			return
		}
		refNames := map[string]bool{}
		for _, r := range ref {
			refNames[r[0]] = true
		}
		cur := map[string]bool{}
		for i := 0; i < st.NumFields(); i++ {
			cur[FN(st.Field(i))] = true
		}
		for i := 0; i < st.NumFields(); i++ {
			f := st.Field(i)
			if refNames[f.Name()] {
				continue
			}
			ts := fieldTypeString(f.Type())
			// the reference fields of this type that are gone, and the current fields of this type that are new
			var gone []string
			for _, r := range ref {
				if !cur[r[0]] && r[1] == ts {
					gone = append(gone, r[0])
				}
			}
			fresh := 0
			for j := 0; j < st.NumFields(); j++ {
				if g := st.Field(j); !refNames[g.Name()] && fieldTypeString(g.Type()) == ts {
					fresh++
				}
			}
			// one candidate, or as many as there are new fields of the type: matched in declaration order
			if len(gone) == fresh {
				k := 0
				for j := 0; j < i; j++ {
					if g := st.Field(j); !refNames[g.Name()] && fieldTypeString(g.Type()) == ts {
						k++
					}
				}
				fieldCanon[f] = gone[k]
			}
		}
		// settings regrouped into a nested struct of a type the reference does not have: a field of that struct is the
		// reference field of the same type that is gone from the outer struct (when exactly one is)
		cur = map[string]bool{}
		for i := 0; i < st.NumFields(); i++ {
			cur[FN(st.Field(i))] = true
		}
		for i := 0; i < st.NumFields(); i++ {
			g := st.Field(i)
			if refNames[g.Name()] || fieldCanon[g] != "" {
				continue
			}
			gn, _ := types.Unalias(g.Type()).(*types.Named)
			if gn == nil || gn.Obj().Pkg() == nil {
				continue
			}
			gst, isStruct := gn.Underlying().(*types.Struct)
			if !isStruct {
				continue
			}
			if _, known := canonFields[gn.Obj().Pkg().Name()+"."+gn.Obj().Name()]; known {
				continue
			}
			claimed := map[string]*types.Var{}
			okAll := gst.NumFields() > 0
			for j := 0; j < gst.NumFields(); j++ {
				f := gst.Field(j)
				ts := fieldTypeString(f.Type())
				var cands []string
				for _, r := range ref {
					if !cur[r[0]] && r[1] == ts {
						cands = append(cands, r[0])
					}
				}
				if len(cands) != 1 || claimed[cands[0]] != nil {
					okAll = false
					break
				}
				claimed[cands[0]] = f
			}
			if okAll {
				for name, f := range claimed {
					fieldCanon[f] = name
				}
				fieldTransparent[g] = true
			}
		}
	})
}

func DumpFieldTable(p *Program) string {
	var sb strings.Builder
	sb.WriteString("// Code generated by `zapverif dump-fields` on the reference tree; DO NOT EDIT.\n\npackage zv\n\n// canonFields: name and type of every field of every named struct of the analysed packages on the reference tree.\nvar canonFields = map[string][][2]string{\n")
	eachNamedStruct(p, func(key string, st *types.Struct) {
		if st.NumFields() == 0 {
			return
		}
		sb.WriteString("\t" + strconv.Quote(key) + ": {")
		for i := 0; i < st.NumFields(); i++ {
			if i > 0 {
				sb.WriteString(", ")
			}
			sb.WriteString("{" + strconv.Quote(FN(st.Field(i))) + ", " + strconv.Quote(fieldTypeString(st.Field(i).Type())) + "}")
		}
		sb.WriteString("},\n")
	})
	sb.WriteString("}\n")
	return sb.String()
}
