package zv

import "sort"

// Prop is one property check.
type Prop struct {
	Title       string
	Fn          func(*Ctx)
	Explanation string
	Assumptions []string
}

var Props = map[string]Prop{}

func PropIDs() []string {
	var ids []string
	for k := range Props {
		ids = append(ids, k)
	}
	sort.Strings(ids)
	return ids
}

var commonAssumptions = []string{
	"go/types and go/ssa (x/tools v0.29.0) model the Go spec faithfully (evaluation order, conversions, control flow)",
	"the standard library and go.uber.org/multierr behave as documented (strconv, bufio, time, fmt, sync, sync/atomic, encoding/json, net/url)",
	"user-supplied marshalers, encoders, sinks and hooks are outside the analysed code",
	"only the structural clauses named in coverage.explanation are decided; the behavioural property as a whole is NOT proved",
}

// Merge adds the obligations of another build configuration. Obligations with
// the same key and status are counted once; a key that is non-discharged in
// any configuration is kept with the configuration name.
func (c *Ctx) Merge(o *Ctx, cfg string) {
	have := map[string]Status{}
	for _, x := range c.Obs {
		have[x.Key] = x.Status
	}
	for _, x := range o.Obs {
		st, ok := have[x.Key]
		if ok && (st == x.Status || st != Discharged) {
			continue
		}
		if ok && x.Status != Discharged {
			// upgrade: replace discharged by the failing one
			for i := range c.Obs {
				if c.Obs[i].Key == x.Key {
					x.Detail = "[" + cfg + "] " + x.Detail
					c.Obs[i] = x
				}
			}
			continue
		}
		if !ok {
			x.Detail = "[" + cfg + "] " + x.Detail
			c.Obs = append(c.Obs, x)
			have[x.Key] = x.Status
		}
	}
}
