package zv

import (
	"go/constant"
	"go/token"
	"go/types"
	"regexp"
	"sort"
	"strconv"
	"strings"

	"golang.org/x/tools/go/ssa"
)

func init() {
	Props["C02"] = Prop{
		Title: "JSON output decodes to exactly the logged values, in order, at the right nesting",
		Fn:    checkC02,
		Explanation: "Round-trip equality is a statement about values and is NOT decided. Decided is the plumbing that is a necessary condition for it: EncodeEntry emits level, time, name, caller, function, message, context, call-site fields, namespace closers, stack in exactly this order, each under exactly the omission rule stated in the property (guard-set equality) and under the configured key it tests; the narrow-width Add*/Append* wrappers only widen within the same signedness (checked for the build's type widths), float32/complex64 keep their precision argument, binary goes through base64.StdEncoding; the reference in-memory encoders store their parameter itself (only []byte→string for byte strings) and create fresh containers for nested values; numbers are formatted by strconv with base 10 / shortest round-trip 'f' formatting on every path, NaN/±Inf arms agree with their literals; the error expansion (message, Causes array, Verbose only when different); the reflection fallback (HTML escaping off, null shortcut, buffer reset before and newline trimmed after each use); and the contradiction rule on time ranges: zap.Time believes a time may not fit int64 nanoseconds, so every other UnixNano() on an encoder's time argument must be range-guarded (4 open known findings: the epoch encoders and the JSON fallback are not). " +
			"Also decided: the token grammar of C01 (what decodes must first parse), and the short caller representation by bounded concrete exploration of EntryCaller.TrimmedPath on a 3-byte file name with every placement of the last two separators: everything after the penultimate '/', the whole path with fewer than two. " +
			"NOT decided: strconv's shortest-float correctness, time formats, base64 content, encoding/json, equality with MapObjectEncoder on values.",
		Assumptions: commonAssumptions,
	}
}

var reCfg = regexp.MustCompile(`[A-Za-z_.()]*EncoderConfig\.`)

// reCfgCall: the configuration reached through the result of a helper call with arguments (cloneWith(enc, nil).EncoderConfig.)
var reCfgCall = regexp.MustCompile(`[A-Za-z_]\w*\([^()]*\)\.(jsonEncoder\.)?EncoderConfig\.`)

func normCfg(a string) string {
	return normEnt(reCfg.ReplaceAllString(reCfgCall.ReplaceAllString(a, "cfg."), "cfg."))
}

// entParam: the name EncodeEntry gives its Entry parameter in the function being decided; renderings are normalised
// to "ent" so that the rules do not depend on it.
var entParam = "ent"

func normEnt(a string) string {
	if entParam == "ent" || entParam == "" {
		return a
	}
	return regexp.MustCompile(`\b`+regexp.QuoteMeta(entParam)+`\b`).ReplaceAllString(a, "ent")
}

type emitSite struct {
	name  string
	instr ssa.Instruction
	want  []string
}

func checkC02(c *Ctx) {
	c.Rule("R2.1", "EncodeEntry: emission order, omission guard sets, tested key = used key", 17)
	c.Rule("R2.2", "narrow-width wrappers widen within the same signedness; float32/complex64 precision; binary via base64", 14)
	c.Rule("R2.3", "reference encoders store the parameter itself; nested values get fresh containers", 29)
	c.Rule("R2.5", "every UnixNano() on an encoder's time argument is range-guarded (contradiction with zap.Time's range belief)", 5)
	c.Rule("R2.6", "number formatting: strconv base 10 / shortest 'f' on every path; NaN/±Inf arms agree with their literals", 4)
	c.Rule("R2.7", "error expansion: message, Causes, Verbose-if-different; nil causes skipped", 4)
	c.Rule("R2.8", "reflection fallback: HTML escaping off, null shortcut, reset before / trim after", 3)
	c.Rule("R2.16", "one representation per kind of value: error elements go through the error field's own routine; Config.InitialFields go through zap.Any", 2)
	cDelegatesOnly(c, "R2.16", c.Method(ZapPath, "errArrayElem", "MarshalLogObject"), "error-element-through-error-field",
		"an element of zap.Errors is written by the error field itself (zap.Error(e).AddTo / zapcore's encodeError): message, causes of error groups, verbose form and the nil-pointer/panic containment cannot drift apart from what zap.Error emits",
		func(cl *ssa.Call, st *ConcState) bool {
			if IsCallTo(cl, CorePath+".encodeError") {
				return true
			}
			if !IsCallTo(cl, "(go.uber.org/zap/zapcore.Field).AddTo") {
				return false
			}
			v := Args(cl)[0]
			for k := 0; k < 12; k++ {
				if call, ok := v.(*ssa.Call); ok {
					return IsCallTo(call, ZapPath+".Error", ZapPath+".NamedError")
				}
				if u, ok := v.(*ssa.UnOp); ok {
					if al, ok := u.X.(*ssa.Alloc); ok {
						if sv := singleStoreLoose(al); sv != nil {
							v = sv
							continue
						}
					}
				}
				nx := st.Step(v)
				if nx == nil {
					return false
				}
				v = nx
			}
			return false
		})
	if bo := c.Method(ZapPath, "Config", "buildOptions"); c.Anchor("R2.16", "zap.Config.buildOptions", bo != nil) {
		// every Field that buildOptions (with its helpers) constructs is made by zap.Any
		var other []string
		nAny := 0
		field := c.fieldNamed()
		for _, f := range Region(bo) {
			for _, g := range WithClosures(f) {
				for _, cl := range Calls(g) {
					call, ok := cl.(*ssa.Call)
					if !ok || field == nil {
						continue
					}
					n, _ := types.Unalias(call.Type()).(*types.Named)
					if n == nil || n.Obj() != field.Obj() {
						continue
					}
					if IsCallTo(call, ZapPath+".Any") {
						nAny++
					} else if h := helperOf(call); h == nil {
						other = append(other, FuncName(CalleeFunc(call)))
					}
				}
			}
		}
		c.Check(nAny >= 1 && len(other) == 0, "R2.16", FStr(bo), "initial-fields-through-any", bo.Pos(), "Config.InitialFields become fields through zap.Any, so a value set in code (a Duration, a Time, an error, a marshaler) gets the representation its typed constructor gives it (other constructors used: %v)", other)
	}
	c.Rule("R2.15", "built-in numeric time/duration encoders emit the nanosecond count or its quotient by a constant with a single rounding", 4)
	c2NumericEncoders(c, "R2.15")
	c.Rule("R2.17", "configuration names select the documented built-in level/time/duration/caller/name encoders (evaluated on every documented name, the empty name and unknown names)", 5)
	c2ConfigNames(c, "R2.17")
	c.Rule("R2.18", "layout-based time encoders format with the documented layout on both the AppendTimeLayout and the time.Format path", 3)
	c2Layouts(c, "R2.18")
	c.Rule("R2.19", "derived slog handlers never share a slice tail with their parent (a sibling derived later would rename the groups an earlier handler's fields are logged under)", 0)
	for _, m := range []string{"WithAttrs", "WithGroup"} {
		if fn := c.Method(SlogPath, "Handler", m); c.Anchor("R2.19", "zapslog.Handler."+m, fn != nil) {
			c7Appends(c, "R2.19", fn)
		}
	}
	c.Rule("R2.21", "slog handlers: attributes land under exactly the groups open at that point (pending-group protocol of WithAttrs and Handle): a lost or repeated group puts the decoded values at the wrong nesting", 2)
	c18EmitProtocol(c, "R2.21")
	c.Rule("R2.20", "nothing is appended into spare capacity of, or written over, a slice handed in or held by a parent (a field list re-used at a later call site, or a sibling's context, would be emitted with other fields than were added)", 1)
	c7AppendsAll(c, "R2.20")
	c.Rule("R2.14", "short caller representation: everything after the penultimate '/', the whole path with fewer than two separators", 1)
	c2TrimmedPath(c, "R2.14")
	c.Rule("R2.13", "what decodes must first parse: every path of every encoder method writes exactly one well-formed member / element / entry (token grammar)", 20)
	c1Grammar(c, "R2.13")
	c.Rule("R2.9", "nesting: objects/arrays/namespaces are closed at the level they were opened on every path (incl. marshaler errors)", 10)
	c1Namespaces(c, "R2.9")
	c1Pairing(c, "R2.9")
	c2Entry(c)
	c2Wrappers(c)
	c2Reference(c)
	c2UnixNano(c)
	c2Numbers(c)
	c2ErrorExpansion(c)
	c2Reflect(c)
	c.Rule("R2.12", "level encoders agree with their documented case on every path (incl. the fallback for levels outside the tables)", 4)
	c2LevelEncoders(c)
	c.Rule("R2.10", "strings, times and layouts reach the line escaped (raw run-time text would not decode to the logged value)", 27)
	c1Taint(c, "R2.10")
	c.Rule("R2.11", "a value that fails to encode leaves no partial output (a reflected value is encoded before its separator/key is written)", 2)
	c10Reflected(c, "R2.11")
	c.Rule("R2.22", "a lazily derived core writes through the core it derived (With applied to the stored fields), never through the original one: the WithLazy context would vanish from the line", 3)
	c.As(map[string]string{"R7.6": "R2.22"}, func() { c7Lazy(c) })
}

func c2Entry(c *Ctx) {
	fn := c.Method(CorePath, "jsonEncoder", "EncodeEntry")
	if !c.Anchor("R2.1", "zapcore.jsonEncoder.EncodeEntry", fn != nil) {
		return
	}
	name := FStr(fn)
	// locate sites
	var sites []emitSite
	entParam = "ent"
	if len(fn.Params) >= 2 {
		entParam = PN(fn.Params[1])
	}
	defer func() { entParam = "ent" }()
	bd := func(v ssa.Value) string {
		var d string
		Bound(func() { d = Desc(v) })
		return normEnt(d)
	}
	payloadAfter := func(key ssa.Instruction, want string) bool {
		// some call reachable right after key-emission in the same guarded region takes the payload
		found := false
		for _, cl := range CallsDeep(fn) {
			if cl == key || !Dominates(key, cl) {
				continue
			}
			for _, a := range Args(cl) {
				if bd(a) == want {
					found = true
				}
				// ... or hands on a function literal / method value that takes it (final.appendOrElse(func() {
				// final.EncodeLevel(ent.Level, final) }, ent.Level.String))
				if mk, isMk := a.(*ssa.MakeClosure); isMk {
					for _, b := range mk.Bindings {
						if bd(b) == want {
							found = true
						}
					}
					if lf, isF := mk.Fn.(*ssa.Function); isF {
						for _, cl2 := range Calls(lf) {
							for _, a2 := range Args(cl2) {
								if bd(a2) == want {
									found = true
								}
							}
						}
						for _, r := range Returns(lf) {
							for _, rv := range RetVals(r) {
								if bd(rv) == want {
									found = true
								}
							}
						}
					}
				}
			}
		}
		return found
	}
	for _, cl := range CallsDeep(fn) {
		f := CalleeFunc(cl)
		if f == nil {
			continue
		}
		args := Args(cl)
		switch FNm(f) {
		case "addKey", "AddTime", "AddString":
			if len(args) < 2 {
				continue
			}
			k := normCfg(bd(args[1]))
			if !strings.HasPrefix(k, "cfg.") || !strings.HasSuffix(k, "Key") {
				continue
			}
			part := strings.TrimSuffix(strings.TrimPrefix(k, "cfg."), "Key")
			s := emitSite{name: part, instr: cl}
			payload := ""
			switch part {
			case "Level":
				s.want, payload = []string{`cfg.EncodeLevel != nil`, `cfg.LevelKey != ""`}, "ent.Level"
			case "Time":
				s.want, payload = []string{`!IsZero(ent.Time)`, `cfg.TimeKey != ""`}, "ent.Time"
			case "Name":
				s.want, payload = []string{`cfg.NameKey != ""`, `ent.LoggerName != ""`}, "ent.LoggerName"
			case "Caller":
				s.want, payload = []string{`cfg.CallerKey != ""`, `cfg.EncodeCaller != nil`, `ent.Caller.Defined`}, "ent.Caller"
			case "Function":
				s.want, payload = []string{`cfg.FunctionKey != ""`, `ent.Caller.Defined`}, "ent.Caller.Function"
			case "Message":
				s.want, payload = []string{`cfg.MessageKey != ""`}, "ent.Message"
			case "Stacktrace":
				s.want, payload = []string{`cfg.StacktraceKey != ""`, `ent.Stack != ""`}, "ent.Stack"
			default:
				c.Und("R2.1", name, "site/"+part, cl.Pos(), "unknown metadata key %s", k)
				continue
			}
			okP := false
			if FNm(f) == "addKey" {
				okP = payloadAfter(cl, payload)
			} else {
				okP = bd(args[2]) == payload
			}
			c.Check(okP, "R2.1", name, "payload/"+part, cl.Pos(), "the %sKey is followed by the entry's own %s", part, payload)
			sites = append(sites, s)
		case "addFields":
			sites = append(sites, emitSite{name: "fields", instr: cl, want: []string{}})
			// (inside a helper: what the helper's parameters are bound to at its call in EncodeEntry)
			at := func(v ssa.Value) ssa.Value {
				p, isP := Strip(v).(*ssa.Parameter)
				if !isP || p.Parent() == fn {
					return v
				}
				for _, s := range Calls(fn) {
					if StaticCallee(s) == p.Parent() {
						for i, q := range p.Parent().Params {
							if q == p && i < len(Args(s)) {
								return Args(s)[i]
							}
						}
					}
				}
				return v
			}
			isClone := func(d string) bool {
				// clone(enc), or the helper under another signature: cloneWith(enc, …)
				return d == "clone("+PN(fn.Params[0])+")" || regexp.MustCompile(`^clone\w*\(`+regexp.QuoteMeta(PN(fn.Params[0]))+`(, [^()]*)?\)$`).MatchString(d)
			}
			c.Check((isClone(Desc(at(args[0]))) || isClone(bd(args[0]))) && (Strip(at(args[1])) == ssa.Value(fn.Params[2]) || bd(args[1]) == PN(fn.Params[2])), "R2.1", name, "payload/fields", cl.Pos(), "call-site fields are added to the per-call clone")
		case "closeOpenNamespaces":
			if cl.Parent() == fn || Eligible(cl.Parent()) {
				sites = append(sites, emitSite{name: "close-namespaces", instr: cl, want: []string{}})
			}
		case "Write", "AppendBytes":
			if len(args) == 2 && (Desc(args[1]) == "Bytes("+PN(fn.Params[0])+".buf)" || cl.Parent() != fn && bd(args[1]) == "Bytes("+PN(fn.Params[0])+".buf)") {
				sites = append(sites, emitSite{name: "context", instr: cl, want: []string{"Len(" + PN(fn.Params[0]) + ".buf) > 0"}})
			}
		}
	}
	order := []string{"Level", "Time", "Name", "Caller", "Function", "Message", "context", "fields", "close-namespaces", "Stacktrace"}
	byName := map[string]emitSite{}
	for _, s := range sites {
		if _, dup := byName[s.name]; dup {
			c.Bad("R2.1", name, "dup/"+s.name, s.instr.Pos(), "the %s part is emitted at two sites", s.name)
		}
		byName[s.name] = s
	}
	for _, n := range order {
		s, ok := byName[n]
		if !ok {
			c.Bad("R2.1", name, "site/"+n, fn.Pos(), "no emission site for %s", n)
			continue
		}
		var got []string
		Bound(func() {
			for _, a := range AtomStrings(Guards(s.instr)) {
				a = strings.ReplaceAll(a, "len(Bytes("+PN(fn.Params[0])+".buf))", "Len("+PN(fn.Params[0])+".buf)")
				if a == "Len("+PN(fn.Params[0])+".buf) != 0" {
					a = "Len(" + PN(fn.Params[0]) + ".buf) > 0" // a length is never negative
				}
				got = append(got, normCfg(a))
			}
		})
		got = uniqSorted(got)
		want := append([]string{}, s.want...)
		sort.Strings(want)
		c.Check(strings.Join(got, " ∧ ") == strings.Join(want, " ∧ "), "R2.1", name, "guards/"+n, s.instr.Pos(), "%s is emitted exactly under {%s} (the property's omission rule); found {%s}", n, strings.Join(want, ", "), strings.Join(got, ", "))
	}
	for i := 0; i+1 < len(order); i++ {
		a, okA := byName[order[i]]
		b, okB := byName[order[i+1]]
		if !okA || !okB {
			continue
		}
		is := func(x ssa.Instruction) func(ssa.Instruction) bool {
			return func(i ssa.Instruction) bool { return i == x }
		}
		ai, bi := liftTo(fn, a.instr), liftTo(fn, b.instr)
		fwd := ExistsPath(fn, ai, is(bi), nil)
		back := ExistsPath(fn, bi, is(ai), nil)
		if ai == bi {
			// both inside one helper: ordered there
			fwd = ExistsPath(a.instr.Parent(), a.instr, is(b.instr), nil)
			back = ExistsPath(a.instr.Parent(), b.instr, is(a.instr), nil)
		}
		c.Check(fwd && !back, "R2.1", name, "order/"+order[i]+"≺"+order[i+1], a.instr.Pos(), "%s is emitted before %s on every path that emits both", order[i], order[i+1])
	}
}

func c2Wrappers(c *Ctx) {
	je := c.Named(CorePath, "jsonEncoder")
	sizes := c.Pkg(CorePath).TypesSizes
	reW := regexp.MustCompile(`^(Add|Append)(Int|Int32|Int16|Int8|Uint|Uint32|Uint16|Uint8|Uintptr|Float32|Float64|Complex64|Complex128)$`)
	n := 0
	ms := c.SSA.MethodSets.MethodSet(types.NewPointer(je))
	for i := 0; i < ms.Len(); i++ {
		fn := c.SSA.MethodValue(ms.At(i))
		if fn == nil || !reW.MatchString(FNm(fn)) {
			continue
		}
		m := reW.FindStringSubmatch(FNm(fn))
		if m[1] == "Add" && (strings.HasPrefix(m[2], "Float") || strings.HasPrefix(m[2], "Complex")) {
			continue // AddFloat64 etc. are addKey + AppendX (R1.5)
		}
		n++
		name := FStr(fn)
		val := fn.Params[len(fn.Params)-1]
		var call *ssa.Call
		k := 0
		for _, cl := range Calls(fn) {
			if cc, ok := cl.(*ssa.Call); ok {
				call = cc
				k++
			}
		}
		if k != 1 {
			c.Bad("R2.2", name, "delegates-once", fn.Pos(), "expected exactly one delegating call, found %d", k)
			continue
		}
		args := Args(call)
		switch {
		case strings.HasPrefix(m[2], "Int") || strings.HasPrefix(m[2], "Uint"):
			arg := args[len(args)-1]
			cv, ok := arg.(*ssa.Convert)
			okc := ok && cv.X == ssa.Value(val)
			why := ""
			if okc {
				pb, _ := val.Type().Underlying().(*types.Basic)
				qb, _ := cv.Type().Underlying().(*types.Basic)
				sameSign := pb != nil && qb != nil && (pb.Info()&types.IsUnsigned) == (qb.Info()&types.IsUnsigned)
				okc = sameSign && sizes.Sizeof(cv.Type()) >= sizes.Sizeof(val.Type()) && sizes.Sizeof(cv.Type()) == 8
				why = TypeName(val.Type()) + "→" + TypeName(cv.Type())
			}
			target := CalleeFunc(call)
			okT := target != nil && (FNm(target) == m[1]+"Int64" || FNm(target) == m[1]+"Uint64")
			c.Check(okc && okT, "R2.2", name, "widens", call.Pos(), "%s widens its argument within the same signedness to 64 bits (%s) and delegates to %s", FNm(fn), why, calleeName(target))
		case m[2] == "Float32":
			d := Desc(args[1])
			bs, _ := ConstInt(args[2])
			c.Check(d == "conv[float64](v)" && bs == 32, "R2.2", name, "float32-precision", call.Pos(), "float32 is formatted from its exact float64 value with bitSize 32 (shortest digits that round-trip as float32): %s, %d", d, bs)
		case m[2] == "Float64":
			bs, _ := ConstInt(args[2])
			c.Check(args[1] == ssa.Value(val) && bs == 64, "R2.2", name, "float64-precision", call.Pos(), "float64 is formatted with bitSize 64")
		case m[2] == "Complex64":
			d := Desc(args[1])
			bs, _ := ConstInt(args[2])
			c.Check(d == "conv[complex128](v)" && bs == 32, "R2.2", name, "complex64-precision", call.Pos(), "complex64 parts are formatted with precision 32 (%s, %d)", d, bs)
		case m[2] == "Complex128":
			bs, _ := ConstInt(args[2])
			c.Check(Strip(args[1]) == ssa.Value(val) && bs == 64, "R2.2", name, "complex128-precision", call.Pos(), "complex128 parts are formatted with precision 64")
		}
	}
	ab := c.Method(CorePath, "jsonEncoder", "AddBinary")
	if c.Anchor("R2.2", "zapcore.jsonEncoder.AddBinary", ab != nil) {
		ok := false
		for _, cl := range Calls(ab) {
			if f := CalleeFunc(cl); f != nil && FNm(f) == "AddString" {
				ok = Desc(Args(cl)[2]) == "EncodeToString(StdEncoding, val)" && Desc(Args(cl)[1]) == "key"
			}
		}
		c.Check(ok, "R2.2", FStr(ab), "base64-std", ab.Pos(), "binary is emitted as base64.StdEncoding text")
		n++
	}
	if n < 23 {
		c.Bad("R2.2", "wrappers", "count", token.NoPos, "only %d narrow wrappers found", n)
	}
}

func c2Reference(c *Ctx) {
	n := 0
	for _, tn := range []string{"MapObjectEncoder", "sliceArrayEncoder"} {
		named := c.Named(CorePath, tn)
		if !c.Anchor("R2.3", "zapcore."+tn, named != nil) {
			continue
		}
		ms := c.SSA.MethodSets.MethodSet(types.NewPointer(named))
		for i := 0; i < ms.Len(); i++ {
			fn := c.SSA.MethodValue(ms.At(i))
			if fn == nil || fn.Synthetic != "" && !strings.Contains(fn.Synthetic, "wrapper") {
				continue
			}
			mn := FNm(fn)
			if !(strings.HasPrefix(mn, "Add") || strings.HasPrefix(mn, "Append")) {
				continue
			}
			// unwrap value-receiver wrappers
			if fn.Synthetic != "" {
				if o, ok := ms.At(i).Obj().(*types.Func); ok {
					if g := c.SSA.FuncValue(o); g != nil {
						fn = g
					}
				}
			}
			val := fn.Params[len(fn.Params)-1]
			name := FStr(fn)
			n++
			// the stored value
			stored, key := c2Stored(fn, 0)
			if stored != nil && len(fn.Params) == 3 && (key == nil || Strip(key) != ssa.Value(fn.Params[1])) {
				stored = nil
			}
			if stored == nil {
				c.Bad("R2.3", name, "stores", fn.Pos(), "does not record its value under the given key / as the next element")
				continue
			}
			d := Desc(stored)
			switch {
			case mn == "AddArray" || mn == "AppendArray":
				c.Check(strings.HasSuffix(d, ".elems"), "R2.3", name, "nested-array", fn.Pos(), "a nested array is recorded as the elements collected by a fresh slice encoder (%s)", d)
			case mn == "AddObject" || mn == "AppendObject":
				c.Check(strings.Contains(d, "NewMapObjectEncoder().Fields"), "R2.3", name, "nested-object", fn.Pos(), "a nested object is recorded as the map of a fresh MapObjectEncoder (%s)", d)
			case strings.HasSuffix(mn, "ByteString"):
				c.Check(d == "conv[string]("+PN(val)+")", "R2.3", name, "bytes-as-string", fn.Pos(), "UTF-8 bytes are recorded as a string copy (%s)", d)
			default:
				c.Check(Strip(stored) == ssa.Value(val), "R2.3", name, "stores-unchanged", fn.Pos(), "records the parameter itself, unconverted (%s)", d)
			}
		}
	}
	on := c.Method(CorePath, "MapObjectEncoder", "OpenNamespace")
	if c.Anchor("R2.3", "zapcore.MapObjectEncoder.OpenNamespace", on != nil) {
		okReg, okCur := false, false
		AllInstrs(on, func(in ssa.Instruction) {
			if mu, ok := in.(*ssa.MapUpdate); ok {
				_, fresh := mu.Value.(*ssa.MakeInterface)
				okReg = fresh && mu.Key == ssa.Value(on.Params[1])
			}
			if st, ok := in.(*ssa.Store); ok && Desc(st.Addr) == PN(on.Params[0])+".cur" {
				_, okCur = st.Val.(*ssa.MakeMap)
			}
		})
		c.Check(okReg && okCur, "R2.3", FStr(on), "namespace", on.Pos(), "a namespace registers a fresh map under the key and makes it current")
	}
	if n < 40 {
		c.Bad("R2.3", "reference methods", "count", token.NoPos, "only %d reference-encoder methods found", n)
	}
}

// c2Stored: the value (and map key, if any) that fn records into the
// reference encoder's .cur map / .elems slice — directly or through a helper
// that records one of its parameters unchanged.
func c2Stored(fn *ssa.Function, depth int) (stored, key ssa.Value) {
	AllInstrs(fn, func(in ssa.Instruction) {
		switch x := in.(type) {
		case *ssa.MapUpdate:
			if strings.HasSuffix(Desc(x.Map), ".cur") {
				stored, key = x.Value, x.Key
			}
		case *ssa.Call:
			if CallBuiltin(x) == "append" {
				if base, elems := appendParts(x); base != nil && strings.HasSuffix(Desc(base), ".elems") && len(elems) == 1 {
					stored, key = elems[0], nil
				}
				return
			}
			if stored != nil || depth > 2 {
				return
			}
			h := helperOf(x)
			if h == nil || len(h.Params) == 0 || len(Args(x)) == 0 || Desc(Args(x)[0]) != PN(fn.Params[0]) {
				return
			}
			hs, hk := c2Stored(h, depth+1)
			idx := func(v ssa.Value) int {
				if v == nil {
					return -1
				}
				for i, p := range h.Params {
					if Strip(v) == ssa.Value(p) {
						return i
					}
				}
				return -1
			}
			if i := idx(hs); i > 0 {
				stored = Args(x)[i]
				if j := idx(hk); j > 0 {
					key = Args(x)[j]
				}
			}
		}
	})
	return
}

func c2UnixNano(c *Ctx) {
	n := 0
	c.EachRootFunc(func(fn *ssa.Function) {
		if fn.Pkg == nil {
			return
		}
		for _, cl := range Calls(fn) {
			if !IsCallTo(cl, "(time.Time).UnixNano") {
				continue
			}
			recv := Args(cl)[0]
			// (a site inside a function literal belongs to the function that holds the literal)
			root := fn
			for root.Parent() != nil {
				root = root.Parent()
			}
			name := FuncKey(root)
			slot := "UnixNano(" + Desc(recv) + ")"
			// exemptions
			if FStr(fn) == "(*go.uber.org/zap/zapcore.counter).IncCheckReset" {
				c.Triv("R2.5", name, slot, cl.Pos(), "exempt: sampler window arithmetic on the entry time, not a representation of a value (C11)")
				continue
			}
			// time built by time.Unix(0, n) is in range by construction
			if call, ok := Strip(recv).(*ssa.Call); ok && IsCallTo(call, "time.Unix") {
				c.Triv("R2.5", name, slot, cl.Pos(), "in range by construction (time.Unix(0, n))")
				continue
			}
			_, isParam := Strip(recv).(*ssa.Parameter)
			if ld, isLd := Strip(recv).(*ssa.UnOp); isLd && !isParam && root != fn {
				// a parameter of the enclosing function, captured by the literal
				if fv, isFV := ld.X.(*ssa.FreeVar); isFV {
					for _, q := range root.Params {
						if q.Name() == fv.Name() {
							isParam = true
						}
					}
				}
			}
			if !isParam {
				continue
			}
			if fn.Parent() == nil && fn.Object() != nil && !fn.Object().Exported() && len(c.CallersOf(fn.Object().(*types.Func).FullName())) == 0 {
				c.Triv("R2.5", name, slot, cl.Pos(), "exempt: unexported helper with no caller in non-test code (dead code)")
				continue
			}
			n++
			atoms := AtomStrings(Guards(cl))
			guarded := false
			for _, a := range atoms {
				if strings.Contains(a, "Before(") || strings.Contains(a, "After(") {
					guarded = true
				}
			}
			c.Check(guarded, "R2.5", name, slot, cl.Pos(), "UnixNano() on a caller-supplied time is reached only after a range test; zap.Time itself ships times outside the int64-nanosecond range whole (TimeFullType), so an unguarded UnixNano here silently wraps them (guards %v)", atoms)
		}
	})
	if n < 5 {
		c.Bad("R2.5", "UnixNano sites", "count", token.NoPos, "only %d UnixNano sites on time parameters found", n)
	}
}

func c2Numbers(c *Ctx) {
	bp := "go.uber.org/zap/buffer"
	for _, t := range []struct {
		m, std string
		base   int64
	}{{"AppendInt", "strconv.AppendInt", 10}, {"AppendUint", "strconv.AppendUint", 10}} {
		fn := c.Method(bp, "Buffer", t.m)
		if !c.Anchor("R2.6", bp+".Buffer."+t.m, fn != nil) {
			continue
		}
		var call ssa.Instruction
		ok := false
		for _, cl := range Calls(fn) {
			if IsCallTo(cl, t.std) {
				call = cl
				a := cl.Common().Args
				b, _ := ConstInt(a[2])
				ok = a[1] == ssa.Value(fn.Params[1]) && b == t.base && Desc(a[0]) == PN(fn.Params[0])+".bs"
			}
		}
		ok = ok && call != nil && mustPass(fn, func(i ssa.Instruction) bool { return i == call }) && len(Calls(fn)) == 1
		c.Check(ok, "R2.6", FStr(fn), "strconv-base10", fn.Pos(), "integers are appended by %s(b.bs, i, 10) on the full-width parameter, on every path, and nothing else", t.std)
	}
	af := c.Method(bp, "Buffer", "AppendFloat")
	if c.Anchor("R2.6", bp+".Buffer.AppendFloat", af != nil) {
		var call ssa.Instruction
		ok := false
		for _, cl := range Calls(af) {
			if IsCallTo(cl, "strconv.AppendFloat") {
				call = cl
				a := cl.Common().Args
				fm, _ := ConstInt(a[2])
				pr, _ := ConstInt(a[3])
				ok = a[1] == ssa.Value(af.Params[1]) && fm == 'f' && pr == -1 && a[4] == ssa.Value(af.Params[2]) && Desc(a[0]) == PN(af.Params[0])+".bs"
			}
		}
		ok = ok && call != nil && mustPass(af, func(i ssa.Instruction) bool { return i == call }) && len(Calls(af)) == 1
		c.Check(ok, "R2.6", FStr(af), "shortest-roundtrip", af.Pos(), "floats are appended by strconv.AppendFloat(b.bs, f, 'f', -1, bitSize) on every path (any shortcut formatter loses e.g. the sign of -0)")
	}
	fl := c.Method(CorePath, "jsonEncoder", "appendFloat")
	if c.Anchor("R2.6", "zapcore.jsonEncoder.appendFloat", fl != nil) {
		// every path of appendFloat (helpers included), classified by the outcome of the NaN / ±Inf tests it makes:
		// a value that tests as NaN/+Inf/-Inf is written as exactly that quoted literal and nothing else; the number
		// formatter runs only after all three tests failed
		val := PN(fl.Params[1])
		tests := map[string]string{"IsNaN(" + val + ")": `"NaN"`, "IsInf(" + val + ", 1)": `"+Inf"`, "IsInf(" + val + ", -1)": `"-Inf"`}
		seqs, trunc := ConcPaths(fl, ConcCfg{
			Branch: func(cond ssa.Value, taken bool, st *ConcState) string {
				d := st.Desc(cond)
				neg := false
				for strings.HasPrefix(d, "!") {
					d, neg = d[1:], !neg
				}
				if _, ok := tests[d]; ok {
					if taken != neg {
						return "T:" + d
					}
					return "F:" + d
				}
				return ""
			},
			Event: func(in ssa.Instruction, st *ConcState) string {
				cl, ok := in.(*ssa.Call)
				if !ok {
					return ""
				}
				f := CalleeFunc(cl)
				if f == nil || f.Pkg() == nil || f.Pkg().Path() != "go.uber.org/zap/buffer" || !isMutatingBufMethod(FNm(f)) {
					return ""
				}
				a := Args(cl)
				if FNm(f) == "AppendFloat" {
					return "float(" + st.Desc(a[1]) + ")"
				}
				if len(a) > 1 {
					return FNm(f) + "(" + st.Desc(a[1]) + ")"
				}
				return FNm(f)
			},
		})
		var bad []string
		seen := map[string]bool{}
		for _, sq := range seqs {
			ev := strings.Split(sq, " ; ")
			holds := ""
			failed := map[string]bool{}
			var writes []string
			for _, e := range ev {
				switch {
				case strings.HasPrefix(e, "T:"):
					if holds == "" {
						holds = e[2:]
					}
				case strings.HasPrefix(e, "F:"):
					failed[e[2:]] = true
				case e == "":
				default:
					writes = append(writes, e)
				}
			}
			// writes made by addElementSeparator come first and are not about the value
			var vw []string
			for _, w := range writes {
				if w == "AppendByte(44)" || w == "AppendByte(32)" {
					continue
				}
				vw = append(vw, w)
			}
			switch {
			case holds != "":
				lit := tests[holds]
				seen[lit] = true
				if len(vw) != 1 || vw[0] != "AppendString("+strconv.Quote(lit)+")" {
					bad = append(bad, sq)
				}
			default:
				if len(vw) != 1 || vw[0] != "float("+val+")" || len(failed) != 3 {
					bad = append(bad, sq)
				}
			}
		}
		c.Check(!trunc && len(bad) == 0 && len(seen) == 3, "R2.6", FStr(fl), "specials", fl.Pos(), "explored %d paths: NaN, +Inf and -Inf are each written as their quoted literal and nothing else, and the number formatter runs only for values that failed all three tests (literals seen %d; offending paths %v)", len(seqs), len(seen), bad)

	}
}

func c2ErrorExpansion(c *Ctx) {
	fn := c.Func(CorePath, "encodeError")
	if !c.Anchor("R2.7", "zapcore.encodeError", fn != nil) {
		return
	}
	name := FStr(fn)
	var basic, causes, verbose *ssa.Call
	for _, cl := range Calls(fn) {
		call, ok := cl.(*ssa.Call)
		if !ok || !call.Call.IsInvoke() {
			continue
		}
		switch FNm(call.Call.Method) {
		case "AddString":
			k := Desc(call.Call.Args[0])
			if k == "key" {
				basic = call
			} else if strings.HasPrefix(k, "(key + ") {
				verbose = call
			}
		case "AddArray":
			causes = call
		}
	}
	okB := basic != nil && Desc(basic.Call.Args[1]) == "Error(err)"
	c.Check(okB && basic != nil && mustPass(fn, func(i ssa.Instruction) bool { return i == ssa.Instruction(basic) }), "R2.7", name, "message-first", fn.Pos(), "the error's message is always added under the key itself")
	okC := causes != nil && Desc(causes.Call.Args[0]) == `(key + "Causes")` && strings.HasPrefix(Desc(causes.Call.Args[1]), "Errors(") && basic != nil && Dominates(basic, causes)
	c.Check(okC, "R2.7", name, "causes", fn.Pos(), "an error group adds key+\"Causes\" with errArray(e.Errors())")
	okV := verbose != nil && Desc(verbose.Call.Args[0]) == `(key + "Verbose")` && strings.HasPrefix(Desc(verbose.Call.Args[1]), `Sprintf("%+v"`)
	if okV {
		okV = HasAtom(Guards(verbose), func(s string) bool { return strings.Contains(s, " != Error(err)") })
	}
	c.Check(okV, "R2.7", name, "verbose-if-different", fn.Pos(), "a Formatter adds key+\"Verbose\" with %%+v only when it differs from the message")
	ea := c.Method(CorePath, "errArray", "MarshalLogArray")
	if c.Anchor("R2.7", "zapcore.errArray.MarshalLogArray", ea != nil) {
		var app *ssa.Call
		for _, cl := range CallsDeep(ea) {
			if cc, ok := cl.(*ssa.Call); ok && cc.Call.IsInvoke() && FNm(cc.Call.Method) == "AppendObject" {
				app = cc
			}
		}
		ok := app != nil && HasAtom(Guards(app), func(s string) bool {
			return strings.HasSuffix(s, "!= nil") && strings.HasPrefix(s, PN(ea.Params[0])+"[")
		})
		c.Check(ok, "R2.7", FStr(ea), "nil-causes-skipped", ea.Pos(), "nil causes are skipped, every other one is appended as an object")
	}
	el := c.Method(CorePath, "errArrayElem", "MarshalLogObject")
	if c.Anchor("R2.7", "zapcore.errArrayElem.MarshalLogObject", el != nil) {
		for _, r := range Returns(el) {
			c.Check(Desc(RetVals(r)[0]) == `encodeError("error", e.err, enc)`, "R2.7", FStr(el), "cause-object", r.Pos(), "each cause is an object built by encodeError under the key \"error\" (%s)", Desc(RetVals(r)[0]))
		}
	}
	// zap.errArray (zap.Errors): same skipping
	za := c.Method(ZapPath, "errArray", "MarshalLogArray")
	if c.Anchor("R2.7", "zap.errArray.MarshalLogArray", za != nil) {
		var app *ssa.Call
		for _, cl := range CallsDeep(za) {
			if cc, ok := cl.(*ssa.Call); ok && cc.Call.IsInvoke() && FNm(cc.Call.Method) == "AppendObject" {
				app = cc
			}
		}
		ok := app != nil && HasAtom(Guards(app), func(s string) bool {
			return strings.HasSuffix(s, "!= nil") && strings.HasPrefix(s, PN(za.Params[0])+"[")
		})
		c.Check(ok, "R2.7", FStr(za), "nil-errors-skipped", za.Pos(), "zap.Errors skips nil elements and appends every other one as an object")
	}
}

func c2Reflect(c *Ctx) {
	dr := c.Func(CorePath, "defaultReflectedEncoder")
	if c.Anchor("R2.8", "zapcore.defaultReflectedEncoder", dr != nil) {
		var ne, se *ssa.Call
		for _, cl := range Calls(dr) {
			if IsCallTo(cl, "encoding/json.NewEncoder") {
				ne, _ = cl.(*ssa.Call)
			}
			if IsCallTo(cl, "(*encoding/json.Encoder).SetEscapeHTML") {
				se, _ = cl.(*ssa.Call)
			}
		}
		ok := ne != nil && se != nil && ne.Call.Args[0] == ssa.Value(dr.Params[0]) && Desc(se.Call.Args[1]) == "false" && Strip(se.Call.Args[0]) == ssa.Value(ne)
		for _, r := range Returns(dr) {
			ok = ok && ne != nil && Strip(RetVals(r)[0]) == ssa.Value(ne)
		}
		c.Check(ok, "R2.8", FStr(dr), "html-escaping-off", dr.Pos(), "the default reflected encoder is json.NewEncoder(w) with SetEscapeHTML(false)")
	}
	er := c.Method(CorePath, "jsonEncoder", "encodeReflected")
	if c.Anchor("R2.8", "zapcore.jsonEncoder.encodeReflected", er != nil) {
		var encode, trim ssa.Instruction
		for _, cl := range CallsDeep(er) {
			if f := CalleeFunc(cl); f != nil {
				switch FNm(f) {
				case "Encode":
					encode = cl
				case "TrimNewline":
					trim = cl
				}
			}
		}
		// before Encode, on every path, the scratch buffer is either Reset or freshly taken from the pool
		prepared := func(i ssa.Instruction) bool {
			switch x := i.(type) {
			case *ssa.Call:
				return IsCallTo(x, "(*go.uber.org/zap/buffer.Buffer).Reset") && strings.HasSuffix(Desc(Args(x)[0]), ".reflectBuf")
			case *ssa.Store:
				return strings.HasSuffix(Desc(x.Addr), ".reflectBuf") && isFreshBuffer(x.Val)
			}
			return false
		}
		ok := encode != nil && trim != nil && Dominates(encode, trim) && !ExistsPath(er, nil, func(i ssa.Instruction) bool { return i == encode }, prepared)
		okNull := false
		for _, r := range Returns(er) {
			if Desc(RetVals(r)[0]) == "nullLiteralBytes" {
				okNull = containsS(AtomStrings(Guards(r)), PN(er.Params[1])+" == nil")
			}
		}
		c.Check(ok && okNull, "R2.8", FStr(er), "reset-encode-trim", er.Pos(), "nil short-circuits to null; otherwise the scratch buffer is reset (or freshly allocated), the value encoded, and exactly the trailing newline trimmed")
	}
	rr := c.Method(CorePath, "jsonEncoder", "resetReflectBuf")
	if rr == nil {
		rr = er // inlined into its only caller
	}
	if rr != nil {
		okReset := false
		for _, cl := range Calls(rr) {
			if IsCallTo(cl, "(*go.uber.org/zap/buffer.Buffer).Reset") {
				okReset = containsS(AtomStrings(Guards(cl)), "enc.reflectBuf != nil")
			}
		}
		c.Check(okReset, "R2.8", FStr(rr), "resets-existing", rr.Pos(), "an existing scratch buffer is Reset before reuse")
	}
	tn := c.Method("go.uber.org/zap/buffer", "Buffer", "TrimNewline")
	if c.Anchor("R2.8", "buffer.Buffer.TrimNewline", tn != nil) {
		ok := false
		for _, st := range FieldStoresOf(tn, c.Named("go.uber.org/zap/buffer", "Buffer")) {
			atoms := AtomStrings(Guards(st.Instr))
			bn := PN(tn.Params[0]) + ".bs"
			ok = containsS(atoms, bn+"[(len("+bn+") - 1)] == 10") && Desc(st.Instr.Val) == bn+"[:(len("+bn+") - 1)]"
		}
		c.Check(ok, "R2.8", FStr(tn), "trims-one-newline", tn.Pos(), "TrimNewline removes exactly one trailing '\\n'")
	}
}

// c2LevelEncoders: Lowercase*LevelEncoder / Capital*LevelEncoder take every string they emit from the source of
// their own case: Level.String / the lower-case colour table, resp. Level.CapitalString / the capital colour table.
func c2LevelEncoders(c *Ctx) {
	for _, n := range []string{"LowercaseLevelEncoder", "LowercaseColorLevelEncoder", "CapitalLevelEncoder", "CapitalColorLevelEncoder"} {
		fn := c.Func(CorePath, n)
		if !c.Anchor("R2.12", "zapcore."+n, fn != nil) {
			continue
		}
		want := "lower"
		if strings.HasPrefix(n, "Capital") {
			want = "capital"
		}
		seqs, trunc := ConcPaths(fn, ConcCfg{
			Event: func(in ssa.Instruction, st *ConcState) string {
				switch x := in.(type) {
				case *ssa.Call:
					if f := CalleeFunc(x); f != nil {
						switch f.FullName() {
						case "(go.uber.org/zap/zapcore.Level).String":
							return "lower"
						case "(go.uber.org/zap/zapcore.Level).CapitalString":
							return "capital"
						}
						if FNm(f) == "AppendString" && x.Call.IsInvoke() {
							return "emit"
						}
					}
				case *ssa.Lookup:
					d := st.Desc(x.X)
					switch {
					case strings.Contains(d, "Lowercase"):
						return "lower"
					case strings.Contains(d, "Capital"):
						return "capital"
					}
					if _, isMap := types.Unalias(x.X.Type()).Underlying().(*types.Map); isMap {
						return "table?" + d
					}
				}
				return ""
			},
		})
		var bad []string
		for _, sq := range seqs {
			nsrc, nemit := 0, 0
			for _, e := range strings.Split(sq, " ; ") {
				switch {
				case e == "emit":
					nemit++
				case e == want:
					nsrc++
				case e != "":
					bad = append(bad, sq)
				}
			}
			if nemit != 1 || nsrc == 0 {
				bad = append(bad, sq)
			}
		}
		c.Check(!trunc && len(seqs) > 0 && len(bad) == 0, "R2.12", FStr(fn), "case-agrees", fn.Pos(), "on each of the %d paths (helpers inline) exactly one string is emitted and every source consulted is the %s-case one (Level.String / CapitalString and the matching colour table): %v", len(seqs), want, uniqSorted(bad))
	}
}

// c2TrimmedPath: by bounded concrete exploration of EntryCaller.TrimmedPath on a 3-byte file name with every placement
// of the separators the code looks for: the short caller keeps everything after the penultimate '/', and the whole
// path when there are fewer than two separators (a leading '/' is a separator like any other).
func c2TrimmedPath(c *Ctx, rule string) {
	fn := c.Method(CorePath, "EntryCaller", "TrimmedPath")
	if !c.Anchor(rule, "zapcore.EntryCaller.TrimmedPath", fn != nil && len(fn.Params) == 1) {
		return
	}
	N := depth(3, 5)
	rn := PN(fn.Params[0])
	iv := func(f SliceFact) string { return "[" + itoa(int(f.Lo)) + "," + itoa(int(f.Hi)) + ")" }
	seqs, trunc := ConcPaths(fn, ConcCfg{
		Conc: func(d string) (int64, bool) {
			if d == rn+".Defined" {
				return 1, true
			}
			return 0, false
		},
		SliceLenOf: func(d string) (int64, bool) { return int64(N), d == rn+".File" },
		Inline:     func(h *ssa.Function) bool { return FNm(h) != "FullPath" },
		Fork: func(in ssa.Instruction, st *ConcState) []ConcAlt {
			x, ok := in.(*ssa.Call)
			if !ok {
				return nil
			}
			a := Args(x)
			switch {
			case IsCallTo(x, "strings.LastIndexByte") && len(a) == 2:
				if k, known := st.Int(a[1]); !known || k != '/' {
					return nil
				}
			case IsCallTo(x, "strings.LastIndex") && len(a) == 2:
				if s, isC := ConstString(a[1]); !isC || s != "/" {
					return nil
				}
			default:
				return nil
			}
			f, ok := st.SliceOf(a[0])
			if !ok || f.Key != rn+".File" {
				return nil
			}
			alts := []ConcAlt{{Ev: "last" + iv(f) + "=none", Ints: map[ssa.Value]int64{x: -1}}}
			for k := f.Lo; k < f.Hi; k++ {
				alts = append(alts, ConcAlt{Ev: "last" + iv(f) + "=" + itoa(int(k)), Ints: map[ssa.Value]int64{x: k - f.Lo}})
			}
			return alts
		},
		Event: func(in ssa.Instruction, st *ConcState) string {
			switch x := in.(type) {
			case *ssa.Call:
				a := Args(x)
				switch {
				case IsCallTo(x, "(go.uber.org/zap/zapcore.EntryCaller).FullPath"):
					return "full"
				case IsCallTo(x, "(*go.uber.org/zap/buffer.Buffer).AppendString", "(*go.uber.org/zap/buffer.Buffer).WriteString") && len(a) == 2:
					if f, ok := st.SliceOf(a[1]); ok && f.Key == rn+".File" {
						return "out" + iv(f)
					}
					if _, isC := ConstString(a[1]); !isC {
						return "out(?" + st.Desc(a[1]) + ")"
					}
				case IsCallTo(x, "strings.Index", "strings.IndexByte", "strings.Split", "strings.SplitN", "strings.Cut", "strings.Count", "path.Base", "path.Dir", "path/filepath.Base", "path/filepath.Dir"):
					return "search?" + FNm(CalleeFunc(x))
				}
			case *ssa.Return:
				if f, ok := st.SliceOf(x.Results[0]); ok && f.Key == rn+".File" {
					return "ret" + iv(f)
				}
				return "ret"
			}
			return ""
		},
	})
	if trunc || len(seqs) == 0 {
		c.Und(rule, FStr(fn), "keeps-last-two-elements", fn.Pos(), "path exploration incomplete (%d sequences)", len(seqs))
		return
	}
	var bad, und []string
	worlds := map[string]bool{}
	for _, sq := range seqs {
		toks := strings.Split(sq, " ; ")
		// replay: which separators this path assumed, and what it produced
		expectSearch := "[0," + itoa(N) + ")"
		k1, k2 := -2, -2 // -2 not looked for, -1 none
		out := ""
		why := ""
		for _, t := range toks {
			switch {
			case strings.HasPrefix(t, "search?") || strings.HasPrefix(t, "out(?"):
				und = append(und, sq)
			case strings.HasPrefix(t, "last"):
				eq := strings.LastIndex(t, "=")
				rng, val := t[4:eq], t[eq+1:]
				k := -1
				if val != "none" {
					k = int(parseIntOr(val, -1))
				}
				switch {
				case k1 == -2:
					if rng != expectSearch {
						why = "the last separator is searched in " + rng + ", not in the whole file name"
					}
					k1 = k
				case k2 == -2:
					if want := "[0," + itoa(k1) + ")"; rng != want {
						why = "the penultimate separator is searched in " + rng + ", expected " + want + " (everything before the last one)"
					}
					k2 = k
				default:
					why = "a third search"
				}
			case t == "full":
				out = "full"
			case strings.HasPrefix(t, "out["):
				out = t[3:]
			case strings.HasPrefix(t, "ret["):
				out = t[3:]
			}
		}
		// the world this path stands for: last separator at k1 (or none), the one before it at k2 (or none / not looked for)
		want := "full"
		switch {
		case k1 < 0:
		case k2 == -2:
			// the code did not look for a second separator although a first exists: only right when none can exist
			if k1 == 0 {
				want = "full"
			} else {
				want = "?" // it cannot know
			}
		case k2 >= 0:
			want = "[" + itoa(k2+1) + "," + itoa(N) + ")"
		}
		worlds[itoa(k1)+"/"+itoa(k2)] = true
		if why == "" && want == "?" {
			why = "a separator was found at " + itoa(k1) + " but the one before it is never looked for"
		}
		if why == "" && out != want {
			why = "with the last '/' at " + itoa(k1) + " and the one before at " + itoa(k2) + " (-1: none, -2: not looked for) the caller should be " + want + " of the file name, got " + out
		}
		if why != "" {
			bad = append(bad, why+" ("+sq+")")
		}
	}
	if len(und) > 0 && len(bad) == 0 {
		c.Und(rule, FStr(fn), "keeps-last-two-elements", fn.Pos(), "the file name is taken apart in a way the model does not know: %s", und[0])
		return
	}
	if len(bad) > 2 {
		bad = append(bad[:2:2], "… "+itoa(len(bad)-2)+" more")
	}
	c.Check(len(bad) == 0 && len(worlds) >= 5, rule, FStr(fn), "keeps-last-two-elements", fn.Pos(), "over %d paths on a %d-byte file name (every position of the last and of the penultimate '/', or none): the short caller is everything after the penultimate separator, and the whole path when there are fewer than two: %v", len(seqs), N, bad)
}

// c2NumericEncoders: the built-in numeric time and duration encoders emit the documented quantity computed with a
// single rounding: the 64-bit nanosecond count itself, or its quotient by a constant - as an integer division for
// integer output, as one float64 division of the converted count for float output. The expression handed to the
// encoder is normalised (Duration.Nanoseconds() and int64(d) are the count, Milliseconds() is count/1e6, constants are
// folded) and compared with the documented formula; time.Duration.Seconds()/Minutes()/Hours(), which add the rounded
// quotient and the rounded remainder, are a different formula (they differ in the last place for most values).
func c2NumericEncoders(c *Ctx, rule string) {
	want := map[string]string{
		"SecondsDurationEncoder": "AppendFloat64(f64(n)/1e+09)",
		"MillisDurationEncoder":  "AppendInt64((n/1000000))",
		"NanosDurationEncoder":   "AppendInt64(n)",
		"EpochTimeEncoder":       "AppendFloat64(f64(n)/1e+09)",
		"EpochMillisTimeEncoder": "AppendFloat64(f64(n)/1e+06)",
		"EpochNanosTimeEncoder":  "AppendInt64(n)",
	}
	n := 0
	for name, w := range want {
		fn := c.Func(CorePath, name)
		if !c.Anchor(rule, "zapcore."+name, fn != nil && len(fn.Params) == 2) {
			continue
		}
		src := fn.Params[0]
		var norm func(st *ConcState, v ssa.Value, d int) string
		norm = func(st *ConcState, v ssa.Value, d int) string {
			if d > 10 {
				return "?"
			}
			for k := 0; k < 12; k++ {
				if ct, ok := v.(*ssa.ChangeType); ok {
					v = ct.X
					continue
				}
				nx := st.Step(v)
				if nx == nil {
					break
				}
				v = nx
			}
			switch x := v.(type) {
			case *ssa.Parameter:
				if x == src {
					if strings.HasSuffix(TStr(x.Type()), "time.Duration") {
						return "n"
					}
					return "t"
				}
			case *ssa.Const:
				if x.Value != nil {
					if f, ok := constant.Float64Val(constant.ToFloat(x.Value)); ok {
						if _, isInt := types.Unalias(x.Type()).Underlying().(*types.Basic); isInt && types.Unalias(x.Type()).Underlying().(*types.Basic).Info()&types.IsInteger != 0 {
							return strconv.FormatInt(int64(f), 10)
						}
						return strconv.FormatFloat(f, 'g', -1, 64)
					}
				}
			case *ssa.Convert:
				in := norm(st, x.X, d+1)
				b, _ := types.Unalias(x.Type()).Underlying().(*types.Basic)
				switch {
				case b != nil && b.Kind() == types.Float64:
					if k, err := strconv.ParseInt(in, 10, 64); err == nil {
						return strconv.FormatFloat(float64(k), 'g', -1, 64)
					}
					return "f64(" + in + ")"
				case b != nil && (b.Kind() == types.Int64 || b.Kind() == types.Int):
					return in
				}
				return "conv[" + TStr(x.Type()) + "](" + in + ")"
			case *ssa.BinOp:
				a, bb := norm(st, x.X, d+1), norm(st, x.Y, d+1)
				switch x.Op {
				case token.QUO:
					if _, isF := types.Unalias(x.Type()).Underlying().(*types.Basic); isF && types.Unalias(x.Type()).Underlying().(*types.Basic).Info()&types.IsFloat != 0 {
						return a + "/" + bb
					}
					return "(" + a + "/" + bb + ")"
				}
				return "(" + a + x.Op.String() + bb + ")"
			case *ssa.Call:
				if f := CalleeFunc(x); f != nil && len(x.Call.Args) >= 1 {
					recv := norm(st, x.Call.Args[0], d+1)
					switch f.FullName() {
					case "(time.Duration).Nanoseconds":
						return recv
					case "(time.Duration).Microseconds":
						return "(" + recv + "/1000)"
					case "(time.Duration).Milliseconds":
						return "(" + recv + "/1000000)"
					case "(time.Time).UnixNano":
						if recv == "t" {
							return "n"
						}
					case "(time.Time).UnixMilli":
						if recv == "t" {
							return "UnixMilli(t)" // truncates: not the float quotient
						}
					}
					return FNm(f) + "(" + recv + ")"
				}
			}
			return "?" + st.Desc(v)
		}
		seqs, trunc := ConcPaths(fn, ConcCfg{
			Event: func(in ssa.Instruction, st *ConcState) string {
				x, ok := in.(*ssa.Call)
				if !ok || !x.Call.IsInvoke() || !strings.HasPrefix(FNm(x.Call.Method), "Append") || len(x.Call.Args) != 1 {
					return ""
				}
				return FNm(x.Call.Method) + "(" + norm(st, x.Call.Args[0], 0) + ")"
			},
		})
		if trunc || len(seqs) == 0 {
			c.Und(rule, FStr(fn), "formula", fn.Pos(), "path exploration incomplete")
			continue
		}
		n++
		var bad []string
		for _, sq := range seqs {
			if sq != w {
				bad = append(bad, sq)
			}
		}
		c.Check(len(bad) == 0, rule, FStr(fn), "formula", fn.Pos(), "on every path the encoder is given %s (n: the 64-bit nanosecond count; one conversion, one division): %v", w, bad)
	}
	if n < 4 {
		c.Bad(rule, "numeric encoders", "count", token.NoPos, "expected the built-in numeric time/duration encoders, decided %d", n)
	}
}

// liftTo: the instruction of fn that stands for in - in itself, or the (single) call in fn of the helper in sits in.
func liftTo(fn *ssa.Function, in ssa.Instruction) ssa.Instruction {
	for k := 0; k < 4 && in.Parent() != fn; k++ {
		h := in.Parent()
		var site ssa.Instruction
		n := 0
		for _, s := range sitesOf(h) {
			n++
			site = s
		}
		if n != 1 || site == nil {
			return in
		}
		in = site
	}
	return in
}
