package zv

import (
	"fmt"
	"go/types"
	"sort"
	"strings"

	"golang.org/x/tools/go/ssa"
)

// c2ConfigNames: the textual names a configuration may use for the sub-encoders select the documented built-in
// encoders. Each UnmarshalText of zapcore's encoder types is evaluated (SSA interpreter) on every documented name, on the empty name and on
// unknown names; what it stores into the
// receiver must be the documented function. A name that silently falls through to the default changes the
// representation of every level / time / duration / caller in the output.
func c2ConfigNames(c *Ctx, rule string) {
	type tbl struct {
		typ   string
		names map[string]string
		def   string
	}
	tables := []tbl{
		{"LevelEncoder", map[string]string{"capital": "CapitalLevelEncoder", "capitalColor": "CapitalColorLevelEncoder", "color": "LowercaseColorLevelEncoder"}, "LowercaseLevelEncoder"},
		{"TimeEncoder", map[string]string{"rfc3339nano": "RFC3339NanoTimeEncoder", "RFC3339Nano": "RFC3339NanoTimeEncoder", "rfc3339": "RFC3339TimeEncoder", "RFC3339": "RFC3339TimeEncoder",
			"iso8601": "ISO8601TimeEncoder", "ISO8601": "ISO8601TimeEncoder", "millis": "EpochMillisTimeEncoder", "nanos": "EpochNanosTimeEncoder"}, "EpochTimeEncoder"},
		{"DurationEncoder", map[string]string{"string": "StringDurationEncoder", "nanos": "NanosDurationEncoder", "ms": "MillisDurationEncoder"}, "SecondsDurationEncoder"},
		{"CallerEncoder", map[string]string{"full": "FullCallerEncoder"}, "ShortCallerEncoder"},
		{"NameEncoder", map[string]string{"full": "FullNameEncoder"}, "FullNameEncoder"},
	}
	for _, t := range tables {
		fn := c.Method(CorePath, t.typ, "UnmarshalText")
		named := c.Named(CorePath, t.typ)
		if !c.Anchor(rule, "zapcore."+t.typ+".UnmarshalText", fn != nil && named != nil && len(fn.Params) == 2) {
			continue
		}
		it := NewInterp(c)
		var wrong []string
		n := 0
		try := func(in, want string) {
			cell := newCell(named)
			r, err := it.Run(fn, []IVal{IPtr(cell), IBytes(in)})
			n++
			if err != nil {
				wrong = append(wrong, fmt.Sprintf("%q: cannot evaluate: %v", in, err))
				return
			}
			if len(r) != 1 || r[0].K != ivNil {
				wrong = append(wrong, fmt.Sprintf("%q: returns %v", in, r))
				return
			}
			got := "?"
			if cell.V.F != nil {
				got = FNm(cell.V.F)
			}
			if got != want {
				wrong = append(wrong, fmt.Sprintf("%q selects %s, documented: %s", in, got, want))
			}
		}
		var names []string
		for k := range t.names {
			names = append(names, k)
		}
		sort.Strings(names)
		for _, k := range names {
			try(k, t.names[k])
		}
		// anything else is the default: the empty name and names that resemble no listed one (whether other spellings
		// of a listed name are accepted too is not part of the property)
		for _, v := range []string{"", "no-such-encoder", "0", "default"} {
			if _, listed := t.names[v]; !listed {
				try(v, t.def)
			}
		}
		c.Check(len(wrong) == 0, rule, FStr(fn), "names-select-documented-encoders", fn.Pos(), "evaluated on %d names (every documented one, the empty and unknown ones): each stores the documented built-in encoder into the receiver and returns nil: %v", n, wrong)
	}
}

// c2Layouts: the layout-based time encoders hand the documented layout to the encoder (and to time.Format on the
// fallback path): ISO8601 with millisecond precision and a numeric zone without colon, RFC3339 and RFC3339Nano as the
// standard library defines them. A different layout changes what every logged time decodes to.
func c2Layouts(c *Ctx, rule string) {
	want := map[string]string{
		"ISO8601TimeEncoder":     "2006-01-02T15:04:05.000Z0700",
		"RFC3339TimeEncoder":     "2006-01-02T15:04:05Z07:00",
		"RFC3339NanoTimeEncoder": "2006-01-02T15:04:05.999999999Z07:00",
	}
	var names []string
	for k := range want {
		names = append(names, k)
	}
	sort.Strings(names)
	for _, n := range names {
		fn := c.Func(CorePath, n)
		if !c.Anchor(rule, "zapcore."+n, fn != nil) {
			continue
		}
		layoutOf := func(st *ConcState, v ssa.Value) string {
			for k := 0; k < 12; k++ {
				if s, ok := ConstString(v); ok {
					return s
				}
				nx := st.Step(v)
				if nx == nil {
					break
				}
				v = nx
			}
			return "?" + st.Desc(v)
		}
		seqs, trunc := ConcPaths(fn, ConcCfg{
			Event: func(in ssa.Instruction, st *ConcState) string {
				x, ok := in.(*ssa.Call)
				if !ok {
					return ""
				}
				switch {
				case x.Call.IsInvoke() && FNm(x.Call.Method) == "AppendTimeLayout" && len(x.Call.Args) == 2:
					return "layout:" + layoutOf(st, x.Call.Args[1])
				case IsCallTo(x, "(time.Time).Format") && len(x.Call.Args) == 2:
					return "format:" + layoutOf(st, x.Call.Args[1])
				case IsCallTo(x, "(time.Time).AppendFormat") && len(x.Call.Args) == 3:
					return "format:" + layoutOf(st, x.Call.Args[2])
				}
				return ""
			},
		})
		var bad []string
		nL := 0
		for _, sq := range seqs {
			toks := strings.Split(sq, " ; ")
			k := 0
			for _, t := range toks {
				if strings.HasPrefix(t, "layout:") || strings.HasPrefix(t, "format:") {
					k++
					if t[7:] != want[n] {
						bad = append(bad, sq)
					}
				}
			}
			if k != 1 {
				bad = append(bad, "not exactly one formatting step: "+sq)
			}
			nL += k
		}
		c.Check(!trunc && nL >= 2 && len(bad) == 0, rule, FStr(fn), "documented-layout", fn.Pos(), "on each of the %d paths (encoder with AppendTimeLayout / fallback through time.Format) the time is formatted once, with the layout %q: %v", len(seqs), want[n], bad)
	}
	_ = types.Typ
}
