package zv

import (
	"go/token"
	"go/types"

	"golang.org/x/tools/go/ssa"
)

// ---------------------------------------------------------------------------
// Object construction summaries.
//
// BuiltFields answers: "which value does each field of the struct of type
// `named` that fn builds (and typically returns) hold?", whatever idiom builds
// it: a composite literal (&T{f: v, …}), a struct copy followed by field
// assignments (c := *recv; c.f = v; return &c), or an eligible clone helper
// (c := recv.clone(); c.f = v). A whole-struct copy from *p gives every field
// f the rendering "<p>.f" (Val nil); a later store to a field overrides it.
// ---------------------------------------------------------------------------

type BuiltField struct {
	Desc string    // rendering of the value in fn's terms
	Val  ssa.Value // the stored value; nil when the field came from a whole-struct copy
	Pos  token.Pos
	From string // "store", "copy"
}

// BuiltFields returns the field map of every object of type named that fn (or an eligible helper it calls to obtain
// the object) initialises, merged: used where a function builds exactly one such object.
func BuiltFields(fn *ssa.Function, named *types.Named) map[string]BuiltField {
	out := map[string]BuiltField{}
	st, ok := types.Unalias(named.Underlying()).(*types.Struct)
	if !ok {
		return out
	}
	isNamed := func(t types.Type) bool {
		n, ok := types.Unalias(deref(t)).(*types.Named)
		return ok && n.Origin() == named.Origin()
	}
	var fns []*ssa.Function
	Bound(func() { fns = Region(fn) })
	// helpers first (a clone helper's copy happens before the caller's field stores), then fn itself
	ordered := append([]*ssa.Function{}, fns[1:]...)
	ordered = append(ordered, fn)
	for _, f := range ordered {
		for _, g := range WithClosures(f) {
			// pass 1: whole-struct copies
			AllInstrs(g, func(i ssa.Instruction) {
				s, ok := i.(*ssa.Store)
				if !ok || !isNamed(s.Addr.Type()) {
					return
				}
				if _, isFA := s.Addr.(*ssa.FieldAddr); isFA {
					return
				}
				if _, isIA := s.Addr.(*ssa.IndexAddr); isIA {
					return
				}
				// *dst = v where v is a struct value
				if _, isStruct := types.Unalias(s.Val.Type()).Underlying().(*types.Struct); !isStruct {
					return
				}
				src := Strip(s.Val)
				if ld, ok := src.(*ssa.UnOp); ok && ld.Op == token.MUL {
					var base string
					Bound(func() { base = Desc(ld.X) })
					for k := 0; k < st.NumFields(); k++ {
						fnm := FN(st.Field(k))
						out[fnm] = BuiltField{Desc: base + "." + fnm, Pos: s.Pos(), From: "copy"}
					}
				}
			})
		}
	}
	for _, f := range ordered {
		for _, g := range WithClosures(f) {
			AllInstrs(g, func(i ssa.Instruction) {
				s, ok := i.(*ssa.Store)
				if !ok {
					return
				}
				fa, ok := s.Addr.(*ssa.FieldAddr)
				if !ok || !isNamed(fa.X.Type()) {
					return
				}
				var d string
				Bound(func() { d = Desc(s.Val) })
				out[fieldName(fa.X.Type(), fa.Field)] = BuiltField{Desc: d, Val: s.Val, Pos: s.Pos(), From: "store"}
			})
		}
	}
	return out
}

// ---------------------------------------------------------------------------
// VisitsAll: the delegating calls selected by sel, made by fn (or by helpers /
// function literals it uses), reach every element of the collection that is
// fn's parameter `recv` (usually the receiver), whatever the earlier elements
// returned. Accepted shapes, each with "no exit from the loop other than its
// end":
//   - one call inside a loop over the whole collection;
//   - the first element handled before a loop over the rest (x[0], then x[1:]);
//   - the loop lives in an eligible helper that receives the collection and a
//     function value, and fn passes a function (literal, method value or
//     method expression) that makes the delegating call on its argument.
//
// Returns the call that sits in the loop (for error-fold checks) and its function.
func VisitsAll(fn *ssa.Function, sel func(ssa.CallInstruction) bool, recv *ssa.Parameter) (ok bool, why string, loopCall *ssa.Call, loopFn *ssa.Function) {
	var calls []*ssa.Call
	for _, cl := range CallsDeep(fn) {
		if c2, isCall := cl.(*ssa.Call); isCall && sel(cl) {
			calls = append(calls, c2)
		}
	}
	rn := PN(recv)
	overOK := func(over string, f *ssa.Function) bool {
		if over == rn {
			return true
		}
		// the helper's own parameter that every call site binds to recv
		for _, p := range f.Params {
			if PN(p) == over && f != fn {
				var d string
				Bound(func() { d = Desc(p) })
				return d == rn
			}
		}
		return false
	}
	// higher-order: fn hands a function to a helper that owns the loop
	higher := func() (bool, string, *ssa.Call, *ssa.Function, bool) {
		// higher-order: fn hands a function to a helper that owns the loop
		for _, cl := range Calls(fn) {
			c2, isCall := cl.(*ssa.Call)
			h := loopHelperOf(cl)
			if !isCall || h == nil {
				continue
			}
			args := Args(c2)
			for ai, a := range args {
				if ai >= len(h.Params) {
					break
				}
				var g *ssa.Function
				switch x := Strip(a).(type) {
				case *ssa.MakeClosure:
					g, _ = x.Fn.(*ssa.Function)
				case *ssa.Function:
					g = x
				}
				if g == nil {
					continue
				}
				delegates := false
				for _, gc := range Calls(g) {
					if sel(gc) {
						delegates = true
					}
				}
				if !delegates {
					continue
				}
				// in h: the call through parameter ai, inside a loop over the parameter that receives recv
				var dyn *ssa.Call
				for _, hc := range Calls(h) {
					if d, ok := hc.(*ssa.Call); ok && !d.Call.IsInvoke() && d.Call.Value == ssa.Value(h.Params[ai]) {
						dyn = d
					}
				}
				if dyn == nil {
					continue
				}
				v, over, w := LoopVisitsAll(h, dyn)
				if !v {
					return false, w, dyn, h, true
				}
				passes := false
				for pi, p := range h.Params {
					if (PN(p) == over || p.Name() == over) && pi < len(args) && Strip(args[pi]) == ssa.Value(recv) {
						passes = true
					}
				}
				if !passes {
					return false, "the helper " + FNm(h) + " loops over " + over + ", which is not " + rn, dyn, h, true
				}
				return true, "", dyn, h, true
			}
		}
		return false, "", nil, nil, false
	}
	switch len(calls) {
	case 1:
		f := calls[0].Parent()
		v, over, w := LoopVisitsAll(f, calls[0])
		if !v && f.Parent() != nil {
			// the call sits in a function literal: the loop may be in the helper the literal is handed to
			if v2, w2, lc, lf, found := higher(); found {
				return v2, w2, lc, lf
			}
		}
		if !v {
			return false, w, calls[0], f
		}
		if !overOK(over, f) {
			return false, "the loop ranges over " + over + ", not over the whole of " + rn, calls[0], f
		}
		return true, "", calls[0], f
	case 2:
		var head, tail *ssa.Call
		for _, cl := range calls {
			if LoopHeader(cl.Block()) == nil {
				head = cl
			} else {
				tail = cl
			}
		}
		if head == nil || tail == nil || head.Parent() != tail.Parent() {
			return false, "two delegating calls that are not a first-element call plus a loop over the rest", nil, nil
		}
		f := tail.Parent()
		v, over, w := LoopVisitsAll(f, tail)
		if !v {
			return false, w, tail, f
		}
		hd := ""
		if head.Call.IsInvoke() {
			hd = Desc(head.Call.Value)
		} else if len(head.Call.Args) > 0 {
			hd = Desc(head.Call.Args[0])
		}
		if hd != rn+"[0]" || over != rn+"[1:]" {
			return false, "first call on " + hd + " and loop over " + over + " do not cover " + rn, tail, f
		}
		if !Dominates(head, tail) {
			return false, "the first-element call does not precede the loop on every path", tail, f
		}
		return true, "", tail, f
	case 0:
		if v, w, lc, lf, found := higher(); found {
			return v, w, lc, lf
		}
		return false, "no delegating call found", nil, nil
	}
	return false, "unexpected number of delegating calls", nil, nil
}

// ConfigOptionGuards: the guard set (helper-transparent, in buildOptions' terms) under which Config.buildOptions
// installs the option built by the call to zap.<option>; ok=false when there is no such call.
func ConfigOptionGuards(c *Ctx, option string) (guards []string, pos token.Pos, ok bool) {
	bo := c.Method(ZapPath, "Config", "buildOptions")
	if bo == nil {
		return nil, token.NoPos, false
	}
	for _, cl := range CallsDeep(bo) {
		if IsCallTo(cl, ZapPath+"."+option) {
			Bound(func() {
				guards = append(guards, AtomStrings(Guards(cl))...)
			})
			// what already holds wherever buildOptions is called (a successfully validated Config) is not a condition of this option
			pre := map[string]bool{}
			for _, site := range sitesOf(bo) {
				Bound(func() {
					for _, a := range AtomStrings(Guards(site)) {
						pre[a] = true
					}
				})
			}
			var own []string
			for _, g := range guards {
				if !pre[g] {
					own = append(own, g)
				}
			}
			return uniqSorted(own), cl.Pos(), true
		}
	}
	return nil, bo.Pos(), false
}
