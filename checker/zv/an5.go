package zv

import (
	"go/token"
	"go/types"

	"golang.org/x/tools/go/ssa"
)

// ---------------------------------------------------------------------------
// Object construction summaries.
//
// BuiltFields answers: "which value does each field of the struct of type
// `named` that fn builds (and typically returns) hold?", whatever idiom builds
// it: a composite literal (&T{f: v, …}), a struct copy followed by field
// assignments (c := *recv; c.f = v; return &c), or an eligible clone helper
// (c := recv.clone(); c.f = v). A whole-struct copy from *p gives every field
// f the rendering "<p>.f" (Val nil); a later store to a field overrides it.
// ---------------------------------------------------------------------------

type BuiltField struct {
	Desc string    // rendering of the value in fn's terms
	Val  ssa.Value // the stored value; nil when the field came from a whole-struct copy
	Pos  token.Pos
	From string // "store", "copy"
}

// BuiltFields returns the field map of every object of type named that fn (or an eligible helper it calls to obtain
// the object) initialises, merged: used where a function builds exactly one such object.
func BuiltFields(fn *ssa.Function, named *types.Named) map[string]BuiltField {
	out := map[string]BuiltField{}
	st, ok := types.Unalias(named.Underlying()).(*types.Struct)
	if !ok {
		return out
	}
	isNamed := func(t types.Type) bool {
		n, ok := types.Unalias(deref(t)).(*types.Named)
		return ok && n.Origin() == named.Origin()
	}
	var fns []*ssa.Function
	Bound(func() { fns = Region(fn) })
	// helpers first (a clone helper's copy happens before the caller's field stores), then fn itself
	ordered := append([]*ssa.Function{}, fns[1:]...)
	ordered = append(ordered, fn)
	for _, f := range ordered {
		for _, g := range WithClosures(f) {
			// pass 1: whole-struct copies
			AllInstrs(g, func(i ssa.Instruction) {
				s, ok := i.(*ssa.Store)
				if !ok || !isNamed(s.Addr.Type()) {
					return
				}
				if _, isFA := s.Addr.(*ssa.FieldAddr); isFA {
					return
				}
				if _, isIA := s.Addr.(*ssa.IndexAddr); isIA {
					return
				}
				// *dst = v where v is a struct value
				if _, isStruct := types.Unalias(s.Val.Type()).Underlying().(*types.Struct); !isStruct {
					return
				}
				src := Strip(s.Val)
				if ld, ok := src.(*ssa.UnOp); ok && ld.Op == token.MUL {
					var base string
					Bound(func() { base = Desc(ld.X) })
					for k := 0; k < st.NumFields(); k++ {
						fnm := st.Field(k).Name()
						out[fnm] = BuiltField{Desc: base + "." + fnm, Pos: s.Pos(), From: "copy"}
					}
				}
			})
		}
	}
	for _, f := range ordered {
		for _, g := range WithClosures(f) {
			AllInstrs(g, func(i ssa.Instruction) {
				s, ok := i.(*ssa.Store)
				if !ok {
					return
				}
				fa, ok := s.Addr.(*ssa.FieldAddr)
				if !ok || !isNamed(fa.X.Type()) {
					return
				}
				var d string
				Bound(func() { d = Desc(s.Val) })
				out[fieldName(fa.X.Type(), fa.Field)] = BuiltField{Desc: d, Val: s.Val, Pos: s.Pos(), From: "store"}
			})
		}
	}
	return out
}
