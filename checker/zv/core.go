package zv

import (
	"encoding/json"
	"fmt"
	"go/token"
	"os"
	"path/filepath"
	"sort"
	"strings"
	"time"
)

// Thorough is set by the driver for the thorough tier: bounded explorations then use their deeper bounds.
var Thorough bool

// depth picks the exploration bound of the current tier.
func depth(quick, thorough int) int {
	if Thorough {
		return thorough
	}
	return quick
}

type Status string

const (
	Discharged Status = "discharged"
	Violated   Status = "violated"
	Undecided  Status = "undecided"
)

// Ob is one obligation: a rule instance on a construct. Key never contains a
// line number: rule | fully-qualified construct | slot.
type Ob struct {
	Rule       string `json:"rule"`
	Key        string `json:"key"`
	Pos        string `json:"pos"`
	Status     Status `json:"status"`
	Detail     string `json:"detail"`
	Nontrivial bool   `json:"nontrivial"` // needed a path / dataflow / table argument, not mere existence
}

// Ctx collects the obligations of one property check.
type Ctx struct {
	memoCEWrite int // 0 unknown, 1 nil-safe, 2 not (see ceWriteNilSafe)
	*Program
	Prop      string
	Obs       []Ob
	min       map[string]int // rule -> expected minimum instance count
	rules     map[string]string
	ruleOrder []string
	Notes     []string
	// alias: while set, obligations recorded under rule X are filed under alias[X] (a rule that is a necessary
	// condition of several properties is decided by the same code under each of them)
	alias map[string]string
}

// As runs f with the rules in m filed under other identifiers (see Ctx.alias).
func (c *Ctx) As(m map[string]string, f func()) {
	old := c.alias
	c.alias = m
	defer func() { c.alias = old }()
	f()
}

func NewCtx(p *Program, prop string) (c *Ctx) {
	curProg = p
	constTables = nil
	c = &Ctx{Program: p, Prop: prop, min: map[string]int{}, rules: map[string]string{}}
	c18GroupsField(c)
	return c
}

// Rule declares a rule with its description and the minimum number of
// instances confirmed by hand on the reference tree.
func (c *Ctx) Rule(id, desc string, min int) {
	if _, aliased := c.alias[id]; aliased {
		return // declared by the property that borrows the rule
	}
	if _, ok := c.rules[id]; !ok {
		c.ruleOrder = append(c.ruleOrder, id)
	}
	c.rules[id] = desc
	c.min[id] = min
}

func key(rule, construct, slot string) string { return rule + "|" + construct + "|" + slot }

func (c *Ctx) add(rule, construct, slot string, pos token.Pos, st Status, nontrivial bool, format string, a ...any) {
	if to, ok := c.alias[rule]; ok {
		rule = to
	}
	if _, ok := c.rules[rule]; !ok {
		panic("undeclared rule " + rule)
	}
	c.Obs = append(c.Obs, Ob{Rule: rule, Key: key(rule, construct, slot), Pos: c.Pos(pos), Status: st,
		Detail: fmt.Sprintf(format, a...), Nontrivial: nontrivial})
}

// OK records a discharged obligation that needed a path/dataflow/table argument.
func (c *Ctx) OK(rule, construct, slot string, pos token.Pos, format string, a ...any) {
	c.add(rule, construct, slot, pos, Discharged, true, format, a...)
}

// Triv records a discharged obligation decided by existence/identity only.
func (c *Ctx) Triv(rule, construct, slot string, pos token.Pos, format string, a ...any) {
	c.add(rule, construct, slot, pos, Discharged, false, format, a...)
}

func (c *Ctx) Bad(rule, construct, slot string, pos token.Pos, format string, a ...any) {
	c.add(rule, construct, slot, pos, Violated, true, format, a...)
}

func (c *Ctx) Und(rule, construct, slot string, pos token.Pos, format string, a ...any) {
	c.add(rule, construct, slot, pos, Undecided, true, format, a...)
}

// Check records discharged/violated depending on cond.
func (c *Ctx) Check(cond bool, rule, construct, slot string, pos token.Pos, format string, a ...any) bool {
	if cond {
		c.OK(rule, construct, slot, pos, format, a...)
	} else {
		c.Bad(rule, construct, slot, pos, format, a...)
	}
	return cond
}

// Anchor fails (undecided) when a named construct the rule is keyed on does not resolve.
func (c *Ctx) Anchor(rule, name string, present bool) bool {
	if !present {
		c.Und(rule, name, "anchor", token.NoPos, "anchor %s does not resolve in the current tree (moved or renamed?)", name)
	}
	return present
}

// ---------------------------------------------------------------------------
// Known findings

type Finding struct {
	Property string `json:"property"`
	Key      string `json:"key"`
	Status   string `json:"status"` // open | fixed
	Commit   string `json:"commit,omitempty"`
	What     string `json:"what"`
	ID       string `json:"id,omitempty"`
}

type findingsFile struct {
	Findings []Finding `json:"findings"`
}

func LoadFindings(path string) ([]Finding, error) {
	b, err := os.ReadFile(path)
	if err != nil {
		return nil, err
	}
	var f findingsFile
	if err := json.Unmarshal(b, &f); err != nil {
		return nil, err
	}
	return f.Findings, nil
}

// ---------------------------------------------------------------------------
// Result / evidence

type Result struct {
	Prop       string
	Tier       string
	Seed       int
	Obs        []Ob
	Violations []Ob // not suppressed by an open known finding
	Known      []Finding
	Undecided  []Ob
	ShortRules []string // rules whose instance count fell below the minimum
	Exit       int
}

type RunInfo struct {
	Tier        string
	Seed        int
	Start       time.Time
	VerifDir    string
	Configs     []string // build configurations analysed
	Extra       map[string]any
	Explanation string
	Assumptions []string
}

// Finish evaluates the obligations, prints the verdict lines, writes the
// evidence file and the violation report, and returns the exit code.
func (c *Ctx) Finish(ri RunInfo, findings []Finding) int {
	open := map[string]Finding{}
	for _, f := range findings {
		if f.Property == c.Prop && f.Status == "open" {
			open[f.Key] = f
		}
	}
	counts := map[string]int{}
	var viol, und []Ob
	var known []Finding
	nontriv := map[string]bool{}
	discharged := 0
	for _, o := range c.Obs {
		counts[o.Rule]++
		switch o.Status {
		case Discharged:
			discharged++
			if o.Nontrivial {
				nontriv[o.Key] = true
			}
		case Violated:
			if f, ok := open[o.Key]; ok {
				known = append(known, f)
			} else {
				viol = append(viol, o)
			}
		case Undecided:
			und = append(und, o)
		}
	}
	var short []string
	for _, r := range c.ruleOrder {
		if counts[r] < c.min[r] {
			short = append(short, fmt.Sprintf("%s: %d instances < expected minimum %d", r, counts[r], c.min[r]))
		}
	}
	exit := 0
	for _, f := range known {
		fmt.Printf("KNOWN-FINDING: property=%s %s [%s]\n", c.Prop, f.What, f.Key)
	}
	replay := ""
	if len(viol) > 0 || len(und) > 0 || len(short) > 0 {
		dir := filepath.Join(ri.VerifDir, "evidence", "violations")
		os.MkdirAll(dir, 0o755)
		replay = filepath.Join(dir, c.Prop+".json")
		rep := map[string]any{"property": c.Prop, "violations": viol, "undecided": und, "rules_below_minimum": short,
			"how_to_replay": "bin/zapverif check " + c.Prop + " --tier " + ri.Tier + "  (re-analyses /repo's working tree; the report names rule, construct and file:line)"}
		b, _ := json.MarshalIndent(rep, "", " ")
		os.WriteFile(replay, b, 0o644)
	}
	for _, o := range viol {
		fmt.Printf("violated  %s at %s: %s\n", o.Key, o.Pos, o.Detail)
	}
	for _, o := range und {
		fmt.Printf("undecided %s at %s: %s\n", o.Key, o.Pos, o.Detail)
	}
	for _, s := range short {
		fmt.Printf("rule-below-minimum %s\n", s)
	}
	if len(viol) > 0 {
		fmt.Printf("VIOLATION property=%s replay=%s\n", c.Prop, replay)
		exit = 1
	} else if len(und) > 0 || len(short) > 0 {
		// Could not decide: never silently green.
		fmt.Printf("UNDECIDED property=%s report=%s\n", c.Prop, replay)
		exit = 2
	}

	// evidence
	type ruleRow struct {
		Rule      string `json:"rule"`
		Desc      string `json:"desc"`
		Instances int    `json:"instances"`
		Min       int    `json:"expected_min"`
	}
	var rows []ruleRow
	var ruleTxt []string
	for _, r := range c.ruleOrder {
		rows = append(rows, ruleRow{r, c.rules[r], counts[r], c.min[r]})
		ruleTxt = append(ruleTxt, fmt.Sprintf("%s(%d)", r, counts[r]))
	}
	// samples: first obligation of each rule + every non-discharged one
	var samples []Ob
	seen := map[string]int{}
	for _, o := range c.Obs {
		if o.Status != Discharged || seen[o.Rule] < 2 {
			samples = append(samples, o)
			seen[o.Rule]++
		}
	}
	cov := map[string]any{
		"explanation":         ri.Explanation,
		"obligations":         len(c.Obs),
		"discharged":          discharged,
		"known_findings":      len(known),
		"undecided":           len(und),
		"evaluations":         len(c.Obs),
		"distinct_nontrivial": len(nontriv),
		"rule":                "one obligation per (rule, construct, slot) found in the resolved program of /repo's working tree; non-trivial = decided by a path, dataflow, guard-set or table-agreement argument rather than by mere existence; distinct = distinct obligation keys. Rules and instance counts: " + strings.Join(ruleTxt, " "),
		"rules":               rows,
		"samples":             samples,
		"packages_analysed":   c.rootPaths(),
		"ssa_functions":       c.NumFuncs,
		"build_configs":       ri.Configs,
		"exhaustive":          false,
		"checker_cmd":         "bin/zapverif check " + c.Prop + " --tier " + ri.Tier,
		"notes":               c.Notes,
	}
	for k, v := range ri.Extra {
		cov[k] = v
	}
	ev := map[string]any{
		"property_id": c.Prop,
		"tier":        ri.Tier,
		"seed":        ri.Seed,
		"level":       "other",
		"coverage":    cov,
		"assumptions": ri.Assumptions,
		"wall_s":      time.Since(ri.Start).Seconds(),
		"violations":  len(viol),
	}
	b, _ := json.MarshalIndent(ev, "", " ")
	os.MkdirAll(filepath.Join(ri.VerifDir, "evidence"), 0o755)
	if err := os.WriteFile(filepath.Join(ri.VerifDir, "evidence", c.Prop+".json"), b, 0o644); err != nil {
		fmt.Println("cannot write evidence:", err)
		if exit == 0 {
			exit = 2
		}
	}
	fmt.Printf("%s tier=%s obligations=%d discharged=%d known=%d violated=%d undecided=%d rules=%d exit=%d\n",
		c.Prop, ri.Tier, len(c.Obs), discharged, len(known), len(viol), len(und), len(c.ruleOrder), exit)
	return exit
}

func (c *Ctx) rootPaths() []string {
	var s []string
	for _, r := range c.Roots {
		s = append(s, r.PkgPath)
	}
	sort.Strings(s)
	return s
}
