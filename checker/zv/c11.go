package zv

import (
	"fmt"
	"go/token"
	"go/types"
	"sort"
	"strings"

	"golang.org/x/tools/go/ssa"
)

func init() {
	Props["C11"] = Prop{
		Title: "Sampler admits the first N then every Mth entry per level and message per tick",
		Fn:    checkC11,
		Explanation: "The counter dynamics over arbitrary arrival patterns and the exact window boundary are runtime arithmetic and are NOT decided. Decided, by exploring every path of sampler.Check with the entry level fixed to each value from one below to one above the valid range (helpers inline, every other condition forked): a disabled entry returns the incoming entry before any counter access; an enabled entry with an out-of-range level is forwarded unsampled with no counter access and no hook; an in-range entry looks up the bucket of (its level, its message), counts with its own timestamp and the sampler's tick, and then the conditions established on the path determine drop = n > first ∧ (thereafter = 0 ∨ (n − first) mod thereafter ≠ 0) by three-valued evaluation; the hook is called exactly once with the decision actually applied (dropped: the incoming entry is returned; sampled: (ent, ce) is forwarded to the wrapped core), the modulo is only evaluated after thereafter ≠ 0 was established, and nothing else influences the decision. IncCheckReset has exactly the three paths of the window protocol (open window: Add(1); elapsed: Store(1), compare-and-swap of the window end from the loaded value to timestamp + tick, winner reports 1, loser Add(1)), driven by the entry timestamp only. Further: bucket index = level − _minLevel and a hash over every byte of the message modulo the table width, table dimensions equal to the guards, counters stored inline as atomics, derived cores sharing counters/tick/first/thereafter/hook, and the wiring of Config.Sampling (installed iff present, Initial→first, Thereafter→thereafter, 1 s tick). " +
			"Also decided: the bucket counted is table[level - _minLevel][fnv32a(message) mod _countersPerLevel] of the sampler's own table for every in-range level (wherever the index is computed); Logger.check hands Core.Check an entry that already carries the logger's clock reading (the sampler's windows are judged by it). " +
			"NOT decided: that counts are exact under all arrival orders, CAS race accounting, inclusive/exclusive window boundary, hash collisions.",
		Assumptions: commonAssumptions,
	}
}

func checkC11(c *Ctx) {
	c.Rule("R11.1", "order of effects: Enabled and level-range guards dominate every counter access; table dimensions match the guards", 2)
	c.Rule("R11.2", "one decision, one hook, applied as reported; hooks only for in-range levels", 1)
	c.Rule("R11.3", "shared budget: With copies counts/tick/first/thereafter/hook; constructor allocates counts once and defaults the hook", 2)
	c.Rule("R11.4", "the modulo is evaluated only under thereafter != 0", 1)
	c.Rule("R11.10", "entries reach the sampler already stamped with the logger's clock", 1)
	c.Rule("R11.11", "what the sampler keyed its decision on is what is written: nothing re-assigns a checked entry's message, level, time or name", 1)
	c.Rule("R11.12", "level queries (Enabled, Level, V) never reach Core.Check: only logging an entry costs budget and calls the hook", 1)
	c.Rule("R11.5", "bucket key: level offset and full-message hash", 2)
	c.Rule("R11.7", "admission predicate has exactly the documented form", 2)
	c.Rule("R11.8", "window protocol: entry timestamp, single comparison, same constant, CAS from the loaded value, no wall clock", 4)

	fn := c.Method(CorePath, "sampler", "Check")
	if !c.Anchor("R11.1", "zapcore.sampler.Check", fn != nil) {
		return
	}
	name := FStr(fn)
	minL, _ := c.ConstVal(CorePath, "_minLevel")
	maxL, _ := c.ConstVal(CorePath, "_maxLevel")
	// table dimensions
	cs := c.Named(CorePath, "counters")
	if c.Anchor("R11.1", "zapcore.counters", cs != nil) {
		outer, ok1 := cs.Underlying().(*types.Array)
		var innerLen int64 = -1
		if ok1 {
			if in, ok := outer.Elem().Underlying().(*types.Array); ok {
				innerLen = in.Len()
			}
		}
		cpl, _ := c.ConstVal(CorePath, "_countersPerLevel")
		c.Check(ok1 && outer.Len() == maxL-minL+1 && innerLen == cpl, "R11.1", CorePath+".counters", "dimensions", cs.Obj().Pos(), "the table has %d level rows (= _maxLevel − _minLevel + 1 = %d) and %d buckets (= _countersPerLevel)", outer.Len(), maxL-minL+1, innerLen)
	}
	dropped, _ := c.ConstVal(CorePath, "LogDropped")
	sampled, _ := c.ConstVal(CorePath, "LogSampled")
	if len(fn.Params) != 3 {
		c.Und("R11.1", name, "params", fn.Pos(), "unexpected parameter list")
		return
	}
	recvN, entP, ceP := PN(fn.Params[0]), fn.Params[1], fn.Params[2]
	// isFld: the rendering names the sampler's setting `f` - a field of the receiver or of a struct it holds by value
	isFld := func(d, f string) bool {
		return strings.HasPrefix(d, recvN+".") && strings.HasSuffix(d, "."+f) && !strings.ContainsAny(d, "()[")
	}
	entN := PN(entP)
	traces := func(st *ConcState, v ssa.Value, pred func(ssa.Value) bool) bool {
		v = Strip(v)
		for k := 0; k < 12; k++ {
			if pred(v) {
				return true
			}
			nx := st.Step(v)
			if nx == nil {
				return false
			}
			v = Strip(nx)
		}
		return false
	}
	isCallTo := func(full ...string) func(ssa.Value) bool {
		return func(v ssa.Value) bool {
			cl, ok := v.(*ssa.Call)
			return ok && IsCallTo(cl, full...)
		}
	}
	const getF, incF, chkF = "(*go.uber.org/zap/zapcore.counters).get", "(*go.uber.org/zap/zapcore.counter).IncCheckReset", "(go.uber.org/zap/zapcore.Core).Check"
	cpl, _ := c.ConstVal(CorePath, "_countersPerLevel")
	counterT := c.Named(CorePath, "counter")
	isBucket := func(ia *ssa.IndexAddr) bool {
		pt, ok := ia.Type().(*types.Pointer)
		if !ok || counterT == nil {
			return false
		}
		n, ok := types.Unalias(pt.Elem()).(*types.Named)
		return ok && n.Obj() == counterT.Obj()
	}
	nGet := 0
	hashFn := c.Func(CorePath, "fnv32a")
	// Explore every path of Check (helpers inline, counters.get and IncCheckReset opaque) with the entry level fixed,
	// for each level of the valid range and one below / one above it.
	nPaths := 0
	var badOrder, badHook, badPred, badDiv, badOther, allSeqs []string
	// (… and the level after that, and both ends of the int8 range: "above the range" is not one value)
	var probeLevels []int64
	for L := minL - 1; L <= maxL+1; L++ {
		probeLevels = append(probeLevels, L)
	}
	probeLevels = append(probeLevels, maxL+2, 127, -128)
	for _, L := range probeLevels {
		lv := L
		inRange := lv >= minL && lv <= maxL
		seqs, trunc := ConcPaths(fn, ConcCfg{
			Inline: func(h *ssa.Function) bool { return h != hashFn },
			Conc: func(d string) (int64, bool) {
				if d == entN+".Level" {
					return lv, true
				}
				return 0, false
			},
			Event: func(in ssa.Instruction, st *ConcState) string {
				switch x := in.(type) {
				case *ssa.IndexAddr:
					// the bucket: &table[level − _minLevel][fnv32a(message) mod _countersPerLevel], wherever it is computed
					if !isBucket(x) {
						break
					}
					nGet++
					rv := Strip(x.X)
					for k := 0; k < 12; k++ {
						if _, isIA := rv.(*ssa.IndexAddr); isIA {
							break
						}
						nx := st.Step(rv)
						if nx == nil {
							break
						}
						rv = Strip(nx)
					}
					row, _ := rv.(*ssa.IndexAddr)
					if row == nil {
						return "get(row " + st.Desc(x.X) + ")"
					}
					i, known := st.Int(row.Index)
					if !known || i != lv-minL {
						return "get(row index " + st.Desc(row.Index) + ")"
					}
					if !inRange {
						return "get(out of range)"
					}
					if tb := st.Desc(row.X); tb != recvN+".counts" {
						return "get(table " + tb + ")"
					}
					j := st.Desc(x.Index)
					wantJ := "(fnv32a(" + entN + ".Message) % " + itoa(int(cpl)) + ")"
					if cpl > 0 && cpl&(cpl-1) == 0 && j == "(fnv32a("+entN+".Message) & "+itoa(int(cpl-1))+")" {
						j = wantJ // x & (2^k − 1) = x mod 2^k for unsigned x
					}
					if j != wantJ {
						return "get(bucket index " + j + ")"
					}
					return "get"
				case *ssa.Call:
					a := Args(x)
					switch {
					case IsCallTo(x, incF):
						if traces(st, a[0], func(v ssa.Value) bool { ia, ok := v.(*ssa.IndexAddr); return ok && isBucket(ia) }) && (st.Desc(a[1]) == entN+".Time" || st.Desc(a[1]) == "UnixNano("+entN+".Time)" && TypeName(a[1].Type()) == "int64") &&
							(st.Desc(a[2]) == recvN+".tick" || st.Desc(a[2]) == "Nanoseconds("+recvN+".tick)" && TypeName(a[2].Type()) == "int64") {
							// the entry's own timestamp and the sampler's tick, as values or already as nanoseconds
							return "inc"
						}
						return "inc(" + st.Desc(a[1]) + "," + st.Desc(a[2]) + ")"
					case IsCallTo(x, chkF):
						if traces(st, a[1], func(v ssa.Value) bool { return v == ssa.Value(entP) }) && traces(st, a[2], func(v ssa.Value) bool { return v == ssa.Value(ceP) }) && st.Desc(a[0]) == recvN+"."+samplerCoreField(c) {
							return "forward"
						}
						return "forward(" + st.Desc(a[0]) + "," + st.Desc(a[1]) + "," + st.Desc(a[2]) + ")"
					case st.Desc(x.Call.Value) == recvN+".hook" && !x.Call.IsInvoke():
						d := "?" + st.Desc(a[1])
						if k, ok := st.Int(a[1]); ok {
							switch k {
							case dropped:
								d = "dropped"
							case sampled:
								d = "sampled"
							default:
								d = itoa(int(k))
							}
						}
						if !traces(st, a[0], func(v ssa.Value) bool { return v == ssa.Value(entP) }) {
							d += ",entry=" + st.Desc(a[0])
						}
						return "hook(" + d + ")"
					}
				case *ssa.BinOp:
					if x.Op == token.REM || x.Op == token.QUO {
						if k, isConst := ConstInt(x.Y); isConst && k != 0 {
							break // division by a non-zero constant (the bucket index)
						}
						if isFld(st.Desc(x.Y), "thereafter") {
							return "mod"
						}
						return "mod(" + st.Desc(x.Y) + ")"
					}
				case *ssa.Return:
					switch {
					case traces(st, x.Results[0], func(v ssa.Value) bool { return v == ssa.Value(ceP) }):
						return "ret(ce)"
					case traces(st, x.Results[0], isCallTo(chkF)):
						return "ret(forward)"
					}
					return "ret(" + st.Desc(x.Results[0]) + ")"
				}
				return ""
			},
			Branch: func(cond ssa.Value, taken bool, st *ConcState) string {
				pol := taken
				for k := 0; k < 8; k++ {
					if u, ok := cond.(*ssa.UnOp); ok && u.Op == token.NOT {
						cond, pol = u.X, !pol
						continue
					}
					if nx := st.Step(cond); nx != nil {
						cond = nx
						continue
					}
					break
				}
				tf := func(name string, v bool) string {
					if v {
						return name + "=T"
					}
					return name + "=F"
				}
				if cl, ok := cond.(*ssa.Call); ok && isEnabledCall(cl) {
					if pol {
						return "enabled"
					}
					return "disabled"
				}
				bo, ok := cond.(*ssa.BinOp)
				if !ok {
					return "cond(" + st.Desc(cond) + ")"
				}
				isN := func(v ssa.Value) bool { return traces(st, v, isCallTo(incF)) }
				x, y, op := bo.X, bo.Y, bo.Op
				if isN(y) && isFld(st.Desc(x), "first") {
					x, y, op = y, x, swapOp(op)
				}
				if isN(x) && isFld(st.Desc(y), "first") {
					switch op {
					case token.GTR:
						return tf("beyond-first", pol)
					case token.LEQ:
						return tf("beyond-first", !pol)
					}
				}
				if isFld(st.Desc(y), "thereafter") && st.Desc(x) == "0" {
					x, y, op = y, x, swapOp(op)
				}
				if isFld(st.Desc(x), "thereafter") && st.Desc(y) == "0" {
					switch op {
					case token.EQL, token.LEQ:
						return tf("thereafter-zero", pol)
					case token.NEQ, token.GTR:
						return tf("thereafter-zero", !pol)
					}
				}
				if rem, ok := Strip(x).(*ssa.BinOp); ok && rem.Op == token.REM && st.Desc(y) == "0" && isFld(st.Desc(rem.Y), "thereafter") {
					if sub, ok := Strip(rem.X).(*ssa.BinOp); ok && sub.Op == token.SUB && isN(sub.X) && isFld(st.Desc(sub.Y), "first") {
						switch op {
						case token.NEQ, token.GTR:
							return tf("off-cycle", pol)
						case token.EQL:
							return tf("off-cycle", !pol)
						}
					}
				}
				return "cond(" + st.Desc(cond) + ")"
			},
		})
		if trunc || len(seqs) == 0 {
			c.Und("R11.1", name, "paths@level="+itoa(int(lv)), fn.Pos(), "path exploration of sampler.Check incomplete (%d sequences, truncated=%v)", len(seqs), trunc)
			return
		}
		for _, sq := range seqs {
			nPaths++
			tag := "level=" + itoa(int(lv)) + ": " + sq
			allSeqs = append(allSeqs, tag)
			ev := strings.Split(sq, " ; ")
			switch {
			case ev[0] == "disabled":
				if sq != "disabled ; ret(ce)" {
					badOrder = append(badOrder, tag)
				}
				continue
			case ev[0] != "enabled":
				badOrder = append(badOrder, tag)
				continue
			}
			if !inRange {
				if sq != "enabled ; forward ; ret(forward)" {
					badOrder = append(badOrder, tag)
				}
				continue
			}
			if len(ev) < 5 || ev[1] != "get" || ev[2] != "inc" {
				badOrder = append(badOrder, tag)
				continue
			}
			// three-valued evaluation of: drop = beyond-first ∧ (thereafter-zero ∨ off-cycle)
			val := map[string]int{} // 1 true, -1 false
			hookAt, nHook, decision := -1, 0, ""
			okDiv := true
			var rest []string
			for i, e := range ev[3:] {
				switch {
				case strings.HasSuffix(e, "=T") || strings.HasSuffix(e, "=F"):
					if hookAt < 0 {
						nm := e[:len(e)-2]
						if e[len(e)-1] == 'T' {
							val[nm] = 1
						} else {
							val[nm] = -1
						}
					}
				case e == "mod":
					if val["thereafter-zero"] != -1 {
						okDiv = false
					}
				case strings.HasPrefix(e, "hook("):
					nHook++
					hookAt = i
					decision = strings.TrimSuffix(strings.TrimPrefix(e, "hook("), ")")
					rest = nil
				case strings.HasPrefix(e, "cond(") || strings.HasPrefix(e, "mod("):
					badOther = append(badOther, tag)
				default:
					rest = append(rest, e)
				}
			}
			if !okDiv {
				badDiv = append(badDiv, tag)
			}
			and3 := func(a, b int) int {
				if a == -1 || b == -1 {
					return -1
				}
				if a == 1 && b == 1 {
					return 1
				}
				return 0
			}
			or3 := func(a, b int) int { return -and3(-a, -b) }
			drop := and3(val["beyond-first"], or3(val["thereafter-zero"], val["off-cycle"]))
			tail := strings.Join(rest, " ; ")
			switch {
			case nHook != 1:
				badHook = append(badHook, tag)
			case decision == "dropped" && tail != "ret(ce)", decision == "sampled" && tail != "forward ; ret(forward)", decision != "dropped" && decision != "sampled":
				badHook = append(badHook, tag)
			}
			if nHook == 1 && (decision == "dropped" && drop != 1 || decision == "sampled" && drop != -1) {
				badPred = append(badPred, tag)
			}
		}
	}
	{
		var badGet []string
		levelsSeen := map[string]bool{}
		for _, t := range allSeqs {
			if strings.Contains(t, "get(") {
				badGet = append(badGet, t)
			} else if strings.Contains(t, " ; get ; ") {
				levelsSeen[t[:strings.Index(t, ":")]] = true
			}
		}
		c.Check(len(badGet) == 0 && int64(len(levelsSeen)) == maxL-minL+1, "R11.5", name, "index", fn.Pos(), "evaluated for each level %d..%d: the bucket counted is table[level − _minLevel][fnv32a(message) mod _countersPerLevel] of the sampler's own table (levels seen %d; offending: %v)", minL, maxL, len(levelsSeen), badGet)
	}
	c.Check(len(badOrder) == 0, "R11.1", name, "order-of-effects", fn.Pos(), "over all %d paths of sampler.Check (entry level fixed to each of %d..%d, helpers inline): a disabled entry returns the incoming entry before any counter access; an enabled entry with an out-of-range level is forwarded unsampled with no counter access and no hook; an enabled in-range entry looks up the bucket of (its level, its message) and counts with its own timestamp and the sampler's tick before anything else (offending: %v)", nPaths, minL-1, maxL+1, badOrder)
	c.Check(len(badHook) == 0, "R11.2", name, "one-decision-one-hook-applied", fn.Pos(), "every decided path calls the hook exactly once, with the entry; LogDropped is followed by returning the incoming entry without forwarding, LogSampled by forwarding (ent, ce) to the wrapped core and returning its result (offending: %v)", badHook)
	c.Check(len(badDiv) == 0, "R11.4", name, "no-division-by-zero", fn.Pos(), "the modulo by thereafter is only evaluated on paths that established thereafter ≠ 0 (offending: %v)", badDiv)
	c.Check(len(badPred) == 0, "R11.7", name, "admission-predicate", fn.Pos(), "on every decided path the conditions established before the hook determine drop = n > first ∧ (thereafter = 0 ∨ (n − first) mod thereafter ≠ 0), n being this entry's IncCheckReset result, and the reported decision equals it (offending: %v)", badPred)
	c.Check(len(badOther) == 0, "R11.7", name, "no-other-condition", fn.Pos(), "the decision depends on nothing but the three comparisons of the documented predicate (offending: %v)", badOther)

	// ---------------- R11.3 ----------------
	c11Shared(c)
	c11Config(c)
	c11Stamped(c, "R11.10")
	c11CheckedMessageFinal(c, "R11.11")
	c11QueriesNeverCheck(c, "R11.12")
	// ---------------- R11.5 ----------------
	c11Key(c, minL)
	// ---------------- R11.8 ----------------
	c11Window(c)
}

func sortedS(s ...string) []string { sort.Strings(s); return s }

func c11Shared(c *Ctx) {
	named := c.Named(CorePath, "sampler")
	w := c.Method(CorePath, "sampler", "With")
	nw := c.Func(CorePath, "NewSamplerWithOptions")
	if !c.Anchor("R11.3", "zapcore.sampler.With/NewSamplerWithOptions", named != nil && w != nil && nw != nil) {
		return
	}
	// by path exploration: what the object handed out holds, nested settings included (a setting may live in a struct
	// the sampler holds by value; copying that struct whole carries it)
	var settingsWith func(fn *ssa.Function, noOpts bool) (map[string]string, bool)
	settings := func(fn *ssa.Function) (map[string]string, bool) {
		got, ok := settingsWith(fn, false)
		if !ok && fn.Signature.Variadic() {
			// options collected into a settings object first: on the paths that handed that object to an option (not
			// explored) nothing is known about it any more. What the constructor stores by default is what it stores when
			// no option is given
			return settingsWith(fn, true)
		}
		return got, ok
	}
	settingsWith = func(fn *ssa.Function, noOpts bool) (map[string]string, bool) {
		var got map[string]string
		agree := true
		seqs, trunc := ConcPaths(fn, ConcCfg{
			Unroll: noOpts,
			Init: func(st *ConcState) {
				if noOpts && len(fn.Params) > 0 {
					st.SetNil(fn.Params[len(fn.Params)-1], true) // no options: the variadic slice is nil
				}
			},
			Event: func(in ssa.Instruction, st *ConcState) string {
				r, ok := in.(*ssa.Return)
				if !ok || len(r.Results) != 1 {
					return ""
				}
				// every path hands out a sampler (returning the wrapped core itself would drop the hook and the budget)
				rv := r.Results[0]
				for k := 0; k < 12; k++ {
					if mi, isMI := rv.(*ssa.MakeInterface); isMI {
						rv = mi.X
						continue
					}
					nx := st.Step(rv)
					if nx == nil {
						break
					}
					rv = nx
				}
				if n, _ := types.Unalias(deref(rv.Type())).(*types.Named); n == nil || n.Obj() != named.Obj() {
					agree = false
				}
				f := st.FieldsOf(r.Results[0])
				for k, fv := range st.FieldValsOf(r.Results[0]) {
					if freshAlloc(st, fv, 0) {
						f[k] = "<fresh>"
					}
				}
				// paths that handed the object to code that is not explored (option appliers) know less about it;
				// what they do know must agree
				small, big := f, got
				if len(f) > len(got) {
					small, big = got, f
				}
				for k, v := range small {
					if w, has := big[k]; has && w != v {
						agree = false
					}
				}
				got = big
				return "ret"
			},
		})
		return got, !trunc && len(seqs) > 0 && agree && got != nil
	}
	// setting: the value of the (possibly nested) field named f
	setting := func(got map[string]string, recv, f string) string {
		for path, d := range got {
			if path == f || strings.HasSuffix(path, "."+f) {
				return d
			}
		}
		for path, d := range got {
			// an enclosing struct copied whole from the same place of the receiver
			if recv != "" && d == recv+"."+path {
				return d + "." + f
			}
			// the whole object copied from the receiver (dup := *s), the field not reassigned afterwards
			if recv != "" && path == "*" && (d == "*"+recv || d == recv) {
				return recv + "." + f
			}
		}
		return ""
	}
	got, okW := settings(w)
	rn := PN(w.Params[0])
	ok := okW && setting(got, rn, "counts") == rn+".counts" && setting(got, rn, "tick") == rn+".tick" && strings.HasPrefix(setting(got, rn, "first"), rn+".") && strings.HasSuffix(setting(got, rn, "first"), ".first") &&
		strings.HasPrefix(setting(got, rn, "thereafter"), rn+".") && strings.HasSuffix(setting(got, rn, "thereafter"), ".thereafter") && setting(got, rn, "hook") == rn+".hook" && setting(got, rn, samplerCoreField(c)) == "With("+rn+"."+samplerCoreField(c)+", "+PN(w.Params[1])+")"
	c.Check(ok, "R11.3", FStr(w), "shares-budget", w.Pos(), "a derived sampler points at the SAME counters and keeps tick/first/thereafter/hook (%v)", got)
	got, okN := settings(nw)
	fresh := func(d string) bool { return d == "<fresh>" }
	ok = okN && fresh(setting(got, "", "counts")) && strings.HasSuffix(setting(got, "", "hook"), "nopSamplingHook") && setting(got, "", "first") == "conv[uint64]("+PN(nw.Params[2])+")" && setting(got, "", "thereafter") == "conv[uint64]("+PN(nw.Params[3])+")" && setting(got, "", "tick") == PN(nw.Params[1]) && setting(got, "", samplerCoreField(c)) == PN(nw.Params[0])
	c.Check(ok, "R11.3", FStr(nw), "constructor", nw.Pos(), "the constructor allocates one counter table, defaults the hook to the no-op and stores tick/first/thereafter as given (%v)", got)
	c11CtorOK, c11CtorGot = ok, fmt.Sprint(got)
}

var (
	c11CtorOK  bool
	c11CtorGot string
)

func c11Key(c *Ctx, minL int64) {
	// the hash of the message: the func(string) uint32 of zapcore that sampler.Check (or a helper of it) calls
	var h *ssa.Function
	if chk := c.Method(CorePath, "sampler", "Check"); chk != nil {
		for _, cl := range CallsDeep(chk) {
			sc := StaticCallee(cl)
			if sc == nil || sc.Pkg == nil || sc.Pkg.Pkg.Path() != CorePath || sc.Signature.Recv() != nil {
				continue
			}
			ps, rs := sc.Signature.Params(), sc.Signature.Results()
			if ps.Len() == 1 && rs.Len() == 1 && TypeName(ps.At(0).Type()) == "string" && TypeName(rs.At(0).Type()) == "uint32" {
				h = sc
			}
		}
	}
	if !c.Anchor("R11.5", "the message hash func(string) uint32 called from zapcore.sampler.Check", h != nil) {
		return
	}
	// hash loop: an index running over [0, len(s)) in steps of 1, reading s[i] (or b[i] of b = []byte(s)); a range
	// over the string itself would visit rune starts only
	isS := func(v ssa.Value) bool {
		v = Strip(v)
		if v == ssa.Value(h.Params[0]) {
			return true
		}
		if cv, ok := v.(*ssa.Convert); ok && Strip(cv.X) == ssa.Value(h.Params[0]) {
			if sl, ok := types.Unalias(cv.Type()).Underlying().(*types.Slice); ok {
				if b, ok := types.Unalias(sl.Elem()).Underlying().(*types.Basic); ok && b.Kind() == types.Uint8 {
					return true
				}
			}
		}
		return false
	}
	var reads []ssa.Value
	AllInstrs(h, func(i ssa.Instruction) {
		switch x := i.(type) {
		case *ssa.Lookup:
			if isS(x.X) {
				reads = append(reads, x.Index)
			}
		case *ssa.Index:
			if isS(x.X) {
				reads = append(reads, x.Index)
			}
		case *ssa.IndexAddr:
			if isS(x.X) {
				reads = append(reads, x.Index)
			}
		}
	})
	usesRange := false
	AllInstrs(h, func(i ssa.Instruction) {
		if r, ok := i.(*ssa.Range); ok {
			if _, isStr := types.Unalias(r.X.Type()).Underlying().(*types.Basic); isStr {
				usesRange = true
			}
		}
	})
	okLoop := false
	detail := ""
	if len(reads) == 1 {
		ix := reads[0]
		var ph *ssa.Phi
		wantSeed := int64(0)
		if p, ok := ix.(*ssa.Phi); ok {
			ph = p
		} else if b, ok := ix.(*ssa.BinOp); ok && b.Op == token.ADD {
			if p, ok := b.X.(*ssa.Phi); ok {
				if k, ok := ConstInt(b.Y); ok && k == 1 {
					ph, wantSeed = p, -1
				}
			}
		}
		if ph != nil {
			var seed, step int64 = -99, 0
			for _, e := range ph.Edges {
				if v, ok := ConstInt(e); ok {
					seed = v
				} else if b, ok := e.(*ssa.BinOp); ok && b.Op == token.ADD && b.X == ssa.Value(ph) {
					step, _ = ConstInt(b.Y)
				}
			}
			blk := ph.Block()
			condOK := false
			cond := ""
			if iff, ok := blk.Instrs[len(blk.Instrs)-1].(*ssa.If); ok {
				cond = Desc(iff.Cond)
				if bo, ok := iff.Cond.(*ssa.BinOp); ok && bo.Op == token.LSS && bo.X == ix {
					if ln, ok := Strip(bo.Y).(*ssa.Call); ok && CallBuiltin(ln) == "len" && isS(ln.Call.Args[0]) {
						condOK = true
					}
				}
			}
			okLoop = seed == wantSeed && step == 1 && condOK
			detail = "index from " + itoa(int(seed-wantSeed)) + " step " + itoa(int(step)) + " while " + cond
		}
	}
	c.Check(okLoop && !usesRange, "R11.5", FStr(h), "hashes-every-byte", h.Pos(), "the hash consumes the byte at every index in [0, len(s)) (%s; a range-over-string loop would visit only rune starts: %v)", detail, usesRange)
	// FNV-1a constants
	off, prime := false, false
	AllInstrs(h, func(i ssa.Instruction) {
		if b, ok := i.(*ssa.BinOp); ok {
			if v, ok := ConstInt(b.Y); ok && b.Op == token.MUL && v == 16777619 {
				prime = true
			}
		}
		if ph, ok := i.(*ssa.Phi); ok {
			for _, e := range ph.Edges {
				if v, ok := ConstInt(e); ok && v == 2166136261 {
					off = true
				}
			}
		}
	})
	c.Check(off && prime, "R11.5", FStr(h), "fnv-constants", h.Pos(), "FNV-1a 32-bit offset basis and prime")
}

func c11Window(c *Ctx) {
	fn := c.Method(CorePath, "counter", "IncCheckReset")
	if !c.Anchor("R11.8", "zapcore.counter.IncCheckReset", fn != nil) {
		return
	}
	name := FStr(fn)
	t := fn.Params[1]
	tn := "UnixNano(" + PN(t) + ")"
	if TypeName(t.Type()) == "int64" {
		tn = PN(t) // the caller hands over the timestamp in nanoseconds
	}
	traces := func(st *ConcState, v ssa.Value, full string) bool {
		v = Strip(v)
		for k := 0; k < 12; k++ {
			if cl, ok := v.(*ssa.Call); ok && IsCallTo(cl, full) {
				return true
			}
			nx := st.Step(v)
			if nx == nil {
				return false
			}
			v = Strip(nx)
		}
		return false
	}
	kOf := func(st *ConcState, v ssa.Value) string {
		if k, ok := st.Int(v); ok {
			return itoa(int(k))
		}
		return "?" + st.Desc(v)
	}
	seqs, trunc := ConcPaths(fn, ConcCfg{
		Event: func(in ssa.Instruction, st *ConcState) string {
			switch x := in.(type) {
			case *ssa.Call:
				a := Args(x)
				switch {
				case IsCallTo(x, "(*sync/atomic.Int64).Load"):
					if st.Desc(a[0]) == PN(fn.Params[0])+".resetAt" {
						return "load"
					}
					return "load(" + st.Desc(a[0]) + ")"
				case IsCallTo(x, "(*sync/atomic.Int64).CompareAndSwap"):
					okOld := traces(st, a[1], "(*sync/atomic.Int64).Load")
					nw := st.Desc(a[2])
					tk := "tick"
					if len(fn.Params) >= 3 {
						tk = PN(fn.Params[2])
					}
					okNew := nw == "("+tn+" + Nanoseconds("+tk+"))" || nw == "(Nanoseconds("+tk+") + "+tn+")"
					if len(fn.Params) >= 3 && TypeName(fn.Params[2].Type()) == "int64" {
						okNew = nw == "("+tn+" + "+tk+")" || nw == "("+tk+" + "+tn+")"
					}
					if st.Desc(a[0]) == PN(fn.Params[0])+".resetAt" && okOld && okNew {
						return "cas"
					}
					return "cas(" + st.Desc(a[0]) + "," + st.Desc(a[1]) + "," + nw + ")"
				case IsCallTo(x, "(*sync/atomic.Int64).Store"):
					return "store-resetAt"
				case IsCallTo(x, "(*sync/atomic.Uint64).Store"):
					return "store(" + kOf(st, a[1]) + ")"
				case IsCallTo(x, "(*sync/atomic.Uint64).Add"):
					return "add(" + kOf(st, a[1]) + ")"
				case IsCallTo(x, "time.Now"):
					return "wall-clock"
				}
			case *ssa.Return:
				if traces(st, x.Results[0], "(*sync/atomic.Uint64).Add") {
					return "ret(add)"
				}
				return "ret(" + kOf(st, x.Results[0]) + ")"
			}
			return ""
		},
		Branch: func(cond ssa.Value, taken bool, st *ConcState) string {
			pol := taken
			for k := 0; k < 8; k++ {
				if u, ok := cond.(*ssa.UnOp); ok && u.Op == token.NOT {
					cond, pol = u.X, !pol
					continue
				}
				if nx := st.Step(cond); nx != nil {
					cond = nx
					continue
				}
				break
			}
			if cl, ok := cond.(*ssa.Call); ok && IsCallTo(cl, "(*sync/atomic.Int64).CompareAndSwap") {
				if pol {
					return "won"
				}
				return "lost"
			}
			if bo, ok := cond.(*ssa.BinOp); ok {
				x, y, op := bo.X, bo.Y, bo.Op
				if st.Desc(x) == tn {
					x, y, op = y, x, swapOp(op)
				}
				if traces(st, x, "(*sync/atomic.Int64).Load") && st.Desc(y) == tn {
					// window end (x) compared with the entry's timestamp (y); the inclusive/exclusive choice is not decided
					switch op {
					case token.GTR, token.GEQ:
						if pol {
							return "open"
						}
						return "elapsed"
					case token.LSS, token.LEQ:
						if pol {
							return "elapsed"
						}
						return "open"
					}
				}
				return "other-condition(" + st.Desc(cond) + ")"
			}
			return "other-condition(" + st.Desc(cond) + ")"
		},
	})
	if trunc || len(seqs) == 0 {
		c.Und("R11.8", name, "protocol", fn.Pos(), "path exploration of IncCheckReset incomplete (%d sequences, truncated=%v)", len(seqs), trunc)
		return
	}
	want := map[string]string{
		"load ; open ; add(1) ; ret(add)":                            "open-window-branch",
		"load ; elapsed ; store(1) ; cas ; won ; ret(1)":             "reset-branch",
		"load ; elapsed ; store(1) ; cas ; lost ; add(1) ; ret(add)": "lost-race-branch",
	}
	got := map[string]bool{}
	var bad []string
	for _, sq := range seqs {
		if _, ok := want[sq]; ok {
			got[sq] = true
		} else {
			bad = append(bad, sq)
		}
	}
	c.Check(len(bad) == 0, "R11.8", name, "no-other-path", fn.Pos(), "IncCheckReset has no path besides the three of the window protocol, is driven by the entry timestamp only (no wall clock) and tests nothing but the window comparison and the compare-and-swap result (other paths: %v)", bad)
	for sq, slot := range want {
		msg := map[string]string{
			"open-window-branch": "while the stored window end compares later than the entry's timestamp (that single comparison; > vs >= not decided) the entry is counted with Add(1) and that count is returned",
			"reset-branch":       "otherwise the counter restarts at 1, then the window end loaded at the top is replaced by timestamp + tick with a compare-and-swap, and the winner reports count 1",
			"lost-race-branch":   "a lost compare-and-swap falls back to Add(1) in the window the winner opened and returns that count",
		}[slot]
		c.Check(got[sq], "R11.8", name, slot, fn.Pos(), "%s (path: %s)", msg, sq)
	}
}

func containsS(l []string, s string) bool {
	for _, x := range l {
		if x == s {
			return true
		}
	}
	return false
}

// c11Config: what a Config's Sampling section asks for is what the sampler gets: installed whenever the section is
// present (N = M = 0 is a valid request: drop everything), Initial → first, Thereafter → thereafter, one-second tick.
func c11Config(c *Ctx) {
	c.Rule("R11.9", "Config.Sampling is wired to the sampler: installed iff present, Initial→first, Thereafter→thereafter, tick = 1s; NewSampler passes its arguments on in order", 2)
	if g, pos, ok := ConfigOptionGuards(c, "WrapCore"); ok {
		rn := PN(c.Method(ZapPath, "Config", "buildOptions").Params[0])
		c.Check(len(g) == 1 && g[0] == rn+".Sampling != nil", "R11.9", "(go.uber.org/zap.Config).buildOptions", "sampler-installed-iff-configured", pos, "the sampling core is installed under exactly {%s.Sampling != nil} (found {%s})", rn, strings.Join(g, ", "))
	} else {
		c.Bad("R11.9", "(go.uber.org/zap.Config).buildOptions", "sampler-installed-iff-configured", pos, "Config.buildOptions never wraps the core in a sampler")
	}
	n := 0
	c.EachRootFunc(func(fn *ssa.Function) {
		if fn.Pkg == nil || (fn.Pkg.Pkg.Path() != ZapPath && fn.Pkg.Pkg.Path() != CorePath) {
			return
		}
		for _, cl := range Calls(fn) {
			if !IsCallTo(cl, CorePath+".NewSamplerWithOptions", CorePath+".NewSampler") {
				continue
			}
			a := Args(cl)
			if len(a) < 4 {
				continue
			}
			n++
			var d1, d2, d3 string
			Bound(func() { d1, d2, d3 = Desc(a[1]), Desc(a[2]), Desc(a[3]) })
			if fn.Pkg.Pkg.Path() == CorePath {
				// NewSampler delegating to NewSamplerWithOptions: parameters passed on in order
				ok := len(fn.Params) >= 4 && Strip(a[1]) == ssa.Value(fn.Params[1]) && Strip(a[2]) == ssa.Value(fn.Params[2]) && Strip(a[3]) == ssa.Value(fn.Params[3])
				c.Check(ok, "R11.9", FuncKey(fn), "passes-on-in-order", cl.Pos(), "tick, first and thereafter are passed on in this order (%s, %s, %s)", d1, d2, d3)
				continue
			}
			tick, isC := ConstInt(a[1])
			// a captured snapshot (initial := scfg.Initial, used inside the WrapCore literal) stands for what was stored in it
			var origin func(v ssa.Value, depth int) string
			origin = func(v ssa.Value, depth int) string {
				v = Strip(v)
				if u, ok := v.(*ssa.UnOp); ok && u.Op == token.MUL && depth < 4 {
					var cell ssa.Value = u.X
					if fv, isFV := cell.(*ssa.FreeVar); isFV {
						cell = c18Binding(fv)
					}
					if al, isAl := cell.(*ssa.Alloc); isAl {
						if sv := singleStoreLoose(al); sv != nil {
							return origin(sv, depth+1)
						}
					}
				}
				var d string
				Bound(func() { d = Desc(v) })
				return d
			}
			d2, d3 = origin(a[2], 0), origin(a[3], 0)
			ok := isC && tick == 1000000000 && strings.HasSuffix(d2, ".Sampling.Initial") && strings.HasSuffix(d3, ".Sampling.Thereafter")
			if !ok && isC && tick == 1000000000 {
				// through a local copy of the Sampling pointer (scfg := cfg.Sampling)
				ok = strings.HasSuffix(d2, ".Initial") && strings.HasSuffix(d3, ".Thereafter") && !strings.Contains(d2, "(") && !strings.Contains(d3, "(")
			}
			c.Check(ok, "R11.9", FuncKey(fn), "config-arguments", cl.Pos(), "the sampler is built with tick = 1s, first = Sampling.Initial, thereafter = Sampling.Thereafter (found tick=%s first=%s thereafter=%s)", d1, d2, d3)
		}
	})
	if nw := c.Func(CorePath, "NewSamplerWithOptions"); nw != nil {
		c.Check(c11CtorOK, "R11.9", FStr(nw), "parameters-to-fields", nw.Pos(), "the constructor stores tick, first, thereafter into the settings of the same name (%s)", c11CtorGot)
	}
	if n == 0 {
		c.Bad("R11.9", "sampler constructors", "count", token.NoPos, "no call of NewSampler/NewSamplerWithOptions found")
	}
}

// c11Stamped: the sampler judges its windows by the entry's own timestamp, so the entry handed to Core.Check by
// Logger.check must already carry the logger's clock reading (an entry stamped only after Check reaches the sampler
// with the zero time: the window never rolls over).
func c11Stamped(c *Ctx, rule string) {
	fn := c.Method(ZapPath, "Logger", "check")
	if !c.Anchor(rule, "zap.Logger.check", fn != nil) {
		return
	}
	name := FStr(fn)
	nChecks := 0
	seqs, trunc := ConcPaths(fn, ConcCfg{
		Prune: true,
		Event: func(in ssa.Instruction, st *ConcState) string {
			x, ok := in.(*ssa.Call)
			if !ok || !x.Call.IsInvoke() || FNm(x.Call.Method) != "Check" || !IsCallTo(x, "(go.uber.org/zap/zapcore.Core).Check") || len(x.Call.Args) < 1 {
				return ""
			}
			nChecks++
			_, _, v := st.FieldOf(x.Call.Args[0], "Time")
			for k := 0; k < 12 && v != nil; k++ {
				if cl, ok := Strip(v).(*ssa.Call); ok && cl.Call.IsInvoke() && FNm(cl.Call.Method) == "Now" {
					return "check(stamped)"
				}
				v = st.Step(Strip(v))
			}
			return "check(unstamped)"
		},
	})
	if trunc || len(seqs) == 0 {
		c.Und(rule, name, "stamped-before-check", fn.Pos(), "path exploration of Logger.check incomplete (%d sequences)", len(seqs))
		return
	}
	var bad []string
	for _, sq := range seqs {
		if strings.Contains(sq, "check(unstamped)") {
			bad = append(bad, sq)
		}
	}
	ex := ""
	if len(bad) > 0 {
		ex = bad[0]
	}
	c.Check(len(bad) == 0 && nChecks > 0, rule, name, "stamped-before-check", fn.Pos(), "on every path the entry handed to Core.Check already carries Time = clock.Now() (%d event sequences; offending: %s)", len(seqs), ex)
}

// freshAlloc: on this path v is an object allocated right here (new, &T{}, or the result of a function of the analysed
// packages all of whose returns are such allocations).
func freshAlloc(st *ConcState, v ssa.Value, depth int) bool {
	for k := 0; k < 12; k++ {
		nx := st.Step(v)
		if nx == nil {
			break
		}
		v = nx
	}
	switch x := v.(type) {
	case *ssa.Alloc:
		return x.Heap
	case *ssa.Call:
		sc := x.Call.StaticCallee()
		if sc == nil || !curProgRoot(sc) || len(sc.Blocks) == 0 || depth > 3 {
			return false
		}
		n := 0
		for _, r := range Returns(sc) {
			rv := RetVals(r)
			if len(rv) != 1 {
				return false
			}
			a, isA := Strip(rv[0]).(*ssa.Alloc)
			if !isA || !a.Heap {
				return false
			}
			n++
		}
		return n > 0
	}
	return false
}

// samplerCoreField: the name of the sampler's field that holds the wrapped core (its field of type zapcore.Core,
// embedded or named).
func samplerCoreField(c *Ctx) string {
	if n := c.Named(CorePath, "sampler"); n != nil {
		if st, ok := n.Underlying().(*types.Struct); ok {
			for i := 0; i < st.NumFields(); i++ {
				if TypeName(st.Field(i).Type()) == "zapcore.Core" {
					return FN(st.Field(i))
				}
			}
		}
	}
	return "Core"
}

// c11CheckedMessageFinal: what the sampler keyed its decision on is what gets written. Outside the methods of
// CheckedEntry itself, nothing assigns the Message, Level, Time or LoggerName of a checked entry (or its Entry as a
// whole): a front end that has the core check one message and then writes another makes entries share, or escape, the
// budget of the message they are logged with.
func c11CheckedMessageFinal(c *Ctx, rule string) {
	ce := c.Named(CorePath, "CheckedEntry")
	if !c.Anchor(rule, "zapcore.CheckedEntry", ce != nil) {
		return
	}
	keyed := map[string]bool{"Message": true, "Level": true, "Time": true, "LoggerName": true}
	isCE := func(t types.Type) bool {
		n, _ := types.Unalias(deref(t)).(*types.Named)
		return n != nil && n.Obj() == ce.Obj()
	}
	var bad []string
	n := 0
	c.EachRootFunc(func(fn *ssa.Function) {
		if rn := RecvNamed(fn); rn != nil && rn.Obj() == ce.Obj() {
			return
		}
		for _, g := range WithClosures(fn) {
			AllInstrs(g, func(i ssa.Instruction) {
				st, ok := i.(*ssa.Store)
				if !ok {
					return
				}
				fa, ok := st.Addr.(*ssa.FieldAddr)
				if !ok {
					return
				}
				f := fieldName(fa.X.Type(), fa.Field)
				switch {
				case isCE(fa.X.Type()) && f == "Entry":
					if IsFresh(fa.X) || fromPoolOrFresh(fa.X, 0) {
						return // a checked entry that is being made, not one a core has decided on
					}
					n++
					bad = append(bad, FuncKey(g)+": "+Desc(st.Addr)+" = "+Desc(st.Val)+" at "+c.Pos(st.Pos()))
				case keyed[f]:
					in, ok := fa.X.(*ssa.FieldAddr)
					if ok && isCE(in.X.Type()) && fieldName(in.X.Type(), in.Field) == "Entry" && !fromPoolOrFresh(in.X, 0) {
						n++
						bad = append(bad, FuncKey(g)+": "+Desc(st.Addr)+" = "+Desc(st.Val)+" at "+c.Pos(st.Pos()))
					}
				}
			})
		}
	})
	c.Check(len(bad) == 0, rule, CorePath+".CheckedEntry", "keyed-parts-final", ce.Obj().Pos(), "outside CheckedEntry's own methods nothing assigns the Message, Level, Time, LoggerName (or the whole Entry) of a checked entry: %v", bad)
}

// fromPoolOrFresh: v is an object this function allocated, took from a pool, or got from a function of the module
// that hands out nothing else.
func fromPoolOrFresh(v ssa.Value, depth int) bool {
	if depth > 3 {
		return false
	}
	switch x := Strip(v).(type) {
	case *ssa.Alloc:
		return x.Heap
	case *ssa.Call:
		if IsCallTo(x, poolGet) {
			return true
		}
		sc := x.Call.StaticCallee()
		if sc == nil || !curProgRoot(sc) || len(sc.Blocks) == 0 || x.Call.IsInvoke() {
			return false
		}
		n := 0
		for _, r := range Returns(sc) {
			rv := RetVals(r)
			if len(rv) != 1 || !fromPoolOrFresh(rv[0], depth+1) {
				return false
			}
			n++
		}
		return n > 0
	}
	return false
}

// c11QueriesNeverCheck: asking whether a level is enabled decides no entry: no Enabled / Level / V method of the module
// reaches Core.Check (every Check is a sampling decision: it counts against a budget and calls the hook).
func c11QueriesNeverCheck(c *Ctx, rule string) {
	n := 0
	var bad []string
	c.EachRootFunc(func(fn *ssa.Function) {
		if fn.Parent() != nil || fn.Signature.Recv() == nil {
			return
		}
		switch FNm(fn) {
		case "Enabled", "Level", "V":
		default:
			return
		}
		n++
		for _, cl := range CallsDeep(fn) {
			if IsCallTo(cl, "(go.uber.org/zap/zapcore.Core).Check") {
				bad = append(bad, FuncKey(fn)+" at "+c.Pos(cl.Pos()))
			}
		}
	})
	c.Check(len(bad) == 0 && n >= 10, rule, "level queries", "never-check", token.NoPos, "%d Enabled / Level / V methods examined (helpers inline): none of them calls Core.Check: %v", n, bad)
}
