package zv

import (
	"go/token"
	"go/types"
	"sort"
	"strings"

	"golang.org/x/tools/go/ssa"
)

func init() {
	Props["C11"] = Prop{
		Title: "Sampler admits the first N then every Mth entry per level and message per tick",
		Fn:    checkC11,
		Explanation: "The counter dynamics over arbitrary arrival patterns and the exact window boundary are runtime arithmetic and are NOT decided. Decided is the form of the mechanism: disabled entries return before any counter access; the counter is indexed by level − _minLevel and fnv32a(message) mod the table width, inside a range guard whose constants equal the table's dimensions; the hash loop visits every byte; exactly one hook call per decided entry, with LogDropped exactly on the path that returns the incoming entry without delegating and LogSampled exactly on the path that delegates, both only for in-range levels; the admission predicate is literally n > first ∧ (thereafter = 0 ∨ (n − first) mod thereafter ≠ 0), with the modulo only evaluated under thereafter ≠ 0; derived cores share counters, tick, first, thereafter and hook; the window protocol compares the stored window end with the ENTRY's timestamp under a single comparison, restarts the count with the same constant it adds, installs timestamp + tick by compare-and-swap from the loaded value, and uses no wall clock. " +
			"NOT decided: that counts are exact under all arrival orders, CAS race accounting, inclusive/exclusive boundary, hash collisions.",
		Assumptions: commonAssumptions,
	}
}

func checkC11(c *Ctx) {
	c.Rule("R11.1", "order of effects: Enabled and level-range guards dominate every counter access; table dimensions match the guards", 3)
	c.Rule("R11.2", "one decision, one hook, applied as reported; hooks only for in-range levels", 4)
	c.Rule("R11.3", "shared budget: With copies counts/tick/first/thereafter/hook; constructor allocates counts once and defaults the hook", 2)
	c.Rule("R11.4", "the modulo is evaluated only under thereafter != 0", 1)
	c.Rule("R11.5", "bucket key: level offset and full-message hash", 2)
	c.Rule("R11.7", "admission predicate has exactly the documented form", 2)
	c.Rule("R11.8", "window protocol: entry timestamp, single comparison, same constant, CAS from the loaded value, no wall clock", 4)

	fn := c.Method(CorePath, "sampler", "Check")
	if !c.Anchor("R11.1", "zapcore.sampler.Check", fn != nil) {
		return
	}
	name := fn.String()
	minL, _ := c.ConstVal(CorePath, "_minLevel")
	maxL, _ := c.ConstVal(CorePath, "_maxLevel")
	var get, inc, inner *ssa.Call
	var inners []*ssa.Call
	var hooks []*ssa.Call
	for _, cl := range CallsDeep(fn) {
		call, _ := cl.(*ssa.Call)
		switch {
		case IsCallTo(cl, "(*go.uber.org/zap/zapcore.counters).get"):
			get = call
		case IsCallTo(cl, "(*go.uber.org/zap/zapcore.counter).IncCheckReset"):
			inc = call
		case IsCallTo(cl, "(go.uber.org/zap/zapcore.Core).Check"):
			inner = call
			inners = append(inners, call)
		default:
			if call != nil && Desc(call.Call.Value) == "s.hook" {
				hooks = append(hooks, call)
			}
		}
	}
	if get == nil || inc == nil || inner == nil || len(hooks) != 2 {
		c.Bad("R11.1", name, "shape", fn.Pos(), "expected counts.get, IncCheckReset, Core.Check and two hook calls (hooks=%d)", len(hooks))
		return
	}
	lo, hi := "ent.Level >= "+itoa(int(minL)), "ent.Level <= "+itoa(int(maxL))
	en := "Enabled(s.Core, ent.Level)"
	hasAll := func(i ssa.Instruction, want ...string) bool {
		atoms := AtomStrings(Guards(i))
		for _, w := range want {
			ok := false
			for _, a := range atoms {
				if a == w {
					ok = true
				}
			}
			if !ok {
				return false
			}
		}
		return true
	}
	c.Check(hasAll(get, en, lo, hi) && hasAll(inc, en, lo, hi), "R11.1", name, "guards-before-counter", get.Pos(), "the counter is touched only for enabled entries with _minLevel ≤ level ≤ _maxLevel (guards %v): disabled entries consume no budget, out-of-range levels cannot index out of bounds", AtomStrings(Guards(get)))
	a := Args(get)
	c.Check(Desc(a[0]) == "s.counts" && Desc(a[1]) == "ent.Level" && Desc(a[2]) == "ent.Message", "R11.1", name, "key-is-level-and-message", get.Pos(), "bucket key is (entry level, entry message) (%s, %s)", Desc(a[1]), Desc(a[2]))
	ia := Args(inc)
	c.Check(Strip(ia[0]) == ssa.Value(get) && Desc(ia[1]) == "ent.Time" && Desc(ia[2]) == "s.tick", "R11.1", name, "window-by-entry-time", inc.Pos(), "the window is judged by the entry's own timestamp and the sampler's tick (%s, %s)", Desc(ia[1]), Desc(ia[2]))
	// table dimensions
	cs := c.Named(CorePath, "counters")
	if c.Anchor("R11.1", "zapcore.counters", cs != nil) {
		outer, ok1 := cs.Underlying().(*types.Array)
		var innerLen int64 = -1
		if ok1 {
			if in, ok := outer.Elem().Underlying().(*types.Array); ok {
				innerLen = in.Len()
			}
		}
		cpl, _ := c.ConstVal(CorePath, "_countersPerLevel")
		c.Check(ok1 && outer.Len() == maxL-minL+1 && innerLen == cpl, "R11.1", CorePath+".counters", "dimensions", cs.Obj().Pos(), "the table has %d level rows (= _maxLevel − _minLevel + 1 = %d) and %d buckets (= _countersPerLevel)", outer.Len(), maxL-minL+1, innerLen)
	}
	// out-of-range levels go straight to Core.Check: inner is reachable when range guard fails
	okInner, outOfRange := true, false
	for _, in := range inners {
		okInner = okInner && Strip(Args(in)[1]) == ssa.Value(fn.Params[1]) && Strip(Args(in)[2]) == ssa.Value(fn.Params[2]) && hasAll(in, en)
		if !hasAll(in, lo) || !hasAll(in, hi) {
			outOfRange = true
		}
	}
	c.Check(okInner && outOfRange, "R11.1", name, "out-of-range-pass-unsampled", inner.Pos(), "Core.Check(ent, ce) is reached for every enabled entry not dropped, including out-of-range levels")

	// ---------------- R11.2 ----------------
	dropped, _ := c.ConstVal(CorePath, "LogDropped")
	sampled, _ := c.ConstVal(CorePath, "LogSampled")
	var hd, hs *ssa.Call
	for _, h := range hooks {
		v, _ := ConstInt(h.Call.Args[1])
		if v == dropped {
			hd = h
		}
		if v == sampled {
			hs = h
		}
	}
	if hd == nil || hs == nil {
		c.Bad("R11.2", name, "hook-decisions", fn.Pos(), "expected one hook call with LogDropped and one with LogSampled")
		return
	}
	is := func(x *ssa.Call) func(ssa.Instruction) bool {
		return func(i ssa.Instruction) bool {
			if x == inner {
				for _, in := range inners {
					if i == ssa.Instruction(in) {
						return true
					}
				}
				return false
			}
			return i == ssa.Instruction(x)
		}
	}
	either := func(i ssa.Instruction) bool { return i == ssa.Instruction(hd) || i == ssa.Instruction(hs) }
	c.Check(!ExistsPath(fn, inc, IsReturn, either), "R11.2", name, "hook-on-every-decision", inc.Pos(), "every path from the counter update to a return calls the hook")
	c.Check(!ExistsPath(fn, hd, either, nil) && !ExistsPath(fn, hs, either, nil), "R11.2", name, "hook-once", hd.Pos(), "no path calls the hook twice")
	c.Check(!ExistsPath(fn, hd, is(inner), nil), "R11.2", name, "dropped-means-not-forwarded", hd.Pos(), "after reporting LogDropped the entry is never forwarded to the wrapped core")
	okRet := true
	for _, r := range Returns(fn) {
		if ExistsPath(fn, hd, func(i ssa.Instruction) bool { return i == ssa.Instruction(r) }, nil) {
			okRet = okRet && Strip(RetVals(r)[0]) == ssa.Value(fn.Params[2])
		}
	}
	c.Check(okRet, "R11.2", name, "dropped-returns-incoming", hd.Pos(), "the dropped path returns the incoming checked entry unchanged")
	c.Check(!ExistsPath(fn, hs, IsReturn, is(inner)), "R11.2", name, "sampled-means-forwarded", hs.Pos(), "after reporting LogSampled the entry is always forwarded")
	c.Check(hasAll(hd, lo, hi) && hasAll(hs, lo, hi) && Dominates(inc, hd) && Dominates(inc, hs) && Strip(hd.Call.Args[0]) == ssa.Value(fn.Params[1]) && Strip(hs.Call.Args[0]) == ssa.Value(fn.Params[1]), "R11.2", name, "hook-only-for-decided-entries", hs.Pos(), "both hook calls happen only for in-range levels, after the counter update, with the entry itself (out-of-range entries are not decided, so no hook)")

	// ---------------- R11.4 / R11.7 ----------------
	N := Desc(inc)
	F, T := "s.first", "s.thereafter"
	var rem *ssa.BinOp
	InstrsDeep(fn, func(i ssa.Instruction) {
		if b, ok := i.(*ssa.BinOp); ok && (b.Op == token.REM || b.Op == token.QUO) {
			rem = b
		}
	})
	if rem == nil {
		c.Bad("R11.4", name, "modulo", fn.Pos(), "no modulo operation found")
	} else {
		remY := ""
		Bound(func() { remY = Desc(rem.Y) })
		hasT := false
		Bound(func() { hasT = hasAll(rem, T+" != 0") })
		c.Check(hasT && remY == T, "R11.4", name, "no-division-by-zero", rem.Pos(), "(n − first) %% thereafter is evaluated only where thereafter ≠ 0 was established (guards %v)", AtomStrings(Guards(rem)))
	}
	common := map[string]bool{en: true, lo: true, hi: true}
	norm := func(b *ssa.BasicBlock) []string {
		var out []string
		for _, conj := range PathConds(b) {
			var keep []string
			for _, a := range conj {
				if !common[a] {
					keep = append(keep, a)
				}
			}
			sort.Strings(keep)
			out = append(out, strings.Join(keep, " ∧ "))
		}
		sort.Strings(out)
		return out
	}
	modNE := "((" + N + " - " + F + ") % " + T + ") != 0"
	modEQ := "((" + N + " - " + F + ") % " + T + ") == 0"
	wantDrop := []string{
		strings.Join(sortedS(N+" > "+F, T+" == 0"), " ∧ "),
		strings.Join(sortedS(N+" > "+F, T+" != 0", modNE), " ∧ "),
	}
	sort.Strings(wantDrop)
	wantKeep := []string{
		F + " >= " + N,
		strings.Join(sortedS(N+" > "+F, T+" != 0", modEQ), " ∧ "),
	}
	sort.Strings(wantKeep)
	gotDrop, gotKeep := norm(hd.Block()), norm(hs.Block())
	c.Check(strings.Join(gotDrop, " ∨ ") == strings.Join(wantDrop, " ∨ "), "R11.7", name, "drop-predicate", hd.Pos(), "an entry is dropped exactly when n > first ∧ (thereafter = 0 ∨ (n − first) mod thereafter ≠ 0), n being this entry's IncCheckReset result: got %v", gotDrop)
	c.Check(strings.Join(gotKeep, " ∨ ") == strings.Join(wantKeep, " ∨ "), "R11.7", name, "admit-predicate", hs.Pos(), "an entry is admitted exactly when n ≤ first ∨ (thereafter ≠ 0 ∧ (n − first) mod thereafter = 0): got %v", gotKeep)

	// ---------------- R11.3 ----------------
	c11Shared(c)
	// ---------------- R11.5 ----------------
	c11Key(c, minL)
	// ---------------- R11.8 ----------------
	c11Window(c)
}

func sortedS(s ...string) []string { sort.Strings(s); return s }

func c11Shared(c *Ctx) {
	named := c.Named(CorePath, "sampler")
	w := c.Method(CorePath, "sampler", "With")
	nw := c.Func(CorePath, "NewSamplerWithOptions")
	if !c.Anchor("R11.3", "zapcore.sampler.With/NewSamplerWithOptions", named != nil && w != nil && nw != nil) {
		return
	}
	got := map[string]string{}
	for f, bf := range BuiltFields(w, named) {
		got[f] = bf.Desc
	}
	ok := got["counts"] == "s.counts" && got["tick"] == "s.tick" && got["first"] == "s.first" && got["thereafter"] == "s.thereafter" && got["hook"] == "s.hook" && got["Core"] == "With(s.Core, fields)"
	c.Check(ok, "R11.3", w.String(), "shares-budget", w.Pos(), "a derived sampler points at the SAME counters and keeps tick/first/thereafter/hook (%v)", got)
	got = map[string]string{}
	for _, s := range FieldStoresOf(nw, named) {
		got[s.Field] = Desc(s.Instr.Val)
	}
	ok = got["counts"] == "newCounters()" && strings.HasSuffix(got["hook"], "nopSamplingHook") && got["first"] == "conv[uint64](first)" && got["thereafter"] == "conv[uint64](thereafter)" && got["tick"] == "tick" && got["Core"] == "core"
	c.Check(ok, "R11.3", nw.String(), "constructor", nw.Pos(), "the constructor allocates one counter table, defaults the hook to the no-op and stores tick/first/thereafter as given (%v)", got)
}

func c11Key(c *Ctx, minL int64) {
	g := c.Method(CorePath, "counters", "get")
	h := c.Func(CorePath, "fnv32a")
	if !c.Anchor("R11.5", "zapcore.counters.get/fnv32a", g != nil && h != nil) {
		return
	}
	cpl, _ := c.ConstVal(CorePath, "_countersPerLevel")
	for _, r := range Returns(g) {
		d := Desc(RetVals(r)[0])
		want := "cs[(lvl - " + itoa(int(minL)) + ")][(fnv32a(key) % " + itoa(int(cpl)) + ")]"
		c.Check(d == want, "R11.5", g.String(), "index", r.Pos(), "bucket = table[level − _minLevel][fnv32a(message) mod _countersPerLevel] (%s)", d)
	}
	// hash loop: index phi 0..len(s) step 1, reading s[i]
	var idx *ssa.Phi
	var reads []ssa.Value
	AllInstrs(h, func(i ssa.Instruction) {
		switch x := i.(type) {
		case *ssa.Lookup:
			if x.X == ssa.Value(h.Params[0]) {
				reads = append(reads, x.Index)
			}
		case *ssa.Index:
			if x.X == ssa.Value(h.Params[0]) {
				reads = append(reads, x.Index)
			}
		}
	})
	usesRange := false
	AllInstrs(h, func(i ssa.Instruction) {
		if _, ok := i.(*ssa.Range); ok {
			usesRange = true
		}
	})
	okLoop := false
	detail := ""
	if len(reads) == 1 {
		if ph, ok := reads[0].(*ssa.Phi); ok {
			idx = ph
		}
	}
	if idx != nil {
		var seed, step int64 = -1, 0
		for _, e := range idx.Edges {
			if v, ok := ConstInt(e); ok {
				seed = v
			} else if b, ok := e.(*ssa.BinOp); ok && b.Op == token.ADD && b.X == ssa.Value(idx) {
				step, _ = ConstInt(b.Y)
			}
		}
		blk := idx.Block()
		cond := ""
		if iff, ok := blk.Instrs[len(blk.Instrs)-1].(*ssa.If); ok {
			cond = Desc(iff.Cond)
		}
		okLoop = seed == 0 && step == 1 && cond == "("+Desc(idx)+" < len(s))"
		detail = "from " + itoa(int(seed)) + " step " + itoa(int(step)) + " while " + cond
	}
	c.Check(okLoop && !usesRange, "R11.5", h.String(), "hashes-every-byte", h.Pos(), "the hash consumes s[i] for every byte index i in [0, len(s)) (%s; a range-over-string loop would visit only rune starts: %v)", detail, usesRange)
	// FNV-1a constants
	off, prime := false, false
	AllInstrs(h, func(i ssa.Instruction) {
		if b, ok := i.(*ssa.BinOp); ok {
			if v, ok := ConstInt(b.Y); ok && b.Op == token.MUL && v == 16777619 {
				prime = true
			}
		}
		if ph, ok := i.(*ssa.Phi); ok {
			for _, e := range ph.Edges {
				if v, ok := ConstInt(e); ok && v == 2166136261 {
					off = true
				}
			}
		}
	})
	c.Check(off && prime, "R11.5", h.String(), "fnv-constants", h.Pos(), "FNV-1a 32-bit offset basis and prime")
}

func c11Window(c *Ctx) {
	fn := c.Method(CorePath, "counter", "IncCheckReset")
	if !c.Anchor("R11.8", "zapcore.counter.IncCheckReset", fn != nil) {
		return
	}
	name := fn.String()
	t := fn.Params[1]
	var load, cas, store *ssa.Call
	var adds []*ssa.Call
	wall := false
	for _, cl := range Calls(fn) {
		call, _ := cl.(*ssa.Call)
		switch {
		case IsCallTo(cl, "(*sync/atomic.Int64).Load"):
			load = call
		case IsCallTo(cl, "(*sync/atomic.Int64).CompareAndSwap"):
			cas = call
		case IsCallTo(cl, "(*sync/atomic.Uint64).Store"):
			store = call
		case IsCallTo(cl, "(*sync/atomic.Uint64).Add"):
			adds = append(adds, call)
		case IsCallTo(cl, "time.Now"):
			wall = true
		}
	}
	if load == nil || cas == nil || store == nil || len(adds) != 2 {
		c.Bad("R11.8", name, "shape", fn.Pos(), "expected Load, CompareAndSwap, Store and two Add calls (adds=%d)", len(adds))
		return
	}
	tn := "UnixNano(" + t.Name() + ")"
	c.Check(!wall, "R11.8", name, "no-wall-clock", fn.Pos(), "the window is driven by the entry timestamp only (no time.Now)")
	// constants agree
	cs, _ := ConstInt(Args(store)[1])
	a0, _ := ConstInt(Args(adds[0])[1])
	a1, _ := ConstInt(Args(adds[1])[1])
	retC := int64(-1)
	for _, r := range Returns(fn) {
		if v, ok := ConstInt(RetVals(r)[0]); ok {
			retC = v
		}
	}
	c.Check(cs == 1 && a0 == 1 && a1 == 1 && retC == 1, "R11.8", name, "constant-one", fn.Pos(), "the window restarts at the same constant that each entry adds and that the resetting entry reports (store=%d add=%d/%d return=%d)", cs, a0, a1, retC)
	// no-reset branch
	for k, r := range Returns(fn) {
		v := Strip(RetVals(r)[0])
		atoms := AtomStrings(Guards(r))
		switch {
		case v == ssa.Value(adds[0]) || v == ssa.Value(adds[1]):
			add := v.(*ssa.Call)
			if !Dominates(store, add) {
				// open-window branch
				ok := len(atoms) == 1 && (atoms[0] == Desc(load)+" > "+tn || atoms[0] == Desc(load)+" >= "+tn)
				c.Check(ok, "R11.8", name, "open-window-branch#"+itoa(k+1), r.Pos(), "the count continues exactly when the stored window end compares later than the entry's timestamp, under that single comparison (guards %v); any extra condition re-opens budgets for some timestamps", atoms)
			} else {
				ok := len(atoms) >= 1 && containsS(atoms, "!"+Desc(cas))
				c.Check(ok, "R11.8", name, "lost-race-branch#"+itoa(k+1), r.Pos(), "a lost compare-and-swap falls back to counting in the window the winner opened (guards %v)", atoms)
			}
		default:
			if cv, isC := ConstInt(v); isC {
				c.Check(containsS(atoms, Desc(cas)) && cv == 1, "R11.8", name, "reset-branch#"+itoa(k+1), r.Pos(), "the entry that installs the new window reports count 1 (guards %v)", atoms)
			}
		}
	}
	ca := Args(cas)
	c.Check(Desc(ca[0]) == "c.resetAt" && Strip(ca[1]) == ssa.Value(load) && Desc(ca[2]) == "("+tn+" + Nanoseconds(tick))" && Dominates(store, cas), "R11.8", name, "cas-installs-next-window", cas.Pos(), "the new window end timestamp + tick replaces exactly the value loaded at the top, after the counter restart (%s → %s)", Desc(ca[1]), Desc(ca[2]))
}

func containsS(l []string, s string) bool {
	for _, x := range l {
		if x == s {
			return true
		}
	}
	return false
}
