package zv

import (
	"fmt"
	"go/constant"
	"go/token"
	"go/types"
	"regexp"
	"sort"
	"strings"

	"golang.org/x/tools/go/ssa"
)

func init() {
	Props["C01"] = Prop{
		Title: "JSON encoder always emits one well-formed JSON object per entry, on one line",
		Fn:    checkC01,
		Explanation: "The encoder can emit malformed JSON only through a raw write of run-time text, an unbalanced bracket or quote, a missing or doubled separator, or a panic; each is a shape of the code and is decided for all inputs: (1) taint: every write to a jsonEncoder's buffer is a control-free constant, a numeric formatter (floats only where NaN/Inf are excluded or inside quotes), bytes of an already-escaped buffer, or goes through the escaper - anything else (e.g. time.AppendFormat output) is reported; (2) the escaper's byte table is evaluated exhaustively over all 256 byte values by abstract interpretation of its branch conditions: controls, quote and backslash are never copied raw and get their exact escape, bytes ≥ 0x80 go through decodeRune, invalid UTF-8 yields the \\ufffd escape; (3) every opener is closed on every path incl. the marshaler-error path, quotes bracket every in-string write, the namespace counter accounts for exactly the braces still open (every encoder method explored with the counter 0 and 1 on entry and every hand-over of the encoder to user code opening 0 or 1 namespace: members and elements leave nesting and counter as found, OpenNamespace adds and counts one, EncodeEntry closes all), Clone carries context bytes, configuration, spacing and that counter, EncodeEntry ends with closeOpenNamespaces, optional stack, '}', line ending; (3b) token grammar: every path of every Add*/Append* method, addKey, OpenNamespace and EncodeEntry, explored down to its buffer writes and abstracted to tokens (structural bytes, bare scalar, escaped text, raw text, user sub-encoder call with the outcome of its wrote-nothing test, user marshaler, context, reflected value), parses as exactly one well-formed member / element / opener / entry - a key without a value or a value without quotes does not; (4) every encoder method establishes the element separator before its first write, ',' is written only by addElementSeparator whose no-separator byte set is evaluated over all bytes, addKey emits quote-key-quote-colon; (5) every call through an optional sub-encoder function is nil-guarded or defaulted; (6) every user sub-encoder call is followed by the wrote-nothing fallback; (7) Field.AddTo turns every marshaler error into a '<key>Error' string field and no encoder/marshaler error result is discarded anywhere. " +
			"NOT decided: validity of strconv / encoding/json output (trusted), bytes written by user marshalers/sub-encoders themselves, the escaper's span bookkeeping (last/i arithmetic).",
		Assumptions: commonAssumptions,
	}
}

// encBufRecv reports whether v is the load of the `buf` field of a *jsonEncoder.
func encBufRecv(c *Ctx, v ssa.Value) bool {
	u, ok := v.(*ssa.UnOp)
	if !ok || u.Op != token.MUL {
		return false
	}
	fa, ok := u.X.(*ssa.FieldAddr)
	if !ok || fieldName(fa.X.Type(), fa.Field) != "buf" {
		return false
	}
	n, _ := types.Unalias(deref(fa.X.Type())).(*types.Named)
	return n != nil && FNm(n.Obj()) == "jsonEncoder" && n.Obj().Pkg().Path() == CorePath
}

type bufCall struct {
	fn   *ssa.Function
	call *ssa.Call
	m    string
}

func encBufCalls(c *Ctx, fn *ssa.Function) []bufCall {
	var out []bufCall
	for _, cl := range Calls(fn) {
		call, ok := cl.(*ssa.Call)
		if !ok {
			continue
		}
		f := CalleeFunc(call)
		if f == nil || f.Pkg() == nil || f.Pkg().Path() != "go.uber.org/zap/buffer" {
			continue
		}
		args := Args(call)
		if len(args) == 0 || !encBufRecv(c, args[0]) {
			continue
		}
		out = append(out, bufCall{fn, call, FNm(f)})
	}
	return out
}

func isMutatingBufMethod(m string) bool {
	switch m {
	case "Len", "Cap", "Bytes", "String", "Free":
		return false
	}
	return true
}

func constBytes(v ssa.Value) ([]byte, bool) {
	c, ok := Strip(v).(*ssa.Const)
	if !ok || c.Value == nil {
		return nil, false
	}
	switch c.Value.Kind() {
	case constant.String:
		return []byte(constant.StringVal(c.Value)), true
	case constant.Int:
		n, _ := constant.Int64Val(c.Value)
		return []byte{byte(n)}, true
	}
	return nil, false
}

func checkC01(c *Ctx) {
	c.Rule("R1.1", "escape discipline: every write to an encoder buffer is a safe constant, a number, pre-escaped bytes, or goes through the escaper", 27)
	c.Rule("R1.2", "escaper byte table evaluated over all 256 byte values", 3)
	c.Rule("R1.3", "openers closed on every path; quotes paired around in-string writes; EncodeEntry tail order", 7)
	c.Rule("R1.5", "separator established before the first write of every encoder method; ',' only from addElementSeparator; addKey order", 32)
	c.Rule("R1.6", "every call through an optional sub-encoder function is nil-guarded or defaulted", 6)
	c.Rule("R1.7", "user sub-encoder calls are followed by the wrote-nothing fallback", 3)
	c.Rule("R1.8", "Field.AddTo converts marshaler errors into '<key>Error'; no encoder/marshaler error is discarded", 15)
	c1Taint(c, "R1.1")
	c1Escaper(c, "R1.2")
	c1Pairing(c, "R1.3")
	c1Separators(c, "R1.5")
	c.Rule("R1.14", "pooled buffers are released at most once (a buffer freed twice is handed to two entries at the same time, whose bytes then interleave)", 3)
	c.As(map[string]string{"R8.4": "R1.14"}, func() { c8SingleRelease(c) })
	c.Rule("R1.15", "panics are recovered only around calls that have written nothing yet (String, Error): never around an encoder call that writes an opening delimiter before running user code", 1)
	c1NoRecoverAroundStructure(c, "R1.15")
	c1NilGuards(c, "R1.6", true)
	c1Fallback(c, "R1.7")
	c1Errors(c, "R1.8")
	c.Rule("R1.9", "each JSON encoder exclusively owns its pooled buffers (a shared scratch buffer lets one entry's bytes appear inside another's line)", 3)
	c8Ownership4(c, "R1.9")
	c.Rule("R1.13", "token grammar: every path of every encoder method writes exactly one well-formed member / element / namespace opener / entry", 20)
	c1Grammar(c, "R1.13")
	c.Rule("R1.12", "Clone carries context bytes, configuration, spacing and the open-namespace count (a clone that forgets the count leaves the context's namespaces unclosed)", 2)
	c7CloneCarries(c, "R1.12")
	c.Rule("R1.11", "the namespace counter accounts for exactly the braces still open (an object nested in an open namespace leaves the enclosing ones counted)", 3)
	c1Namespaces(c, "R1.11")
	c.Rule("R1.10", "nothing can unwind or bail out between an opener and its closer: user String()/Error()/Errors() calls run under recover; a reflected value is encoded before anything is written", 5)
	c10Recover(c, "R1.10")
	c10Reflected(c, "R1.10")
}

func coreFuncs(c *Ctx) []*ssa.Function {
	var out []*ssa.Function
	for _, fn := range c.RootFuncs() {
		if fn.Pkg != nil && fn.Pkg.Pkg.Path() == CorePath {
			out = append(out, fn)
		}
	}
	return out
}

// ---------------------------------------------------------------------------
func c1Taint(c *Ctx, rule string) {
	n := 0
	for _, fn := range coreFuncs(c) {
		for _, bc := range encBufCalls(c, fn) {
			if !isMutatingBufMethod(bc.m) {
				continue
			}
			n++
			args := Args(bc.call)
			name := FuncKey(fn)
			slot := bc.m + "@" + itoa(n)
			_ = slot
			ord := 0
			for _, o := range encBufCalls(c, fn) {
				if o.call == bc.call {
					break
				}
				if o.m == bc.m {
					ord++
				}
			}
			slot = bc.m + "#" + itoa(ord+1)
			switch bc.m {
			case "AppendByte", "AppendString", "WriteByte", "WriteString":
				if b, ok := constBytes(args[1]); ok {
					bad := false
					for _, x := range b {
						if x < 0x20 {
							bad = true
						}
					}
					c.Check(!bad, rule, name, slot, bc.call.Pos(), "constant %q contains no control character", string(b))
					continue
				}
				if alts, ok := ConstAlternatives(args[1]); ok {
					bad := ""
					for _, b := range alts {
						for _, x := range b {
							if x < 0x20 {
								bad = string(b)
							}
						}
					}
					c.Check(bad == "", rule, name, slot, bc.call.Pos(), "one of %d constants chosen by a helper; none contains a control character %q", len(alts), bad)
					continue
				}
				d := Desc(args[1])
				if strings.HasSuffix(d, ".LineEnding") {
					// only as the very last write of EncodeEntry (directly, or in a helper every call of which is the
					// last buffer-writing step of EncodeEntry)
					var lastIn func(f *ssa.Function, at ssa.Instruction, depth int) bool
					lastIn = func(f *ssa.Function, at ssa.Instruction, depth int) bool {
						if depth > 3 {
							return false
						}
						more := ExistsPath(f, at, func(i ssa.Instruction) bool {
							if i == at {
								return false
							}
							for _, o := range encBufCalls(c, f) {
								if ssa.Instruction(o.call) == i && isMutatingBufMethod(o.m) {
									return true
								}
							}
							if cl, ok := i.(*ssa.Call); ok {
								if h := helperOf(cl); h != nil && len(encBufCalls(c, h)) > 0 {
									return true
								}
							}
							return false
						}, nil)
						if more {
							return false
						}
						if FNm(f) == "EncodeEntry" {
							return true
						}
						if !Eligible(f) {
							return false
						}
						sites := sitesOf(f)
						if len(sites) == 0 {
							return false
						}
						for _, s := range sites {
							if !lastIn(s.Parent(), s, depth+1) {
								return false
							}
						}
						return true
					}
					last := lastIn(fn, bc.call, 0)
					c.Check(last, rule, name, slot, bc.call.Pos(), "the configured line ending is the last thing written to the line")
					continue
				}
				c.Bad(rule, name, slot, bc.call.Pos(), "run-time text %s is written to the encoder buffer raw; it must go through safeAddString/safeAddByteString", d)
			case "AppendInt", "AppendUint", "AppendBool":
				c.OK(rule, name, slot, bc.call.Pos(), "numeric/boolean formatter (strconv output is a JSON literal)")
			case "AppendFloat":
				atoms := AtomStrings(Guards(bc.call))
				excl := containsS(atoms, "!IsNaN(val)") && containsS(atoms, "!IsInf(val, 1)") && containsS(atoms, "!IsInf(val, -1)")
				quoted := inQuotes(c, fn, bc.call)
				c.Check(excl || quoted, rule, name, slot, bc.call.Pos(), "float formatted where NaN/±Inf are excluded (%v) or between two quote bytes (%v)", excl, quoted)
			case "Write", "AppendBytes":
				d := Desc(args[1])
				ok := escapedBytes(args[1], 0)
				c.Check(ok, rule, name, slot, bc.call.Pos(), "bytes written verbatim are another encoder's already-escaped buffer or the reflected encoder's output (%s)", d)
			case "AppendTime":
				c.Bad(rule, name, slot, bc.call.Pos(), "time.AppendFormat output (layout text and zone names are arbitrary) is written to the encoder buffer raw; format into a scratch buffer and escape it")
			case "Reset", "TrimNewline":
				c.OK(rule, name, slot, bc.call.Pos(), "%s removes bytes only", bc.m)
			default:
				c.Und(rule, name, slot, bc.call.Pos(), "unclassified buffer method %s on an encoder buffer", bc.m)
			}
		}
	}
	// escaper entry points pass the encoder buffer and the raw text
	for _, m := range []string{"safeAddString", "safeAddByteString"} {
		fn := c.Method(CorePath, "jsonEncoder", m)
		if !c.Anchor(rule, "zapcore.jsonEncoder."+m, fn != nil) {
			continue
		}
		ok := false
		for _, cl := range Calls(fn) {
			if f := CalleeFunc(cl); f != nil && FNm(f) == "safeAppendStringLike" {
				a := cl.Common().Args
				ok = encBufRecv(c, a[2]) && a[3] == ssa.Value(fn.Params[1])
			}
		}
		c.Check(ok, rule, FStr(fn), "escapes-into-own-buffer", fn.Pos(), "%s escapes its argument into the encoder's own buffer", m)
	}
	// reflected bytes: encodeReflected returns the reflect buffer / null literal
	er := c.Method(CorePath, "jsonEncoder", "encodeReflected")
	if c.Anchor(rule, "zapcore.jsonEncoder.encodeReflected", er != nil) {
		// by path exploration: a successful return hands out the null literal or the bytes of the encoder's own
		// reflect buffer (the one held in, or just stored into, enc.reflectBuf on this path)
		rn := PN(er.Params[0])
		resolve := func(st *ConcState, v ssa.Value) ssa.Value {
			for k := 0; k < 16 && v != nil; k++ {
				if ct, ok := v.(*ssa.ChangeType); ok {
					v = ct.X
					continue
				}
				nx := st.Step(v)
				if nx == nil {
					break
				}
				v = nx
			}
			return v
		}
		seqs, trunc := ConcPaths(er, ConcCfg{
			Event: func(in ssa.Instruction, st *ConcState) string {
				if stv, ok := in.(*ssa.Store); ok {
					if fa, ok := stv.Addr.(*ssa.FieldAddr); ok && fieldName(fa.X.Type(), fa.Field) == "reflectBuf" && st.Desc(fa.X) == rn {
						return "held:" + vkey(resolve(st, stv.Val))
					}
					return ""
				}
				r, ok := in.(*ssa.Return)
				if !ok || len(r.Results) != 2 {
					return ""
				}
				if n, known := st.IsNil(r.Results[1]); !known || !n {
					return "ret-err"
				}
				v := resolve(st, r.Results[0])
				if st.Desc(r.Results[0]) == "nullLiteralBytes" || Desc(v) == "nullLiteralBytes" {
					return "ret(null)"
				}
				if cl, ok := v.(*ssa.Call); ok && IsCallTo(cl, "(*go.uber.org/zap/buffer.Buffer).Bytes") {
					b := Args(cl)[0]
					if st.Desc(b) == rn+".reflectBuf" {
						return "ret(reflect-buffer)"
					}
					return "ret(bytes-of:" + vkey(resolve(st, b)) + ")"
				}
				return "ret(?" + st.Desc(r.Results[0]) + ")"
			},
		})
		var bad []string
		for _, sq := range seqs {
			toks := strings.Split(sq, " ; ")
			last := toks[len(toks)-1]
			ok := last == "ret-err" || last == "ret(null)" || last == "ret(reflect-buffer)"
			if strings.HasPrefix(last, "ret(bytes-of:") {
				// the buffer stored into enc.reflectBuf earlier on this path
				want := "held:" + strings.TrimSuffix(strings.TrimPrefix(last, "ret(bytes-of:"), ")")
				for _, t := range toks {
					ok = ok || t == want
				}
			}
			if !ok {
				bad = append(bad, sq)
			}
		}
		c.Check(!trunc && len(seqs) >= 2 && len(bad) == 0, rule, FStr(er), "reflected-bytes", er.Pos(), "on every path reflected values are the JSON encoder's own output (the bytes of its reflect buffer) or the null literal: %v", bad)
		g := c.GlobalAccesses(CorePath, "nullLiteralBytes")
		writes := 0
		for _, a := range g {
			if a.Write && FNm(a.Fn) != "init" {
				writes++
			}
		}
		c.Check(writes == 0, rule, CorePath+".nullLiteralBytes", "immutable", token.NoPos, "the null literal is never reassigned")
	}
}

// inQuotes: call is preceded on every path by an AppendByte('"') and followed on every path by one.
func inQuotes(c *Ctx, fn *ssa.Function, call ssa.Instruction) bool {
	if fn.Parent() != nil {
		// a function literal handed to a helper that runs it between two quote bytes (appendQuoted(func() {…})) starts
		// inside the string literal
		if s0, ok := literalEntryQuote(c, fn, 0); ok && s0 != 0 {
			quoteEntry[fn] = s0
			defer delete(quoteEntry, fn)
		}
	}
	at, _, _ := quoteFlow(c, fn, 0)
	return at[call] == 1
}

// quoteEntry: the state quoteFlow starts a function in (0 unless set).
var quoteEntry = map[*ssa.Function]int{}

// literalEntryQuote: the quote state in which the function literal lit starts to run, when that is evident: its only use
// is as an argument of a call to a helper of the package which does nothing with the parameter but call it, always in
// the same state, and the call of the helper sits in a known state of the enclosing function.
func literalEntryQuote(c *Ctx, lit *ssa.Function, depth int) (int, bool) {
	par := lit.Parent()
	if par == nil {
		return 0, true
	}
	if depth > 2 {
		return 0, false
	}
	var mk *ssa.MakeClosure
	AllInstrs(par, func(i ssa.Instruction) {
		if m, ok := i.(*ssa.MakeClosure); ok && m.Fn == ssa.Value(lit) {
			mk = m
		}
	})
	if mk == nil || mk.Referrers() == nil {
		return 0, false
	}
	var site *ssa.Call
	for _, r := range *mk.Referrers() {
		switch x := r.(type) {
		case *ssa.DebugRef:
		case *ssa.Call:
			if site != nil {
				return 0, false
			}
			site = x
		default:
			return 0, false
		}
	}
	if site == nil {
		return 0, false
	}
	h := site.Call.StaticCallee()
	if h == nil || h.Pkg != par.Pkg || len(h.Blocks) == 0 {
		return 0, false
	}
	k := -1
	for i, a := range site.Call.Args {
		if a == ssa.Value(mk) {
			k = i
		}
	}
	if k < 0 || k >= len(h.Params) || h.Params[k].Referrers() == nil {
		return 0, false
	}
	hat, hexit, _ := quoteFlow(c, h, 1)
	inner := -2
	for _, r := range *h.Params[k].Referrers() {
		switch x := r.(type) {
		case *ssa.DebugRef:
		case *ssa.Call:
			if x.Call.Value != ssa.Value(h.Params[k]) {
				return 0, false
			}
			st := hat[x]
			if inner != -2 && inner != st {
				return 0, false
			}
			inner = st
		default:
			return 0, false
		}
	}
	if inner < 0 || hexit != 0 {
		return 0, false
	}
	// the state of the enclosing function at the helper call (itself possibly a literal)
	if s0, ok := literalEntryQuote(c, par, depth+1); ok && s0 != 0 {
		quoteEntry[par] = s0
		defer delete(quoteEntry, par)
	} else if !ok {
		return 0, false
	}
	pat, _, _ := quoteFlow(c, par, 1)
	ps := pat[site]
	if ps < 0 {
		return 0, false
	}
	// the literal itself must leave the state as it found it, or the helper's own accounting would be off
	quoteEntry[lit] = 0
	_, lexit, _ := quoteFlow(c, lit, 1)
	delete(quoteEntry, lit)
	if lexit != 0 {
		return 0, false
	}
	return (ps + inner) % 2, true
}

// constWrite: in writes constant text (one of finitely many constants) to an encoder buffer.
func constWrite(c *Ctx, in ssa.Instruction) (alts [][]byte, ok bool) {
	cl, isCall := in.(*ssa.Call)
	if !isCall {
		return nil, false
	}
	f := CalleeFunc(cl)
	if f == nil || f.Pkg() == nil || f.Pkg().Path() != "go.uber.org/zap/buffer" {
		return nil, false
	}
	switch FNm(f) {
	case "AppendByte", "AppendString", "WriteByte", "WriteString":
	default:
		return nil, false
	}
	args := Args(cl)
	if len(args) != 2 || !encBufRecv(c, args[0]) {
		return nil, false
	}
	return ConstAlternatives(args[1])
}

// quoteParity: number of unescaped '"' in b, mod 2.
func quoteParity(b []byte) int {
	n := 0
	for i := 0; i < len(b); i++ {
		if b[i] == '\\' {
			i++
			continue
		}
		if b[i] == '"' {
			n++
		}
	}
	return n % 2
}

// quoteFlow is a forward dataflow over fn: is the output, before each
// instruction, outside (0) or inside (1) a JSON string literal, counting the
// quote bytes of every constant write; -1 where paths disagree. A call to an
// unexported helper toggles the state iff the helper's own exit state is 1.
// exit is the state at the returns (-1 if they disagree or anything is inconsistent).
func quoteFlow(c *Ctx, fn *ssa.Function, depth int) (at map[ssa.Instruction]int, exit int, nQuotes int) {
	at = map[ssa.Instruction]int{}
	if len(fn.Blocks) == 0 {
		return at, 0, 0
	}
	in := map[*ssa.BasicBlock]int{fn.Blocks[0]: quoteEntry[fn]}
	seen := map[*ssa.BasicBlock]bool{}
	work := []*ssa.BasicBlock{fn.Blocks[0]}
	exit = -2
	join := func(a, b int) int {
		if a == -2 {
			return b
		}
		if a != b {
			return -1
		}
		return a
	}
	effect := map[ssa.Instruction]int{}
	for _, b := range fn.Blocks {
		for _, i := range b.Instrs {
			if alts, ok := constWrite(c, i); ok {
				p := quoteParity(alts[0])
				for _, a := range alts[1:] {
					if quoteParity(a) != p {
						p = -1
					}
				}
				for _, a := range alts {
					for _, x := range a {
						if x == '"' {
							nQuotes++
							break
						}
					}
				}
				effect[i] = p
				continue
			}
			if h := helperOf(i); h != nil && depth < 3 && h != fn && h.Pkg == fn.Pkg {
				_, hx, hq := quoteFlow(c, h, depth+1)
				if hq > 0 {
					effect[i] = hx
				}
			}
		}
	}
	for len(work) > 0 {
		b := work[len(work)-1]
		work = work[:len(work)-1]
		st := in[b]
		for _, i := range b.Instrs {
			at[i] = st
			if e, ok := effect[i]; ok && st >= 0 {
				if e < 0 {
					st = -1
				} else if e == 1 {
					st = 1 - st
				}
			}
			if _, isRet := i.(*ssa.Return); isRet {
				exit = join(exit, st)
			}
		}
		for _, sc := range b.Succs {
			old, had := in[sc]
			nv := st
			if had {
				nv = join(old, st)
			}
			if !had || nv != old || !seen[sc] {
				in[sc] = nv
				if !seen[sc] || nv != old {
					seen[sc] = true
					work = append(work, sc)
				}
			}
		}
	}
	if exit == -2 {
		exit = 0
	}
	return at, exit, nQuotes
}

// ---------------------------------------------------------------------------
// byte-table evaluation

// byteEvents explores all paths from block `from` until `stop(block)` or a
// return, evaluating branch conditions that compare the subject byte
// (recognised by isSubject) with constants for the concrete value b;
// other conditions branch both ways. Returns the event (call) sequences.
// curByteEval evaluates a value for the input byte under exploration (set while byteEvents calls an event function).
var curByteEval func(ssa.Value) (int64, bool)

func byteEvents(from *ssa.BasicBlock, stop func(*ssa.BasicBlock) bool, isSubject func(ssa.Value) bool, b byte, event func(ssa.Instruction) string) [][]string {
	var out [][]string
	type frame struct {
		blk  *ssa.BasicBlock
		idx  int
		subj func(ssa.Value) bool
		call *ssa.Call
		args map[*ssa.Parameter]ssa.Value
	}
	// concrete values known on the current path (the subject byte, constants,
	// comparisons of those, phis resolved by the edge taken, helper results)
	type env map[ssa.Value]int64
	with := func(e env, v ssa.Value, k int64) env {
		n := make(env, len(e)+1)
		for a, b := range e {
			n[a] = b
		}
		n[v] = k
		return n
	}
	var eval func(v ssa.Value, subj func(ssa.Value) bool, e env, d int) (int64, bool)
	eval = func(v ssa.Value, subj func(ssa.Value) bool, e env, d int) (int64, bool) {
		if d > 12 {
			return 0, false
		}
		if subj(v) {
			return int64(b), true
		}
		if k, ok := e[v]; ok {
			return k, true
		}
		switch x := v.(type) {
		case *ssa.Const:
			if k, ok := ConstInt(x); ok {
				return k, true
			}
			if x.Value != nil && x.Value.Kind() == constant.Bool {
				if constant.BoolVal(x.Value) {
					return 1, true
				}
				return 0, true
			}
		case *ssa.Convert:
			if bt, ok := x.Type().Underlying().(*types.Basic); ok && bt.Info()&types.IsInteger != 0 {
				if k, ok := eval(x.X, subj, e, d+1); ok {
					switch bt.Kind() {
					case types.Uint8:
						return int64(uint8(k)), true
					case types.Int8:
						return int64(int8(k)), true
					case types.Int32:
						return int64(int32(k)), true
					case types.Uint32:
						return int64(uint32(k)), true
					case types.Int, types.Int64, types.Uint, types.Uint64, types.Int16, types.Uint16:
						if bt.Kind() == types.Int16 {
							return int64(int16(k)), true
						}
						if bt.Kind() == types.Uint16 {
							return int64(uint16(k)), true
						}
						return k, true
					}
				}
			}
		case *ssa.ChangeType:
			return eval(x.X, subj, e, d+1)
		case *ssa.UnOp:
			if x.Op == token.MUL {
				// an element of a constant package-level table, indexed by an evident value
				if ia, ok := x.X.(*ssa.IndexAddr); ok {
					if g, ok := ia.X.(*ssa.Global); ok {
						if k, ok := eval(ia.Index, subj, e, d+1); ok {
							if n, ok := ConstTableInt(g, k); ok {
								return n, true
							}
						}
					}
				}
			}
			if x.Op == token.NOT {
				if k, ok := eval(x.X, subj, e, d+1); ok {
					return 1 - k, true
				}
			}
		case *ssa.BinOp:
			l, ok1 := eval(x.X, subj, e, d+1)
			r, ok2 := eval(x.Y, subj, e, d+1)
			if ok1 && ok2 {
				bi := func(c bool) (int64, bool) {
					if c {
						return 1, true
					}
					return 0, true
				}
				switch x.Op {
				case token.EQL:
					return bi(l == r)
				case token.NEQ:
					return bi(l != r)
				case token.LSS:
					return bi(l < r)
				case token.LEQ:
					return bi(l <= r)
				case token.GTR:
					return bi(l > r)
				case token.GEQ:
					return bi(l >= r)
				case token.AND:
					return l & r, true
				case token.OR:
					return l | r, true
				case token.SHR:
					if r >= 0 && r < 64 {
						return int64(uint64(l) >> uint(r)), true
					}
				case token.SUB:
					return l - r, true
				case token.ADD:
					return l + r, true
				}
			}
		}
		return 0, false
	}
	var run func(blk *ssa.BasicBlock, idx int, subj func(ssa.Value) bool, ev []string, stack []frame, e env, depth int)
	// enter a successor: resolve its phis by the edge taken
	enter := func(from, to *ssa.BasicBlock, subj func(ssa.Value) bool, ev []string, stack []frame, e env, depth int) {
		pi := -1
		for i, p := range to.Preds {
			if p == from {
				pi = i
			}
		}
		var sets []struct {
			v ssa.Value
			k int64
		}
		drop := []ssa.Value{}
		for _, in := range to.Instrs {
			ph, ok := in.(*ssa.Phi)
			if !ok {
				break
			}
			if pi >= 0 {
				if k, ok := eval(ph.Edges[pi], subj, e, 0); ok {
					sets = append(sets, struct {
						v ssa.Value
						k int64
					}{ph, k})
					continue
				}
			}
			drop = append(drop, ph)
		}
		if len(sets) > 0 || len(drop) > 0 {
			n := make(env, len(e)+len(sets))
			for a, b := range e {
				n[a] = b
			}
			for _, d := range drop {
				delete(n, d)
			}
			for _, s := range sets {
				n[s.v] = s.k
			}
			e = n
		}
		run(to, 0, subj, ev, stack, e, depth+1)
	}
	run = func(blk *ssa.BasicBlock, idx int, subj func(ssa.Value) bool, ev []string, stack []frame, e env, depth int) {
		if depth > 120 || len(out) > 4096 {
			out = append(out, append(ev, "…"))
			return
		}
		if len(stack) == 0 && idx == 0 && stop(blk) && depth > 0 {
			out = append(out, ev)
			return
		}
		for k := idx; k < len(blk.Instrs); k++ {
			in := blk.Instrs[k]
			curByteEval = func(v ssa.Value) (int64, bool) { return eval(v, subj, e, 0) }
			if e := event(in); e != "" {
				ev = append(append([]string{}, ev...), e)
			}
			curByteEval = nil
			switch x := in.(type) {
			case *ssa.Call:
				// an eligible helper is explored as if inlined; the subject byte and
				// other concretely known arguments are carried into it
				if h := helperOf(x); h != nil && len(stack) < 3 && len(h.Blocks) > 0 {
					onStack := false
					for _, f := range stack {
						if f.call != nil && helperOf(f.call) == h {
							onStack = true
						}
					}
					if onStack {
						break
					}
					args := x.Call.Args
					var sp *ssa.Parameter
					ne := e
					for ai, a := range args {
						if ai >= len(h.Params) {
							break
						}
						if subj(a) {
							sp = h.Params[ai]
						} else if kv, ok := eval(a, subj, e, 0); ok {
							ne = with(ne, h.Params[ai], kv)
						}
					}
					ns := append(append([]frame{}, stack...), frame{blk: blk, idx: k + 1, subj: subj, call: x})
					run(h.Blocks[0], 0, func(v ssa.Value) bool { return sp != nil && v == ssa.Value(sp) }, ev, ns, ne, depth+1)
					return
				}
			case *ssa.Return:
				if len(stack) > 0 {
					top := stack[len(stack)-1]
					ne := e
					if len(x.Results) == 1 && top.call != nil {
						if kv, ok := eval(x.Results[0], subj, e, 0); ok {
							ne = with(ne, top.call, kv)
						}
					}
					run(top.blk, top.idx, top.subj, ev, stack[:len(stack)-1], ne, depth+1)
					return
				}
				out = append(out, append(ev, "return"))
				return
			case *ssa.Panic:
				out = append(out, append(ev, "panic"))
				return
			case *ssa.If:
				if kv, ok := eval(x.Cond, subj, e, 0); ok {
					if kv != 0 {
						enter(blk, blk.Succs[0], subj, ev, stack, e, depth)
					} else {
						enter(blk, blk.Succs[1], subj, ev, stack, e, depth)
					}
					return
				}
				enter(blk, blk.Succs[0], subj, ev, stack, e, depth)
				enter(blk, blk.Succs[1], subj, ev, stack, e, depth)
				return
			case *ssa.Jump:
				enter(blk, blk.Succs[0], subj, ev, stack, e, depth)
				return
			}
		}
	}
	run(from, 0, isSubject, nil, nil, env{}, 0)
	return out
}

func c1Escaper(c *Ctx, rule string) {
	fn := c.Func(CorePath, "safeAppendStringLike")
	if !c.Anchor(rule, "zapcore.safeAppendStringLike", fn != nil) {
		return
	}
	name := FStr(fn)
	var header *ssa.BasicBlock
	for _, b := range fn.Blocks {
		if LoopHeader(b) == b {
			header = b
		}
	}
	if header == nil {
		c.Und(rule, name, "loop", fn.Pos(), "no scanning loop found")
		return
	}
	body := header.Succs[0]
	sName := PN(fn.Params[3])
	bufName := PN(fn.Params[2])
	idxPhi := ""
	for _, in := range header.Instrs {
		if ph, ok := in.(*ssa.Phi); ok {
			for _, e := range ph.Edges {
				if bo, ok := e.(*ssa.BinOp); ok && bo.Op == token.ADD && bo.X == ssa.Value(ph) {
					if k, ok := ConstInt(bo.Y); ok && k == 1 {
						idxPhi = Desc(ph)
					}
				}
			}
		}
	}
	subjD := sName + "[" + idxPhi + "]"
	isSubj := func(v ssa.Value) bool { return Desc(v) == subjD }
	norm := func(d string) string {
		// inside an extracted helper the byte is a parameter: render it like the original expression
		return d
	}
	_ = norm
	event := func(in ssa.Instruction) string {
		cl, ok := in.(*ssa.Call)
		if !ok {
			return ""
		}
		if helperOf(cl) != nil {
			return ""
		}
		d := Desc(cl.Call.Value)
		switch {
		case d == "appendTo":
			return "flush(" + Desc(cl.Call.Args[1]) + ")"
		case d == "decodeRune":
			return "decodeRune"
		}
		if f := CalleeFunc(cl); f != nil && f.Pkg() != nil && f.Pkg().Path() == "go.uber.org/zap/buffer" {
			a := Args(cl)
			var d0, d1 string
			Bound(func() { d0, d1 = Desc(a[0]), Desc(a[1]) })
			if d0 != bufName {
				return "?" + FNm(f)
			}
			if b, ok := constBytes(a[1]); ok {
				return FNm(f) + "(" + string(b) + ")"
			}
			// a byte that is evident for this input byte (e.g. looked up in a constant escape table)
			if curByteEval != nil && (FNm(f) == "AppendByte" || FNm(f) == "WriteByte") && !strings.Contains(d1, `"0123456789abcdef"`) {
				if k, ok := curByteEval(a[1]); ok && k >= 0x20 && k < 0x7f {
					return FNm(f) + "(" + string(rune(k)) + ")"
				}
			}
			return FNm(f) + "(" + d1 + ")"
		}
		return ""
	}
	stop := func(b *ssa.BasicBlock) bool { return b == header }
	lastPhi := ""
	for _, in := range header.Instrs {
		if ph, ok := in.(*ssa.Phi); ok && Desc(ph) != idxPhi {
			lastPhi = Desc(ph)
		}
	}
	flush := "flush(" + sName + "[" + lastPhi + ":" + idxPhi + "])"
	sub := subjD
	want := func(b byte) [][]string {
		switch {
		case b == '"' || b == '\\':
			return [][]string{{flush, "AppendByte(\\)", "AppendByte(" + string(rune(b)) + ")"}}
		case b == '\n':
			return [][]string{{flush, "AppendByte(\\)", "AppendByte(n)"}}
		case b == '\r':
			return [][]string{{flush, "AppendByte(\\)", "AppendByte(r)"}}
		case b == '\t':
			return [][]string{{flush, "AppendByte(\\)", "AppendByte(t)"}}
		case b < 0x20:
			return [][]string{{flush, "AppendString(\\u00)", `AppendByte("0123456789abcdef"[(` + sub + ` >> 4)])`, `AppendByte("0123456789abcdef"[(` + sub + ` & 15)])`}}
		case b < 0x80:
			return [][]string{{}}
		default:
			return [][]string{{"decodeRune"}, {"decodeRune", flush, "AppendString(\\ufffd)"}}
		}
	}
	classes := map[string][2]int{}
	var bad []string
	for v := 0; v < 256; v++ {
		b := byte(v)
		got := byteEvents(body, stop, isSubj, b, event)
		gs := seqSet(got)
		ws := seqSet(want(b))
		cls := map[bool]string{true: "controls/quote/backslash", false: "other"}[b < 0x20 || b == '"' || b == '\\']
		if b >= 0x80 {
			cls = "non-ASCII"
		}
		st := classes[cls]
		st[0]++
		if gs == ws {
			st[1]++
		} else {
			bad = append(bad, "0x"+strings.ToUpper(strconvHex(b))+": got "+gs+" want "+ws)
		}
		classes[cls] = st
	}
	for _, cls := range []string{"controls/quote/backslash", "other", "non-ASCII"} {
		st := classes[cls]
		var b2 []string
		for _, x := range bad {
			b2 = append(b2, x)
		}
		c.Check(st[0] == st[1], rule, name, "byte-table/"+cls, fn.Pos(), "%d of %d byte values take exactly the required action (controls, '\"' and '\\' are never copied raw and get their exact escape; 0x20–0x7F are copied; ≥0x80 go through decodeRune and invalid UTF-8 becomes the \\ufffd escape) %v", st[1], st[0], firstN(b2, 3))
	}
	// tail: remaining bytes appended after the loop
	tail := byteEvents(header.Succs[1], func(*ssa.BasicBlock) bool { return false }, isSubj, 0, event)
	c.Check(len(tail) == 1 && strings.Join(tail[0], ",") == "flush("+sName+"["+lastPhi+":]),return", rule, name, "tail-flushed", fn.Pos(), "after the scan the unescaped tail s[last:] is appended (%v)", tail)
	// loop bound
	iff, _ := header.Instrs[len(header.Instrs)-1].(*ssa.If)
	c.Check(iff != nil && Desc(iff.Cond) == "("+idxPhi+" < len("+sName+"))", rule, name, "scans-to-end", fn.Pos(), "the scan covers every index below len(s)")
}

func firstN(s []string, n int) []string {
	if len(s) > n {
		return s[:n]
	}
	return s
}

func strconvHex(b byte) string {
	const h = "0123456789abcdef"
	return string([]byte{h[b>>4], h[b&15]})
}

func seqSet(seqs [][]string) string {
	var s []string
	for _, q := range seqs {
		s = append(s, "["+strings.Join(q, ",")+"]")
	}
	sort.Strings(s)
	// dedupe
	var out []string
	for i, x := range s {
		if i == 0 || x != s[i-1] {
			out = append(out, x)
		}
	}
	return strings.Join(out, "|")
}

// ---------------------------------------------------------------------------
// appendByteConst: in writes exactly one constant byte to an encoder buffer
// (AppendByte(k), or a one-byte constant string).
func appendByteConst(c *Ctx, in ssa.Instruction) (byte, bool) {
	alts, ok := constWrite(c, in)
	if !ok || len(alts) != 1 || len(alts[0]) != 1 {
		return 0, false
	}
	return alts[0][0], true
}

// constWriteHas: in is a constant write some alternative of which contains b.
func constWriteHas(c *Ctx, in ssa.Instruction, b byte) bool {
	alts, ok := constWrite(c, in)
	if !ok {
		return false
	}
	for _, a := range alts {
		for _, x := range a {
			if x == b {
				return true
			}
		}
	}
	return false
}

func c1Pairing(c *Ctx, rule string) {
	_ = map[byte]byte{}
	nOpen := 0
	for _, fn := range coreFuncs(c) {
		rn := RecvNamed(fn)
		if rn == nil || FNm(rn.Obj()) != "jsonEncoder" {
			continue
		}
		name := FStr(fn)
		var inString []ssa.Instruction
		AllInstrs(fn, func(in ssa.Instruction) {
			alts, ok := constWrite(c, in)
			// net openers in this constant write (an opener closed within the same constant does not count)
			var open byte
			if ok {
				for _, a := range alts {
					bal := map[byte]int{}
					for _, x := range a {
						switch x {
						case '{', '[':
							bal[x]++
						case '}':
							bal['{']--
						case ']':
							bal['[']--
						}
					}
					for _, o := range []byte{'{', '['} {
						if bal[o] > 0 {
							open = o
						}
					}
				}
			}
			if open != 0 {
				nOpen++
			}
			if cl, isCall := in.(*ssa.Call); isCall {
				if f := CalleeFunc(cl); f != nil {
					switch FNm(f) {
					case "safeAddString", "safeAddByteString":
						inString = append(inString, in)
					}
				}
			}
		})
		at, exit, nq := quoteFlow(c, fn, 0)
		if len(inString) > 0 || nq > 0 {
			okAll := exit == 0
			bad := ""
			for i, st := range at {
				if st < 0 {
					okAll = false
					bad = "paths disagree at " + c.Pos(i.Pos())
				}
			}
			for _, s := range inString {
				if at[s] != 1 {
					okAll = false
					bad = "escaped text written outside quotes at " + c.Pos(s.Pos())
				}
			}
			c.Check(okAll, rule, name, "quotes-paired", fn.Pos(), "%d quote-writing site(s): on every path the quotes pair up (the function ends outside a string literal) and every escaped write lies inside one %s", nq, bad)
		}
	}
	if nOpen < 2 {
		c.Bad(rule, "openers", "count", token.NoPos, "expected at least 2 bracket-opening write sites in the JSON encoder, found %d", nOpen)
	}
	c1Brackets(c, rule)
	// closeOpenNamespaces: loop bounded by the counter, counter zeroed after
	cn := c.Method(CorePath, "jsonEncoder", "closeOpenNamespaces")
	if c.Anchor(rule, "zapcore.jsonEncoder.closeOpenNamespaces", cn != nil) {
		// evaluated: with k namespaces open (k = 0..6) the function writes exactly k closing braces and leaves the counter at 0
		je := c.Named(CorePath, "jsonEncoder")
		bad := ""
		for k := int64(0); k <= 6 && je != nil; k++ {
			it := NewInterp(c)
			var out []byte
			weird := ""
			it.OnCall = func(call *ssa.Call, args []IVal) (IVal, bool) {
				f := CalleeFunc(call)
				if f == nil || f.Pkg() == nil || f.Pkg().Path() != "go.uber.org/zap/buffer" {
					return IVal{}, false
				}
				switch {
				case (FNm(f) == "AppendByte" || FNm(f) == "WriteByte") && len(args) == 2 && args[1].K == ivInt:
					out = append(out, byte(args[1].I))
				case (FNm(f) == "AppendString" || FNm(f) == "WriteString") && len(args) == 2 && args[1].K == ivStr:
					out = append(out, args[1].S...)
				default:
					weird = FNm(f)
				}
				return IVal{K: ivTuple}, true
			}
			cell := NewStructCell(je)
			cnt := cell.Field(je, "openNamespaces")
			if cnt == nil {
				bad = "no openNamespaces field"
				break
			}
			cnt.V = IInt(k)
			_, err := it.Run(cn, []IVal{IPtr(cell)})
			switch {
			case err != nil:
				bad = fmt.Sprintf("k=%d: %v", k, err)
			case weird != "":
				bad = fmt.Sprintf("k=%d: unexpected buffer call %s", k, weird)
			case string(out) != strings.Repeat("}", int(k)):
				bad = fmt.Sprintf("k=%d: wrote %q", k, out)
			case cnt.V.K != ivInt || cnt.V.I != 0:
				bad = fmt.Sprintf("k=%d: counter left at %s", k, cnt.V)
			}
			if bad != "" {
				break
			}
		}
		c.Check(bad == "" && je != nil, rule, FStr(cn), "closes-exactly-open", cn.Pos(), "evaluated for 0..6 open namespaces: one '}' per open namespace is written and the counter ends at zero %s", bad)
	}
	// EncodeEntry tail
	ee := c.Method(CorePath, "jsonEncoder", "EncodeEntry")
	if c.Anchor(rule, "zapcore.jsonEncoder.EncodeEntry", ee != nil) {
		// by path exploration (the helpers that lead to addFields / closeOpenNamespaces explored inline): the first write
		// to the line is '{'; the call-site fields are added, then the open namespaces closed; the last two writes are
		// '}' and the line ending
		funcs := coreFuncs(c)
		frame := map[*ssa.Function]bool{}
		writes := map[*ssa.Function]bool{}
		isLeaf := func(f *ssa.Function) bool { return FNm(f) == "addFields" || FNm(f) == "closeOpenNamespaces" }
		for _, f := range funcs {
			for _, o := range encBufCalls(c, f) {
				if isMutatingBufMethod(o.m) {
					writes[f] = true
				}
			}
		}
		for changed := true; changed; {
			changed = false
			for _, f := range funcs {
				for _, cl := range Calls(f) {
					sc := StaticCallee(cl)
					if sc == nil {
						continue
					}
					if (isLeaf(sc) || frame[sc]) && !frame[f] && !isLeaf(f) {
						frame[f], changed = true, true
					}
					if writes[sc] && !writes[f] {
						writes[f], changed = true, true
					}
				}
			}
		}
		seqs, trunc := ConcPaths(ee, ConcCfg{
			Prune: true, MaxStates: 400000,
			Inline:    func(h *ssa.Function) bool { return frame[h] || writes[h] && returnsJSONEncoder(c, h) },
			InlineAny: func(h *ssa.Function) bool { return writes[h] && returnsJSONEncoder(c, h) },
			Event: func(in ssa.Instruction, st *ConcState) string {
				cl, isCall := in.(*ssa.Call)
				if !isCall {
					return ""
				}
				if f := CalleeFunc(cl); f != nil {
					if f.Pkg() != nil && f.Pkg().Path() == "go.uber.org/zap/buffer" && (FNm(f) == "Write" || FNm(f) == "AppendBytes") {
						if args := Args(cl); len(args) == 2 {
							if n, known := st.IsNil(args[1]); known && n {
								return "" // a nil slice: nothing is written (cloneWith(nil))
							}
							for k, v := 0, args[1]; k < 8 && v != nil; k, v = k+1, st.Step(v) {
								if kc, isC := v.(*ssa.Const); isC && kc.Value == nil {
									return ""
								}
							}
						}
					}
					switch FNm(f) {
					case "addFields":
						return "fields"
					case "closeOpenNamespaces":
						return "closeNS"
					}
					if f.Pkg() != nil && f.Pkg().Path() == "go.uber.org/zap/buffer" && isMutatingBufMethod(FNm(f)) {
						if args := Args(cl); len(args) > 0 && encBufRecv(c, args[0]) {
							if b, ok := appendByteConst(c, in); ok && (b == '{' || b == '}') {
								return string(b)
							}
							if len(args) == 2 && strings.HasSuffix(st.Desc(args[1]), ".LineEnding") {
								return "eol"
							}
							return "w"
						}
					}
				}
				if sc := StaticCallee(cl); sc != nil && writes[sc] && !frame[sc] && !returnsJSONEncoder(c, sc) {
					return "w"
				}
				if !cl.Call.IsInvoke() && cl.Call.StaticCallee() == nil && CalleeFunc(cl) == nil && len(cl.Call.Args) > 0 {
					if _, isB := cl.Call.Value.(*ssa.Builtin); !isB {
						return "w" // a user sub-encoder: may write
					}
				}
				return ""
			},
		})
		reFrame := regexp.MustCompile(`^\{ (w )*fields closeNS (w )*\} eol $`)
		var badF []string
		for _, sq := range seqs {
			if !reFrame.MatchString(strings.Join(strings.Split(sq, " ; "), " ") + " ") {
				badF = append(badF, sq)
			}
		}
		if len(badF) > 3 {
			badF = append(badF[:3:3], "… "+itoa(len(badF)-3)+" more")
		}
		ok := !trunc && len(seqs) > 0 && len(badF) == 0
		if !ok {
			c.Notes = append(c.Notes, fmt.Sprintf("object-frame offending paths: %v (truncated=%v)", badF, trunc))
		}
		c.Check(ok, rule, FStr(ee), "object-frame", ee.Pos(), "every entry is '{' … fields … closeOpenNamespaces … [stack] … '}' line-ending, each on every path and in this order")
	}
}

// ---------------------------------------------------------------------------
func c1Separators(c *Ctx, rule string) {
	je := c.Named(CorePath, "jsonEncoder")
	if !c.Anchor(rule, "zapcore.jsonEncoder", je != nil) {
		return
	}
	sep := c.Method(CorePath, "jsonEncoder", "addElementSeparator")
	addKey := c.Method(CorePath, "jsonEncoder", "addKey")
	if !c.Anchor(rule, "jsonEncoder.addElementSeparator/addKey", sep != nil && addKey != nil) {
		return
	}
	// method sets of the two encoder interfaces
	want := map[string]bool{}
	for _, in := range []string{"ObjectEncoder", "ArrayEncoder"} {
		it, _ := c.Named(CorePath, in).Underlying().(*types.Interface)
		for i := 0; i < it.NumMethods(); i++ {
			want[FNm(it.Method(i))] = true
		}
	}
	// summary: establishes the separator before any direct write
	type sum struct{ est, writes bool }
	memo := map[*ssa.Function]int{} // 1 = establishes, 2 = not
	var est func(fn *ssa.Function, depth int) bool
	est = func(fn *ssa.Function, depth int) bool {
		if fn == sep {
			return true
		}
		if v, ok := memo[fn]; ok {
			return v == 1
		}
		memo[fn] = 2
		if depth > 6 {
			return false
		}
		recv := fn.Params[0]
		isDirectWrite := func(i ssa.Instruction) bool {
			for _, o := range encBufCalls(c, fn) {
				if ssa.Instruction(o.call) == i && isMutatingBufMethod(o.m) && Desc(Args(o.call)[0]) == PN(recv)+".buf" {
					return true
				}
			}
			return false
		}
		establishes := func(i ssa.Instruction) bool {
			cl, ok := i.(*ssa.Call)
			if !ok {
				return false
			}
			callee := StaticCallee(cl)
			if callee == nil || len(cl.Call.Args) == 0 || Strip(cl.Call.Args[0]) != ssa.Value(recv) {
				return false
			}
			if rn := RecvNamed(callee); rn == nil || rn.Obj() != je.Obj() {
				return false
			}
			return est(callee, depth+1)
		}
		// no direct write reachable before an establishing call
		ok := !ExistsPath(fn, nil, isDirectWrite, establishes)
		if ok {
			memo[fn] = 1
		}
		return ok
	}
	n := 0
	var names []string
	for m := range want {
		names = append(names, m)
	}
	sort.Strings(names)
	for _, m := range names {
		fn := c.Method(CorePath, "jsonEncoder", m)
		if fn == nil || RecvNamed(fn) == nil || RecvNamed(fn).Obj() != je.Obj() {
			c.Und(rule, CorePath+".jsonEncoder."+m, "method", token.NoPos, "encoder interface method %s is not implemented by jsonEncoder itself", m)
			continue
		}
		n++
		// methods that write something (directly or via siblings) must establish first; pure delegators must delegate
		c.Check(est(fn, 0), rule, FStr(fn), "separator-first", fn.Pos(), "no byte is written to the buffer before the element separator was considered (directly, via addKey, or via a sibling method that does)")
	}
	// ',' only from addElementSeparator
	var commaSites []string
	for _, fn := range coreFuncs(c) {
		AllInstrs(fn, func(in ssa.Instruction) {
			if constWriteHas(c, in, ',') {
				commaSites = append(commaSites, FNm(fn))
			}
			if cl, ok := in.(*ssa.Call); ok {
				if f := CalleeFunc(cl); f != nil && (FNm(f) == "AppendString" || FNm(f) == "WriteString") && len(Args(cl)) == 2 && encBufRecv(c, Args(cl)[0]) {
					if b, ok := constBytes(Args(cl)[1]); ok && strings.Contains(string(b), ",") {
						commaSites = append(commaSites, FNm(fn))
					}
				}
			}
		})
	}
	c.Check(len(commaSites) == 1 && commaSites[0] == "addElementSeparator", rule, FStr(sep), "only-comma-writer", sep.Pos(), "',' is written only by addElementSeparator (sites: %v); an unconditional comma elsewhere yields '{,' or ',,'", commaSites)
	// the no-separator byte set
	var sw *ssa.BasicBlock
	subjPrefix := "Bytes(" + PN(sep.Params[0]) + ".buf)["
	for _, b := range sep.Blocks {
		for _, in := range b.Instrs {
			if u, ok := in.(*ssa.UnOp); ok && u.Op == token.MUL && strings.HasPrefix(Desc(u), subjPrefix) && sw == nil {
				sw = b
			}
		}
	}
	if sw == nil {
		c.Und(rule, FStr(sep), "byte-set", sep.Pos(), "cannot find the last-byte test")
	} else {
		isSubj := func(v ssa.Value) bool { return strings.HasPrefix(Desc(v), subjPrefix) }
		event := func(in ssa.Instruction) string {
			if b, ok := appendByteConst(c, in); ok {
				return string(b)
			}
			return ""
		}
		var noSep []byte
		okForm := true
		for v := 0; v < 256; v++ {
			seqs := byteEvents(sw, func(*ssa.BasicBlock) bool { return false }, isSubj, byte(v), event)
			s := seqSet(seqs)
			switch s {
			case "[return]":
				noSep = append(noSep, byte(v))
			case "[,, ,return]|[,,return]", "[,,return]|[,, ,return]":
			default:
				okForm = false
			}
		}
		must := "{[:,"
		may := "{[:, "
		ok := okForm
		for _, b := range []byte(must) {
			if !strings.ContainsRune(string(noSep), rune(b)) {
				ok = false
			}
		}
		for _, b := range noSep {
			if !strings.ContainsRune(may, rune(b)) {
				ok = false
			}
		}
		c.Check(ok, rule, FStr(sep), "no-separator-byte-set", sep.Pos(), "evaluated over all 256 last-byte values: no separator after %q (must contain %q, may only add ' '); every other byte gets ',' (plus ' ' when spaced)", string(noSep), must)
		// empty buffer: no separator
		// by path exploration with the buffer's length fixed to 0: nothing is written and no byte is looked at
		srn := PN(sep.Params[0])
		eseqs, etrunc := ConcPaths(sep, ConcCfg{
			Conc: func(d string) (int64, bool) {
				if d == "Len("+srn+".buf)" || d == "len(Bytes("+srn+".buf))" {
					return 0, true
				}
				return 0, false
			},
			Event: func(in ssa.Instruction, st *ConcState) string {
				switch x := in.(type) {
				case *ssa.Call:
					if f := CalleeFunc(x); f != nil && f.Pkg() != nil && f.Pkg().Path() == "go.uber.org/zap/buffer" && isMutatingBufMethod(FNm(f)) {
						return "write"
					}
				case *ssa.IndexAddr:
					if cl, ok := Strip(x.X).(*ssa.Call); ok && IsCallTo(cl, "(*go.uber.org/zap/buffer.Buffer).Bytes") {
						return "reads-byte"
					}
				}
				return ""
			},
		})
		okEmpty := !etrunc && len(eseqs) > 0
		for _, sq := range eseqs {
			if sq != "" {
				okEmpty = false
			}
		}
		c.Check(okEmpty, rule, FStr(sep), "empty-buffer", sep.Pos(), "an empty buffer gets no separator and no byte of it is read (paths with the length fixed to 0: %v)", eseqs)
	}
	// addKey order, explored for spaced on/off with helpers inlined: constant writes are expanded to their bytes
	rcv := PN(addKey.Params[0])
	var shapes []string
	okSeq := true
	for _, spaced := range []int64{0, 1} {
		spaced := spaced
		seqs, trunc := ConcPaths(addKey, ConcCfg{
			Conc: func(d string) (int64, bool) {
				if d == rcv+".spaced" {
					return spaced, true
				}
				return 0, false
			},
			Inline: func(h *ssa.Function) bool { return FNm(h) != "addElementSeparator" && FNm(h) != "safeAddString" },
			Event: func(in ssa.Instruction, st *ConcState) string {
				if alts, ok := constWrite(c, in); ok {
					if len(alts) != 1 {
						return "?"
					}
					var parts []string
					for _, x := range alts[0] {
						parts = append(parts, string(x))
					}
					return strings.Join(parts, " ; ")
				}
				if cl, ok := in.(*ssa.Call); ok {
					if f := CalleeFunc(cl); f != nil {
						switch FNm(f) {
						case "addElementSeparator":
							return "SEP"
						case "safeAddString":
							if st.Desc(Args(cl)[1]) == PN(addKey.Params[1]) {
								return "KEY"
							}
							return "safeAddString(" + st.Desc(Args(cl)[1]) + ")"
						}
					}
				}
				return ""
			},
		})
		want := `SEP ; " ; KEY ; " ; :`
		if spaced == 1 {
			want += " ;  "
		}
		if trunc || len(seqs) != 1 || seqs[0] != want {
			okSeq = false
		}
		shapes = append(shapes, fmt.Sprintf("spaced=%d: %q", spaced, seqs))
	}
	c.Check(okSeq, rule, FStr(addKey), "key-shape", addKey.Pos(), "addKey emits separator, '\"', escaped key, '\"', ':' (and ' ' exactly when spaced) on every path: %v", shapes)
	if n < 40 {
		c.Bad(rule, "encoder methods", "count", token.NoPos, "only %d encoder methods checked", n)
	}
}

// ---------------------------------------------------------------------------
var optionalEncoders = map[string]bool{"EncodeLevel": true, "EncodeTime": true, "EncodeDuration": true, "EncodeCaller": true, "EncodeName": true, "NewReflectedEncoder": true}

func c1NilGuards(c *Ctx, rule string, jsonOnly bool) {
	n := 0
	for _, fn := range coreFuncs(c) {
		for _, cl := range Calls(fn) {
			call, ok := cl.(*ssa.Call)
			if !ok || call.Call.IsInvoke() || StaticCallee(call) != nil {
				continue
			}
			v := call.Call.Value
			fld, ok := optionalField(v)
			if !ok {
				continue
			}
			n++
			name := FuncKey(fn)
			slot := "call/" + fld
			if fld == "NewReflectedEncoder" {
				// defaulted in the only constructor
				nj := c.Func(CorePath, "newJSONEncoder")
				okDef := false
				if nj != nil {
					for _, f := range Region(nj) {
						AllInstrs(f, func(in ssa.Instruction) {
							if st, isSt := in.(*ssa.Store); isSt && strings.HasSuffix(Desc(st.Addr), ".NewReflectedEncoder") {
								hasG := false
								for _, a := range AtomStrings(GuardsOfBlock(st.Block())) {
									if strings.HasSuffix(a, ".NewReflectedEncoder == nil") {
										hasG = true
									}
								}
								okDef = strings.HasSuffix(Desc(st.Val), "defaultReflectedEncoder") && hasG
							}
						})
					}
				}
				// and newJSONEncoder is the only place an EncoderConfig is attached to a fresh jsonEncoder
				var attach []string
				for _, g := range coreFuncs(c) {
					for _, st := range FieldStoresOf(g, c.Named(CorePath, "jsonEncoder")) {
						if st.Field == "EncoderConfig" && !IsNilConst(Strip(st.Instr.Val)) && !strings.HasSuffix(Desc(st.Instr.Val), ".EncoderConfig") {
							// a helper that stores what it is handed: what matters is what its callers hand it
							if pv, isP := Strip(st.Instr.Val).(*ssa.Parameter); isP && len(sitesOf(g)) > 0 && !token.IsExported(FNm(g)) {
								inherited := true
								for _, site := range sitesOf(g) {
									for ai, a := range Args(site) {
										if ai < len(g.Params) && g.Params[ai] == pv && !strings.HasSuffix(Desc(a), ".EncoderConfig") {
											inherited = false
											attach = append(attach, FNm(site.Parent()))
										}
									}
								}
								_ = inherited
								continue
							}
							attach = append(attach, FNm(g))
						}
					}
				}
				c.Check(okDef && len(attach) == 1 && attach[0] == "newJSONEncoder", rule, name, slot, call.Pos(), "NewReflectedEncoder is replaced by the default when nil in newJSONEncoder, the only place a config enters an encoder (%v)", attach)
				continue
			}
			if !nilGuarded(call, v) && fn.Parent() != nil {
				// inside a function literal: the test may sit where the literal is made or handed on. Decided by exploring
				// the enclosing method (helpers and the literals handed to them inline): on every path that reaches the
				// call the function value is known to be non-nil.
				ok, why := c1NonNilOnPaths(fn, call)
				c.Check(ok, rule, name, slot, call.Pos(), "the optional %s function is called only where it is known to be non-nil on every path of the enclosing method (tested, or substituted by a default) %s", fld, why)
				continue
			}
			c.Check(nilGuarded(call, v), rule, name, slot, call.Pos(), "the optional %s function is called only where it was tested non-nil or substituted by a default (guards %v)", fld, AtomStrings(Guards(call)))
		}
	}
	if n < 10 {
		c.Bad(rule, "sub-encoder calls", "count", token.NoPos, "only %d calls through optional sub-encoder fields found", n)
	}
}

// c1NonNilOnPaths: on every explored path of the method enclosing the function literal fn that reaches call, the called
// function value is known to be non-nil.
func c1NonNilOnPaths(fn *ssa.Function, call *ssa.Call) (bool, string) {
	root := fn
	for root.Parent() != nil {
		root = root.Parent()
	}
	reached, unknown := 0, 0
	_, trunc := ConcPaths(root, ConcCfg{
		Prune: true, MaxStates: 300000, MaxDepth: 8,
		Event: func(in ssa.Instruction, st *ConcState) string {
			if in != ssa.Instruction(call) {
				return ""
			}
			reached++
			v := call.Call.Value
			for k := 0; k < 16; k++ {
				if n, known := st.IsNil(v); known {
					if n {
						unknown++
					}
					return ""
				}
				nx := st.Step(v)
				if nx == nil {
					break
				}
				v = nx
			}
			unknown++
			return ""
		},
	})
	if trunc {
		return false, "(path exploration incomplete)"
	}
	return reached > 0 && unknown == 0, "(" + itoa(reached) + " arrivals, " + itoa(unknown) + " without the fact)"
}

// optionalField: is v (possibly via local/phi) a load of an optional EncoderConfig function field?
func optionalField(v ssa.Value) (string, bool) {
	seen := map[ssa.Value]bool{}
	var rec func(ssa.Value) (string, bool)
	rec = func(x ssa.Value) (string, bool) {
		if seen[x] {
			return "", false
		}
		seen[x] = true
		switch y := x.(type) {
		case *ssa.UnOp:
			if fa, ok := y.X.(*ssa.FieldAddr); ok {
				f := fieldName(fa.X.Type(), fa.Field)
				if optionalEncoders[f] && TypeName(deref(fa.X.Type())) == "zapcore.EncoderConfig" {
					return f, true
				}
			}
			if a, ok := y.X.(*ssa.Alloc); ok {
				if s := singleStore(a); s != nil {
					return rec(s)
				}
			}
			if fv, ok := y.X.(*ssa.FreeVar); ok && fv.Parent() != nil && fv.Parent().Parent() != nil {
				// a variable of the enclosing function captured by this literal: whatever is stored into it there
				idx := -1
				for i, f := range fv.Parent().FreeVars {
					if f == fv {
						idx = i
					}
				}
				var res string
				found := false
				AllInstrs(fv.Parent().Parent(), func(in ssa.Instruction) {
					mk, isMk := in.(*ssa.MakeClosure)
					if !isMk || mk.Fn != ssa.Value(fv.Parent()) || idx < 0 || idx >= len(mk.Bindings) {
						return
					}
					a, isA := mk.Bindings[idx].(*ssa.Alloc)
					if !isA || a.Referrers() == nil {
						return
					}
					for _, r := range *a.Referrers() {
						if st, isSt := r.(*ssa.Store); isSt && st.Addr == ssa.Value(a) {
							if f, ok := rec(st.Val); ok {
								res, found = f, true
							}
						}
					}
				})
				if found {
					return res, true
				}
			}
		case *ssa.Phi:
			for _, e := range y.Edges {
				if f, ok := rec(e); ok {
					return f, true
				}
			}
		}
		return "", false
	}
	return rec(v)
}

// nilGuarded: the call through v is dominated by v != nil, or v is a phi
// whose nil case was replaced by a constant function.
func nilGuarded(call *ssa.Call, v ssa.Value) bool {
	d := Desc(v)
	if containsS(AtomStrings(Guards(call)), d+" != nil") {
		return true
	}
	if ph, ok := v.(*ssa.Phi); ok {
		for i, e := range ph.Edges {
			if _, isFn := Strip(e).(*ssa.Function); isFn {
				continue
			}
			pred := ph.Block().Preds[i]
			atoms := append(AtomStrings(GuardsOfBlock(pred)), AtomStrings(edgeAtoms(pred, ph.Block()))...)
			if !containsS(atoms, Desc(e)+" != nil") {
				return false
			}
		}
		return true
	}
	return false
}

// ---------------------------------------------------------------------------
func c1Fallback(c *Ctx, rule string) {
	n := 0
	hasOptional := map[*ssa.Function]bool{}
	writes := map[*ssa.Function]bool{}
	for _, fn := range coreFuncs(c) {
		for _, cl := range Calls(fn) {
			call, ok := cl.(*ssa.Call)
			if !ok {
				continue
			}
			if !call.Call.IsInvoke() && StaticCallee(call) == nil {
				if fld, ok := optionalField(call.Call.Value); ok && fld != "NewReflectedEncoder" {
					hasOptional[fn] = true
				}
			}
		}
		for _, o := range encBufCalls(c, fn) {
			if isMutatingBufMethod(o.m) {
				writes[fn] = true
			}
		}
	}
	// transitive closure over static callees inside zapcore
	for changed := true; changed; {
		changed = false
		for _, fn := range coreFuncs(c) {
			for _, cl := range Calls(fn) {
				if sc := StaticCallee(cl); sc != nil {
					if hasOptional[sc] && !hasOptional[fn] && Eligible(sc) {
						hasOptional[fn], changed = true, true
					}
					if writes[sc] && !writes[fn] {
						writes[fn], changed = true, true
					}
				}
				// a function literal that calls a sub-encoder: so does the function that makes it, and the helper it is
				// handed to runs it
				var mks []*ssa.MakeClosure
				var collect func(v ssa.Value, d int)
				collect = func(v ssa.Value, d int) {
					switch x := v.(type) {
					case *ssa.MakeClosure:
						mks = append(mks, x)
					case *ssa.Phi:
						// a variable that holds the literal on some path (nil on the others)
						if d < 3 {
							for _, e := range x.Edges {
								collect(e, d+1)
							}
						}
					}
				}
				for _, a := range cl.Common().Args {
					collect(a, 0)
				}
				for _, mk := range mks {
					{
						if lf, isF := mk.Fn.(*ssa.Function); isF && hasOptional[lf] {
							if !hasOptional[fn] {
								hasOptional[fn], changed = true, true
							}
							if sc := StaticCallee(cl); sc != nil && !hasOptional[sc] && Eligible(sc) {
								hasOptional[sc], changed = true, true
							}
						}
					}
				}
			}
		}
	}
	for _, fn := range coreFuncs(c) {
		rn := RecvNamed(fn)
		if rn == nil || FNm(rn.Obj()) != "jsonEncoder" || !hasOptional[fn] || Eligible(fn) && len(sitesOf(fn)) > 0 && fn.Parent() == nil && allSitesIn(fn, hasOptional) {
			continue
		}
		// Path exploration: after every user sub-encoder call, the buffer length is compared with its value from before
		// the call (nothing written in between), and an unchanged length is followed by a built-in write.
		id := func(v ssa.Value) string { return FNm(v.Parent()) + "." + v.Name() }
		resolve := func(st *ConcState, v ssa.Value) ssa.Value {
			v = Strip(v)
			for k := 0; k < 12; k++ {
				nx := st.Step(v)
				if nx == nil {
					break
				}
				v = Strip(nx)
			}
			return v
		}
		isLen := func(v ssa.Value) bool {
			cl, ok := v.(*ssa.Call)
			if !ok {
				return false
			}
			f := CalleeFunc(cl)
			return f != nil && FNm(f) == "Len" && f.Pkg() != nil && f.Pkg().Path() == "go.uber.org/zap/buffer" && encBufRecv(c, Args(cl)[0])
		}
		seqs, trunc := ConcPaths(fn, ConcCfg{
			Prune: true, MaxStates: 300000,
			Inline: func(h *ssa.Function) bool {
				return hasOptional[h] || !writes[h] && len(h.Blocks) <= 4
			},
			Event: func(in ssa.Instruction, st *ConcState) string {
				call, ok := in.(*ssa.Call)
				if !ok {
					return ""
				}
				if isLen(call) {
					return "len:" + id(call)
				}
				if !call.Call.IsInvoke() && StaticCallee(call) == nil {
					if fld, ok := optionalField(call.Call.Value); ok && fld != "NewReflectedEncoder" {
						return "sub:" + fld
					}
					if fld, ok := optionalField(resolve(st, call.Call.Value)); ok && fld != "NewReflectedEncoder" {
						return "sub:" + fld
					}
					// a function literal handed down as the built-in fall-back: it writes
					if mk, isMk := resolve(st, call.Call.Value).(*ssa.MakeClosure); isMk {
						if lf, isF := mk.Fn.(*ssa.Function); isF && writes[lf] && !hasOptional[lf] {
							return "write"
						}
					}
				}
				if f := CalleeFunc(call); f != nil {
					if f.Pkg() != nil && f.Pkg().Path() == "go.uber.org/zap/buffer" && len(Args(call)) > 0 && encBufRecv(c, Args(call)[0]) && isMutatingBufMethod(FNm(f)) {
						return "write"
					}
				}
				if sc := StaticCallee(call); sc != nil && writes[sc] {
					return "write"
				}
				return ""
			},
			Branch: func(cond ssa.Value, taken bool, st *ConcState) string {
				pol := taken
				for k := 0; k < 8; k++ {
					if u, ok := cond.(*ssa.UnOp); ok && u.Op == token.NOT {
						cond, pol = u.X, !pol
						continue
					}
					if nx := st.Step(cond); nx != nil {
						cond = nx
						continue
					}
					break
				}
				bo, ok := cond.(*ssa.BinOp)
				if !ok || bo.Op != token.EQL && bo.Op != token.NEQ {
					return ""
				}
				x, y := resolve(st, bo.X), resolve(st, bo.Y)
				if !isLen(x) || !isLen(y) {
					return ""
				}
				same := pol == (bo.Op == token.EQL)
				r := "changed"
				if same {
					r = "unchanged"
				}
				return r + ":" + id(x) + ":" + id(y)
			},
		})
		if trunc || len(seqs) == 0 {
			c.Und(rule, FuncKey(fn), "fallback", fn.Pos(), "path exploration incomplete (%d sequences, truncated=%v)", len(seqs), trunc)
			continue
		}
		bad := map[string]string{}
		seen := map[string]bool{}
		for _, sq := range seqs {
			ev := strings.Split(sq, " ; ")
			for i, e := range ev {
				if !strings.HasPrefix(e, "sub:") {
					continue
				}
				fld := strings.TrimPrefix(e, "sub:")
				seen[fld] = true
				// what follows the call
				why := "the function returns (or goes on) without comparing the buffer length"
				for j := i + 1; j < len(ev); j++ {
					x := ev[j]
					if strings.HasPrefix(x, "len:") {
						continue
					}
					if strings.HasPrefix(x, "unchanged:") || strings.HasPrefix(x, "changed:") {
						parts := strings.Split(x, ":")
						// one operand was read before the call with no write in between, the other after the call
						before, after := -1, -1
						for k := 0; k < len(ev); k++ {
							if ev[k] == "len:"+parts[1] || ev[k] == "len:"+parts[2] {
								if k < i {
									before = k
								} else if k > i && k < j {
									after = k
								}
							}
						}
						okB := before >= 0 && after >= 0
						for k := before + 1; okB && k < i; k++ {
							if ev[k] == "write" || strings.HasPrefix(ev[k], "sub:") {
								okB = false
							}
						}
						switch {
						case !okB:
							why = "the comparison is not between the length taken just before the call and the length after it"
						case parts[0] == "changed":
							why = ""
						case j+1 < len(ev) && ev[j+1] == "write":
							why = ""
						default:
							why = "an unchanged length is not followed by a built-in write"
						}
						break
					}
					why = "the next step after the call is " + x + ", not the length comparison"
					break
				}
				if why != "" && bad[fld] == "" {
					bad[fld] = why + " (" + sq + ")"
				}
			}
		}
		var flds []string
		for f := range seen {
			flds = append(flds, f)
		}
		sort.Strings(flds)
		for _, fld := range flds {
			n++
			c.Check(bad[fld] == "", rule, FuncKey(fn), "fallback/"+fld, fn.Pos(), "on every path (%d explored, helpers inline), after the user-supplied %s ran the buffer length is compared with its value from just before the call, and an unchanged length is followed by a built-in write (a no-op sub-encoder would otherwise leave a key without a value): %s", len(seqs), fld, bad[fld])
		}
	}
	if n < 5 {
		c.Bad(rule, "sub-encoder calls", "count", token.NoPos, "only %d user sub-encoder calls found in the JSON encoder", n)
	}
}

// allSitesIn: every call site of the eligible helper fn lies in a function of the set (so fn is explored inline there).
func allSitesIn(fn *ssa.Function, set map[*ssa.Function]bool) bool {
	for _, s := range sitesOf(fn) {
		if !set[s.Parent()] {
			return false
		}
	}
	return true
}

// ---------------------------------------------------------------------------
// helperIsSplit: the helper's error result is (on some path) the error of an
// encoder/marshaler call made inside it - i.e. it is a part of its caller that
// was split off, and its inner calls are examined instead of the call to it.
func helperIsSplit(h *ssa.Function) bool {
	for _, r := range Returns(h) {
		for _, v := range RetVals(r) {
			if TStr(v.Type()) != "error" {
				continue
			}
			found := false
			var walk func(x ssa.Value, d int)
			walk = func(x ssa.Value, d int) {
				if d > 6 || found {
					return
				}
				switch y := x.(type) {
				case *ssa.Call:
					found = true
				case *ssa.Phi:
					for _, e := range y.Edges {
						walk(e, d+1)
					}
				}
			}
			walk(v, 0)
			if found {
				return true
			}
		}
	}
	return false
}

func inRegion(fn, h *ssa.Function) bool {
	for _, f := range Region(fn) {
		if f == h {
			return true
		}
	}
	return false
}

func c1Errors(c *Ctx, rule string) {
	addTo := c.Method(CorePath, "Field", "AddTo")
	if c.Anchor(rule, "zapcore.Field.AddTo", addTo != nil) {
		name := FStr(addTo)
		// the tests that turn a non-nil error into the "<key>Error" string field
		keyD := PN(addTo.Params[0]) + ".Key"
		reportOf := func(iff *ssa.If) ssa.Value {
			bo, ok := iff.Cond.(*ssa.BinOp)
			if !ok || bo.Op != token.NEQ && bo.Op != token.EQL {
				return nil
			}
			x, y := bo.X, bo.Y
			if IsNilConst(x) {
				x, y = y, x
			}
			if !IsNilConst(y) || TStr(x.Type()) != "error" {
				return nil
			}
			errBlock := iff.Block().Succs[0]
			if bo.Op == token.EQL {
				errBlock = iff.Block().Succs[1]
			}
			found := false
			Bound(func() {
				var cands []ssa.Instruction
				for _, in := range errBlock.Instrs {
					cands = append(cands, in)
					if h := helperOf(in); h != nil {
						for _, hc := range CallsDeep(h) {
							cands = append(cands, hc)
						}
					}
				}
				for _, in := range cands {
					if cl, ok := in.(*ssa.Call); ok && cl.Call.IsInvoke() && FNm(cl.Call.Method) == "AddString" {
						k := Desc(cl.Call.Args[0])
						ev := cl.Call.Args[1]
						okV := false
						if ec, ok := ev.(*ssa.Call); ok && ec.Call.IsInvoke() && FNm(ec.Call.Method) == "Error" && FlowSet(x)[ec.Call.Value] || Desc(ev) == "Error("+Desc(x)+")" {
							okV = true
						}
						okK := k == "("+keyD+` + "Error")`
						if kc, ok := cl.Call.Args[0].(*ssa.Call); ok && IsCallTo(kc, "fmt.Sprintf") && Desc(kc.Call.Args[0]) == `"%sError"` {
							for _, e := range varargElems(kc.Call.Args[1]) {
								if Desc(Strip(e)) == keyD {
									okK = true
								}
							}
						}
						if okK && okV {
							found = true
						}
					}
				}
			})
			if found {
				return x
			}
			return nil
		}
		tests := map[ssa.Instruction]ssa.Value{}
		for _, f := range Region(addTo) {
			for _, b := range f.Blocks {
				if iff, ok := b.Instrs[len(b.Instrs)-1].(*ssa.If); ok {
					if x := reportOf(iff); x != nil {
						tests[iff] = x
					}
				}
			}
		}
		if len(tests) == 0 {
			c.Bad(rule, name, "err-test", addTo.Pos(), "no `err != nil` test that turns the error into the \"<key>Error\" string field")
		} else {
			var anyTest ssa.Instruction
			for t := range tests {
				anyTest = t
			}
			c.Triv(rule, name, "err-test", anyTest.Pos(), "found the error test")
			isTest := func(i ssa.Instruction) bool { _, ok := tests[i]; return ok }
			// every error-returning call flows into such a test, and cannot leave AddTo without passing it
			n := 0
			noEarly := true
			for _, cl := range CallsDeep(addTo) {
				call, ok := cl.(*ssa.Call)
				if !ok || TStr(call.Type()) != "error" || helperOf(call) != nil && curProgRoot(helperOf(call)) && len(Returns(helperOf(call))) > 0 && inRegion(addTo, helperOf(call)) && helperIsSplit(helperOf(call)) {
					continue
				}
				n++
				fs := FlowSet(call)
				feeds := false
				for _, x := range tests {
					if fs[x] {
						feeds = true
					}
				}
				escapes := ExistsPath(addTo, call, IsReturn, isTest)
				if escapes {
					noEarly = false
				}
				c.Check(feeds && !escapes, rule, name, "error-kept/"+FuncName(CalleeFunc(call))+"#"+itoa(n), call.Pos(), "the error returned by %s reaches the error test on every path (flows=%v, can leave untested=%v)", FuncName(CalleeFunc(call)), feeds, escapes)
			}
			c.Check(noEarly && n > 0, rule, name, "no-early-return", anyTest.Pos(), "every arm that can fail reaches the error test (no arm returns early)")
			c.Check(true, rule, name, "adds-key-error", anyTest.Pos(), "a non-nil error becomes enc.AddString(key+\"Error\", err.Error())")
		}
	}
	// errcheck over encoder / marshaler interface methods
	targets := map[string]bool{}
	for _, in := range []string{"ObjectEncoder", "ArrayEncoder", "ObjectMarshaler", "ArrayMarshaler", "PrimitiveArrayEncoder"} {
		if nm := c.Named(CorePath, in); nm != nil {
			it, _ := nm.Underlying().(*types.Interface)
			for i := 0; i < it.NumMethods(); i++ {
				m := it.Method(i)
				sig := m.Type().(*types.Signature)
				if sig.Results().Len() == 1 && TStr(sig.Results().At(0).Type()) == "error" {
					targets[FNm(m)] = true
				}
			}
		}
	}
	nCalls := 0
	c.EachRootFunc(func(fn *ssa.Function) {
		for _, cl := range Calls(fn) {
			call, ok := cl.(*ssa.Call)
			if !ok {
				continue
			}
			f := CalleeFunc(call)
			if f == nil || !targets[FNm(f)] || TStr(call.Type()) != "error" {
				continue
			}
			if f.Pkg() == nil || !strings.HasPrefix(f.Pkg().Path(), ZapPath) {
				continue
			}
			nCalls++
			used := false
			if call.Referrers() != nil {
				for _, r := range *call.Referrers() {
					if _, isDbg := r.(*ssa.DebugRef); !isDbg {
						used = true
					}
				}
			}
			ord := 0
			for _, o := range Calls(fn) {
				if o == cl {
					break
				}
				if CalleeFunc(o) == f {
					ord++
				}
			}
			c.Check(used, rule, FuncKey(fn), "result-used/"+FNm(f)+"#"+itoa(ord+1), call.Pos(), "the error returned by %s is propagated or folded, not dropped", FNm(f))
		}
	})
	if nCalls < 10 {
		c.Bad(rule, "encoder/marshaler calls", "count", token.NoPos, "only %d error-returning encoder/marshaler calls found", nCalls)
	}
}

// c1Brackets: bracket discipline of every entry point of the JSON encoder, by path exploration with the helpers that
// can write a bracket explored inline: on every path the brackets written form a balanced, properly nested sequence
// by the time the method returns (including the marshaler-error path); the only exception is OpenNamespace, whose
// '{' is recorded in openNamespaces and closed by closeOpenNamespaces.
func c1Brackets(c *Ctx, rule string) {
	isBracket := func(x byte) bool { return x == '{' || x == '}' || x == '[' || x == ']' }
	mayBracket := map[*ssa.Function]bool{}
	hasLoop := func(f *ssa.Function) bool {
		for _, b := range f.Blocks {
			if LoopHeader(b) == b {
				return true
			}
		}
		return false
	}
	funcs := coreFuncs(c)
	for _, fn := range funcs {
		rn := RecvNamed(fn)
		if rn == nil || FNm(rn.Obj()) != "jsonEncoder" {
			continue
		}
		AllInstrs(fn, func(in ssa.Instruction) {
			if alts, ok := constWrite(c, in); ok {
				for _, a := range alts {
					for _, x := range a {
						if isBracket(x) {
							mayBracket[fn] = true
						}
					}
				}
			}
		})
	}
	for changed := true; changed; {
		changed = false
		for _, fn := range funcs {
			for _, cl := range Calls(fn) {
				if sc := StaticCallee(cl); sc != nil && mayBracket[sc] && Eligible(sc) && !hasLoop(sc) && !mayBracket[fn] {
					mayBracket[fn], changed = true, true
				}
			}
		}
	}
	cn := c.Method(CorePath, "jsonEncoder", "closeOpenNamespaces")
	// closers: functions that only ever write '}' (in a loop, or by calling such a function): they close what the
	// namespace counter counts; whether they close the right number is decided by the namespace-accounting rule
	closers := map[*ssa.Function]bool{}
	if cn != nil {
		closers[cn] = true
	}
	for _, fn := range funcs {
		rn := RecvNamed(fn)
		if rn == nil || FNm(rn.Obj()) != "jsonEncoder" || !mayBracket[fn] {
			continue
		}
		onlyClose, any := true, false
		AllInstrs(fn, func(in ssa.Instruction) {
			if alts, ok := constWrite(c, in); ok {
				for _, a := range alts {
					for _, x := range a {
						if isBracket(x) {
							any = true
							if x != '}' {
								onlyClose = false
							}
						}
					}
				}
			}
		})
		if any && onlyClose && hasLoop(fn) {
			closers[fn] = true
		}
	}
	n := 0
	for _, fn := range funcs {
		rn := RecvNamed(fn)
		if rn == nil || FNm(rn.Obj()) != "jsonEncoder" || !mayBracket[fn] || closers[fn] || fn.Parent() != nil {
			continue
		}
		if Eligible(fn) && !hasLoop(fn) {
			continue // explored inline at its call sites
		}
		name := FStr(fn)
		seqs, trunc := ConcPaths(fn, ConcCfg{
			Prune: true, MaxStates: 300000,
			Inline: func(h *ssa.Function) bool { return mayBracket[h] && !hasLoop(h) && !closers[h] },
			Event: func(in ssa.Instruction, st *ConcState) string {
				switch x := in.(type) {
				case *ssa.Call:
					if sc := StaticCallee(x); sc != nil && closers[sc] {
						return "closeNS"
					}
					f := CalleeFunc(x)
					if f == nil {
						return ""
					}
					if x.Call.IsInvoke() && (FNm(f) == "MarshalLogObject" || FNm(f) == "MarshalLogArray") {
						return "marshal"
					}
					if f.Pkg() == nil || f.Pkg().Path() != "go.uber.org/zap/buffer" {
						return ""
					}
					args := Args(x)
					if len(args) != 2 || !encBufRecv(c, args[0]) {
						return ""
					}
					switch FNm(f) {
					case "AppendByte", "WriteByte":
						if k, ok := st.Int(args[1]); ok && isBracket(byte(k)) {
							return string(rune(k))
						}
					case "AppendString", "WriteString":
						if b, ok := constBytes(args[1]); ok {
							out := ""
							for _, ch := range b {
								if isBracket(ch) {
									out += string(rune(ch))
								}
							}
							return out
						}
					}
				case *ssa.Store:
					if fa, ok := x.Addr.(*ssa.FieldAddr); ok && fieldName(fa.X.Type(), fa.Field) == "openNamespaces" {
						if bo, ok := x.Val.(*ssa.BinOp); ok && bo.Op == token.ADD {
							if k, ok := ConstInt(bo.Y); ok && k == 1 {
								return "ns++"
							}
						}
					}
				}
				return ""
			},
		})
		if trunc || len(seqs) == 0 {
			c.Und(rule, name, "brackets", fn.Pos(), "path exploration incomplete (%d sequences, truncated=%v)", len(seqs), trunc)
			continue
		}
		n++
		var bad []string
		for _, sq := range seqs {
			var stack []byte
			why := ""
			evs := strings.Split(sq, " ; ")
			for i, e := range evs {
				if e == "closeNS" || e == "marshal" || e == "" {
					continue
				}
				if e == "ns++" {
					// the preceding '{' is owned by the namespace counter
					if len(stack) > 0 && stack[len(stack)-1] == '{' && i > 0 {
						stack = stack[:len(stack)-1]
					} else {
						why = "openNamespaces incremented without a '{' written"
					}
					continue
				}
				for _, ch := range []byte(e) {
					switch ch {
					case '{', '[':
						stack = append(stack, ch)
					case '}', ']':
						want := byte('{')
						if ch == ']' {
							want = '['
						}
						if len(stack) == 0 || stack[len(stack)-1] != want {
							why = "closer " + string(rune(ch)) + " without its opener"
						} else {
							stack = stack[:len(stack)-1]
						}
					}
				}
			}
			if why == "" && len(stack) > 0 {
				why = "returns with " + string(stack) + " still open"
			}
			if why != "" {
				bad = append(bad, why+" ("+sq+")")
			}
		}
		if len(bad) > 3 {
			bad = append(bad[:3:3], "… "+itoa(len(bad)-3)+" more")
		}
		c.Check(len(bad) == 0, rule, name, "brackets-balanced", fn.Pos(), "on each of the %d paths (helpers inline, incl. the marshaler-error path) the brackets this method writes are balanced and properly nested when it returns; a namespace's '{' is handed to the openNamespaces counter: %v", len(seqs), bad)
	}
	if n < 3 {
		c.Bad(rule, "bracket-writing entry points", "count", token.NoPos, "expected at least 3 entry points of the JSON encoder that write brackets, found %d", n)
	}
}

// escapedBytes: v is the content of an encoder's line buffer (x.buf.Bytes()), the result of encodeReflected, the null
// literal - or a parameter of an unexported helper every call site of which passes such bytes.
func escapedBytes(v ssa.Value, depth int) bool {
	if depth > 4 {
		return false
	}
	switch x := Strip(v).(type) {
	case *ssa.Const:
		return x.Value == nil // a nil slice: nothing is written
	case *ssa.Call:
		if f := CalleeFunc(x); f != nil && FNm(f) == "Bytes" && f.Pkg() != nil && f.Pkg().Path() == "go.uber.org/zap/buffer" {
			if args := Args(x); len(args) == 1 {
				if ld, ok := args[0].(*ssa.UnOp); ok && ld.Op == token.MUL {
					if fa, isFA := ld.X.(*ssa.FieldAddr); isFA && fieldName(fa.X.Type(), fa.Field) == "buf" {
						return true
					}
				}
			}
		}
	case *ssa.Extract:
		if cl, ok := x.Tuple.(*ssa.Call); ok && x.Index == 0 {
			if f := CalleeFunc(cl); f != nil && FNm(f) == "encodeReflected" {
				return true
			}
		}
	case *ssa.Parameter:
		f := x.Parent()
		if f == nil || !Eligible(f) {
			return false
		}
		idx := -1
		for i, q := range f.Params {
			if q == x {
				idx = i
			}
		}
		sites := sitesOf(f)
		if idx < 0 || len(sites) == 0 {
			return false
		}
		for _, s := range sites {
			args := Args(s)
			if idx >= len(args) || !escapedBytes(args[idx], depth+1) {
				return false
			}
		}
		return true
	case *ssa.Phi:
		for _, e := range x.Edges {
			if !escapedBytes(e, depth+1) {
				return false
			}
		}
		return len(x.Edges) > 0
	}
	return false
}

// c1NoRecoverAroundStructure: a function of the library that recovers from panics (a deferred literal or function that
// calls recover itself) hands no encoder a composite to write in the protected region. AddObject / AddArray /
// AppendObject / AppendArray write the key and the opening delimiter before they run the user's marshaler: a panic
// recovered around them leaves the delimiter unclosed in the buffer, and the entry - completed as if nothing had
// happened - reaches the sink unbalanced. (Recovering around String()/Error() is fine: nothing was written yet.)
func c1NoRecoverAroundStructure(c *Ctx, rule string) {
	composite := map[string]bool{"AddObject": true, "AddArray": true, "AppendObject": true, "AppendArray": true, "OpenNamespace": true}
	n := 0
	var bad []string
	c.EachRootFunc(func(fn *ssa.Function) {
		if fn.Pkg == nil || fn.Parent() != nil {
			return
		}
		var rec *ssa.Defer
		AllInstrs(fn, func(i ssa.Instruction) {
			df, ok := i.(*ssa.Defer)
			if !ok {
				return
			}
			var g *ssa.Function
			if mk, ok := df.Call.Value.(*ssa.MakeClosure); ok {
				g, _ = mk.Fn.(*ssa.Function)
			} else if sc := df.Call.StaticCallee(); sc != nil && len(sc.Blocks) > 0 {
				g = sc
			}
			if g == nil {
				return
			}
			for _, c2 := range Calls(g) {
				if CallBuiltin(c2) == "recover" {
					rec = df
				}
			}
		})
		if rec == nil {
			return
		}
		n++
		for _, cl := range CallsDeep(fn) {
			cc := cl.Common()
			if !cc.IsInvoke() || !composite[cc.Method.Name()] {
				continue
			}
			tn := TypeName(cc.Value.Type())
			if !strings.HasSuffix(tn, "zapcore.ObjectEncoder") && !strings.HasSuffix(tn, "zapcore.ArrayEncoder") && !strings.HasSuffix(tn, "zapcore.Encoder") {
				continue
			}
			// (a marshaler of the library's own - the error-list wrapper, whose elements are encoded under a recover
			// of their own before anything is written - is no user code)
			own := false
			if len(cc.Args) > 0 {
				if mi, isMI := cc.Args[len(cc.Args)-1].(*ssa.MakeInterface); isMI {
					if nt, isN := types.Unalias(deref(mi.X.Type())).(*types.Named); isN && nt.Obj().Pkg() != nil && strings.HasPrefix(nt.Obj().Pkg().Path(), ZapPath) {
						own = true
					}
				}
			}
			if own {
				continue
			}
			bad = append(bad, FuncKey(fn)+": "+cc.Method.Name()+" at "+c.Pos(cl.Pos()))
		}
	})
	c.Check(len(bad) == 0 && n >= 2, rule, "recovering functions", "no-composite-under-recover", token.NoPos, "%d functions of the library recover from panics; none of them hands an encoder a composite (AddObject, AddArray, AppendObject, AppendArray, OpenNamespace) inside the protected region - a recovered panic would leave the opening delimiter unclosed: %v", n, bad)
}

// returnsJSONEncoder: h is a helper of zapcore whose single result is a *jsonEncoder (clone, cloneWith).
func returnsJSONEncoder(c *Ctx, h *ssa.Function) bool {
	je := c.Named(CorePath, "jsonEncoder")
	if je == nil || h.Signature.Results().Len() != 1 || h.Object() == nil || h.Object().Exported() {
		return false
	}
	n, _ := types.Unalias(deref(h.Signature.Results().At(0).Type())).(*types.Named)
	return n != nil && n.Obj() == je.Obj()
}
