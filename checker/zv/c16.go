package zv

import (
	"go/ast"
	"go/constant"
	"go/token"
	"go/types"
	"regexp"
	"sort"
	"strconv"
	"strings"

	"golang.org/x/tools/go/ssa"
)

func init() {
	Props["C16"] = Prop{
		Title: "Console encoder lines have the documented shape with a valid JSON context",
		Fn:    checkC16,
		Explanation: "Decides the console line's structure. The metadata columns are collected in the order time, level, name, caller, function, each under exactly its presence rule (guard-set equality). The grammar of the line itself is decided by exploring every path of consoleEncoder.EncodeEntry (its own helpers inline, the join loop walked for up to three columns, deferred functions run at their function's return) and matching the writes to the line buffer against: columns joined by the configured separator placed before every column but the first; [separator iff the line is non-empty, message]; the context rendered on a COPYING clone of the embedded spaced JSON encoder (it carries the With-context bytes) that receives the call-site fields and closes its open namespaces before its emptiness is tested, and, if non-empty, written as separator-iff-non-empty '{' bytes '}'; the clone's buffer freed and the clone recycled only after its bytes were copied; [newline, stack]; line ending last. The context's own well-formedness reduces to the JSON encoder's rules (C01), which cover the same methods. The constructor defaults the separator to a tab and builds the JSON part in spaced mode; every optional column encoder call is nil-guarded; encoding never stores through the shared encoder. " +
			"Also decided: consoleEncoder.Clone carries the context bytes, configuration, spacing and the open-namespace count of the encoder it copies (the context it later renders is the JSON encoder's). " +
			"NOT decided: what user column encoders print, fmt.Fprint of column elements, lines with more than three metadata columns beyond the per-column step.",
		Assumptions: commonAssumptions,
	}
}

func checkC16(c *Ctx) {
	c.Rule("R16.1", "column order and presence guards in consoleEncoder.EncodeEntry", 12)
	c.Rule("R16.2", "separators only between non-empty parts; constructor defaults", 2)
	c.Rule("R16.3", "context rendered by a clone of the spaced JSON encoder, namespaces closed before the emptiness test, braces, released", 3)
	c.Rule("R16.6", "encoder constructors keep the given configuration apart from the documented defaults; effective line ending", 4)
	c16Constructor(c, "R16.6")
	c.Rule("R16.5", "the console encoder's Clone carries context bytes, configuration, spacing and the open-namespace count (the context it later renders is the JSON encoder's)", 2)
	c7CloneCarries(c, "R16.5")
	c.Rule("R16.4", "optional column encoders are nil-guarded", 6)
	c.Rule("R16.9", "every built-in level/time/duration/caller/name encoder appends exactly one element on every path (one column; in JSON the one value of its key)", 15)
	c16BuiltinEncodersAppendOnce(c, "R16.9")
	c.Rule("R16.8", "the column collector stores what it is given as values of its own: bytes as a string copy, nested values in fresh containers (a view of a sub-encoder's scratch buffer would be rewritten by the next column before the line is printed)", 20)
	c.As(map[string]string{"R2.3": "R16.8"}, func() { c2Reference(c) })
	c.Rule("R16.10", "the context object is valid JSON: strings, times and layouts written by the JSON encoder reach the line escaped (the console context is the JSON encoder's output)", 27)
	c1Taint(c, "R16.10")
	c.Rule("R16.7", "the pooled column encoder (and every other pooled object) is not used, and nothing that points into its storage is returned, after it went back to its pool", 8)
	c8UseAfterRelease(c, "R16.7", c8ReleaseFns(c))

	fn := c.Method(CorePath, "consoleEncoder", "EncodeEntry")
	if !c.Anchor("R16.1", "zapcore.consoleEncoder.EncodeEntry", fn != nil) {
		return
	}
	name := FStr(fn)
	type site struct {
		n    string
		in   ssa.Instruction
		want []string
	}
	var sites []site
	entParam = "ent"
	if len(fn.Params) >= 2 {
		entParam = PN(fn.Params[1])
	}
	defer func() { entParam = "ent" }()
	bd := func(v ssa.Value) string {
		var d string
		Bound(func() { d = Desc(v) })
		return normEnt(d)
	}
	for _, cl := range CallsDeep(fn) {
		call, ok := cl.(*ssa.Call)
		if !ok {
			continue
		}
		args := Args(call)
		f := CalleeFunc(call)
		if f == nil {
			// calls through config function fields / the name-encoder phi
			if fld, ok := optionalField(call.Call.Value); ok && len(call.Call.Args) == 2 {
				p := bd(call.Call.Args[0])
				switch {
				case fld == "EncodeTime" && p == "ent.Time":
					sites = append(sites, site{"time", call, []string{`!IsZero(ent.Time)`, `cfg.EncodeTime != nil`, `cfg.TimeKey != ""`}})
				case fld == "EncodeLevel" && p == "ent.Level":
					sites = append(sites, site{"level", call, []string{`cfg.EncodeLevel != nil`, `cfg.LevelKey != ""`}})
				case fld == "EncodeName" && p == "ent.LoggerName":
					sites = append(sites, site{"name", call, []string{`cfg.NameKey != ""`, `ent.LoggerName != ""`}})
				case fld == "EncodeCaller" && p == "ent.Caller":
					sites = append(sites, site{"caller", call, []string{`cfg.CallerKey != ""`, `cfg.EncodeCaller != nil`, `ent.Caller.Defined`}})
				default:
					c.Bad("R16.1", name, "column/"+fld, call.Pos(), "column encoder %s is applied to %s", fld, p)
				}
			}
			continue
		}
		switch {
		case FNm(f) == "FullNameEncoder" && len(args) == 2 && bd(args[0]) == "ent.LoggerName":
			// the default name encoder called directly (instead of through a defaulted function value)
			sites = append(sites, site{"name", call, []string{`cfg.NameKey != ""`, `ent.LoggerName != ""`}})
		case FNm(f) == "AppendString" && len(args) == 2 && bd(args[1]) == "ent.Caller.Function":
			sites = append(sites, site{"function", call, []string{`cfg.FunctionKey != ""`, `ent.Caller.Defined`}})
		case FNm(f) == "AppendString" && len(args) == 2 && bd(args[1]) == "ent.Message":
			sites = append(sites, site{"message", call, []string{`cfg.MessageKey != ""`}})
		case FNm(f) == "AppendString" && len(args) == 2 && bd(args[1]) == "ent.Stack":
			sites = append(sites, site{"stack", call, []string{`cfg.StacktraceKey != ""`, `ent.Stack != ""`}})
		case FNm(f) == "AppendString" && len(args) == 2 && strings.HasSuffix(Desc(args[1]), ".LineEnding"):
			sites = append(sites, site{"line-ending", call, []string{}})
		case FNm(f) == "writeContext":
			sites = append(sites, site{"context", call, []string{}})
			okF := false
			for _, a := range args {
				okF = okF || Strip(a) == ssa.Value(fn.Params[2])
			}
			c.Check(okF, "R16.1", name, "context-fields", call.Pos(), "the context receives the call-site fields")
		case FNm(f) == "Fprint":
			sites = append(sites, site{"join", call, nil})
		}
	}
	order := []string{"time", "level", "name", "caller", "function", "join", "message", "context", "stack", "line-ending"}
	by := map[string]site{}
	all := map[string][]site{}
	for _, s := range sites {
		by[s.n] = s
		all[s.n] = append(all[s.n], s)
	}
	for _, n := range order {
		s, ok := by[n]
		if !ok {
			c.Bad("R16.1", name, "site/"+n, fn.Pos(), "no emission site for the %s part", n)
			continue
		}
		if s.want == nil {
			continue
		}
		// a part may be emitted at several sites (e.g. one per branch of a nil test): their guard sets are merged
		var sets [][]string
		Bound(func() {
			for _, st := range all[n] {
				var got []string
				for _, a := range AtomStrings(Guards(st.in)) {
					if strings.Contains(a, "rangeindex") {
						continue // after the join loop
					}
					a = normCfg(a)
					a = strings.ReplaceAll(a, PN(fn.Params[0])+".jsonEncoder.", "")
					got = append(got, a)
				}
				sets = append(sets, uniqSorted(got))
			}
		})
		sets = mergeGuardSets(sets)
		if len(s.want) == 0 && len(all[n]) > 1 {
			// an unconditional part written at several sites (one per exit after an early return): it is present under no
			// condition when no path from the entry to a return avoids all of them
			isSite := func(i ssa.Instruction) bool {
				for _, st := range all[n] {
					if i == st.in {
						return true
					}
				}
				return false
			}
			if WitnessPath(fn, nil, IsReturn, isSite) == nil {
				sets = [][]string{{}}
			}
		}
		want := append([]string{}, s.want...)
		sort.Strings(want)
		var gotS []string
		for _, g := range sets {
			gotS = append(gotS, strings.Join(g, " ∧ "))
		}
		c.Check(len(sets) == 1 && strings.Join(sets[0], " ∧ ") == strings.Join(want, " ∧ "), "R16.1", name, "guards/"+n, s.in.Pos(), "the %s part is present exactly under {%s}; found {%s}", n, strings.Join(want, ", "), strings.Join(gotS, " | "))
	}
	is := func(x ssa.Instruction) func(ssa.Instruction) bool {
		return func(i ssa.Instruction) bool { return i == x }
	}
	for i := 0; i+1 < len(order); i++ {
		a, okA := by[order[i]]
		b, okB := by[order[i+1]]
		if !okA || !okB {
			continue
		}
		fwd := ExistsPath(fn, a.in, is(b.in), nil)
		back := ExistsPath(fn, b.in, is(a.in), nil)
		if order[i] == "join" || order[i+1] == "join" {
			// the join loop may iterate; order relative to the loop as a whole
			back = false
			if order[i+1] == "join" {
				back = ExistsPath(fn, b.in, is(a.in), nil)
			} else {
				back = ExistsPath(fn, b.in, is(a.in), nil)
			}
		}
		c.Check(fwd && !back, "R16.1", name, "order/"+order[i]+"≺"+order[i+1], a.in.Pos(), "%s precedes %s", order[i], order[i+1])
	}
	// columns go to the pooled slice encoder, stack preceded by newline, line ending last write
	if s, ok := by["stack"]; ok {
		nl := false
		for _, in := range s.in.Block().Instrs {
			if cl, ok := in.(*ssa.Call); ok && cl != s.in {
				if f := CalleeFunc(cl); f != nil && FNm(f) == "AppendByte" {
					if b, ok := constBytes(Args(cl)[1]); ok && b[0] == '\n' && Dominates(cl, s.in) {
						nl = true
					}
				}
			}
		}
		c.Check(nl, "R16.1", name, "stack-on-next-line", s.in.Pos(), "the stack trace starts on the line after the entry")
	}
	// ---------------- R16.2 / R16.3: the grammar of the line, by path exploration ----------------
	c16Grammar(c, fn)
	nc := c.Func(CorePath, "NewConsoleEncoder")
	if c.Anchor("R16.2", "zapcore.NewConsoleEncoder", nc != nil) {
		okDef, okSpaced := false, false
		AllInstrs(nc, func(in ssa.Instruction) {
			if st, ok := in.(*ssa.Store); ok && strings.HasSuffix(Desc(st.Addr), ".ConsoleSeparator") {
				// the tab is stored exactly when the configured separator (of the config or of the encoder built from it) is empty
				isTab := false
				if sv, ok := ConstString(st.Val); ok && sv == "\t" {
					isTab = true
				}
				g := AtomStrings(Guards(st))
				okG := len(g) == 1 && strings.HasSuffix(g[0], `.ConsoleSeparator == ""`)
				okDef = isTab && okG
			}
			if cl, ok := in.(*ssa.Call); ok {
				if f := CalleeFunc(cl); f != nil && FNm(f) == "newJSONEncoder" {
					okSpaced = Desc(cl.Call.Args[1]) == "true"
				}
			}
		})
		c.Check(okDef && okSpaced, "R16.2", FStr(nc), "defaults", nc.Pos(), "an empty separator defaults to a tab and the JSON part is built in spaced mode")
	}
	c9EncoderPurity(c, "R16.3")
	// ---------------- R16.4 ----------------
	c1NilGuards(c, "R16.4", false)
}

// negAtomStr returns the textual negation of a normalised control atom.
func negAtomStr(a string) string {
	if strings.HasPrefix(a, "!") {
		return a[1:]
	}
	for _, p := range [][2]string{{" != ", " == "}, {" == ", " != "}, {" >= ", " < "}, {" < ", " >= "}} {
		if i := strings.LastIndex(a, p[0]); i > 0 && !strings.ContainsAny(a[i+len(p[0]):], "()") || i > 0 && strings.HasSuffix(a, `""`) {
			return a[:i] + p[1] + a[i+len(p[0]):]
		}
	}
	if strings.HasSuffix(a, " > 0") {
		return strings.TrimSuffix(a, " > 0") + " == 0"
	}
	return "!" + a
}

// mergeGuardSets simplifies a disjunction of conjunctions: two conjunctions
// that differ only in one atom and its negation are replaced by their common part.
func mergeGuardSets(sets [][]string) [][]string {
	for changed := true; changed; {
		changed = false
	outer:
		for i := 0; i < len(sets); i++ {
			for j := i + 1; j < len(sets); j++ {
				a, b := sets[i], sets[j]
				if len(a) != len(b) {
					continue
				}
				inB := map[string]bool{}
				for _, x := range b {
					inB[x] = true
				}
				var onlyA []string
				var common []string
				for _, x := range a {
					if inB[x] {
						common = append(common, x)
					} else {
						onlyA = append(onlyA, x)
					}
				}
				if len(onlyA) == 0 {
					// identical
					sets = append(sets[:j], sets[j+1:]...)
					changed = true
					break outer
				}
				if len(onlyA) != 1 || len(common) != len(a)-1 {
					continue
				}
				var onlyB string
				inA := map[string]bool{}
				for _, x := range a {
					inA[x] = true
				}
				for _, x := range b {
					if !inA[x] {
						onlyB = x
					}
				}
				if negAtomStr(onlyA[0]) == onlyB || negAtomStr(onlyB) == onlyA[0] {
					sets[i] = common
					sets = append(sets[:j], sets[j+1:]...)
					changed = true
					break outer
				}
			}
		}
	}
	return sets
}

// c16Grammar explores every path of consoleEncoder.EncodeEntry (its own helpers inline, the join loop walked for up
// to three columns) and matches the sequence of writes to the line against the documented shape:
//
//	columns joined by the separator (before every column but the first),
//	[separator-if-the-line-is-non-empty message],
//	context rendered on a copying clone of the embedded JSON encoder: fields added, namespaces closed, THEN tested
//	for emptiness; if non-empty: separator-if-non-empty '{' bytes '}',
//	[newline stack], line ending.
func c16Grammar(c *Ctx, fn *ssa.Function) {
	name := FStr(fn)
	je := c.Named(CorePath, "jsonEncoder")
	jClone := c.Method(CorePath, "jsonEncoder", "Clone")
	if !c.Anchor("R16.3", "zapcore.jsonEncoder.Clone", je != nil && jClone != nil) {
		return
	}
	// functions that produce a clone holding a copy of the parent's context bytes
	copying := map[*ssa.Function]bool{jClone: true}
	for _, f := range Region(jClone) {
		for _, g := range Region(f) {
			for _, cl := range Calls(g) {
				if IsCallTo(cl, "(*go.uber.org/zap/buffer.Buffer).Write", "(*go.uber.org/zap/buffer.Buffer).AppendBytes") {
					copying[f] = true
				}
			}
		}
	}
	var lineV ssa.Value
	for _, cl := range Calls(fn) {
		if c2, ok := cl.(*ssa.Call); ok && isFreshBuffer(c2) && lineV == nil {
			lineV = c2
		}
	}
	if lineV == nil {
		c.Und("R16.2", name, "line-buffer", fn.Pos(), "cannot find the line buffer (bufferpool.Get())")
		return
	}
	resolve := func(st *ConcState, v ssa.Value) ssa.Value {
		v = Strip(v)
		for k := 0; k < 12; k++ {
			nx := st.Step(v)
			if nx == nil {
				break
			}
			v = Strip(nx)
		}
		return v
	}
	isLine := func(st *ConcState, v ssa.Value) bool {
		r := resolve(st, v)
		if r == lineV {
			return true
		}
		// a small struct wrapped around the line buffer (the buffer embedded next to settings for writing to it)
		if mi, ok := r.(*ssa.MakeInterface); ok {
			r = resolve(st, mi.X)
		}
		if _, isS := types.Unalias(deref(r.Type())).Underlying().(*types.Struct); isS {
			if _, _, fv := st.FieldOf(r, "Buffer"); fv != nil && resolve(st, fv) == lineV {
				return true
			}
			for _, fv := range st.FieldValsOf(r) {
				if resolve(st, fv) == lineV {
					return true
				}
			}
		}
		return false
	}
	// v is (a field/bytes of) the clone made on this path
	var fromClone func(st *ConcState, v ssa.Value, d int) bool
	fromClone = func(st *ConcState, v ssa.Value, d int) bool {
		if d > 8 {
			return false
		}
		v = resolve(st, v)
		switch x := v.(type) {
		case *ssa.Call:
			if sc := StaticCallee(x); sc != nil && copying[sc] {
				return true
			}
			if x.Call.IsInvoke() && FNm(x.Call.Method) == "Clone" {
				return true
			}
			if f := CalleeFunc(x); f != nil && (FNm(f) == "Bytes" || FNm(f) == "Len") && len(Args(x)) == 1 {
				return fromClone(st, Args(x)[0], d+1)
			}
			if CallBuiltin(x) == "len" {
				return fromClone(st, x.Call.Args[0], d+1)
			}
		case *ssa.TypeAssert:
			return fromClone(st, x.X, d+1)
		case *ssa.UnOp:
			return fromClone(st, x.X, d+1)
		case *ssa.FieldAddr:
			return fromClone(st, x.X, d+1)
		case *ssa.MakeInterface:
			return fromClone(st, x.X, d+1)
		}
		return false
	}
	cut := 0
	seqs, trunc := ConcPaths(fn, ConcCfg{
		MaxIter: 3, Cut: &cut, Prune: true, MaxStates: 400000,
		Inline: func(h *ssa.Function) bool {
			switch FNm(h) {
			case "addFields", "putJSONEncoder", "getSliceEncoder", "putSliceEncoder", "closeOpenNamespaces":
				return false
			}
			if rn := RecvNamed(h); rn != nil && FNm(rn.Obj()) == "jsonEncoder" {
				// a method of the JSON encoder is explored only when it is a wrapper around the steps this rule
				// watches (addFields, closeOpenNamespaces, the release of the clone); its own encoding work is not
				return jsonStepWrapper(h, 0)
			}
			return true
		},
		Event: func(in ssa.Instruction, st *ConcState) string {
			call, ok := in.(*ssa.Call)
			if !ok {
				return ""
			}
			args := Args(call)
			f := CalleeFunc(call)
			if f == nil {
				if _, ok := optionalField(resolve(st, call.Call.Value)); ok {
					return "col"
				}
				if _, ok := optionalField(call.Call.Value); ok {
					return "col"
				}
				return ""
			}
			if sc := StaticCallee(call); sc != nil && copying[sc] {
				if strings.HasSuffix(st.Desc(args[0]), ".jsonEncoder") {
					return "clone"
				}
				return "clone?" + st.Desc(args[0])
			}
			if call.Call.IsInvoke() && FNm(f) == "Clone" {
				return "clone?" + st.Desc(call.Call.Value)
			}
			switch FNm(f) {
			case "FullNameEncoder":
				return "col"
			case "addFields":
				if fromClone(st, args[0], 0) && resolve(st, args[1]) == ssa.Value(fn.Params[2]) {
					return "fields"
				}
				return "fields?" + st.Desc(args[0])
			case "closeOpenNamespaces":
				if fromClone(st, args[0], 0) {
					return "closeNS"
				}
				return "closeNS?" + st.Desc(args[0])
			case "putJSONEncoder":
				if fromClone(st, args[0], 0) {
					return "put"
				}
				return "put?" + st.Desc(args[0])
			case "Free":
				if len(args) == 1 && fromClone(st, args[0], 0) {
					return "free"
				}
			case "Fprint":
				if len(args) > 0 && isLine(st, args[0]) {
					return "elem"
				}
			}
			if f.Pkg() == nil || f.Pkg().Path() != "go.uber.org/zap/buffer" || len(args) == 0 {
				if FNm(f) == "AppendString" && call.Call.IsInvoke() && len(args) == 1 {
					return "col" // onto the column (array) encoder
				}
				return ""
			}
			if !isLine(st, args[0]) {
				return ""
			}
			switch FNm(f) {
			case "AppendString", "WriteString":
				d := st.Desc(args[1])
				if r := resolve(st, args[1]); r != args[1] {
					// a copy kept in a local (the separator remembered next to the line): what it was copied from
					if rd := st.Desc(r); strings.HasSuffix(rd, ".ConsoleSeparator") || strings.HasSuffix(rd, ".LineEnding") {
						d = rd
					}
				}
				switch {
				case strings.HasSuffix(d, ".ConsoleSeparator"):
					return "sep"
				case d == PN(fn.Params[1])+".Message":
					return "msg"
				case d == PN(fn.Params[1])+".Stack":
					return "stack"
				case strings.HasSuffix(d, ".LineEnding"):
					return "eol"
				case strings.Contains(d, ".elems[") || strings.Contains(d, "elems["):
					return "elem" // a column that is a plain string is written as is (what fmt.Fprint would print)
				}
				return "str?" + d
			case "AppendByte", "WriteByte":
				if k, ok := st.Int(args[1]); ok {
					switch byte(k) {
					case '{':
						return "{"
					case '}':
						return "}"
					case '\n':
						return "nl"
					}
					return "byte?" + itoa(int(k))
				}
				return "byte?"
			case "Write", "AppendBytes":
				if fromClone(st, args[1], 0) {
					return "ctx"
				}
				return "bytes?" + st.Desc(args[1])
			case "Len", "Bytes", "String", "Cap":
				return ""
			}
			return "line." + FNm(f)
		},
		Branch: func(cond ssa.Value, taken bool, st *ConcState) string {
			pol := taken
			for k := 0; k < 8; k++ {
				if u, ok := cond.(*ssa.UnOp); ok && u.Op == token.NOT {
					cond, pol = u.X, !pol
					continue
				}
				if nx := st.Step(cond); nx != nil {
					cond = nx
					continue
				}
				break
			}
			bo, ok := cond.(*ssa.BinOp)
			if !ok {
				return ""
			}
			k, isC := ConstInt(bo.Y)
			if !isC || k != 0 {
				return ""
			}
			lenOf := resolve(st, bo.X)
			lc, isCall := lenOf.(*ssa.Call)
			if !isCall {
				return ""
			}
			var subject ssa.Value
			if f := CalleeFunc(lc); f != nil && FNm(f) == "Len" && len(Args(lc)) == 1 {
				subject = Args(lc)[0]
			} else if CallBuiltin(lc) == "len" {
				subject = lc.Call.Args[0]
			} else {
				return ""
			}
			nonEmpty := false
			switch bo.Op {
			case token.GTR, token.NEQ:
				nonEmpty = pol
			case token.EQL, token.LEQ:
				nonEmpty = !pol
			default:
				return ""
			}
			switch {
			case resolve(st, subject) == ssa.Value(fn.Params[2]):
				if nonEmpty {
					return "extra=T"
				}
				return "extra=F"
			case strings.HasSuffix(st.Desc(subject), PN(fn.Params[0])+".jsonEncoder.buf") || strings.HasSuffix(st.Desc(subject), PN(fn.Params[0])+".buf"):
				if nonEmpty {
					return "shared=T"
				}
				return "shared=F"
			case isLine(st, subject):
				if nonEmpty {
					return "lineNE=T"
				}
				return "lineNE=F"
			case fromClone(st, subject, 0):
				if nonEmpty {
					return "ctxempty=F"
				}
				return "ctxempty=T"
			}
			return ""
		},
	})
	if trunc || len(seqs) == 0 {
		c.Und("R16.2", name, "line-grammar", fn.Pos(), "path exploration incomplete (%d sequences, truncated=%v)", len(seqs), trunc)
		return
	}
	re := regexp.MustCompile(`^(col )*(elem (sep elem )*)?((lineNE=T sep |lineNE=F )msg )?(extra=F shared=F |shared=F extra=F |(extra=T |extra=F shared=T |shared=T |shared=F extra=T )?clone fields closeNS (ctxempty=T |ctxempty=F (lineNE=T sep |lineNE=F )\{ ctx \} )free put )(nl stack )?eol $`)
	var bad []string
	for _, sq := range seqs {
		toks := strings.Split(sq, " ; ")
		if sq == "" {
			toks = nil
		}
		if !re.MatchString(strings.Join(toks, " ") + " ") {
			bad = append(bad, sq)
		}
	}
	if len(bad) > 3 {
		bad = append(bad[:3:3], "… "+itoa(len(bad)-3)+" more")
	}
	c.Check(len(bad) == 0, "R16.2", name, "line-grammar", fn.Pos(), "each of the %d explored paths (own helpers inline, up to 3 columns; %d longer paths cut) writes: columns joined by the separator placed before every column but the first; [separator iff the line is non-empty, message]; the context on a copying clone of the embedded JSON encoder - call-site fields added, namespaces closed, then tested for emptiness, and if non-empty: separator iff the line is non-empty, '{', the clone's bytes, '}'; [newline, stack]; line ending. Offending: %v", len(seqs), cut, bad)
	c.Check(len(bad) == 0, "R16.3", name, "context-shape", fn.Pos(), "same exploration: the context is rendered by a copying clone (it carries the With-context bytes), never by the shared encoder, with the namespaces closed before the emptiness test")
	c.Check(len(bad) == 0, "R16.3", name, "clone-released-after-use", fn.Pos(), "same exploration (deferred functions run at their function's return): the clone's buffer is freed and the clone recycled on every path, and only after its bytes were copied into the line")
}

// c16Constructor: the encoder constructors keep the configuration they are given, apart from the documented defaults:
// an empty ConsoleSeparator becomes a tab, a missing NewReflectedEncoder the default one, and the effective line
// ending is "" when SkipLineEnding is set, the default when LineEnding is empty, LineEnding itself otherwise. Which
// sub-encoders are nil decides which console columns exist, so none may be filled in. By path exploration with
// SkipLineEnding fixed and the emptiness of LineEnding forked by the code's own test.
func c16Constructor(c *Ctx, rule string) {
	for _, fname := range []string{"newJSONEncoder", "NewConsoleEncoder", "NewJSONEncoder"} {
		fn := c.Func(CorePath, fname)
		if !c.Anchor(rule, "zapcore."+fname, fn != nil && len(fn.Params) >= 1) {
			continue
		}
		cfgN := PN(fn.Params[0])
		allowed := map[string]bool{"LineEnding": true, "NewReflectedEncoder": true, "ConsoleSeparator": true}
		var badStores, badLE []string
		nRet := 0
		for _, skip := range []int64{0, 1} {
			sk := skip
			seqs, trunc := ConcPaths(fn, ConcCfg{
				Conc: func(d string) (int64, bool) {
					if d == cfgN+".SkipLineEnding" || strings.HasSuffix(d, "cfg.SkipLineEnding") {
						return sk, true
					}
					return 0, false
				},
				Branch: func(cond ssa.Value, taken bool, st *ConcState) string {
					pol := taken
					for k := 0; k < 8; k++ {
						if u, ok := cond.(*ssa.UnOp); ok && u.Op == token.NOT {
							cond, pol = u.X, !pol
							continue
						}
						if nx := st.Step(cond); nx != nil {
							cond = nx
							continue
						}
						break
					}
					bo, ok := cond.(*ssa.BinOp)
					if !ok {
						return ""
					}
					l, r := st.Desc(bo.X), st.Desc(bo.Y)
					if strings.HasSuffix(l, ".LineEnding") && r == `""` && (bo.Op == token.EQL || bo.Op == token.NEQ) {
						if pol == (bo.Op == token.EQL) {
							return "le-empty=T"
						}
						return "le-empty=F"
					}
					if strings.HasPrefix(l, "len(") && strings.HasSuffix(l, ".LineEnding)") && r == "0" {
						if pol == (bo.Op == token.EQL) {
							return "le-empty=T"
						}
						return "le-empty=F"
					}
					return ""
				},
				Event: func(in ssa.Instruction, st *ConcState) string {
					x, ok := in.(*ssa.Store)
					if !ok {
						return ""
					}
					fa, ok := x.Addr.(*ssa.FieldAddr)
					if !ok || TypeName(deref(fa.X.Type())) != "zapcore.EncoderConfig" {
						return ""
					}
					f := fieldName(fa.X.Type(), fa.Field)
					if !allowed[f] {
						return "set(" + f + ")"
					}
					if f == "LineEnding" {
						v := x.Val
						for k := 0; k < 12; k++ {
							nx := st.Step(v)
							if nx == nil {
								break
							}
							v = nx
						}
						if s, isC := ConstString(v); isC {
							return "le=" + strconv.Quote(s)
						}
						if d := strings.TrimPrefix(st.Desc(x.Val), "&"); strings.HasSuffix(d, ".LineEnding") && !strings.ContainsAny(d, "( ") {
							return "le=given"
						}
						return "le=?" + st.Desc(x.Val)
					}
					return ""
				},
			})
			if trunc || len(seqs) == 0 {
				c.Und(rule, FStr(fn), "keeps-configuration", fn.Pos(), "path exploration incomplete")
				continue
			}
			defLE := ""
			if o, ok := c.Obj(CorePath, "DefaultLineEnding").(*types.Const); ok && o.Val().Kind() == constant.String {
				defLE = constant.StringVal(o.Val())
			}
			for _, sq := range seqs {
				nRet++
				empty, final := 0, "given"
				for _, t := range strings.Split(sq, " ; ") {
					switch {
					case strings.HasPrefix(t, "set("):
						badStores = append(badStores, t)
					case t == "le-empty=T":
						empty = 1
					case t == "le-empty=F":
						empty = -1
					case strings.HasPrefix(t, "le="):
						final = t[3:]
					}
				}
				want := "given"
				switch {
				case sk == 1:
					want = `""`
				case empty == 1:
					want = strconv.Quote(defLE)
				case empty == 0:
					want = "either" // the code did not look: only right if it leaves the line ending alone or defaults it under a test
				}
				ok := final == want || want == "either" && final == "given"
				if sk == 1 && final == "given" && empty == 1 {
					ok = true // an empty line ending left empty
				}
				if !ok {
					badLE = append(badLE, "SkipLineEnding="+itoa(int(sk))+": "+sq+" → line ending "+final+", expected "+want)
				}
			}
		}
		c.Check(len(badStores) == 0 && nRet > 0, rule, FStr(fn), "keeps-configuration", fn.Pos(), "the constructor changes nothing of the configuration it was given except LineEnding, NewReflectedEncoder and ConsoleSeparator (a sub-encoder that is nil stays nil: it decides whether a console column exists): %v", badStores)
		c.Check(len(badLE) == 0, rule, FStr(fn), "effective-line-ending", fn.Pos(), "the effective line ending is \"\" with SkipLineEnding, the default for an empty LineEnding, LineEnding itself otherwise: %v", badLE)
	}
}

// jsonStepWrapper: h (a method of jsonEncoder) calls - directly or through another such wrapper - addFields,
// closeOpenNamespaces or putJSONEncoder, and is not one of the encoder's interface methods.
func jsonStepWrapper(h *ssa.Function, d int) bool {
	if d > 3 || ast.IsExported(FNm(h)) || FNm(h) == "clone" {
		return false
	}
	for _, cl := range Calls(h) {
		sc := StaticCallee(cl)
		if sc == nil {
			continue
		}
		switch FNm(sc) {
		case "addFields", "closeOpenNamespaces", "putJSONEncoder":
			return true
		}
		if rn := RecvNamed(sc); rn != nil && FNm(rn.Obj()) == "jsonEncoder" && jsonStepWrapper(sc, d+1) {
			return true
		}
	}
	return false
}

// c16BuiltinEncodersAppendOnce: every built-in sub-encoder of zapcore (level, time, duration, caller and name
// encoders: the exported functions whose last parameter is a PrimitiveArrayEncoder) appends exactly one element on
// every path, also where one of them delegates to another. The console encoder turns each appended element into a
// column; the JSON encoder writes it as the value of the key it has just written: a second element is a stray
// column there and invalid JSON here, a missing one a key without a value.
func c16BuiltinEncodersAppendOnce(c *Ctx, rule string) {
	isBuiltin := func(f *ssa.Function) bool {
		if f == nil || f.Pkg == nil || f.Pkg.Pkg.Path() != CorePath || f.Parent() != nil || f.Signature.Recv() != nil || f.Signature.Results().Len() != 0 || len(f.Params) != 2 || len(f.Blocks) == 0 {
			return false
		}
		return strings.HasSuffix(TypeName(f.Params[1].Type()), "zapcore.PrimitiveArrayEncoder")
	}
	n := 0
	c.EachRootFunc(func(fn *ssa.Function) {
		if !isBuiltin(fn) || !token.IsExported(fn.Name()) {
			return
		}
		n++
		enc := fn.Params[1]
		resolve := func(st *ConcState, v ssa.Value) ssa.Value {
			for k := 0; k < 16; k++ {
				switch x := v.(type) {
				case *ssa.ChangeInterface:
					v = x.X
					continue
				case *ssa.MakeInterface:
					v = x.X
					continue
				case *ssa.TypeAssert:
					v = x.X
					continue
				case *ssa.Extract:
					if ta, ok := x.Tuple.(*ssa.TypeAssert); ok && x.Index == 0 {
						v = ta.X
						continue
					}
				}
				nx := st.Step(v)
				if nx == nil {
					break
				}
				v = nx
			}
			return v
		}
		seqs, trunc := ConcPaths(fn, ConcCfg{
			InlineAny: isBuiltin,
			Event: func(in ssa.Instruction, st *ConcState) string {
				x, ok := in.(*ssa.Call)
				if !ok || !x.Call.IsInvoke() || !strings.HasPrefix(x.Call.Method.Name(), "Append") {
					return ""
				}
				if resolve(st, x.Call.Value) == ssa.Value(enc) {
					return "a"
				}
				return ""
			},
		})
		var bad []string
		for _, sq := range seqs {
			if sq != "a" {
				bad = append(bad, "["+sq+"]")
			}
		}
		c.Check(!trunc && len(seqs) > 0 && len(bad) == 0, rule, FStr(fn), "appends-exactly-once", fn.Pos(), "on every path (delegation to another built-in encoder inline) exactly one element is appended: %v", uniqSorted(bad))
	})
	if n < 15 {
		c.Bad(rule, "built-in sub-encoders", "count", token.NoPos, "expected at least 15 built-in encoders, found %d", n)
	}
}
