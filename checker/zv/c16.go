package zv

import (
	"sort"
	"strings"

	"golang.org/x/tools/go/ssa"
)

func init() {
	Props["C16"] = Prop{
		Title: "Console encoder lines have the documented shape with a valid JSON context",
		Fn:    checkC16,
		Explanation: "Decides the console line's structure: the columns time, level, name, caller, function are collected in exactly this order, each under exactly its presence rule (key set, encoder set where one is needed, entry carries the value), joined with the configured separator only between elements; the message (whenever its key is set) and the context are each preceded by 'separator if the line is non-empty'; the context is rendered by a CLONE of the embedded spaced JSON encoder that receives the call-site fields, closes its open namespaces before the emptiness test, is wrapped in braces and released - so its well-formedness reduces to the JSON encoder's own rules (C01), which cover the same methods; the stack follows after a newline under its presence rule, and the line ending is last; the constructor defaults the separator to a tab and builds the JSON part in spaced mode; every optional column encoder call is nil-guarded. " +
			"NOT decided: what user column encoders print, fmt.Fprint of column elements.",
		Assumptions: commonAssumptions,
	}
}

func checkC16(c *Ctx) {
	c.Rule("R16.1", "column order and presence guards in consoleEncoder.EncodeEntry", 12)
	c.Rule("R16.2", "separators only between non-empty parts; constructor defaults", 3)
	c.Rule("R16.3", "context rendered by a clone of the spaced JSON encoder, namespaces closed before the emptiness test, braces, released", 6)
	c.Rule("R16.4", "optional column encoders are nil-guarded", 6)

	fn := c.Method(CorePath, "consoleEncoder", "EncodeEntry")
	wc := c.Method(CorePath, "consoleEncoder", "writeContext")
	if !c.Anchor("R16.1", "zapcore.consoleEncoder.EncodeEntry/writeContext", fn != nil && wc != nil) {
		return
	}
	name := fn.String()
	type site struct {
		n    string
		in   ssa.Instruction
		want []string
	}
	var sites []site
	bd := func(v ssa.Value) string {
		var d string
		Bound(func() { d = Desc(v) })
		return d
	}
	for _, cl := range CallsDeep(fn) {
		call, ok := cl.(*ssa.Call)
		if !ok {
			continue
		}
		args := Args(call)
		f := CalleeFunc(call)
		if f == nil {
			// calls through config function fields / the name-encoder phi
			if fld, ok := optionalField(call.Call.Value); ok && len(call.Call.Args) == 2 {
				p := bd(call.Call.Args[0])
				switch {
				case fld == "EncodeTime" && p == "ent.Time":
					sites = append(sites, site{"time", call, []string{`!IsZero(ent.Time)`, `cfg.EncodeTime != nil`, `cfg.TimeKey != ""`}})
				case fld == "EncodeLevel" && p == "ent.Level":
					sites = append(sites, site{"level", call, []string{`cfg.EncodeLevel != nil`, `cfg.LevelKey != ""`}})
				case fld == "EncodeName" && p == "ent.LoggerName":
					sites = append(sites, site{"name", call, []string{`cfg.NameKey != ""`, `ent.LoggerName != ""`}})
				case fld == "EncodeCaller" && p == "ent.Caller":
					sites = append(sites, site{"caller", call, []string{`cfg.CallerKey != ""`, `cfg.EncodeCaller != nil`, `ent.Caller.Defined`}})
				default:
					c.Bad("R16.1", name, "column/"+fld, call.Pos(), "column encoder %s is applied to %s", fld, p)
				}
			}
			continue
		}
		switch {
		case f.Name() == "FullNameEncoder" && len(args) == 2 && bd(args[0]) == "ent.LoggerName":
			// the default name encoder called directly (instead of through a defaulted function value)
			sites = append(sites, site{"name", call, []string{`cfg.NameKey != ""`, `ent.LoggerName != ""`}})
		case f.Name() == "AppendString" && len(args) == 2 && bd(args[1]) == "ent.Caller.Function":
			sites = append(sites, site{"function", call, []string{`cfg.FunctionKey != ""`, `ent.Caller.Defined`}})
		case f.Name() == "AppendString" && len(args) == 2 && bd(args[1]) == "ent.Message":
			sites = append(sites, site{"message", call, []string{`cfg.MessageKey != ""`}})
		case f.Name() == "AppendString" && len(args) == 2 && bd(args[1]) == "ent.Stack":
			sites = append(sites, site{"stack", call, []string{`cfg.StacktraceKey != ""`, `ent.Stack != ""`}})
		case f.Name() == "AppendString" && len(args) == 2 && strings.HasSuffix(Desc(args[1]), ".LineEnding"):
			sites = append(sites, site{"line-ending", call, []string{}})
		case f.Name() == "writeContext":
			sites = append(sites, site{"context", call, []string{}})
			c.Check(Strip(args[2]) == ssa.Value(fn.Params[2]), "R16.1", name, "context-fields", call.Pos(), "the context receives the call-site fields")
		case f.Name() == "Fprint":
			sites = append(sites, site{"join", call, nil})
		}
	}
	order := []string{"time", "level", "name", "caller", "function", "join", "message", "context", "stack", "line-ending"}
	by := map[string]site{}
	all := map[string][]site{}
	for _, s := range sites {
		by[s.n] = s
		all[s.n] = append(all[s.n], s)
	}
	for _, n := range order {
		s, ok := by[n]
		if !ok {
			c.Bad("R16.1", name, "site/"+n, fn.Pos(), "no emission site for the %s part", n)
			continue
		}
		if s.want == nil {
			continue
		}
		// a part may be emitted at several sites (e.g. one per branch of a nil test): their guard sets are merged
		var sets [][]string
		Bound(func() {
			for _, st := range all[n] {
				var got []string
				for _, a := range AtomStrings(Guards(st.in)) {
					if strings.Contains(a, "rangeindex") {
						continue // after the join loop
					}
					a = normCfg(a)
					a = strings.ReplaceAll(a, fn.Params[0].Name()+".jsonEncoder.", "")
					got = append(got, a)
				}
				sets = append(sets, uniqSorted(got))
			}
		})
		sets = mergeGuardSets(sets)
		want := append([]string{}, s.want...)
		sort.Strings(want)
		var gotS []string
		for _, g := range sets {
			gotS = append(gotS, strings.Join(g, " ∧ "))
		}
		c.Check(len(sets) == 1 && strings.Join(sets[0], " ∧ ") == strings.Join(want, " ∧ "), "R16.1", name, "guards/"+n, s.in.Pos(), "the %s part is present exactly under {%s}; found {%s}", n, strings.Join(want, ", "), strings.Join(gotS, " | "))
	}
	is := func(x ssa.Instruction) func(ssa.Instruction) bool {
		return func(i ssa.Instruction) bool { return i == x }
	}
	for i := 0; i+1 < len(order); i++ {
		a, okA := by[order[i]]
		b, okB := by[order[i+1]]
		if !okA || !okB {
			continue
		}
		fwd := ExistsPath(fn, a.in, is(b.in), nil)
		back := ExistsPath(fn, b.in, is(a.in), nil)
		if order[i] == "join" || order[i+1] == "join" {
			// the join loop may iterate; order relative to the loop as a whole
			back = false
			if order[i+1] == "join" {
				back = ExistsPath(fn, b.in, is(a.in), nil)
			} else {
				back = ExistsPath(fn, b.in, is(a.in), nil)
			}
		}
		c.Check(fwd && !back, "R16.1", name, "order/"+order[i]+"≺"+order[i+1], a.in.Pos(), "%s precedes %s", order[i], order[i+1])
	}
	// columns go to the pooled slice encoder, stack preceded by newline, line ending last write
	if s, ok := by["stack"]; ok {
		nl := false
		for _, in := range s.in.Block().Instrs {
			if cl, ok := in.(*ssa.Call); ok && cl != s.in {
				if f := CalleeFunc(cl); f != nil && f.Name() == "AppendByte" {
					if b, ok := constBytes(Args(cl)[1]); ok && b[0] == '\n' && Dominates(cl, s.in) {
						nl = true
					}
				}
			}
		}
		c.Check(nl, "R16.1", name, "stack-on-next-line", s.in.Pos(), "the stack trace starts on the line after the entry")
	}
	// ---------------- R16.2 ----------------
	if j, ok := by["join"]; ok {
		var sepCall ssa.Instruction
		for _, cl := range Calls(fn) {
			if f := CalleeFunc(cl); f != nil && f.Name() == "AppendString" && strings.HasSuffix(Desc(Args(cl)[1]), ".ConsoleSeparator") {
				sepCall = cl
			}
		}
		ok := sepCall != nil
		if ok {
			atoms := AtomStrings(Guards(sepCall))
			ok = containsS(atoms, "(φrangeindex + 1) > 0") && Dominates(sepCall, sepCall) == false
			h1, h2 := LoopHeader(sepCall.Block()), LoopHeader(j.in.Block())
			ok = ok && h1 != nil && h1 == h2
			// Fprint of element i on every iteration
			elemRead := false
			AllInstrs(fn, func(in ssa.Instruction) {
				if ia, isIA := in.(*ssa.IndexAddr); isIA && LoopHeader(ia.Block()) == h2 && Dominates(ia, j.in) && Desc(ia) == "getSliceEncoder().elems[(φrangeindex + 1)]" {
					elemRead = true
				}
			})
			ok = ok && elemRead
		}
		c.Check(ok, "R16.2", name, "join-separator-between", j.in.Pos(), "columns are joined with the configured separator written exactly before every element but the first")
	}
	for _, n := range []string{"message"} {
		s, ok := by[n]
		if !ok {
			continue
		}
		okS := false
		for _, cl := range Calls(fn) {
			if f := CalleeFunc(cl); f != nil && f.Name() == "addSeparatorIfNecessary" && cl.Block() == s.in.Block() && Dominates(cl, s.in) {
				okS = true
			}
		}
		c.Check(okS, "R16.2", name, "separator-if-necessary/"+n, s.in.Pos(), "the %s is preceded by 'separator if the line is non-empty'", n)
	}
	asn := c.Method(CorePath, "consoleEncoder", "addSeparatorIfNecessary")
	if c.Anchor("R16.2", "zapcore.consoleEncoder.addSeparatorIfNecessary", asn != nil) {
		ok := false
		for _, cl := range Calls(asn) {
			if f := CalleeFunc(cl); f != nil && f.Name() == "AppendString" {
				ok = containsS(AtomStrings(Guards(cl)), "Len(line) > 0") && strings.HasSuffix(Desc(Args(cl)[1]), ".ConsoleSeparator") && Desc(Args(cl)[0]) == "line"
			}
		}
		c.Check(ok, "R16.2", asn.String(), "iff-nonempty", asn.Pos(), "the separator is written exactly when the line already has content")
	}
	nc := c.Func(CorePath, "NewConsoleEncoder")
	if c.Anchor("R16.2", "zapcore.NewConsoleEncoder", nc != nil) {
		okDef, okSpaced := false, false
		AllInstrs(nc, func(in ssa.Instruction) {
			if st, ok := in.(*ssa.Store); ok && strings.HasSuffix(Desc(st.Addr), ".ConsoleSeparator") {
				okDef = Desc(st.Val) == `"\t"` && containsS(AtomStrings(Guards(st)), `cfg.ConsoleSeparator == ""`)
			}
			if cl, ok := in.(*ssa.Call); ok {
				if f := CalleeFunc(cl); f != nil && f.Name() == "newJSONEncoder" {
					okSpaced = Desc(cl.Call.Args[1]) == "true"
				}
			}
		})
		c.Check(okDef && okSpaced, "R16.2", nc.String(), "defaults", nc.Pos(), "an empty separator defaults to a tab and the JSON part is built in spaced mode")
	}
	// ---------------- R16.3 ----------------
	{
		wn := wc.String()
		var clone, add, closeNS, open, write, closeB ssa.Instruction
		for _, cl := range CallsDeep(wc) {
			f := CalleeFunc(cl)
			if f == nil {
				continue
			}
			switch f.Name() {
			case "Clone":
				clone = cl
			case "addFields":
				add = cl
			case "closeOpenNamespaces":
				closeNS = cl
			case "AppendByte":
				if b, ok := constBytes(Args(cl)[1]); ok && Desc(Args(cl)[0]) == "line" {
					if b[0] == '{' {
						open = cl
					}
					if b[0] == '}' {
						closeB = cl
					}
				}
			case "Write", "AppendBytes":
				if Desc(Args(cl)[0]) == "line" {
					write = cl
				}
			}
		}
		ok := clone != nil && add != nil && closeNS != nil && open != nil && write != nil && closeB != nil
		if !ok {
			c.Bad("R16.3", wn, "shape", wc.Pos(), "writeContext must clone, add fields, close namespaces, test emptiness and wrap the bytes in braces")
		} else {
			rcv := wc.Params[0].Name()
			c.Check(Desc(Args(clone.(ssa.CallInstruction))[0]) == rcv+".jsonEncoder" && mustPass(wc, func(i ssa.Instruction) bool { return i == clone }), "R16.3", wn, "clones-embedded-encoder", clone.Pos(), "the context is always rendered on a clone of the embedded JSON encoder (which holds the With-context bytes)")
			ctxD := Desc(Args(add.(ssa.CallInstruction))[0])
			cloneD := "Clone(" + rcv + ".jsonEncoder)"
			c.Check(strings.Contains(ctxD, cloneD) && Strip(Args(add.(ssa.CallInstruction))[1]) == ssa.Value(wc.Params[2]) && Dominates(clone, add), "R16.3", wn, "fields-into-clone", add.Pos(), "the call-site fields go into that clone (%s)", ctxD)
			// emptiness test on the clone's buffer guards the braces, and comes after the namespaces were closed
			var emptyTest string
			for _, a := range AtomStrings(Guards(open)) {
				if strings.Contains(a, cloneD) && strings.HasSuffix(a, ".buf) > 0") || strings.HasSuffix(a, ".buf)) > 0") && strings.Contains(a, cloneD) {
					emptyTest = a
				}
			}
			c.Check(Dominates(add, closeNS) && Dominates(closeNS, open) && strings.Contains(Desc(Args(closeNS.(ssa.CallInstruction))[0]), cloneD) && emptyTest != "", "R16.3", wn, "namespaces-closed-before-empty-test", closeNS.Pos(), "open namespaces are closed on the clone before its emptiness is tested (%s)", emptyTest)
			wd := Desc(Args(write.(ssa.CallInstruction))[1])
			c.Check(Dominates(open, write) && Dominates(write, closeB) && strings.HasPrefix(wd, "Bytes(") && strings.Contains(wd, cloneD), "R16.3", wn, "braces-around-context", open.Pos(), "a non-empty context is written as '{' + the clone's bytes + '}' (%s)", wd)
			okSep := false
			for _, cl := range CallsDeep(wc) {
				if f := CalleeFunc(cl); f != nil && f.Name() == "addSeparatorIfNecessary" && Dominates(cl, open) && cl.Block() == open.Block() {
					okSep = true
				}
			}
			c.Check(okSep, "R16.2", wn, "separator-if-necessary/context", open.Pos(), "the context is preceded by 'separator if the line is non-empty', never an unconditional one")
			// released
			rel := false
			AllInstrs(wc, func(in ssa.Instruction) {
				if df, ok := in.(*ssa.Defer); ok {
					if mk, ok := df.Call.Value.(*ssa.MakeClosure); ok {
						free, put := false, false
						for _, c2 := range Calls(mk.Fn.(*ssa.Function)) {
							if f := CalleeFunc(c2); f != nil {
								free = free || f.Name() == "Free"
								put = put || f.Name() == "putJSONEncoder"
							}
						}
						rel = free && put && Dominates(clone, df)
					}
				}
			})
			c.Check(rel, "R16.3", wn, "clone-released", wc.Pos(), "the clone's buffer is freed and the clone recycled on every exit (deferred)")
		}
	}
	c9EncoderPurity(c, "R16.3")
	// ---------------- R16.4 ----------------
	c1NilGuards(c, "R16.4", false)
}

// negAtomStr returns the textual negation of a normalised control atom.
func negAtomStr(a string) string {
	if strings.HasPrefix(a, "!") {
		return a[1:]
	}
	for _, p := range [][2]string{{" != ", " == "}, {" == ", " != "}, {" >= ", " < "}, {" < ", " >= "}} {
		if i := strings.LastIndex(a, p[0]); i > 0 && !strings.ContainsAny(a[i+len(p[0]):], "()") || i > 0 && strings.HasSuffix(a, `""`) {
			return a[:i] + p[1] + a[i+len(p[0]):]
		}
	}
	if strings.HasSuffix(a, " > 0") {
		return strings.TrimSuffix(a, " > 0") + " == 0"
	}
	return "!" + a
}

// mergeGuardSets simplifies a disjunction of conjunctions: two conjunctions
// that differ only in one atom and its negation are replaced by their common part.
func mergeGuardSets(sets [][]string) [][]string {
	for changed := true; changed; {
		changed = false
	outer:
		for i := 0; i < len(sets); i++ {
			for j := i + 1; j < len(sets); j++ {
				a, b := sets[i], sets[j]
				if len(a) != len(b) {
					continue
				}
				inB := map[string]bool{}
				for _, x := range b {
					inB[x] = true
				}
				var onlyA []string
				var common []string
				for _, x := range a {
					if inB[x] {
						common = append(common, x)
					} else {
						onlyA = append(onlyA, x)
					}
				}
				if len(onlyA) == 0 {
					// identical
					sets = append(sets[:j], sets[j+1:]...)
					changed = true
					break outer
				}
				if len(onlyA) != 1 || len(common) != len(a)-1 {
					continue
				}
				var onlyB string
				inA := map[string]bool{}
				for _, x := range a {
					inA[x] = true
				}
				for _, x := range b {
					if !inA[x] {
						onlyB = x
					}
				}
				if negAtomStr(onlyA[0]) == onlyB || negAtomStr(onlyB) == onlyA[0] {
					sets[i] = common
					sets = append(sets[:j], sets[j+1:]...)
					changed = true
					break outer
				}
			}
		}
	}
	return sets
}
