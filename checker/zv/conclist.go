package zv

import (
	"go/token"
	"go/types"

	"golang.org/x/tools/go/ssa"
)

// Evident lists. A slice built on the path from nothing - make([]T, k) with k evident, nil, append onto such a slice -
// is tracked element by element: st.lists[v] holds, for the slice value v, the values of its elements (nil: a slot
// nothing evident was stored into). Loads of an element with an evident index stand for the value stored there; len is
// evident; re-slices with evident bounds and appends of one list onto another are lists again. This lets a rule look at
// WHAT a function finally hands on (the fields given to Core.With, say) however the list was put together - element by
// element in one loop, or collected first and spliced afterwards.
//
// Not modelled: writes through a re-slice into the array it shares with the slice it was cut from (a re-slice is
// treated as a copy), and writes by callees that are not explored inline.

const maxListLen = 24

// listOf: the list v denotes on this path.
func (st *ConcState) listOf(v ssa.Value) (key ssa.Value, l []ssa.Value, ok bool) {
	for k := 0; k < 16 && v != nil; k++ {
		if l, has := st.lists[v]; has {
			return v, l, true
		}
		switch x := v.(type) {
		case *ssa.ChangeType:
			v = x.X
			continue
		case *ssa.MakeInterface:
			v = x.X
			continue
		}
		v = st.alias[v]
	}
	return nil, nil, false
}

// ListOf: the elements of the slice v, when it was built evidently on this path (see above).
func (st *ConcState) ListOf(v ssa.Value) ([]ssa.Value, bool) {
	_, l, ok := st.listOf(v)
	return l, ok
}

func (st *ConcState) setList(v ssa.Value, l []ssa.Value, tags []string) *ConcState {
	ns := st.clone()
	if ns.lists == nil {
		ns.lists = map[ssa.Value][]ssa.Value{}
	}
	ns.lists[v] = l
	if tags != nil {
		if ns.ltags == nil {
			ns.ltags = map[ssa.Value][]string{}
		}
		ns.ltags[v] = tags
	} else {
		delete(ns.ltags, v)
	}
	return ns
}

// tagsOf: the tags of list key (one per element, "" where none), or nil.
func (st *ConcState) tagsOf(key ssa.Value, n int) []string {
	if t, ok := st.ltags[key]; ok && len(t) == n {
		return t
	}
	return nil
}

func joinTags(a []string, na int, b []string, nb int) []string {
	if a == nil && b == nil {
		return nil
	}
	out := make([]string, 0, na+nb)
	if a == nil {
		a = make([]string, na)
	}
	if b == nil {
		b = make([]string, nb)
	}
	return append(append(out, a...), b...)
}

// TagOf: what ElemTag said about the list element that v was loaded from (or about v itself when it was listed).
func (st *ConcState) TagOf(v ssa.Value) string {
	for k := 0; k < 12 && v != nil; k++ {
		if t, ok := st.vtags[v]; ok {
			return t
		}
		switch x := v.(type) {
		case *ssa.ChangeType:
			v = x.X
			continue
		case *ssa.MakeInterface:
			v = x.X
			continue
		}
		v = st.alias[v]
	}
	return ""
}

// now: what register v stands for at this moment (a register may be bound anew in a later loop round).
func (st *ConcState) now(v ssa.Value) ssa.Value {
	if nx := st.alias[v]; nx != nil {
		return nx
	}
	return v
}

// listEffects applies what instruction in does to the evident lists.
func listEffects(st *ConcState, in ssa.Instruction) *ConcState {
	switch x := in.(type) {
	case *ssa.MakeSlice:
		if k, ok := st.eval(x.Len, 0); ok && k >= 0 && k <= maxListLen {
			return st.setList(x, make([]ssa.Value, k), nil)
		}
	case *ssa.Slice:
		if _, isSl := types.Unalias(x.X.Type()).Underlying().(*types.Slice); !isSl || x.Max != nil {
			return st
		}
		if key, l, ok := st.listOf(x.X); ok {
			lo, hi := int64(0), int64(len(l))
			if x.Low != nil {
				k, known := st.eval(x.Low, 0)
				if !known {
					return st
				}
				lo = k
			}
			if x.High != nil {
				k, known := st.eval(x.High, 0)
				if !known {
					return st
				}
				hi = k
			}
			if lo < 0 || hi < lo || hi > int64(len(l)) {
				return st
			}
			var tg []string
			if t := st.tagsOf(key, len(l)); t != nil {
				tg = append([]string{}, t[lo:hi]...)
			}
			return st.setList(x, append([]ssa.Value{}, l[lo:hi]...), tg)
		}
	case *ssa.Call:
		if CallBuiltin(x) != "append" || len(x.Call.Args) != 2 {
			return st
		}
		var base []ssa.Value
		var baseT, addT []string
		if key, l, ok := st.listOf(x.Call.Args[0]); ok {
			base, baseT = l, st.tagsOf(key, len(l))
		} else if n, known := st.IsNil(x.Call.Args[0]); !(known && n) {
			return st
		}
		var add []ssa.Value
		if key, l, ok := st.listOf(x.Call.Args[1]); ok {
			add, addT = l, st.tagsOf(key, len(l))
		} else if _, elems := appendParts(x); len(elems) > 0 {
			for _, e := range elems {
				add = append(add, st.now(e))
				if st.cfg != nil && st.cfg.ElemTag != nil {
					if addT == nil {
						addT = make([]string, 0, len(elems))
					}
					addT = append(addT, st.cfg.ElemTag(st, e))
				}
			}
		} else if n, known := st.IsNil(x.Call.Args[1]); !(known && n) {
			return st
		}
		if len(base)+len(add) > maxListLen {
			return st
		}
		return st.setList(x, append(append([]ssa.Value{}, base...), add...), joinTags(baseT, len(base), addT, len(add)))
	case *ssa.Store:
		ia, ok := x.Addr.(*ssa.IndexAddr)
		if !ok {
			return st
		}
		if _, isSl := types.Unalias(ia.X.Type()).Underlying().(*types.Slice); !isSl {
			return st
		}
		key, l, has := st.listOf(ia.X)
		if !has {
			return st
		}
		k, known := st.eval(ia.Index, 0)
		if !known || k < 0 || k >= int64(len(l)) {
			// a write somewhere: nothing is known about the elements any more
			ns := st.clone()
			delete(ns.lists, key)
			return ns
		}
		nl := append([]ssa.Value{}, l...)
		nl[k] = st.now(x.Val)
		tg := st.tagsOf(key, len(l))
		if st.cfg != nil && st.cfg.ElemTag != nil {
			if tg == nil {
				tg = make([]string, len(l))
			} else {
				tg = append([]string{}, tg...)
			}
			tg[k] = st.cfg.ElemTag(st, x.Val)
		}
		return st.setList(key, nl, tg)
	case *ssa.UnOp:
		if x.Op != token.MUL {
			return st
		}
		ia, ok := x.X.(*ssa.IndexAddr)
		if !ok {
			return st
		}
		if _, isSl := types.Unalias(ia.X.Type()).Underlying().(*types.Slice); !isSl {
			return st
		}
		key, l, has := st.listOf(ia.X)
		if !has {
			return st
		}
		if k, known := st.eval(ia.Index, 0); known && k >= 0 && k < int64(len(l)) && l[k] != nil {
			ns := st.clone()
			bind(ns, st, x, l[k])
			if t := st.tagsOf(key, len(l)); t != nil && t[k] != "" {
				if ns.vtags == nil {
					ns.vtags = map[ssa.Value]string{}
				}
				ns.vtags[x] = t[k]
			} else {
				delete(ns.vtags, x)
			}
			return ns
		}
	}
	return st
}

// EqualTo: has a branch of this path decided whether v equals some value that other approves of? (v and the operands
// of the comparison are taken as what they stood for when the comparison was made.)
func (st *ConcState) EqualTo(v ssa.Value, other func(ssa.Value) bool) (eq, known bool) {
	same := func(a ssa.Value) bool {
		if a == v {
			return true
		}
		if p, ok := a.(*pastVal); ok && p == v {
			return true
		}
		return false
	}
	for k, b := range st.eqs {
		switch {
		case same(k[0]) && other(k[1]), same(k[1]) && other(k[0]):
			return b, true
		}
	}
	return false, false
}

// Underlying: the instruction behind a value that stands for an earlier round's instance of a register.
func Underlying(v ssa.Value) ssa.Value {
	if p, ok := v.(*pastVal); ok {
		return p.Value
	}
	return v
}
