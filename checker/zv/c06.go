package zv

import (
	"fmt"
	"go/token"
	"go/types"
	"regexp"
	"strings"

	"golang.org/x/tools/go/ssa"
)

func init() {
	Props["C06"] = Prop{
		Title: "Panic and Fatal always terminate, after the entry is written and flushed",
		Fn:    checkC06,
		Explanation: "Decides the must-pass-through structure behind 'always terminates': in Logger.check the only early nil return is under lvl < DPanic; the terminal-hook decision is evaluated per level: for each of the 9 level values (7 named, one below, one above) x development on/off, Logger.check (with the helpers it calls) is explored with the level and the flag fixed and every other condition free, and on every remaining path a Panic/Fatal (DPanic iff development) entry calls Core.Check, attaches exactly one terminalHookOverride(<default action>, <configured hook>) to the checked entry and returns that entry, while every other level attaches none - whatever the form (switch, if-chain, helper returning the hook); terminalHookOverride replaces nil and WriteThenNoop by the default; " +
			"every front-end method (Logger, SugaredLogger, zapgrpc.Logger, std-log bridge table and writer) routes its own level constant to check/log/logln and reaches CheckedEntry.Write unless ce == nil, with no illegal Enabled pre-check; CheckedEntry.Write visits all cores, then runs the hook, then recycles the entry; ioCore.Write syncs after the sink write for a level set containing DPanic/Panic/Fatal and BufferedWriteSyncer.Sync always reaches WS.Sync; the default actions are panic(message), exit.With(1) -> os.Exit, Goexit, and nothing outside the stub helpers writes the exit function. " +
			"NOT decided: that os.Exit exits, durability of the sink itself, user hooks that return, real crash points.",
		Assumptions: commonAssumptions,
	}
}

var levelNames = []string{"Debug", "Info", "Warn", "Error", "DPanic", "Panic", "Fatal"}

// mustPass: every path from entry to a normal return passes an instruction satisfying pred.
func mustPass(fn *ssa.Function, pred func(ssa.Instruction) bool) bool {
	return !ExistsPath(fn, nil, IsReturn, pred)
}

func checkC06(c *Ctx) {
	c.Rule("R6.8", "ioCore.Write: an accepted entry above ErrorLevel is synced before returning; no failure of Write's own making in front of the sync", 1)
	c6CrashSync(c, "R6.8")
	c.Rule("R6.1", "Logger.check attaches the terminal hook unconditionally for Panic/Fatal (DPanic iff development), after the only legal early return", 12)
	c.Rule("R6.2", "every front-end entry routes its level constant to the checking helper and reaches CheckedEntry.Write unless ce == nil", 50)
	c.Rule("R6.3", "CheckedEntry.Write: all cores, then the hook, then recycle", 3)
	c.Rule("R6.9", "Check discipline of every zapcore.Core implementation: a core that does not accept an entry hands back the checked entry it was given (an earlier branch's acceptance - and with it the write before the terminal hook - survives)", 8)
	c.As(map[string]string{"R5.1": "R6.9"}, func() { c5CheckDiscipline(c) })
	c.Rule("R6.11", "writers combined by CombineWriteSyncers (Open, Config.Build) are a multi-WriteSyncer: the Sync the IO core issues before a panic or exit reaches every one of them (an io.MultiWriter would swallow it)", 3)
	c4LocksCombined(c, "R6.11")
	c.Rule("R6.12", "the cheap level pre-checks of the front ends apply below DPanic only: from DPanic up a call always formats its message and reaches Logger.Check (the terminal action carries the message)", 10)
	c.As(map[string]string{"R5.2": "R6.12"}, func() { c5PreChecks(c) })
	c.Rule("R6.10", "a checked entry created by AddCore / After for an entry no core had accepted yet carries that entry (the default Panic action panics with its message, hooks receive it)", 2)
	c6FreshEntryCarriesEntry(c, "R6.10")
	c.Rule("R6.4", "ioCore.Write syncs after the write for DPanic/Panic/Fatal; BufferedWriteSyncer.Sync always syncs the sink", 4)
	c.Rule("R6.13", "CheckedEntry.After installs the hook it is given unconditionally (the Logger's terminal action is registered last and replaces any hook a core registered)", 1)
	c6AfterInstalls(c, "R6.13")
	c.Rule("R6.14", "the deprecated OnFatal hands the action it was given itself to the fatal-hook option: the Logger recognises a no-op action by comparing it with WriteThenNoop, which a wrapped action never equals", 1)
	c6OnFatalPassesAction(c, "R6.14")
	c.Rule("R6.5", "default actions: panic(message) / exit.With(1) -> os.Exit / Goexit; exit function only written by the stub helpers, which non-test code never calls", 5)
	c.Rule("R6.7", "Config wires development mode (DPanic panics) exactly under Config.Development", 1)
	if g, pos, ok := ConfigOptionGuards(c, "Development"); ok {
		rn := PN(c.Method(ZapPath, "Config", "buildOptions").Params[0])
		c.Check(len(g) == 1 && g[0] == rn+".Development", "R6.7", "(go.uber.org/zap.Config).buildOptions", "development-option", pos, "the Development() option is installed under exactly {%s.Development} (found {%s}); any further condition makes DPanic return normally for some development configurations", rn, strings.Join(g, ", "))
	} else {
		c.Bad("R6.7", "(go.uber.org/zap.Config).buildOptions", "development-option", pos, "Config.buildOptions never installs the Development() option")
	}

	lv := map[string]int64{}
	for _, n := range levelNames {
		v, ok := c.ConstVal(CorePath, n+"Level")
		if !c.Anchor("R6.1", "zapcore."+n+"Level", ok) {
			return
		}
		lv[n] = v
	}
	c6Check(c, lv)
	c6FrontEnds(c, lv)
	c6Write(c)
	c6Sync(c, lv)
	c6Actions(c)
}

var reLevelAtom = regexp.MustCompile(`^ent\.Level (==|!=) (-?\d+)$`)

func c6Check(c *Ctx, lv map[string]int64) {
	fn := c.Method(ZapPath, "Logger", "check")
	if !c.Anchor("R6.1", "zap.Logger.check", fn != nil) {
		return
	}
	name := FStr(fn)
	lvl := fn.Params[1]
	var coreCheck *ssa.Call
	for _, cl := range Calls(fn) {
		if IsCallTo(cl, "(go.uber.org/zap/zapcore.Core).Check") {
			coreCheck, _ = cl.(*ssa.Call)
		}
	}
	if coreCheck == nil {
		c.Bad("R6.1", name, "core-check", fn.Pos(), "Logger.check does not call Core.Check")
		return
	}
	// entry level is the parameter
	ef, efOK := entryAtCoreCheck(c)
	c.Check(efOK && ef["Level"] == PN(lvl), "R6.1", name, "entry-level-is-param", coreCheck.Pos(), "on every path the entry handed to Core.Check has the lvl parameter as its Level (%v)", ef)
	// early returns (not dominated by Core.Check)
	lim := itoa(int(lv["DPanic"]))
	for k, r := range Returns(fn) {
		if Dominates(coreCheck, r) {
			continue
		}
		dnf := PathConds(r.Block())
		ok, cex := AllDisjunctsHave(dnf, func(s string) bool { return s == "lvl < "+lim })
		c.Check(ok && IsNilConst(Strip(RetVals(r)[0])), "R6.1", name, "early-return#"+itoa(k+1), r.Pos(), "a return that skips Core.Check is only reachable under lvl < DPanicLevel(%s) (counter-example path: %v)", lim, cex)
	}
	// Terminal hooks, decided per level: Logger.check is explored with the entry
	// level and the development flag fixed and every other condition free; on
	// every path that remains, the events are the Core.Check call, the After
	// calls (with the hook they attach, rendered along that path) and the return.
	wtp, _ := c.ConstVal(CorePath, "WriteThenPanic")
	wtf, _ := c.ConstVal(CorePath, "WriteThenFatal")
	recv := PN(fn.Params[0])
	type want struct {
		def int64
		cfg string
	}
	terminal := func(L int64, dev bool) *want {
		switch {
		case L == lv["Panic"], L == lv["DPanic"] && dev:
			return &want{wtp, recv + ".onPanic"}
		case L == lv["Fatal"]:
			return &want{wtf, recv + ".onFatal"}
		}
		return nil
	}
	marks := func(h *ssa.Function) bool {
		// helpers that take part in the decision: they contain After/Core.Check calls or produce a hook / entry
		for _, cl := range CallsDeep(h) {
			if IsCallTo(cl, "(*go.uber.org/zap/zapcore.CheckedEntry).After", "(go.uber.org/zap/zapcore.Core).Check") {
				return true
			}
		}
		res := h.Signature.Results()
		for i := 0; i < res.Len(); i++ {
			ts := TStr(res.At(i).Type())
			if strings.HasSuffix(ts, "zapcore.CheckWriteHook") || strings.HasSuffix(ts, "zapcore.CheckedEntry") || ts == "bool" {
				return true
			}
		}
		return false
	}
	levels := []int64{lv["Debug"] - 1}
	for _, n := range levelNames {
		levels = append(levels, lv[n])
	}
	levels = append(levels, lv["Fatal"]+1)
	lname := func(L int64) string {
		for _, n := range levelNames {
			if lv[n] == L {
				return n
			}
		}
		return "Level(" + itoa(int(L)) + ")"
	}
	for _, L := range levels {
		for _, dev := range []bool{false, true} {
			L, dev := L, dev
			slot := "terminal/" + lname(L)
			if dev {
				slot += "/development"
			}
			cfg := ConcCfg{
				Conc: func(d string) (int64, bool) {
					switch d {
					case PN(lvl), "ent.Level":
						return L, true
					case recv + ".development":
						if dev {
							return 1, true
						}
						return 0, true
					}
					return 0, false
				},
				Inline: marks,
				Event: func(in ssa.Instruction, st *ConcState) string {
					switch x := in.(type) {
					case *ssa.Call:
						if IsCallTo(x, "(go.uber.org/zap/zapcore.Core).Check") {
							return "check"
						}
						if IsCallTo(x, "(*go.uber.org/zap/zapcore.CheckedEntry).After") {
							a := Args(x)
							on := "other"
							if Strip(a[0]) == ssa.Value(coreCheck) {
								on = "checked"
							}
							// follow the hook back to the terminalHookOverride call that produced it on this path
							hook := Strip(a[2])
							hd := st.Desc(hook)
							for k := 0; k < 12; k++ {
								if hc, ok := hook.(*ssa.Call); ok && IsCallTo(hc, "go.uber.org/zap.terminalHookOverride") {
									ha := Args(hc)
									// which argument is the default action and which the configured hook: by type
									iDef, iOv := 0, 1
									isConstAction := func(v ssa.Value) bool {
										if mi, ok := v.(*ssa.MakeInterface); ok {
											v = mi.X
										}
										_, isC := v.(*ssa.Const)
										return isC
									}
									if len(ha) == 2 && !isConstAction(ha[0]) && isConstAction(ha[1]) {
										iDef, iOv = 1, 0 // (configured, fallback): the default is the constant action
									}
									d0 := st.Desc(ha[iDef])
									if mi, ok := ha[iDef].(*ssa.MakeInterface); ok {
										d0 = st.Desc(mi.X)
									}
									hd = "terminalHookOverride(" + d0 + ", " + st.Desc(ha[iOv]) + ")"
									break
								}
								nx := st.Step(hook)
								if nx == nil {
									break
								}
								hook = Strip(nx)
							}
							entD := "other"
							if st.Desc(a[1]) == st.Desc(Args(coreCheck)[1]) {
								entD = "ent"
							}
							return "after[" + on + "|" + entD + "|" + hd + "]"
						}
					case *ssa.Return:
						v := x.Results[0]
						if n, ok := st.IsNil(v); ok && n {
							return "return nil"
						}
						rv := Strip(v)
						for k := 0; k < 12; k++ {
							if rc, ok := rv.(*ssa.Call); ok && IsCallTo(rc, "(*go.uber.org/zap/zapcore.CheckedEntry).After") {
								return "return hooked"
							}
							nx := st.Step(rv)
							if nx == nil {
								break
							}
							rv = Strip(nx)
						}
						return "return " + st.Desc(v)
					}
					return ""
				},
			}
			seqs, trunc := ConcPaths(fn, cfg)
			if trunc || len(seqs) == 0 {
				c.Und("R6.1", name, slot, fn.Pos(), "path exploration of Logger.check incomplete (%d sequences, truncated=%v)", len(seqs), trunc)
				continue
			}
			w := terminal(L, dev)
			var bad []string
			for _, sq := range seqs {
				ev := strings.Split(sq, " ; ")
				nAfter, okHook, checked := 0, true, false
				for _, e := range ev {
					if e == "check" {
						checked = true
					}
					if strings.HasPrefix(e, "after[") {
						nAfter++
						if w == nil || !checked {
							okHook = false
							continue
						}
						parts := strings.Split(strings.TrimSuffix(strings.TrimPrefix(e, "after["), "]"), "|")
						wantHook := "terminalHookOverride(" + itoa(int(w.def)) + ", " + w.cfg + ")"
						if len(parts) != 3 || parts[0] != "checked" || parts[1] != "ent" || strings.ReplaceAll(parts[2], "iface:", "") != wantHook {
							okHook = false
						}
					}
				}
				last := ev[len(ev)-1]
				switch {
				case w != nil && !(checked && nAfter == 1 && okHook && last == "return hooked"):
					bad = append(bad, sq)
				case w == nil && nAfter != 0:
					bad = append(bad, sq)
				case L >= lv["DPanic"] && !checked:
					bad = append(bad, sq)
				}
			}
			if w != nil {
				c.Check(len(bad) == 0, "R6.1", name, slot, fn.Pos(), "with the level fixed to %s (development=%v) and every other condition free, all %d distinct paths call Core.Check, then attach exactly one hook terminalHookOverride(%d, %s) to the checked entry and return that entry - whether or not a core accepted (offending: %v)", lname(L), dev, len(seqs), w.def, w.cfg, bad)
			} else {
				c.Check(len(bad) == 0, "R6.1", name, slot, fn.Pos(), "with the level fixed to %s (development=%v) no path attaches a terminal hook (%d distinct paths; offending: %v)", lname(L), dev, len(seqs), bad)
			}
		}
	}
	// terminalHookOverride
	th := c.Func(ZapPath, "terminalHookOverride")
	cwa := c.Named(CorePath, "CheckWriteAction")
	if c.Anchor("R6.1", "zap.terminalHookOverride(default, override) / zapcore.CheckWriteAction", th != nil && len(th.Params) == 2 && cwa != nil) {
		// decided by exploring the function with the override fixed to each kind of value in turn: nil, every
		// CheckWriteAction constant, and a non-nil hook of some other type
		def, ov := th.Params[0], th.Params[1]
		// which parameter is the default: the one every call site hands a constant action
		for _, site := range sitesOf(th) {
			a := Args(site)
			if len(a) == 2 {
				v := a[1]
				if mi, ok := v.(*ssa.MakeInterface); ok {
					v = mi.X
				}
				if _, isC := v.(*ssa.Const); isC {
					def, ov = th.Params[1], th.Params[0] // (configured, fallback) instead of (default, override)
				}
			}
		}
		type ocase struct {
			name string
			init func(st *ConcState)
			want string
		}
		cases := []ocase{
			{"nil", func(st *ConcState) { st.SetNil(ov, true) }, "default"},
			{"other-hook-type", func(st *ConcState) { st.SetDyn(ov, DynFact{}) }, "override"},
		}
		for _, k := range c.ConstsOfType(CorePath, cwa) {
			kv, _ := ConstObjInt(k)
			want := "override"
			if k.Name() == "WriteThenNoop" {
				want = "default"
			}
			cases = append(cases, ocase{k.Name(), func(st *ConcState) { st.SetDyn(ov, DynFact{Typ: cwa, K: kv, HasK: true}) }, want})
		}
		if len(cases) < 5 {
			c.Bad("R6.1", FStr(th), "cases", th.Pos(), "expected nil, another hook type and at least WriteThenNoop, WriteThenGoexit, WriteThenPanic, WriteThenFatal; have %d cases", len(cases))
		}
		for _, oc := range cases {
			oc := oc
			seqs, trunc := ConcPaths(th, ConcCfg{
				Init: func(st *ConcState) {
					st.SetDyn(def, DynFact{Typ: cwa, K: 99, HasK: true})
					oc.init(st)
				},
				Event: func(in ssa.Instruction, st *ConcState) string {
					r, ok := in.(*ssa.Return)
					if !ok || len(r.Results) != 1 {
						return ""
					}
					v := r.Results[0]
					for i := 0; i < 16; i++ {
						switch y := v.(type) {
						case *ssa.ChangeInterface:
							v = y.X
							continue
						case *ssa.ChangeType:
							v = y.X
							continue
						}
						if v == ssa.Value(def) || v == ssa.Value(ov) {
							break
						}
						nx := st.Step(v)
						if nx == nil {
							break
						}
						v = nx
					}
					switch {
					case v == ssa.Value(def):
						return "default"
					case v == ssa.Value(ov):
						return "override"
					}
					// the same hook re-wrapped (a CheckWriteAction unwrapped by a type switch and returned)
					if f, has := st.DynOf(v); has && f.HasK {
						if g, h2 := st.DynOf(ov); h2 && g.HasK && g.Typ != nil && f.Typ != nil && types.Identical(f.Typ, g.Typ) && f.K == g.K {
							return "override"
						}
					}
					return "other(" + st.Desc(v) + ")"
				},
			})
			var bad []string
			for _, sq := range seqs {
				if sq != oc.want {
					bad = append(bad, sq)
				}
			}
			c.Check(!trunc && len(seqs) > 0 && len(bad) == 0, "R6.1", FStr(th), "override/"+oc.name, th.Pos(), "with the configured hook fixed to %s every path returns the %s hook (the default exactly for nil or WriteThenNoop, the configured hook otherwise); offending: %v", oc.name, oc.want, bad)
		}
	}
}

// frontEndTable checks one method that must call helper(levelConst|levelParam, ...).
func c6Route(c *Ctx, rule string, fn *ssa.Function, helperFull []string, wantLevel int64, levelIsParam bool, lvlArgIdx int) *ssa.Call {
	name := FStr(fn)
	var call *ssa.Call
	n := 0
	for _, cl := range Calls(fn) {
		if IsCallTo(cl, helperFull...) {
			call, _ = cl.(*ssa.Call)
			n++
		}
	}
	if n != 1 || call == nil {
		c.Bad(rule, name, "routes", fn.Pos(), "expected exactly one call of %v, found %d", helperFull, n)
		return nil
	}
	a := Args(call)
	okL := false
	d := Desc(a[lvlArgIdx])
	if levelIsParam {
		_, okL = Strip(a[lvlArgIdx]).(*ssa.Parameter)
	} else if v, ok := ConstInt(a[lvlArgIdx]); ok {
		okL = v == wantLevel
	}
	must := mustPass(fn, func(i ssa.Instruction) bool { return i == ssa.Instruction(call) })
	c.Check(okL && must, rule, name, "routes", call.Pos(), "calls %s with level %s on every path (level ok=%v, on-every-path=%v)", FuncName(CalleeFunc(call)), d, okL, must)
	return call
}

func c6FrontEnds(c *Ctx, lv map[string]int64) {
	zp := ZapPath
	// Logger.<Level>: check(CONST, msg) then Write iff non-nil
	for _, n := range append(append([]string{}, levelNames...), "Log") {
		fn := c.Method(zp, "Logger", n)
		if !c.Anchor("R6.2", "zap.Logger."+n, fn != nil) {
			continue
		}
		call := c6Route(c, "R6.2", fn, []string{"(*go.uber.org/zap.Logger).check"}, lv[n], n == "Log", 1)
		if call == nil {
			continue
		}
		// Write reached unless ce == nil
		var w ssa.Instruction
		for _, cl := range Calls(fn) {
			if IsCallTo(cl, "(*go.uber.org/zap/zapcore.CheckedEntry).Write") && Strip(Args(cl)[0]) == ssa.Value(call) {
				w = cl
			}
		}
		ok := false
		if w != nil {
			_, t, _ := BranchOn(fn, Desc(call)+" != nil")
			ok = t != nil && !ExistsPath(fn, AtBlock(t), IsReturn, func(i ssa.Instruction) bool { return i == w })
			// or: written on every path whatever it is, Write itself returning at once on a nil receiver
			ok = ok || (mustPass(fn, func(i ssa.Instruction) bool { return i == w }) && ceWriteNilSafe(c))
		}
		c.Check(ok, "R6.2", FStr(fn), "writes-unless-nil", call.Pos(), "the checked entry is written on every path where it is non-nil")
	}
	lc := c.Method(zp, "Logger", "Check")
	if c.Anchor("R6.2", "zap.Logger.Check", lc != nil) {
		c6Route(c, "R6.2", lc, []string{"(*go.uber.org/zap.Logger).check"}, 0, true, 1)
	}
	// SugaredLogger
	for _, n := range append(append([]string{}, levelNames...), "Log") {
		for _, suf := range []string{"", "f", "w", "ln"} {
			fn := c.Method(zp, "SugaredLogger", n+suf)
			if !c.Anchor("R6.2", "zap.SugaredLogger."+n+suf, fn != nil) {
				continue
			}
			// (either of the two shared helpers: the …ln family may go through log with a message function of its own)
			c6Route(c, "R6.2", fn, []string{"(*go.uber.org/zap.SugaredLogger).log", "(*go.uber.org/zap.SugaredLogger).logln"}, lv[n], n == "Log", 1)
		}
	}
	lim := itoa(int(lv["DPanic"]))
	for _, h := range []string{"log", "logln"} {
		fn := c.Method(zp, "SugaredLogger", h)
		if fn == nil && h == "logln" {
			continue // one helper serves both families
		}
		if !c.Anchor("R6.2", "zap.SugaredLogger."+h, fn != nil) {
			continue
		}
		name := FStr(fn)
		var chk *ssa.Call
		for _, cl := range Calls(fn) {
			if IsCallTo(cl, "(*go.uber.org/zap.Logger).Check") {
				chk, _ = cl.(*ssa.Call)
			}
		}
		if chk == nil {
			c.Bad("R6.2", name, "checks", fn.Pos(), "helper does not call Logger.Check")
			continue
		}
		c.Check(Strip(Args(chk)[1]) == ssa.Value(fn.Params[1]), "R6.2", name, "checks-same-level", chk.Pos(), "Logger.Check is called with the helper's own lvl parameter")
		// with the level fixed to each value from DPanic upwards, every path reaches Logger.Check
		_ = lim
		lp := PN(fn.Params[1])
		var skipping []string
		nP := 0
		for L := lv["DPanic"]; L <= lv["Fatal"]+1; L++ {
			lvv := L
			seqs, trunc := ConcPaths(fn, ConcCfg{
				Prune:  true,
				Inline: func(h *ssa.Function) bool { return len(h.Blocks) <= 4 },
				Conc: func(d string) (int64, bool) {
					if d == lp {
						return lvv, true
					}
					return 0, false
				},
				Event: func(in ssa.Instruction, st *ConcState) string {
					if cl, ok := in.(*ssa.Call); ok && IsCallTo(cl, "(*go.uber.org/zap.Logger).Check") {
						return "check"
					}
					return ""
				},
			})
			if trunc || len(seqs) == 0 {
				skipping = append(skipping, "exploration incomplete at level "+itoa(int(lvv)))
			}
			for _, sq := range seqs {
				nP++
				if !strings.Contains(sq, "check") {
					skipping = append(skipping, "level "+itoa(int(lvv))+": a path returns without Logger.Check")
				}
			}
		}
		c.Check(len(skipping) == 0, "R6.2", name, "no-skip-from-dpanic-up", fn.Pos(), "with lvl fixed to each of DPanic, Panic, Fatal and one value above, every path of the helper (%d explored, small helpers inline) reaches Logger.Check - the cheap Enabled pre-check cannot skip an entry that must panic or exit: %v", nP, skipping)
		var w ssa.Instruction
		for _, cl := range Calls(fn) {
			if IsCallTo(cl, "(*go.uber.org/zap/zapcore.CheckedEntry).Write") && Strip(Args(cl)[0]) == ssa.Value(chk) {
				w = cl
			}
		}
		ok := false
		if w != nil {
			_, t, _ := BranchOn(fn, Desc(chk)+" != nil")
			ok = t != nil && !ExistsPath(fn, AtBlock(t), IsReturn, func(i ssa.Instruction) bool { return i == w })
			ok = ok || (mustPass(fn, func(i ssa.Instruction) bool { return i == w }) && ceWriteNilSafe(c))
		}
		c.Check(ok, "R6.2", name, "writes-unless-nil", chk.Pos(), "the checked entry is written on every path where it is non-nil")
	}
	// the std-log bridges: whatever the constructors store in the writer, a Write on it logs through Logger.check at
	// exactly the level asked for (c6StdBridge)
	c6StdBridge(c, "R6.2", lv)
	// zapgrpc
	gp := "go.uber.org/zap/zapgrpc"
	c6GrpcRoutes(c, "R6.2")
	// printer methods
	for m, fld := range map[string]string{"Print": "print", "Printf": "printf", "Println": "print"} {
		fn := c.Method(gp, "printer", m)
		if !c.Anchor("R6.2", "zapgrpc.printer."+m, fn != nil) {
			continue
		}
		var hit ssa.Instruction
		for _, cl := range Calls(fn) {
			if Desc(cl.Common().Value) == "v."+fld {
				hit = cl
			}
		}
		if hit == nil {
			// the other design: the printer holds the sugared logger and its level, and calls Log/Logf/Logln(level, …),
			// whose own pre-check is decided with the SugaredLogger helpers (no-skip-from-dpanic-up)
			want := map[string]string{"Print": "Log", "Printf": "Logf", "Println": "Logln"}[m]
			var viaLog ssa.Instruction
			for _, cl := range Calls(fn) {
				if IsCallTo(cl, "(*go.uber.org/zap.SugaredLogger)."+want) && strings.HasSuffix(Desc(Args(cl)[1]), ".level") && strings.HasPrefix(Desc(Args(cl)[1]), PN(fn.Params[0])+".") {
					viaLog = cl
				}
			}
			if viaLog != nil {
				c.Check(mustPass(fn, func(i ssa.Instruction) bool { return i == viaLog }), "R6.2", FStr(fn), "routes", viaLog.Pos(), "always forwards to SugaredLogger.%s at the printer's own level", want)
				continue
			}
			c.Bad("R6.2", FStr(fn), "routes", fn.Pos(), "does not call v.%s", fld)
			continue
		}
		if m == "Println" {
			// may be skipped only by the (R5.2-legal) pre-check - decided on the paths of the method, the printer's level
			// fixed to each value in turn and both answers of the enabler followed: from DPanic up every path prints,
			// below it every path on which the enabler said yes does
			okAll := true
			var cex []string
			rcv := PN(fn.Params[0])
			for L := lv["Debug"] - 1; L <= lv["Fatal"]+1 && okAll; L++ {
				L := L
				seqs, trunc := ConcPaths(fn, ConcCfg{
					MaxDepth: 4,
					Conc: func(d string) (int64, bool) {
						if d == rcv+".level" {
							return L, true
						}
						return 0, false
					},
					Fork: func(in ssa.Instruction, st *ConcState) []ConcAlt {
						cl, isCall := in.(*ssa.Call)
						if !isCall || !cl.Call.IsInvoke() || cl.Call.Method.Name() != "Enabled" {
							return nil
						}
						return []ConcAlt{{Ev: "enabled", Ints: map[ssa.Value]int64{cl: 1}}, {Ev: "disabled", Ints: map[ssa.Value]int64{cl: 0}}}
					},
					Event: func(in ssa.Instruction, st *ConcState) string {
						if in == hit {
							return "print"
						}
						return ""
					},
				})
				if trunc || len(seqs) == 0 {
					okAll = false
					cex = []string{"paths not enumerable at level " + itoa(int(L))}
					break
				}
				for _, sq := range seqs {
					printed, disabled := false, false
					for _, e := range strings.Split(sq, " ; ") {
						printed = printed || e == "print"
						disabled = disabled || e == "disabled"
					}
					if !printed && (L >= lv["DPanic"] || !disabled) {
						okAll = false
						cex = []string{"level=" + itoa(int(L)), sq}
					}
				}
			}
			c.Check(okAll, "R6.2", FStr(fn), "routes", hit.Pos(), "v.print may be skipped only for levels below DPanic (counter-example %v)", cex)
		} else {
			c.Check(mustPass(fn, func(i ssa.Instruction) bool { return i == hit }), "R6.2", FStr(fn), "routes", hit.Pos(), "always forwards to v.%s", fld)
		}
	}
	// NewLogger: the fatal printer is wired to FatalLevel / Fatal / Fatalf
	nl := c.Func(gp, "NewLogger")
	pr := c.Named(gp, "printer")
	if c.Anchor("R6.2", "zapgrpc.NewLogger", nl != nil && pr != nil) {
		// by path exploration (helpers inline): what the printers stored into logger.print / logger.fatal hold at
		// the moment they are installed
		describe := func(st *ConcState, pv ssa.Value) map[string]string {
			got := map[string]string{}
			resolve := func(v ssa.Value) ssa.Value {
				for k := 0; k < 16 && v != nil; k++ {
					switch x := v.(type) {
					case *ssa.ChangeType:
						v = x.X
						continue
					case *ssa.MakeInterface:
						v = x.X
						continue
					}
					nx := st.Step(v)
					if nx == nil {
						break
					}
					v = nx
				}
				return v
			}
			stt, _ := pr.Underlying().(*types.Struct)
			for i := 0; stt != nil && i < stt.NumFields(); i++ {
				f := FN(stt.Field(i))
				k, isInt, val := st.FieldOf(pv, f)
				switch {
				case isInt:
					got[f] = itoa(int(k))
				case val != nil:
					r := resolve(val)
					if mk, ok := r.(*ssa.MakeClosure); ok && len(mk.Bindings) == 1 {
						got[f] = "closure " + mk.Fn.Name() + " of " + st.Desc(mk.Bindings[0])
					} else {
						got[f] = st.Desc(val)
					}
				}
			}
			return got
		}
		seen := map[string]map[string]string{}
		seqs, trunc := ConcPaths(nl, ConcCfg{
			Event: func(in ssa.Instruction, st *ConcState) string {
				x, ok := in.(*ssa.Store)
				if !ok {
					return ""
				}
				fa, isFA := x.Addr.(*ssa.FieldAddr)
				if !isFA || TypeName(deref(fa.X.Type())) != "zapgrpc.Logger" {
					return ""
				}
				which := fieldName(fa.X.Type(), fa.Field)
				if which != "fatal" && which != "print" {
					return ""
				}
				got := describe(st, x.Val)
				if old, dup := seen[which]; dup && fmt.Sprint(old) != fmt.Sprint(got) {
					got["conflict"] = fmt.Sprint(old)
				}
				seen[which] = got
				return which
			},
		})
		chk := func(which string, lvl int64, pm, pfm string) {
			got := seen[which]
			bound := func(v, m string) bool {
				return strings.HasPrefix(v, "closure "+m+"$bound of ") && (strings.HasSuffix(v, ".delegate") || strings.Contains(v, " of Sugar("))
			}
			live := strings.HasSuffix(got["enab"], "levelEnabler") || strings.HasPrefix(got["enab"], "Core(")
			ok := got["conflict"] == "" && got["level"] == itoa(int(lvl)) && bound(got["print"], pm) && bound(got["printf"], pfm) && live
			if !ok && got["conflict"] == "" && got["level"] == itoa(int(lvl)) && len(got) == 2 {
				// {log: the delegate, level}: the level alone selects what the printer does
				for f, v := range got {
					if f != "level" && (strings.HasSuffix(v, ".delegate") || strings.HasPrefix(v, "Sugar(")) {
						ok = true
					}
				}
			}
			c.Check(ok, "R6.2", FStr(nl), "printer/"+which, nl.Pos(), "the %s printer is {level:%d, print:delegate.%s, printf:delegate.%s, enab: the live enabler} (got %v)", which, lvl, pm, pfm, got)
		}
		if trunc || len(seqs) == 0 || seen["fatal"] == nil || seen["print"] == nil {
			c.Bad("R6.2", FStr(nl), "printers", nl.Pos(), "cannot find the printers stored into logger.fatal / logger.print")
		} else {
			chk("fatal", lv["Fatal"], "Fatal", "Fatalf")
			chk("print", lv["Info"], "Info", "Infof")
		}
	}
}

func parseInt(s string) (int64, bool) {
	neg := strings.HasPrefix(s, "-")
	s = strings.TrimPrefix(s, "-")
	if s == "" {
		return 0, false
	}
	var v int64
	for _, ch := range s {
		if ch < '0' || ch > '9' {
			return 0, false
		}
		v = v*10 + int64(ch-'0')
	}
	if neg {
		v = -v
	}
	return v, true
}

func c6Write(c *Ctx) {
	fn := c.Method(CorePath, "CheckedEntry", "Write")
	if !c.Anchor("R6.3", "zapcore.CheckedEntry.Write", fn != nil) {
		return
	}
	name := FStr(fn)
	var coreWrite, hook, put *ssa.Call
	for _, cl := range CallsDeep(fn) {
		call, _ := cl.(*ssa.Call)
		switch {
		case IsCallTo(cl, "(go.uber.org/zap/zapcore.Core).Write"):
			coreWrite = call
		case IsCallTo(cl, "(go.uber.org/zap/zapcore.CheckWriteHook).OnWrite"):
			hook = call
		case IsCallTo(cl, "go.uber.org/zap/zapcore.putCheckedEntry"):
			put = call
		}
	}
	if coreWrite == nil || hook == nil || put == nil {
		c.Bad("R6.3", name, "shape", fn.Pos(), "expected Core.Write, hook.OnWrite and putCheckedEntry calls")
		return
	}
	rc := PN(fn.Params[0])
	ok, over, why := LoopVisitsAll(coreWrite.Parent(), coreWrite)
	var d1, d2 string
	Bound(func() {
		a := Args(coreWrite)
		d1, d2 = Desc(a[1]), Desc(a[2])
		over = strings.Replace(over, PN(coreWrite.Parent().Params[0])+".", rc+".", 1)
		// the loop is a helper's and ranges over a parameter of it (the list itself is handed over): what the call
		// site binds that parameter to
		if h := coreWrite.Parent(); h != fn {
			for _, q := range h.Params {
				if PN(q) == over {
					over = Desc(q)
				}
			}
		}
	})
	// ... in every round: the call is on every path from the loop head back to it (no `continue` around it - a core
	// that accepted the entry in Check is written whatever it would say now)
	everyRound := true
	if h := LoopHeader(coreWrite.Block()); h != nil {
		for _, p := range h.Preds {
			if (p == h || h.Dominates(p)) && !coreWrite.Block().Dominates(p) {
				everyRound = false
				why += " the call can be skipped within a round (conditional write)"
			}
		}
	}
	c.Check(ok && everyRound && over == rc+".cores", "R6.3", name, "all-cores", coreWrite.Pos(), "every accepting core is written (range over %s, no early exit, in every round) %s", over, why)
	// a tee registered as ONE core (under a wrapper that registers itself) must hand the final entry to all its branches too
	if mw := c.Method(CorePath, "multiCore", "Write"); c.Anchor("R6.3", "zapcore.multiCore.Write", mw != nil) {
		okT, whyT, in2, _ := VisitsAll(mw, func(cl ssa.CallInstruction) bool {
			return IsCallTo(cl, "(go.uber.org/zap/zapcore.Core).Write") && cl.Common().IsInvoke()
		}, mw.Params[0])
		pos := mw.Pos()
		if in2 != nil {
			pos = in2.Pos()
		}
		c.Check(okT, "R6.3", FStr(mw), "all-branches", pos, "a tee writes the entry to every branch whatever the earlier branches returned, so a terminal entry reaches every core before control is lost %s", whyT)
	}
	c.Check(d1 == rc+".Entry" && d2 == PN(fn.Params[1]), "R6.3", name, "same-entry-and-fields", coreWrite.Pos(), "each core receives ce.Entry and the caller's fields (%s, %s)", d1, d2)
	isAny := func(x ...*ssa.Call) func(ssa.Instruction) bool {
		return func(i ssa.Instruction) bool {
			for _, y := range x {
				if i == ssa.Instruction(y) {
					return true
				}
			}
			return false
		}
	}
	c.Check(!ExistsPath(fn, hook, isAny(coreWrite), nil) && !ExistsPath(fn, put, isAny(hook, coreWrite), nil) && ExistsPath(fn, coreWrite, isAny(hook), nil), "R6.3", name, "order", hook.Pos(), "cores are written before the hook runs, and the entry is recycled only after the hook")
	// hook guard set
	extra := []string{}
	for _, g := range AtomStrings(Guards(hook)) {
		switch {
		case g == rc+" != nil", g == "!"+rc+".dirty", g == rc+".after != nil", strings.Contains(g, "rangeindex"):
		default:
			extra = append(extra, g)
		}
	}
	c.Check(len(extra) == 0 && Desc(Args(hook)[0]) == rc+".after", "R6.3", name, "hook-unconditional", hook.Pos(), "the attached hook runs whenever it is set, independent of core errors (extra guards %v)", extra)
	// once the dirty check passed, every path to the return evaluates the hook test
	_, t, _ := BranchOn(hook.Parent(), rc+".after != nil")
	c.Check(t != nil && t == hook.Block(), "R6.3", name, "hook-branch", hook.Pos(), "hook call sits directly under the ce.after != nil test")
}

func c6Sync(c *Ctx, lv map[string]int64) {
	fn := c.Method(CorePath, "ioCore", "Write")
	if c.Anchor("R6.4", "zapcore.ioCore.Write", fn != nil) {
		name := FStr(fn)
		var outWrite, sync *ssa.Call
		for _, cl := range CallsDeep(fn) {
			call, _ := cl.(*ssa.Call)
			d := ""
			if call != nil && len(Args(call)) > 0 {
				Bound(func() { d = Desc(Args(call)[0]) })
			}
			if IsCallTo(cl, "(io.Writer).Write", "(go.uber.org/zap/zapcore.WriteSyncer).Write") && d == "c.out" {
				outWrite = call
			}
			if IsCallTo(cl, "(*go.uber.org/zap/zapcore.ioCore).Sync") || (IsCallTo(cl, "(go.uber.org/zap/zapcore.WriteSyncer).Sync") && d == "c.out") {
				sync = call
			}
		}
		if outWrite == nil || sync == nil {
			c.Bad("R6.4", name, "shape", fn.Pos(), "expected c.out.Write and a Sync call")
		} else {
			c.Check(Dominates(outWrite, sync), "R6.4", name, "sync-after-write", sync.Pos(), "Sync follows the sink write")
			// level set
			set := map[int64]bool{}
			for v := int64(-128); v <= 127; v++ {
				set[v] = true
			}
			var other []string
			for _, a := range Guards(sync) {
				s := AtomString(a)
				if m := regexp.MustCompile(`^ent\.Level (==|!=|<|<=|>|>=) (-?\d+)$`).FindStringSubmatch(s); m != nil {
					k, _ := parseInt(m[2])
					for v := int64(-128); v <= 127; v++ {
						keep := map[string]bool{"==": v == k, "!=": v != k, "<": v < k, "<=": v <= k, ">": v > k, ">=": v >= k}[m[1]]
						if !keep {
							delete(set, v)
						}
					}
					continue
				}
				if strings.HasSuffix(s, "== nil") { // the write's error (possibly returned by a helper)
					continue
				}
				other = append(other, s)
			}
			ok := set[lv["DPanic"]] && set[lv["Panic"]] && set[lv["Fatal"]]
			c.Check(ok && len(other) == 0, "R6.4", name, "sync-level-set", sync.Pos(), "the guard of Sync, evaluated over all 256 level values, admits %d levels and includes DPanic/Panic/Fatal=%v (unrecognised guards %v)", len(set), ok, other)
		}
		is := c.Method(CorePath, "ioCore", "Sync")
		if c.Anchor("R6.4", "zapcore.ioCore.Sync", is != nil) {
			for k, r := range Returns(is) {
				c.Check(Desc(RetVals(r)[0]) == "Sync(c.out)", "R6.4", FStr(is), "return#"+itoa(k+1), r.Pos(), "ioCore.Sync syncs its sink (%s)", Desc(RetVals(r)[0]))
			}
		}
	}
	c12Rules(c, "", "", "R6.4", "", "")
}

func c6Actions(c *Ctx) {
	fn := c.Method(CorePath, "CheckWriteAction", "OnWrite")
	vals := map[string]int64{}
	for _, n := range []string{"WriteThenNoop", "WriteThenGoexit", "WriteThenPanic", "WriteThenFatal"} {
		vals[n], _ = c.ConstVal(CorePath, n)
	}
	if c.Anchor("R6.5", "zapcore.CheckWriteAction.OnWrite", fn != nil) {
		name := FStr(fn)
		armOf := func(i ssa.Instruction) int64 {
			for _, a := range AtomStrings(Guards(i)) {
				if strings.HasPrefix(a, "a == ") {
					v, _ := parseInt(strings.TrimPrefix(a, "a == "))
					return v
				}
			}
			return -1
		}
		var sawPanic, sawExit, sawGoexit bool
		AllInstrs(fn, func(i ssa.Instruction) {
			switch x := i.(type) {
			case *ssa.Panic:
				sawPanic = true
				c.Check(armOf(i) == vals["WriteThenPanic"] && len(fn.Params) >= 2 && Desc(x.X) == PN(fn.Params[1])+".Entry.Message", "R6.5", name, "panic-arm", x.Pos(), "WriteThenPanic panics with the entry's message (%s)", Desc(x.X))
			case *ssa.Call:
				if IsCallTo(x, "go.uber.org/zap/internal/exit.With") {
					sawExit = true
					code, _ := ConstInt(x.Call.Args[0])
					c.Check(armOf(i) == vals["WriteThenFatal"] && code == 1, "R6.5", name, "fatal-arm", x.Pos(), "WriteThenFatal exits with status %d", code)
				}
				if IsCallTo(x, "runtime.Goexit") {
					sawGoexit = true
					c.Check(armOf(i) == vals["WriteThenGoexit"], "R6.5", name, "goexit-arm", x.Pos(), "WriteThenGoexit calls runtime.Goexit")
				}
			}
		})
		if !sawPanic || !sawExit || !sawGoexit {
			c.Bad("R6.5", name, "arms", fn.Pos(), "missing action arm (panic=%v exit=%v goexit=%v)", sawPanic, sawExit, sawGoexit)
		}
	}
	ep := "go.uber.org/zap/internal/exit"
	with := c.Func(ep, "With")
	if c.Anchor("R6.5", "exit.With", with != nil) {
		n := 0
		for _, cl := range Calls(with) {
			if Desc(cl.Common().Value) == "_exit" && len(cl.Common().Args) == 1 && cl.Common().Args[0] == ssa.Value(with.Params[0]) {
				n++
				c.Check(mustPass(with, func(i ssa.Instruction) bool { return i == ssa.Instruction(cl) }), "R6.5", FStr(with), "calls-exit", cl.Pos(), "With(code) calls the exit function with the same code on every path")
			}
		}
		if n != 1 {
			c.Bad("R6.5", FStr(with), "calls-exit", with.Pos(), "expected one call of _exit(code), found %d", n)
		}
	}
	// writers of _exit
	allowed := map[string]bool{ep + ".init": true, ep + ".Stub": true, "(*" + ep + ".StubbedExit).Unstub": true}
	initOK := false
	var badWriters []string
	for _, sp := range c.SSA.AllPackages() {
		if !strings.HasPrefix(sp.Pkg.Path(), ZapPath) {
			continue
		}
		for _, m := range sp.Members {
			f, ok := m.(*ssa.Function)
			if !ok {
				continue
			}
			for _, g := range WithClosures(f) {
				AllInstrs(g, func(i ssa.Instruction) {
					if st, ok := i.(*ssa.Store); ok {
						if gl, ok := st.Addr.(*ssa.Global); ok && GN(gl) == "_exit" && gl.Pkg.Pkg.Path() == ep {
							if FStr(g) == ep+".init" {
								initOK = Desc(st.Val) == "func os.Exit"
							}
							if !allowed[FStr(g)] {
								badWriters = append(badWriters, FStr(g))
							}
						}
					}
				})
			}
		}
	}
	c.EachRootFunc(func(g *ssa.Function) {
		AllInstrs(g, func(i ssa.Instruction) {
			if st, ok := i.(*ssa.Store); ok {
				if gl, ok := st.Addr.(*ssa.Global); ok && GN(gl) == "_exit" && !allowed[FStr(g)] {
					badWriters = append(badWriters, FStr(g))
				}
			}
		})
	})
	c.Check(initOK, "R6.5", ep+"._exit", "initialised-to-os.Exit", token.NoPos, "the exit function is initialised to os.Exit")
	c.Check(len(badWriters) == 0, "R6.5", ep+"._exit", "writers", token.NoPos, "only init/Stub/Unstub write the exit function (others: %v)", badWriters)
	// nobody in non-test code calls the stub helpers
	var callers []string
	c.EachRootFunc(func(g *ssa.Function) {
		if g.Pkg != nil && g.Pkg.Pkg.Path() == ep {
			return
		}
		for _, cl := range Calls(g) {
			if f := CalleeFunc(cl); f != nil && f.Pkg() != nil && f.Pkg().Path() == ep && FNm(f) != "With" {
				callers = append(callers, FStr(g)+"→"+FNm(f))
			}
		}
	})
	c.Check(len(callers) == 0, "R6.5", ep, "stub-callers", token.NoPos, "no non-test code outside the exit package calls Stub/WithStub/Unstub (found %v)", callers)
	_ = types.Typ
}

var reLvlCmp = regexp.MustCompile(`^(lvl|ent\.Level) (==|!=|<|<=|>|>=) (-?\d+)$`)

// impliedByLevel: is the (possibly disjunctive) guard string true for every
// entry whose level is L? Only comparisons of the level with constants are
// evaluated; any other atom counts as not implied.
func impliedByLevel(guard string, vars []string, L int64) bool {
	g := strings.TrimSuffix(strings.TrimPrefix(guard, "("), ")")
	for _, disj := range strings.Split(g, " ∨ ") {
		all := true
		for _, a := range strings.Split(disj, " ∧ ") {
			m := reLvlCmp.FindStringSubmatch(strings.TrimSpace(a))
			if m == nil {
				all = false
				break
			}
			k, _ := parseInt(m[3])
			ok := map[string]bool{"==": L == k, "!=": L != k, "<": L < k, "<=": L <= k, ">": L > k, ">=": L >= k}[m[2]]
			if !ok {
				all = false
				break
			}
		}
		if all {
			return true
		}
	}
	return false
}

// dynFuncCall: the one call in fn that goes through a function VALUE held by the receiver (a func-typed field, or
// the receiver itself when its type is a func type) - the bridged logger method of the std-log writer.
func dynFuncCall(fn *ssa.Function) *ssa.Call {
	var out *ssa.Call
	n := 0
	for _, cl := range Calls(fn) {
		c2, ok := cl.(*ssa.Call)
		if !ok || c2.Call.IsInvoke() || c2.Call.StaticCallee() != nil {
			continue
		}
		if _, isB := c2.Call.Value.(*ssa.Builtin); isB {
			continue
		}
		if len(fn.Params) == 0 {
			continue
		}
		r := Root(c2.Call.Value)
		if r == ssa.Value(fn.Params[0]) || Strip(c2.Call.Value) == ssa.Value(fn.Params[0]) {
			out = c2
			n++
		}
	}
	if n != 1 {
		return nil
	}
	return out
}

// c6CrashSync: ioCore.Write, explored for each level with the outcomes of encoding and of the sink's Write forked: an
// entry above ErrorLevel that the sink accepted without error is followed by a Sync before Write returns, and nil is
// returned exactly when encoding and the sink reported no error - Write invents no failure of its own in front of
// the sync (a sink that reports a short count without an error must not cost a Fatal entry its flush).
func c6CrashSync(c *Ctx, rule string) {
	fn := c.Method(CorePath, "ioCore", "Write")
	if !c.Anchor(rule, "zapcore.ioCore.Write", fn != nil && len(fn.Params) == 3) {
		return
	}
	entN := PN(fn.Params[1])
	errLvl, _ := c.ConstVal(CorePath, "ErrorLevel")
	var bad []string
	n := 0
	for lv := int64(-1); lv <= 5; lv++ {
		l0 := lv
		seqs, trunc := ConcPaths(fn, ConcCfg{
			Conc: func(d string) (int64, bool) {
				if d == entN+".Level" {
					return l0, true
				}
				return 0, false
			},
			Fork: func(in ssa.Instruction, st *ConcState) []ConcAlt {
				ex, ok := in.(*ssa.Extract)
				if !ok || ex.Index != 1 {
					return nil
				}
				cl, ok := ex.Tuple.(*ssa.Call)
				if !ok || !cl.Call.IsInvoke() {
					return nil
				}
				switch FNm(cl.Call.Method) {
				case "EncodeEntry":
					return []ConcAlt{{Ev: "encode-ok", Nils: map[ssa.Value]bool{ex: true}}, {Ev: "encode-failed", Nils: map[ssa.Value]bool{ex: false}}}
				case "Write":
					return []ConcAlt{{Ev: "sink-ok", Nils: map[ssa.Value]bool{ex: true}}, {Ev: "sink-failed", Nils: map[ssa.Value]bool{ex: false}}}
				}
				return nil
			},
			Event: func(in ssa.Instruction, st *ConcState) string {
				switch x := in.(type) {
				case *ssa.Call:
					if x.Call.IsInvoke() && FNm(x.Call.Method) == "Sync" || IsCallTo(x, "(*go.uber.org/zap/zapcore.ioCore).Sync") {
						return "sync"
					}
				case *ssa.Return:
					if nl, known := st.IsNil(x.Results[0]); known {
						return map[bool]string{true: "ret-nil", false: "ret-err"}[nl]
					}
					return "ret-?"
				}
				return ""
			},
			Inline: func(h *ssa.Function) bool { return FNm(h) != "Sync" },
		})
		if trunc || len(seqs) == 0 {
			c.Und(rule, FStr(fn), "crash-sync", fn.Pos(), "path exploration incomplete")
			return
		}
		for _, sq := range seqs {
			n++
			toks := strings.Split(sq, " ; ")
			has := map[string]bool{}
			for _, t := range toks {
				has[t] = true
			}
			last := toks[len(toks)-1]
			tag := "level " + itoa(int(l0)) + ": " + sq
			switch {
			case has["encode-failed"] || has["sink-failed"]:
				if last != "ret-err" {
					bad = append(bad, "a reported failure is not returned: "+tag)
				}
			case has["encode-ok"] && has["sink-ok"]:
				if last != "ret-nil" {
					bad = append(bad, "an error is returned although neither the encoder nor the sink reported one: "+tag)
				}
				if l0 > errLvl && !has["sync"] {
					bad = append(bad, "an entry above ErrorLevel is not synced: "+tag)
				}
			default:
				bad = append(bad, "neither encoded nor written: "+tag)
			}
		}
	}
	if len(bad) > 3 {
		bad = append(bad[:3:3], "… "+itoa(len(bad)-3)+" more")
	}
	c.Check(len(bad) == 0 && n >= 14, rule, FStr(fn), "crash-sync", fn.Pos(), "over %d paths (levels -1..5, encoder and sink outcomes forked): nil is returned exactly when neither reported an error, and an accepted entry above ErrorLevel is synced before Write returns: %v", n, bad)
}

// entryAtCoreCheck: what the fields of the entry that Logger.check hands to Core.Check hold, by path exploration
// (helpers that build the entry explored inline); ok only when every path that reaches Core.Check agrees.
func entryAtCoreCheck(c *Ctx) (map[string]string, bool) {
	fn := c.Method(ZapPath, "Logger", "check")
	if fn == nil {
		return nil, false
	}
	got := map[string]string{}
	agree, n := true, 0
	_, trunc := ConcPaths(fn, ConcCfg{
		Prune: false, MaxStates: 200000,
		Event: func(in ssa.Instruction, st *ConcState) string {
			x, ok := in.(*ssa.Call)
			if !ok || !IsCallTo(x, "(go.uber.org/zap/zapcore.Core).Check") || len(x.Call.Args) < 1 {
				return ""
			}
			n++
			for _, f := range []string{"Level", "LoggerName", "Message", "Time"} {
				k, isInt, v := st.FieldOf(x.Call.Args[0], f)
				d := ""
				switch {
				case isInt:
					d = itoa(int(k))
				case v != nil:
					d = st.Desc(v)
				}
				if prev, has := got[f]; has && prev != d {
					agree = false
				}
				got[f] = d
			}
			return ""
		},
	})
	return got, !trunc && agree && n > 0
}

// c6StdBridge decides the std-log bridges in two stages, independent of how the writer remembers its level (a bound
// method value, a logger plus a level, a table of functions): (1) each constructor is explored with its level fixed to
// every Level constant in turn and to values that are none; what the *loggerWriter handed to package log holds on each
// path is recorded. (2) loggerWriter.Write is explored with its receiver's fields seeded from that record (Logger
// methods inline): every path reaches Logger.check exactly once, with exactly that level - so Panic and Fatal written
// through the bridge terminate like the Logger's own. An unknown level yields an error and no writer.
func c6StdBridge(c *Ctx, rule string, lv map[string]int64) {
	zp := ZapPath
	lw := c.Method(zp, "loggerWriter", "Write")
	check := c.Method(zp, "Logger", "check")
	lwNamed := c.Named(zp, "loggerWriter")
	lg := c.Named(zp, "Logger")
	if !c.Anchor(rule, "zap.loggerWriter.Write / zap.Logger.check", lw != nil && check != nil && lwNamed != nil && lg != nil) {
		return
	}
	isLW := func(t types.Type) bool {
		n, _ := types.Unalias(deref(t)).(*types.Named)
		return n != nil && n.Obj() == lwNamed.Obj()
	}
	type snap struct {
		ints map[string]int64
		vals map[string]ssa.Value
		self ssa.Value // the writer itself, when it is not a struct (a function type with a Write method)
	}
	inlLogger := func(h *ssa.Function) bool {
		r := h
		for r.Parent() != nil {
			r = r.Parent()
		}
		rn := RecvNamed(r)
		return h != check && rn != nil && rn.Obj() == lg.Obj() && FNm(r) != "WithOptions"
	}
	// stage 2
	writeAt := func(sn snap) (levels []string, bad []string) {
		recv := lw.Params[0]
		seqs, trunc := ConcPaths(lw, ConcCfg{
			InlineAny: inlLogger, MaxDepth: 8,
			Init: func(st *ConcState) {
				if _, isStruct := types.Unalias(deref(recv.Type())).Underlying().(*types.Struct); !isStruct && sn.self != nil {
					st.SetAlias(recv, sn.self)
				}
				for f, k := range sn.ints {
					st.SetField(recv, f, k)
				}
				for f, v := range sn.vals {
					st.SetFieldVal(recv, f, v)
				}
			},
			Event: func(in ssa.Instruction, st *ConcState) string {
				switch x := in.(type) {
				case *ssa.Call:
					if x.Call.StaticCallee() == check && len(x.Call.Args) >= 2 {
						if k, ok := st.Int(x.Call.Args[1]); ok {
							return "check(" + itoa(int(k)) + ")"
						}
						return "check(?" + st.Desc(x.Call.Args[1]) + ")"
					}
				case *ssa.Return:
					if len(st.cfg.stackDepth()) == 0 {
						return "ret"
					}
				case *ssa.Panic:
					return "panic"
				}
				return ""
			},
		})
		if trunc || len(seqs) == 0 {
			return nil, []string{"path exploration of Write incomplete"}
		}
		for _, sq := range seqs {
			toks := strings.Split(sq, " ; ")
			var cs []string
			for _, t := range toks {
				if strings.HasPrefix(t, "check(") {
					cs = append(cs, t)
				}
			}
			if len(cs) != 1 {
				bad = append(bad, sq)
				continue
			}
			levels = append(levels, cs[0])
		}
		return levels, bad
	}
	type ctor struct {
		name     string
		levelIdx int // index of the level parameter, -1: none (Info)
	}
	nDecided := 0
	for _, ct := range []ctor{{"NewStdLog", -1}, {"NewStdLogAt", 1}, {"RedirectStdLog", -1}, {"RedirectStdLogAt", 1}} {
		fn := c.Func(zp, ct.name)
		if !c.Anchor(rule, "zap."+ct.name, fn != nil && len(fn.Params) > ct.levelIdx) {
			continue
		}
		type lcase struct {
			name  string
			k     int64
			valid bool
		}
		var cases []lcase
		if ct.levelIdx < 0 {
			cases = []lcase{{"Info", lv["Info"], true}}
		} else {
			for _, n := range levelNames {
				cases = append(cases, lcase{n, lv[n], true})
			}
			cases = append(cases, lcase{"below-Debug", lv["Debug"] - 1, false}, lcase{"above-Fatal", lv["Fatal"] + 1, false}, lcase{"far-out", 99, false})
		}
		for _, lc := range cases {
			lc := lc
			var snaps []snap
			var errs []string
			installed := 0
			seqs, trunc := ConcPaths(fn, ConcCfg{
				MaxDepth: 6,
				// one bridge built on another (NewStdLog as NewStdLogAt at InfoLevel)
				InlineAny: func(h *ssa.Function) bool {
					return h.Pkg != nil && h.Pkg.Pkg.Path() == zp && h.Signature.Recv() == nil && (FNm(h) == "NewStdLog" || FNm(h) == "NewStdLogAt" || FNm(h) == "RedirectStdLog" || FNm(h) == "RedirectStdLogAt")
				},
				Init: func(st *ConcState) {
					if ct.levelIdx >= 0 {
						st.SetInt(fn.Params[ct.levelIdx], lc.k)
					}
				},
				Event: func(in ssa.Instruction, st *ConcState) string {
					switch x := in.(type) {
					case *ssa.Call:
						sc := x.Call.StaticCallee()
						if sc == nil || sc.Pkg == nil || sc.Pkg.Pkg.Path() != "log" {
							return ""
						}
						for _, a := range x.Call.Args {
							v := a
							for k := 0; k < 12; k++ {
								if mi, ok := v.(*ssa.MakeInterface); ok {
									v = mi.X
									continue
								}
								nx := st.Step(v)
								if nx == nil {
									break
								}
								v = nx
							}
							if !isLW(v.Type()) {
								continue
							}
							self := v
							for k := 0; k < 8; k++ {
								if ct, isCT := self.(*ssa.ChangeType); isCT {
									self = ct.X
									continue
								}
								if nx := st.Step(self); nx != nil {
									self = nx
									continue
								}
								break
							}
							sn := snap{ints: map[string]int64{}, vals: st.FieldValsOf(v), self: self}
							for f, fv := range sn.vals {
								// what the stored register stands for on this path (the second stage does not know
								// this path's bindings)
								for k := 0; k < 16; k++ {
									nx := st.Step(fv)
									if nx == nil {
										break
									}
									fv = nx
								}
								sn.vals[f] = fv
							}
							for f, d := range st.FieldsOf(v) {
								if _, isVal := sn.vals[f]; !isVal {
									if k, ok := parseInt(d); ok {
										sn.ints[f] = k
									}
								}
							}
							snaps = append(snaps, sn)
							installed++
							return "install:" + FNm(sc)
						}
					case *ssa.Return:
						if len(st.cfg.stackDepth()) != 0 {
							return ""
						}
						if n := len(x.Results); n > 0 {
							if _, isErr := types.Unalias(x.Results[n-1].Type()).Underlying().(*types.Interface); isErr && TStr(x.Results[n-1].Type()) == "error" {
								if isNil, known := st.IsNil(x.Results[n-1]); known {
									if isNil {
										return "ret-ok"
									}
									return "ret-err"
								}
								return "ret-?"
							}
						}
						return "ret-ok"
					}
					return ""
				},
			})
			slot := ct.name + "/" + lc.name
			if trunc || len(seqs) == 0 {
				c.Und(rule, "std-log bridge", slot, fn.Pos(), "path exploration of %s incomplete", ct.name)
				continue
			}
			nDecided++
			for _, sq := range seqs {
				hasInstall := strings.Contains(sq, "install:")
				switch {
				case lc.valid && !(strings.HasSuffix(sq, "ret-ok") && hasInstall):
					errs = append(errs, "a valid level must install a writer and succeed: "+sq)
				case !lc.valid && !(strings.HasSuffix(sq, "ret-err") && !hasInstall):
					errs = append(errs, "an unknown level must fail without installing a writer: "+sq)
				}
			}
			if lc.valid {
				for _, sn := range snaps {
					levels, bad := writeAt(sn)
					for _, b := range bad {
						errs = append(errs, "Write does not reach Logger.check exactly once: "+b)
					}
					for _, l := range levels {
						if l != "check("+itoa(int(lc.k))+")" {
							errs = append(errs, "Write logs at "+l)
						}
					}
					if len(levels) == 0 {
						errs = append(errs, "Write never logs")
					}
				}
			}
			c.Check(len(errs) == 0, rule, "std-log bridge", slot, fn.Pos(), "%s with the level fixed to %s (%d): %s; a Write on the installed writer (seeded with what the constructor stored, %d installation(s)) reaches Logger.check exactly once on every path, at that level: %v",
				ct.name, lc.name, lc.k, map[bool]string{true: "installs a writer and succeeds", false: "fails and installs nothing"}[lc.valid], installed, errs)
		}
	}
	if nDecided < 22 {
		c.Bad(rule, "std-log bridge", "count", token.NoPos, "expected NewStdLog and RedirectStdLog plus 2 constructors x 10 levels, decided %d", nDecided)
	}
}

// c6FreshEntryCarriesEntry: CheckedEntry.AddCore and CheckedEntry.After explored with a nil receiver (no core accepted
// so far): on every path the checked entry handed back has its Entry set to the entry passed in. With a non-nil
// receiver the Entry already there is left alone.
func c6FreshEntryCarriesEntry(c *Ctx, rule string) {
	for _, m := range []string{"AddCore", "After"} {
		fn := c.Method(CorePath, "CheckedEntry", m)
		if !c.Anchor(rule, "zapcore.CheckedEntry."+m, fn != nil && len(fn.Params) >= 2) {
			continue
		}
		recv, ent := fn.Params[0], fn.Params[1]
		for _, isNil := range []bool{true, false} {
			nilRecv := isNil
			var bad []string
			seqs, trunc := ConcPaths(fn, ConcCfg{
				Init: func(st *ConcState) { st.SetNil(recv, nilRecv) },
				Event: func(in ssa.Instruction, st *ConcState) string {
					switch x := in.(type) {
					case *ssa.Store:
						if fa, ok := x.Addr.(*ssa.FieldAddr); ok && fieldName(fa.X.Type(), fa.Field) == "Entry" && !nilRecv {
							return "stores-entry"
						}
					case *ssa.Return:
						if len(x.Results) != 1 || len(st.cfg.stackDepth()) != 0 {
							return ""
						}
						if !nilRecv {
							return "ret"
						}
						_, _, v := st.FieldOf(x.Results[0], "Entry")
						for k := 0; v != nil && k < 12; k++ {
							nx := st.Step(v)
							if nx == nil {
								break
							}
							v = nx
						}
						ok := v == ssa.Value(ent)
						if ld, isLd := v.(*ssa.UnOp); !ok && isLd {
							// the parameter spilled into a local and loaded back
							if a, isA := ld.X.(*ssa.Alloc); isA && a.Comment == ent.Name() {
								ok = true
							}
						}
						if ok {
							return "ret-with-entry"
						}
						return "ret-without-entry"
					}
					return ""
				},
			})
			for _, sq := range seqs {
				if nilRecv && !strings.HasSuffix(sq, "ret-with-entry") || !nilRecv && strings.Contains(sq, "stores-entry") {
					bad = append(bad, sq)
				}
			}
			slot := "fresh-entry-carries-entry"
			if !nilRecv {
				slot = "existing-entry-kept"
			}
			c.Check(!trunc && len(seqs) > 0 && len(bad) == 0, rule, FStr(fn), slot, fn.Pos(), "%s explored with a %s receiver: %s (offending: %v)", m, map[bool]string{true: "nil", false: "non-nil"}[nilRecv], map[bool]string{true: "the checked entry handed back has Entry = the entry passed in on every path", false: "the Entry already recorded is not overwritten"}[nilRecv], bad)
		}
	}
}

// c6GrpcRoutes: every method of the gRPC adapter forwards to the delegate method (or printer) of its own level.
func c6GrpcRoutes(c *Ctx, rule string) {
	gp := "go.uber.org/zap/zapgrpc"
	grpc := map[string]string{
		"Info": "delegate.Info", "Infoln": "delegate.Info", "Infof": "delegate.Infof",
		"Warning": "delegate.Warn", "Warningln": "delegate.Warn", "Warningf": "delegate.Warnf",
		"Error": "delegate.Error", "Errorln": "delegate.Error", "Errorf": "delegate.Errorf",
		"Fatal": "fatal.Print", "Fatalln": "fatal.Println", "Fatalf": "fatal.Printf",
		"Print": "print.Print", "Println": "print.Println", "Printf": "print.Printf",
	}
	for m, target := range grpc {
		fn := c.Method(gp, "Logger", m)
		if !c.Anchor(rule, "zapgrpc.Logger."+m, fn != nil) {
			continue
		}
		parts := strings.Split(target, ".")
		n := 0
		var hit ssa.CallInstruction
		for _, cl := range Calls(fn) {
			f := CalleeFunc(cl)
			// (a …ln method may hand its arguments to the sugared logger's own …ln method of the same level)
			if f == nil || FNm(f) != parts[1] && !(strings.HasSuffix(m, "ln") && parts[0] == "delegate" && FNm(f) == parts[1]+"ln") {
				continue
			}
			if Desc(Args(cl)[0]) == "l."+parts[0] {
				n++
				hit = cl
			}
		}
		ok := n == 1
		if ok && strings.HasPrefix(m, "Fatal") {
			// fatal entries must be forwarded on every path
			ok = mustPass(fn, func(i ssa.Instruction) bool { return i == ssa.Instruction(hit) })
		}
		c.Check(ok, rule, FStr(fn), "routes", fn.Pos(), "forwards to l.%s (found %d%s)", target, n, map[bool]string{true: "", false: "; not on every path"}[ok || n != 1])
	}
}

// c6OnFatalPassesAction: every call in OnFatal that takes a CheckWriteHook gets the parameter itself (converted to the
// interface and nothing else).
func c6OnFatalPassesAction(c *Ctx, rule string) {
	fn := c.Func("go.uber.org/zap", "OnFatal")
	if !c.Anchor(rule, "zap.OnFatal", fn != nil && len(fn.Params) == 1) {
		return
	}
	n := 0
	var bad []string
	for _, g := range WithClosures(fn) {
		for _, cl := range Calls(g) {
			for _, a := range cl.Common().Args {
				if TypeName(a.Type()) != "zapcore.CheckWriteHook" {
					continue
				}
				n++
				mi, ok := a.(*ssa.MakeInterface)
				if !ok || mi.X != ssa.Value(fn.Params[0]) {
					bad = append(bad, FNm(g)+": "+a.String())
				}
			}
		}
	}
	c.Check(n > 0 && len(bad) == 0, rule, FStr(fn), "passes-the-action-itself", fn.Pos(), "the hook OnFatal installs is its parameter converted to the interface (%d sites; not: %v)", n, bad)
}
