package zv

import (
	"fmt"
	"go/types"
	"os"
	"strings"

	"golang.org/x/tools/go/ssa"
)

// c1Namespaces: the namespace counter of the JSON encoder accounts for exactly the braces that are still open.
//
// Every method of jsonEncoder is explored with the counter fixed on entry (0 and 1) and every hand-over of the encoder
// to user code (ObjectMarshaler, Field.AddTo, …) forked into "opens no namespace" / "opens one" (a '{' and counter+1,
// which is all user code can do to the nesting through the ObjectEncoder interface). On every path the net number of
// braces the method wrote equals the change of the counter; EncodeEntry - which closes everything - nets minus the
// number that was open in the logger's context. An object nested inside an open namespace must therefore leave the
// enclosing namespaces counted, or the final line misses their '}'.
func c1Namespaces(c *Ctx, rule string) {
	jn := c.Named(CorePath, "jsonEncoder")
	if !c.Anchor(rule, "zapcore.jsonEncoder", jn != nil) {
		return
	}
	isJSONEnc := func(t types.Type) bool {
		n, _ := types.Unalias(deref(t)).(*types.Named)
		return n != nil && n.Obj() == jn.Obj()
	}
	resolve := func(st *ConcState, v ssa.Value) ssa.Value {
		for k := 0; k < 16 && v != nil; k++ {
			switch x := v.(type) {
			case *ssa.ChangeType:
				v = x.X
				continue
			case *ssa.ChangeInterface:
				v = x.X
				continue
			case *ssa.MakeInterface:
				v = x.X
				continue
			}
			nx := st.Step(v)
			if nx == nil {
				break
			}
			v = nx
		}
		return v
	}
	// the encoder a call hands to code that may open namespaces on it: an argument of interface type ObjectEncoder
	// that is a *jsonEncoder on this path
	handedOver := func(st *ConcState, x *ssa.Call) (enc ssa.Value, mayOpen bool) {
		if x.Call.IsInvoke() {
			// a method of the encoder called through one of its interfaces: OpenNamespace is decided where it is
			// defined; the others are balanced
			if r := resolve(st, x.Call.Value); r != nil && isJSONEnc(r.Type()) {
				return r, FNm(x.Call.Method) == "OpenNamespace"
			}
		}
		for _, a := range x.Call.Args {
			if _, isIface := types.Unalias(a.Type()).Underlying().(*types.Interface); !isIface {
				continue
			}
			if r := resolve(st, a); r != nil && isJSONEnc(r.Type()) {
				// only ObjectEncoder offers OpenNamespace; through ArrayEncoder / PrimitiveArrayEncoder user code can
				// add balanced values only
				return r, strings.HasSuffix(TStr(a.Type()), "zapcore.ObjectEncoder")
			}
		}
		return nil, false
	}
	hasLoop := func(f *ssa.Function) bool {
		for _, b := range f.Blocks {
			if LoopHeader(b) == b {
				return true
			}
		}
		return false
	}
	// touches: functions of zapcore that (transitively) write a brace, store the counter or hand an ObjectEncoder to
	// other code; every other function leaves nesting and counter as they are and need not be explored
	touches := map[*ssa.Function]bool{}
	funcs := coreFuncs(c)
	for _, f := range funcs {
		AllInstrs(f, func(in ssa.Instruction) {
			switch x := in.(type) {
			case *ssa.Store:
				if fa, ok := x.Addr.(*ssa.FieldAddr); ok && fieldName(fa.X.Type(), fa.Field) == "openNamespaces" {
					touches[f] = true
				}
				if isStructVal(x.Val) && isJSONEnc(x.Val.Type()) {
					touches[f] = true // the whole encoder is overwritten (*clone = *enc), the counter with it
				}
			case *ssa.Call:
				if alts, ok := constWrite(c, in); ok {
					for _, a := range alts {
						for _, ch := range a {
							if ch == '{' || ch == '}' {
								touches[f] = true
							}
						}
					}
				}
				for _, a := range x.Call.Args {
					if strings.HasSuffix(TStr(a.Type()), "zapcore.ObjectEncoder") {
						touches[f] = true
					}
				}
				if x.Call.IsInvoke() && strings.HasSuffix(TStr(x.Call.Value.Type()), "zapcore.ObjectEncoder") {
					touches[f] = true
				}
			}
		})
	}
	for changed := true; changed; {
		changed = false
		for _, f := range funcs {
			if touches[f] {
				continue
			}
			for _, cl := range Calls(f) {
				if sc := StaticCallee(cl); sc != nil && touches[sc] {
					touches[f], changed = true, true
				}
			}
		}
	}
	n := 0
	for _, fn := range funcs {
		rn := RecvNamed(fn)
		if rn == nil || rn.Obj() != jn.Obj() || fn.Parent() != nil || len(fn.Params) == 0 {
			continue
		}
		// only methods that write brackets, touch the counter or hand the encoder over
		relevant := false
		for _, f := range Region(fn) {
			AllInstrs(f, func(in ssa.Instruction) {
				switch x := in.(type) {
				case *ssa.FieldAddr:
					if fieldName(x.X.Type(), x.Field) == "openNamespaces" {
						relevant = true
					}
				case *ssa.Call:
					if x.Call.IsInvoke() && (FNm(x.Call.Method) == "MarshalLogObject") {
						relevant = true
					}
				}
			})
		}
		if !relevant {
			continue
		}
		if Eligible(fn) && !hasLoop(fn) && FNm(fn) != "clone" {
			continue // explored inline at its call sites
		}
		name := FStr(fn)
		recv := fn.Params[0]
		inl := func(h *ssa.Function) bool {
			return h.Pkg != nil && h.Pkg.Pkg.Path() == CorePath && FNm(h) != "AddTo" && FNm(h) != "addFields" && (touches[h] || h.Parent() != nil)
		}
		var bad []string
		paths, cutAll := 0, 0
		und := ""
		entries := []int64{0, 1}
		if Thorough {
			entries = []int64{0, 1, 2}
		}
		for _, o := range entries {
			cut := 0
			seqs, trunc := ConcPaths(fn, ConcCfg{
				MaxIter: 3, Cut: &cut, Prune: true, MaxStates: 400000,
				InitFields: []FieldVal{{Obj: recv, Field: "openNamespaces", Val: o}},
				Inline:     inl,
				InlineAny:  func(h *ssa.Function) bool { rn := RecvNamed(h); return inl(h) && rn != nil && rn.Obj() == jn.Obj() },
				MaxDepth:   9,
				Fork: func(in ssa.Instruction, st *ConcState) []ConcAlt {
					x, ok := in.(*ssa.Call)
					if !ok {
						return nil
					}
					if sc := x.Call.StaticCallee(); sc != nil && sc.Pkg != nil && sc.Pkg.Pkg.Path() == CorePath && FNm(sc) != "AddTo" && FNm(sc) != "addFields" {
						if touches[sc] {
							return nil // explored inline
						}
						// a zapcore function that neither writes braces nor touches the counter: whatever encoder it
						// was given keeps its counter
						var alt ConcAlt
						for _, a := range x.Call.Args {
							if r := resolve(st, a); r != nil && isJSONEnc(r.Type()) {
								if cur, known, _ := st.FieldOf(r, "openNamespaces"); known {
									alt.Fields = append(alt.Fields, FieldVal{Obj: r, Field: "openNamespaces", Val: cur})
								}
							}
						}
						if len(alt.Fields) > 0 {
							return []ConcAlt{alt}
						}
						return nil
					}
					enc, mayOpen := handedOver(st, x)
					if enc == nil {
						return nil
					}
					cur, known, _ := st.FieldOf(enc, "openNamespaces")
					if !known {
						return []ConcAlt{{Ev: "handover(counter unknown at " + st.Desc(x) + " key " + st.fieldKey(enc, "openNamespaces") + " have " + fmt.Sprint(st.fmem) + ")"}}
					}
					if !mayOpen {
						return []ConcAlt{{Fields: []FieldVal{{Obj: enc, Field: "openNamespaces", Val: cur}}}}
					}
					return []ConcAlt{
						{Ev: "user:0", Fields: []FieldVal{{Obj: enc, Field: "openNamespaces", Val: cur}}},
						{Ev: "user:1", Fields: []FieldVal{{Obj: enc, Field: "openNamespaces", Val: cur + 1}}},
					}
				},
				Event: func(in ssa.Instruction, st *ConcState) string {
					if os.Getenv("ZV_DEBUG") != "" && FNm(fn) == "EncodeEntry" {
						has := false
						for k := range st.fmem {
							if strings.HasSuffix(k, ").openNamespaces") {
								has = true
							}
						}
						if _, isCall := in.(*ssa.Call); !has && isCall && len(st.fmem) > 0 {
							dbgGone[in.String()+"@"+FNm(in.Parent())]++
						}
						if false {
							return "GONE@" + in.String() + "@" + FNm(in.Parent())
						}
					}
					switch x := in.(type) {
					case *ssa.Call:
						f := CalleeFunc(x)
						if f == nil || f.Pkg() == nil || f.Pkg().Path() != "go.uber.org/zap/buffer" {
							return ""
						}
						args := Args(x)
						if len(args) != 2 || !encBufRecv(c, args[0]) {
							return ""
						}
						out := ""
						switch FNm(f) {
						case "AppendByte", "WriteByte":
							if k, ok := st.Int(args[1]); ok && (k == '{' || k == '}') {
								out = string(rune(k))
							}
						case "AppendString", "WriteString":
							if b, ok := constBytes(args[1]); ok {
								for _, ch := range b {
									if ch == '{' || ch == '}' {
										out += string(rune(ch))
									}
								}
							}
						}
						return out
					case *ssa.Return:
						k, known, _ := st.FieldOf(recv, "openNamespaces")
						if !known {
							return "ret(?)"
						}
						return "ret(" + itoa(int(k)) + ")"
					}
					return ""
				},
			})
			if trunc || len(seqs) == 0 {
				und = "path exploration incomplete with the counter at " + itoa(int(o))
				break
			}
			cutAll += cut
			for _, sq := range seqs {
				paths++
				d, user := int64(0), int64(0)
				final := int64(-1)
				unk := false
				for _, t := range strings.Split(sq, " ; ") {
					switch {
					case t == "user:1":
						user++
						d++ // the brace the user's namespace wrote
					case t == "user:0":
					case strings.HasPrefix(t, "handover("):
						unk = true
					case strings.HasPrefix(t, "ret("):
						if t == "ret(?)" {
							unk = FNm(fn) != "EncodeEntry" // EncodeEntry works on a clone; the receiver's counter is not its business
						} else {
							final = parseIntOr(t[4:len(t)-1], -1)
						}
					default:
						for _, ch := range t {
							switch ch {
							case '{':
								d++
							case '}':
								d--
							}
						}
					}
				}
				tag := "counter=" + itoa(int(o)) + ": " + sq
				switch {
				case unk:
					bad = append(bad, "the counter is not evident where the encoder is handed to user code / at return ("+tag+")")
				case FNm(fn) == "EncodeEntry":
					// works on a clone that starts with the context's o open namespaces and must end balanced
					if d != -o {
						bad = append(bad, "the entry closes "+itoa(int(-d))+" more brace(s) than it opened, with "+itoa(int(o))+" namespace(s) open in the context and "+itoa(int(user))+" opened by fields ("+tag+")")
					}
				case FNm(fn) == "OpenNamespace":
					if d != 1 || final != o+1 {
						bad = append(bad, "OpenNamespace must write one '{' and count it: net braces "+itoa(int(d))+", counter "+itoa(int(o))+" → "+itoa(int(final))+" ("+tag+")")
					}
				case strings.HasPrefix(FNm(fn), "Add") || strings.HasPrefix(FNm(fn), "Append"):
					// a member or element is a complete value: whatever was open before is still open, and counted
					if d != 0 || final != o {
						bad = append(bad, "a complete member/element must leave the nesting as it found it: net braces "+itoa(int(d))+", counter "+itoa(int(o))+" → "+itoa(int(final))+" ("+tag+")")
					}
				default:
					if d != final-o {
						bad = append(bad, "net braces written "+itoa(int(d))+" but the counter went from "+itoa(int(o))+" to "+itoa(int(final))+" ("+tag+")")
					}
				}
			}
		}
		if und != "" {
			c.Und(rule, name, "namespace-accounting", fn.Pos(), "%s", und)
			continue
		}
		n++
		if len(bad) > 2 {
			bad = append(bad[:2:2], "… "+itoa(len(bad)-2)+" more")
		}
		c.Check(len(bad) == 0, rule, name, "namespace-accounting", fn.Pos(), "over %d paths (counter 0 and 1 on entry, every hand-over to user code opening 0 or 1 namespace; %d longer paths cut): the net number of braces written equals the change of openNamespaces (EncodeEntry: everything open is closed): %v", paths, cutAll, bad)
	}
	if os.Getenv("ZV_DEBUG") != "" {
		for k, v := range dbgGone {
			println("GONE", v, k)
		}
	}
	if n < 3 {
		c.Bad(rule, "zapcore.jsonEncoder", "namespace-accounting/count", jn.Obj().Pos(), "expected at least OpenNamespace, AppendObject and EncodeEntry to be decided, got %d", n)
	}
}

var dbgGone = map[string]int{}

func parseIntOr(s string, def int64) int64 {
	if v, ok := parseInt(s); ok {
		return v
	}
	return def
}
