package zv

import (
	"fmt"
	"go/constant"
	"go/token"
	"go/types"
	"math"
	"os"
	"regexp"
	"sort"
	"strings"

	"golang.org/x/tools/go/ssa"
)

const SlogPath = "go.uber.org/zap/exp/zapslog"

func init() {
	Props["C18"] = Prop{
		Title: "The slog handler reproduces slog's attribute and group semantics",
		Fn:    checkC18,
		Explanation: "Decides, by exploring every path of convertAttrToField with the attribute's kind fixed to each slog.Kind constant of the installed log/slog (and one value that is no constant): whenever the tests made establish that the Attr is empty, Skip is returned; each scalar kind is read with the accessor of its own kind (another accessor panics inside slog) and handed to the zap constructor of exactly that type under the attribute's key; a LogValuer is resolved and converted again under the same key; kinds without an arm reach zap.Any only after the empty Attr was excluded; a group is skipped once known to be empty and is inlined (empty key) or converted to Object(key, group) only after it was established non-empty and its key tested. The pending-group protocol of Handle and WithAttrs is decided by exploring both (helpers and the record.Attrs callback inline, up to three attributes): the groups opened by WithGroup are emitted exactly once, immediately before the first field that is not Skip, only when groups are pending; WithAttrs clears the clone's pending groups exactly when it emitted them and Handle never touches them. Further: the level map evaluated on 4 100 slog levels (monotone, anchors, range) and shared by Enabled and Handle; WithGroup(\"\") returns the receiver; derivation purity (no store through the receiver, no uncapped append onto its slices, every setting carried over); handled iff Core.Check accepts. " +
			"NOT decided: full tree semantics against a reference model of slog; records with more than three attributes beyond the per-attribute step.",
		Assumptions: commonAssumptions,
	}
}

var reKindAtom = regexp.MustCompile(`^Kind\(attr\.Value\) == (\d+)$`)

func checkC18(c *Ctx) {
	c.Rule("R18.1", "kind table: accessor ↔ kind ↔ constructor type; fallback; empty-Attr first", 4)
	c.Rule("R18.2", "level map: descending thresholds with non-increasing zap levels; shared by Enabled and Handle", 2)
	c.Rule("R18.3", "slog.Handler contract clauses: empty group name, empty group attribute, inline group", 2)
	c.Rule("R18.7", "group members are represented by the one attribute conversion (no second implementation next to convertAttrToField)", 1)
	cDelegatesOnly(c, "R18.7", c.Method(SlogPath, "groupObject", "MarshalLogObject"), "members-through-conversion",
		"every member of a group reaches the encoder as convertAttrToField(member).AddTo(enc), so the rules for empty groups, inlining, resolution and kinds hold at every nesting depth",
		func(cl *ssa.Call, st *ConcState) bool {
			if !IsCallTo(cl, "(go.uber.org/zap/zapcore.Field).AddTo") {
				return false
			}
			v := Args(cl)[0]
			for k := 0; k < 12; k++ {
				if call, ok := v.(*ssa.Call); ok {
					return IsCallTo(call, SlogPath+".convertAttrToField")
				}
				if u, ok := v.(*ssa.UnOp); ok {
					if al, ok := u.X.(*ssa.Alloc); ok {
						if sv := singleStoreLoose(al); sv != nil {
							v = sv
							continue
						}
					}
				}
				nx := st.Step(v)
				if nx == nil {
					return false
				}
				v = nx
			}
			return false
		})
	c.Rule("R18.9", "groups are zap namespaces: the encoder's open-namespace counter accounts for exactly the braces still open, so a group-valued attribute written under open groups closes its own braces and none of theirs", 3)
	c1Namespaces(c, "R18.9")
	c.Rule("R18.4", "Handle and WithAttrs agree on the emission of pending groups", 2)
	c.Rule("R18.5", "WithAttrs/WithGroup are pure derivations", 3)
	c.Rule("R18.6", "a record is handled iff Core.Check accepts the mapped level", 2)

	conv := c.Func(SlogPath, "convertAttrToField")
	slog := c.Pkg("log/slog")
	if !c.Anchor("R18.1", "zapslog.convertAttrToField / log/slog", conv != nil && slog != nil) {
		return
	}
	name := FStr(conv)
	kindT := c.Named("log/slog", "Kind")
	kinds := map[int64]string{}
	for _, k := range c.ConstsOfType("log/slog", kindT) {
		v, _ := ConstObjInt(k)
		kinds[v] = k.Name()
	}
	// Path exploration of convertAttrToField with the attribute's kind fixed to each slog.Kind constant in turn (and
	// to one value that is no constant): which tests are made, and what is returned after each combination.
	explicit := map[string]bool{}
	an := PN(conv.Params[0])
	kindVals := []int64{}
	for k := range kinds {
		kindVals = append(kindVals, k)
	}
	sort.Slice(kindVals, func(i, j int) bool { return kindVals[i] < kindVals[j] })
	kindVals = append(kindVals, 9999)
	anyCall := map[string]*ssa.Call{}
	argDescs := map[string][]string{}
	structArgs := map[string]map[string]string{}
	traceCall := func(st *ConcState, v ssa.Value) *ssa.Call {
		v = Strip(v)
		for k := 0; k < 12; k++ {
			if nx := st.Step(v); nx != nil {
				v = Strip(nx)
				continue
			}
			cl, _ := v.(*ssa.Call)
			return cl
		}
		return nil
	}
	var badEmpty, badGroup, badArm, badFallback, badOther []string
	nPaths := 0
	for _, K := range kindVals {
		kv := K
		kname := kinds[kv]
		seqs, trunc := ConcPaths(conv, ConcCfg{
			Conc: func(d string) (int64, bool) {
				d = strings.ReplaceAll(d, "var "+an, an)
				if d == "Kind("+an+".Value)" || d == "Kind(Resolve("+an+".Value))" {
					return kv, true
				}
				return 0, false
			},
			Event: func(in ssa.Instruction, st *ConcState) string {
				if cl, ok := in.(*ssa.Call); ok && len(st.cfg.stackDepth()) == 0 {
					if IsCallTo(cl, "(log/slog.Value).Resolve") {
						return "resolved"
					}
					if IsCallTo(cl, "(log/slog.Value).Kind") {
						return "kind"
					}
				}
				r, ok := in.(*ssa.Return)
				if !ok {
					return ""
				}
				cl := traceCall(st, r.Results[0])
				if cl == nil {
					return "ret ?" + st.Desc(r.Results[0])
				}
				f := CalleeFunc(cl)
				d := "?"
				if f != nil {
					d = f.FullName()
				}
				// carriesGroup: the argument wraps the group's attributes (a conversion of Value.Group(), or a struct
				// one of whose fields holds it)
				carriesGroup := func(a ssa.Value) bool {
					v := a
					for k := 0; k < 12; k++ {
						switch y := v.(type) {
						case *ssa.MakeInterface:
							v = y.X
							continue
						case *ssa.ChangeType:
							v = y.X
							continue
						}
						nx := st.Step(v)
						if nx == nil {
							break
						}
						v = nx
					}
					isGroupCall := func(d string) bool {
						d = strings.ReplaceAll(d, "var "+an, an)
						return strings.HasSuffix(d, "Group("+an+".Value)") || strings.HasSuffix(d, "Group("+an+".Value))")
					}
					if isGroupCall(st.Desc(v)) {
						return true
					}
					if isStructVal(v) {
						for _, d := range st.FieldsOf(v) {
							if isGroupCall(d) {
								return true
							}
						}
					}
					return false
				}
				var ad []string
				for _, a := range Args(cl) {
					if carriesGroup(a) {
						ad = append(ad, "groupObject(Group("+an+".Value))")
						continue
					}
					ad = append(ad, strings.ReplaceAll(st.Desc(a), "var "+an, an))
				}
				key := d + "(" + strings.Join(ad, " , ") + ")"
				anyCall[key] = cl
				argDescs[key] = ad
				// a struct handed over by value: what its fields hold on this path, in the explored function's terms
				if as := Args(cl); len(as) > 0 && isStructVal(as[0]) {
					fm := map[string]string{}
					for f, dv := range st.FieldsOf(as[0]) {
						fm[f] = strings.ReplaceAll(dv, "var "+an, an)
					}
					structArgs[key] = fm
				}
				return "ret " + key
			},
			Branch: func(cond ssa.Value, taken bool, st *ConcState) string {
				pol := taken
				for k := 0; k < 8; k++ {
					if u, ok := cond.(*ssa.UnOp); ok && u.Op == token.NOT {
						cond, pol = u.X, !pol
						continue
					}
					if nx := st.Step(cond); nx != nil {
						cond = nx
						continue
					}
					break
				}
				tf := func(n string, v bool) string {
					if v {
						return n + "=T"
					}
					return n + "=F"
				}
				switch x := cond.(type) {
				case *ssa.Call:
					d := strings.ReplaceAll(st.Desc(x), "var "+an, an)
					switch {
					case strings.HasPrefix(d, "Equal("+an+", "):
						return tf("empty", pol)
					case strings.HasPrefix(d, "Equal("+an+".Value, "):
						return tf("zero", pol)
					}
				case *ssa.BinOp:
					l, r, op := strings.ReplaceAll(st.Desc(x.X), "var "+an, an), strings.ReplaceAll(st.Desc(x.Y), "var "+an, an), x.Op
					if r == an+".Key" || r == "len(Group("+an+".Value))" {
						l, r, op = r, l, swapOp(op)
					}
					switch {
					case l == an+".Key" && r == `""` && (op == token.EQL || op == token.NEQ):
						return tf("nokey", pol == (op == token.EQL))
					case l == "len("+an+".Key)" && r == "0" && (op == token.EQL || op == token.NEQ || op == token.GTR):
						return tf("nokey", pol == (op == token.EQL))
					case l == "len(Group("+an+".Value))" && r == "0":
						switch op {
						case token.EQL, token.LEQ:
							return tf("nogroup", pol)
						case token.NEQ, token.GTR:
							return tf("nogroup", !pol)
						}
					}
				}
				return "cond(" + st.Desc(cond) + ")"
			},
		})
		if trunc || len(seqs) == 0 {
			c.Und("R18.1", name, "paths@kind="+itoa(int(kv)), conv.Pos(), "path exploration incomplete (%d, truncated=%v)", len(seqs), trunc)
			return
		}
		for _, sq := range seqs {
			ev := strings.Split(sq, " ; ")
			facts := map[string]bool{}
			infeasible := false
			ret := ""
			for _, e := range ev {
				switch {
				case e == "kind":
					facts["kind-read"] = true
				case e == "resolved":
					// the value was resolved before its kind was read: it can no longer be a LogValuer
					if kname == "KindLogValuer" && !facts["kind-read"] {
						infeasible = true
					}
				case strings.HasPrefix(e, "ret "):
					ret = strings.TrimPrefix(e, "ret ")
				case strings.HasPrefix(e, "cond("):
					badOther = append(badOther, "kind "+kname+": "+sq)
				default:
					nm := e[:len(e)-2]
					opp := nm + "=F"
					if e[len(e)-1] == 'F' {
						opp = nm + "=T"
					}
					if facts[opp] {
						infeasible = true
					}
					facts[e] = true
				}
			}
			// the emptiness of an attribute is that of its RESOLVED value: a test made before Resolve says nothing
			// about what Resolve returns (a LogValuer that resolves to the zero Value under an empty key is an empty
			// attribute). Unless the resolved value is converted again from scratch, an emptiness test must follow it.
			if kname == "KindLogValuer" {
				iRes, iEmptyAfter := -1, -1
				for i, e := range ev {
					if e == "resolved" && iRes < 0 {
						iRes = i
					}
					if iRes >= 0 && i > iRes && (strings.HasPrefix(e, "empty=") || strings.HasPrefix(e, "zero=")) {
						iEmptyAfter = i
					}
				}
				again := false
				for _, e := range ev {
					if strings.HasPrefix(e, "ret ") {
						if cl := anyCall[strings.TrimPrefix(e, "ret ")]; cl != nil && IsCallTo(cl, SlogPath+".convertAttrToField") {
							again = true
						}
					}
				}
				if iRes >= 0 && iEmptyAfter < 0 && !again {
					badEmpty = append(badEmpty, "kind KindLogValuer: the value is resolved but the emptiness test is not made on (or after) the resolved value: "+sq)
				}
			}
			if infeasible {
				continue
			}
			nPaths++
			tag := "kind " + kname + "(" + itoa(int(kv)) + "): " + sq
			call := anyCall[ret]
			ad := argDescs[ret]
			isTo := func(full string) bool { return call != nil && IsCallTo(call, full) }
			empty := facts["empty=T"] || facts["nokey=T"] && facts["zero=T"]
			nonEmpty := facts["empty=F"] || facts["nokey=F"] || facts["zero=F"]
			switch {
			case empty:
				if !isTo("go.uber.org/zap.Skip") {
					badEmpty = append(badEmpty, tag)
				}
			case kname == "KindGroup":
				explicit[kname] = true
				grp := func(d string) bool {
					return d == "groupObject(Group("+an+".Value))" || strings.HasSuffix(d, "Group("+an+".Value))") || strings.HasSuffix(d, "Group("+an+".Value)")
				}
				switch {
				case facts["nogroup=T"]:
					if !isTo("go.uber.org/zap.Skip") {
						badGroup = append(badGroup, "empty group not skipped: "+tag)
					}
				case !facts["nogroup=F"]:
					badGroup = append(badGroup, "a group is converted without testing whether it has attributes: "+tag)
				case facts["nokey=T"]:
					if !(isTo("go.uber.org/zap.Inline") && grp(ad[0])) {
						badGroup = append(badGroup, "group with empty key not inlined: "+tag)
					}
				case facts["nokey=F"]:
					if !(isTo("go.uber.org/zap.Object") && ad[0] == an+".Key" && grp(ad[1])) {
						badGroup = append(badGroup, "named group not converted to Object(key, group): "+tag)
					}
				default:
					badGroup = append(badGroup, "a group is converted without testing its key: "+tag)
				}
			case kname == "KindLogValuer":
				explicit[kname] = true
				ok := isTo(SlogPath + ".convertAttrToField")
				if ok {
					flds := structValueFields(Args(call)[0])
					ok = flds["Key"] == an+".Key" && flds["Value"] == "Resolve("+an+".Value)"
					if !ok {
						// as seen on the path (the key and the value may have travelled through a helper's parameters)
						flds = structArgs[ret]
						ok = flds["Key"] == an+".Key" && flds["Value"] == "Resolve("+an+".Value)"
					}
				}
				if !ok {
					badArm = append(badArm, "a LogValuer must be resolved and converted again under the same key: "+tag)
				}
			case kname == "" || kname == "KindAny" || isTo("go.uber.org/zap.Any"):
				// fallback
				ok := isTo("go.uber.org/zap.Any") && len(ad) == 2 && ad[0] == an+".Key" && ad[1] == "Any("+an+".Value)"
				if kname == "KindAny" && !nonEmpty {
					ok = false // the zero Attr has kind Any: it must have been excluded
				}
				if !ok {
					badFallback = append(badFallback, tag)
				}
			default:
				explicit[kname] = true
				want := strings.TrimPrefix(kname, "Kind")
				callee := CalleeFunc(call)
				ok := call != nil && callee != nil && callee.Pkg() != nil && callee.Pkg().Path() == ZapPath && len(ad) == 2 && ad[0] == an+".Key" && ad[1] == want+"("+an+".Value)"
				if ok {
					ok = false
					if ac, isCall := Strip(Args(call)[1]).(*ssa.Call); isCall {
						af := CalleeFunc(ac)
						accOK := af != nil && af.FullName() == "(log/slog.Value)."+want
						sig := callee.Type().(*types.Signature)
						ok = accOK && types.Identical(sig.Params().At(1).Type(), ac.Type())
					}
				}
				if !ok {
					badArm = append(badArm, "arm must read Value."+want+"() (any other accessor panics in slog) and build the zap constructor of exactly that type under the attribute's key: "+tag)
				}
			}
		}
	}
	lim := func(l []string) []string {
		if len(l) > 3 {
			return append(l[:3:3], "… "+itoa(len(l)-3)+" more")
		}
		return l
	}
	c.Check(len(badEmpty) == 0, "R18.1", name, "empty-attr-skipped", conv.Pos(), "over %d feasible paths (kind fixed to each of the %d slog.Kind constants and one other value): whenever the tests made establish that the Attr is empty, Skip is returned: %v", nPaths, len(kinds), lim(badEmpty))
	c.Check(len(badArm) == 0, "R18.1", name, "arms", conv.Pos(), "every scalar kind is read with its own accessor and passed to the zap constructor of exactly that type under attr.Key; a LogValuer is resolved and converted again under the same key: %v", lim(badArm))
	c.Check(len(badFallback) == 0, "R18.1", name, "fallback", conv.Pos(), "kinds without an explicit arm go to zap.Any(attr.Key, attr.Value.Any()), and only after the empty Attr (whose kind is Any) was excluded: %v", lim(badFallback))
	c.Check(len(badOther) == 0, "R18.1", name, "no-other-condition", conv.Pos(), "the conversion depends only on the kind, the emptiness tests and the group tests: %v", lim(badOther))
	var missing []string
	sort.Strings(missing)
	c.Check(len(missing) == 0, "R18.1", name, "exhaustive", conv.Pos(), "all %d slog.Kind constants of the installed log/slog were explored (%d have an arm of their own, the rest reach the fallback)", len(kinds), len(explicit))
	c.Check(len(badGroup) == 0, "R18.3", name, "group-contract", conv.Pos(), "slog.Handler: \"If a group has no Attrs (even if it has a non-empty key), ignore it\" and a group with an empty key is inlined: on every path of kind Group, Skip is returned once the group is known to be empty, and Inline(group) / Object(key, group) are returned only after it was established non-empty and its key tested: %v", lim(badGroup))

	// ---------------- R18.2 ----------------
	c18LevelMap(c)

	// ---------------- R18.3 ----------------
	wg := c.Method(SlogPath, "Handler", "WithGroup")
	if c.Anchor("R18.3", "zapslog.Handler.WithGroup", wg != nil) {
		ok := false
		for _, r := range Returns(wg) {
			atoms := AtomStrings(Guards(r))
			if len(atoms) == 1 && (atoms[0] == PN(wg.Params[1])+` == ""` || atoms[0] == "len("+PN(wg.Params[1])+") == 0") {
				ok = Strip(RetVals(r)[0]) == ssa.Value(wg.Params[0])
			}
		}
		c.Check(ok, "R18.3", FStr(wg), "empty-name-returns-receiver", wg.Pos(), "slog.Handler: \"If the name is empty, WithGroup returns the receiver\"")
	}
	// ---------------- R18.4 ----------------
	c18EmitProtocol(c, "R18.4")
	hd := c.Method(SlogPath, "Handler", "Handle")
	wa := c.Method(SlogPath, "Handler", "WithAttrs")

	// ---------------- R18.5 ----------------
	for _, fn := range []*ssa.Function{wg, wa} {
		if fn == nil {
			continue
		}
		h := fn.Params[0]
		var bad []string
		for _, f := range WithClosures(fn) {
			AllInstrs(f, func(i ssa.Instruction) {
				switch x := i.(type) {
				case *ssa.Store:
					if Root(x.Addr) == ssa.Value(h) {
						bad = append(bad, "store to "+Desc(x.Addr))
					}
				case *ssa.Call:
					if CallBuiltin(x) == "append" && strings.HasPrefix(Desc(x.Call.Args[0]), PN(h)+".") {
						if sl, ok := x.Call.Args[0].(*ssa.Slice); !ok || sl.Max == nil {
							bad = append(bad, "append onto "+Desc(x.Call.Args[0])+" (may write into the parent's backing array shared with its other children)")
						}
					}
				}
			})
		}
		c.Check(len(bad) == 0, "R18.5", FStr(fn), "pure", fn.Pos(), "no store through the receiver and no uncapped append onto its slices: %v", bad)
		c7Appends(c, "R18.5", fn)
		c18Carries(c, "R18.5", fn)
	}

	// ---------------- R18.6 ----------------
	if hd != nil {
		c18HandleProtocol(c, hd)
	}
}

// c18Explore explores Handle (helpers inline) and reports every path as a sequence of: check / check(?…) - the one
// question put to the core, with the entry's level being convertSlogLevel(record.Level) and a nil checked entry, asked
// of the handler's own core; accepted / declined - the test of the answer; write - the accepted entry written; c - any
// other call after the question.
func c18Explore(hd *ssa.Function) (seqs []string, trunc bool) {
	resolve := func(st *ConcState, v ssa.Value) ssa.Value {
		for k := 0; k < 16; k++ {
			nx := st.Step(v)
			if nx == nil {
				break
			}
			v = nx
		}
		return v
	}
	isCheck := func(st *ConcState, v ssa.Value) bool {
		cl, ok := resolve(st, v).(*ssa.Call)
		return ok && IsCallTo(cl, "(go.uber.org/zap/zapcore.Core).Check")
	}
	rn := PN(hd.Params[0])
	return ConcPaths(hd, ConcCfg{
		// the level map stays a call: the question is whether it is applied, not what it yields
		Inline: func(h *ssa.Function) bool {
			if FNm(h) == "convertSlogLevel" && h.Pkg != nil && h.Pkg.Pkg.Path() == SlogPath {
				return false
			}
			// a helper that only arranges fields (no question to the core, no write of a checked entry anywhere below
			// it) stays one opaque call: its loops multiply the paths without telling anything about the protocol
			return c18TalksToCore(h, 0)
		},
		Event: func(in ssa.Instruction, st *ConcState) string {
			switch x := in.(type) {
			case *ssa.Call:
				switch {
				case IsCallTo(x, "(go.uber.org/zap/zapcore.Core).Check"):
					why := ""
					if d := st.Desc(x.Call.Value); d != rn+".core" {
						why += " asked of " + d
					}
					if n, known := st.IsNil(x.Call.Args[1]); !known || !n {
						why += " with a checked entry that is not nil"
					}
					_, _, lv := st.FieldOf(x.Call.Args[0], "Level")
					okLvl := false
					if lv != nil {
						if cl, isCall := resolve(st, lv).(*ssa.Call); isCall && IsCallTo(cl, SlogPath+".convertSlogLevel") && st.Desc(cl.Call.Args[0]) == "record.Level" {
							okLvl = true
						}
					}
					if !okLvl {
						d := "?"
						if lv != nil {
							d = st.Desc(lv)
						}
						why += " about level " + d
					}
					if why != "" {
						return "check(?" + why + ")"
					}
					return "check"
				case IsCallTo(x, "(*go.uber.org/zap/zapcore.CheckedEntry).Write") && isCheck(st, x.Call.Args[0]):
					return "write"
				}
				return "c"
			case *ssa.Return:
				if len(st.cfg.stackDepth()) == 0 {
					return "ret"
				}
			}
			return ""
		},
		Branch: func(cond ssa.Value, taken bool, st *ConcState) string {
			pol := taken
			for k := 0; k < 8; k++ {
				if u, ok := cond.(*ssa.UnOp); ok && u.Op == token.NOT {
					cond, pol = u.X, !pol
					continue
				}
				if nx := st.Step(cond); nx != nil {
					cond = nx
					continue
				}
				break
			}
			bo, ok := cond.(*ssa.BinOp)
			if !ok || !IsNilConst(bo.Y) || (bo.Op != token.EQL && bo.Op != token.NEQ) || !isCheck(st, bo.X) {
				return ""
			}
			if pol == (bo.Op == token.NEQ) {
				return "accepted"
			}
			return "declined"
		},
	})
}

// c18HandleChecksMapped: on every path Handle puts exactly one question to the core, about the mapped level.
func c18HandleChecksMapped(hd *ssa.Function) bool {
	seqs, trunc := c18Explore(hd)
	if trunc || len(seqs) == 0 {
		return false
	}
	for _, sq := range seqs {
		n := 0
		for _, t := range strings.Split(sq, " ; ") {
			if strings.HasPrefix(t, "check") {
				if t != "check" {
					return false
				}
				n++
			}
		}
		if n != 1 {
			return false
		}
	}
	return true
}

// c18HandleProtocol: R18.6 on the paths of Handle: the one question, then either "declined" and the return with no
// further call, or "accepted" and - after whatever builds the fields - exactly one Write of the accepted entry.
func c18HandleProtocol(c *Ctx, hd *ssa.Function) {
	seqs, trunc := c18Explore(hd)
	if trunc || len(seqs) == 0 {
		c.Und("R18.6", FStr(hd), "checks", hd.Pos(), "path exploration of Handle incomplete")
		return
	}
	var noCheck, badCore, notWritten, busy []string
	for _, sq := range seqs {
		var toks []string
		for _, t := range strings.Split(sq, " ; ") {
			if t == "c" && len(toks) > 0 && toks[len(toks)-1] == "c" {
				continue
			}
			toks = append(toks, t)
		}
		// drop what precedes the question
		k := -1
		for i, t := range toks {
			if strings.HasPrefix(t, "check") {
				k = i
				break
			}
		}
		if k < 0 {
			noCheck = append(noCheck, sq)
			continue
		}
		if toks[k] != "check" {
			badCore = append(badCore, toks[k])
		}
		rest := strings.Join(toks[k+1:], " ")
		switch {
		case strings.HasPrefix(rest, "declined"):
			if rest != "declined ret" {
				busy = append(busy, rest)
			}
		case strings.HasPrefix(rest, "accepted"):
			if strings.Count(rest, "write") != 1 || strings.Contains(rest, "check") {
				notWritten = append(notWritten, rest)
			}
		default:
			notWritten = append(notWritten, "the answer is not tested: "+rest)
		}
	}
	if len(noCheck) > 0 {
		c.Bad("R18.6", FStr(hd), "checks", hd.Pos(), "Handle does not call Core.Check on every path: %v", uniqSorted(noCheck))
		return
	}
	c.OK("R18.6", FStr(hd), "checks", hd.Pos(), "every path of Handle (helpers inline, %d paths) puts one question to the core", len(seqs))
	c.Check(len(badCore) == 0, "R18.6", FStr(hd), "checks-core", hd.Pos(), "Handle asks its own core with a nil checked entry: %v", uniqSorted(badCore))
	c.Check(len(notWritten) == 0, "R18.6", FStr(hd), "writes-iff-accepted", hd.Pos(), "an accepted record is written exactly once on every path: %v", uniqSorted(notWritten))
	c.Check(len(busy) == 0, "R18.6", FStr(hd), "declined-does-nothing", hd.Pos(), "a declined record returns at once without any further call: %v", uniqSorted(busy))
}

func calleeName(f *types.Func) string {
	if f == nil {
		return "?"
	}
	return FNm(f)
}

func posOfCall(c *ssa.Call) token.Pos {
	if c == nil {
		return token.NoPos
	}
	return c.Pos()
}

// c18Emit describes how a function decides to emit the handler's pending groups.
type c18Emit struct {
	call       *ssa.Call
	owner      *ssa.Function
	atoms      []string
	hasSkip    bool
	pendingPol bool // the flag value (as tested) that means "not yet emitted"
	cell       ssa.Value
	phiName    string
	problem    string
	once       string
}

func (e *c18Emit) sameFlag(cond ssa.Value) bool {
	cell, phi := c18FlagOf(cond)
	if e.cell != nil {
		return cell == e.cell
	}
	return e.phiName != "" && phi != nil && phi.Comment == e.phiName
}

// c18FlagOf: cond reads a local boolean variable (a captured/addressed cell or an SSA register).
func c18FlagOf(cond ssa.Value) (cell ssa.Value, phi *ssa.Phi) {
	switch x := cond.(type) {
	case *ssa.Phi:
		if b, ok := x.Type().Underlying().(*types.Basic); ok && b.Kind() == types.Bool {
			return nil, x
		}
	case *ssa.UnOp:
		if x.Op != token.MUL {
			return nil, nil
		}
		switch y := x.X.(type) {
		case *ssa.Alloc:
			return y, nil
		case *ssa.FreeVar:
			return c18Binding(y), nil
		}
	}
	return nil, nil
}

func c18Binding(fv *ssa.FreeVar) ssa.Value {
	fn := fv.Parent()
	idx := -1
	for i, f := range fn.FreeVars {
		if f == fv {
			idx = i
		}
	}
	if fn.Parent() == nil || idx < 0 {
		return nil
	}
	var out ssa.Value
	AllInstrs(fn.Parent(), func(i ssa.Instruction) {
		if mk, ok := i.(*ssa.MakeClosure); ok && mk.Fn == ssa.Value(fn) && idx < len(mk.Bindings) {
			out = mk.Bindings[idx]
		}
	})
	if f2, ok := out.(*ssa.FreeVar); ok {
		return c18Binding(f2)
	}
	return out
}

func c18Emission(fn *ssa.Function) *c18Emit {
	e := &c18Emit{}
	for _, f := range WithClosures(fn) {
		for _, cl := range Calls(f) {
			if IsCallTo(cl, "(*"+SlogPath+".Handler).appendGroups") {
				e.call, _ = cl.(*ssa.Call)
				e.owner = f
			}
		}
	}
	if e.call == nil {
		return nil
	}
	recv := PN(fn.Params[0])
	var flagAtom *Atom
	for _, a := range Guards(e.call) {
		a := a
		s := AtomString(a)
		e.atoms = append(e.atoms, s)
		switch {
		case regexp.MustCompile(`^convertAttrToField\(.*\) != Skip\(\)$`).MatchString(s):
			e.hasSkip = true
		case strings.Contains(s, "rangeindex"):
			// iterating the attributes
		case s == "len("+recv+"."+slogGroups+") > 0":
			// optional: appending no groups is a no-op
		default:
			cell, phi := c18FlagOf(a.Cond)
			if (cell != nil || phi != nil) && flagAtom == nil {
				flagAtom = &a
				e.cell = cell
				if phi != nil {
					e.phiName = phi.Comment
				}
				e.pendingPol = a.Pol
				continue
			}
			e.problem += "extra condition " + s + " restricts the emission; "
		}
	}
	if !e.hasSkip {
		e.problem += "the groups are emitted even for a Skip field (an empty group would appear); "
	}
	if flagAtom == nil {
		e.problem += "no emitted-state flag guards the emission; "
		e.once = "no flag"
		return e
	}
	// definitions of the flag
	type def struct {
		val   ssa.Value
		at    *ssa.BasicBlock
		owner *ssa.Function
	}
	var defs []def
	if e.cell != nil {
		for _, f := range WithClosures(fn) {
			AllInstrs(f, func(i ssa.Instruction) {
				st, ok := i.(*ssa.Store)
				if !ok {
					return
				}
				tgt := st.Addr
				if fv, ok := tgt.(*ssa.FreeVar); ok {
					tgt = c18Binding(fv)
				}
				if tgt == e.cell {
					defs = append(defs, def{st.Val, st.Block(), f})
				}
			})
		}
		// an addressed bool starts as false unless stored first
		hasInit := false
		for _, d := range defs {
			if d.owner == fn && !(d.owner == e.owner && e.call.Block().Dominates(d.at)) {
				hasInit = true
			}
		}
		if !hasInit {
			defs = append(defs, def{ssa.NewConst(constant.MakeBool(false), types.Typ[types.Bool]), nil, fn})
		}
	} else {
		seen := map[*ssa.Phi]bool{}
		var walk func(ph *ssa.Phi)
		walk = func(ph *ssa.Phi) {
			if seen[ph] {
				return
			}
			seen[ph] = true
			for k, ed := range ph.Edges {
				if p2, ok := ed.(*ssa.Phi); ok {
					walk(p2)
					continue
				}
				defs = append(defs, def{ed, ph.Block().Preds[k], ph.Parent()})
			}
		}
		AllInstrs(e.owner, func(i ssa.Instruction) {
			if ph, ok := i.(*ssa.Phi); ok && ph.Comment == e.phiName {
				walk(ph)
			}
		})
	}
	flipped := false
	pend := "false"
	if e.pendingPol {
		pend = "true"
	}
	for _, d := range defs {
		after := d.at != nil && d.owner == e.owner && (d.at == e.call.Block() || e.call.Block().Dominates(d.at))
		dv := Desc(d.val)
		switch {
		case after && (dv == "true" || dv == "false") && dv != pend:
			flipped = true
		case after:
			e.once += "after the emission the flag becomes " + dv + "; "
		case dv == pend:
			// initialised to "pending"
		case e.pendingPol && dv == "(len("+recv+"."+slogGroups+") > 0)":
			// initialised to "there are groups pending"
		default:
			e.once += "the flag is also set to " + dv + " off the emitting path; "
		}
	}
	if !flipped {
		e.once += "the flag does not flip on the emitting path; "
	}
	return e
}

// c18FreshCopy: v is the address of a new Handler initialised as a copy of *h
// (directly, or returned by a helper that does just that).
func c18FreshCopy(v ssa.Value, h ssa.Value, depth int) bool {
	v = Strip(v)
	switch x := v.(type) {
	case *ssa.Alloc:
		copied := false
		for _, r := range *x.Referrers() {
			if st, ok := r.(*ssa.Store); ok && st.Addr == ssa.Value(x) {
				if ld, ok := st.Val.(*ssa.UnOp); ok && ld.Op == token.MUL && Strip(ld.X) == h {
					copied = true
				}
			}
		}
		return copied
	case *ssa.Call:
		hp := helperOf(x)
		if hp == nil || depth > 2 || len(hp.Params) == 0 {
			return false
		}
		// which parameter receives h
		var hpParam ssa.Value
		for i, a := range x.Call.Args {
			if Strip(a) == h && i < len(hp.Params) {
				hpParam = hp.Params[i]
			}
		}
		if hpParam == nil {
			return false
		}
		rets := Returns(hp)
		for _, r := range rets {
			if !c18FreshCopy(RetVals(r)[0], hpParam, depth+1) {
				return false
			}
		}
		return len(rets) > 0
	}
	return false
}

// structValueFields renders the fields of a struct VALUE v that is the load of a local struct variable: a whole copy
// (from a parameter or another variable) gives "<src>.f", a store to a field overrides it.
func structValueFields(v ssa.Value) map[string]string {
	out := map[string]string{}
	ld, ok := Strip(v).(*ssa.UnOp)
	if !ok || ld.Op != token.MUL {
		return out
	}
	a, ok := ld.X.(*ssa.Alloc)
	if !ok || a.Referrers() == nil {
		return out
	}
	st, ok := types.Unalias(deref(a.Type())).Underlying().(*types.Struct)
	if !ok {
		return out
	}
	for _, r := range *a.Referrers() {
		if s, ok := r.(*ssa.Store); ok && s.Addr == ssa.Value(a) {
			base := Desc(s.Val)
			for k := 0; k < st.NumFields(); k++ {
				out[FN(st.Field(k))] = base + "." + FN(st.Field(k))
			}
		}
	}
	for _, r := range *a.Referrers() {
		if fa, ok := r.(*ssa.FieldAddr); ok && fa.Referrers() != nil {
			for _, r2 := range *fa.Referrers() {
				if s, ok := r2.(*ssa.Store); ok && s.Addr == ssa.Value(fa) {
					out[FN(st.Field(fa.Field))] = Desc(s.Val)
				}
			}
		}
	}
	return out
}

// c18Carries: the handler a derive method returns is the receiver itself or a new Handler in which every field other
// than core and groups is the receiver's (struct copy, clone helper or complete literal alike).
func c18Carries(c *Ctx, rule string, fn *ssa.Function) {
	hn := c.Named(SlogPath, "Handler")
	if hn == nil || len(fn.Params) == 0 {
		return
	}
	h := fn.Params[0]
	st, _ := hn.Underlying().(*types.Struct)
	bf := BuiltFields(fn, hn)
	var lost []string
	for i := 0; st != nil && i < st.NumFields(); i++ {
		f := FN(st.Field(i))
		if f == "core" || f == slogGroups {
			continue
		}
		if b, ok := bf[f]; !ok || b.Desc != PN(h)+"."+f {
			got := "left at its zero value"
			if ok {
				got = "set to " + b.Desc
			}
			lost = append(lost, f+" "+got)
		}
	}
	c.Check(len(lost) == 0 && len(bf) > 0, rule, FStr(fn), "carries-settings", fn.Pos(), "the derived handler keeps every setting of its parent (name, caller and stack options, caller skip): %v", lost)
	for k, r := range Returns(fn) {
		v := Strip(RetVals(r)[0])
		okR := v == ssa.Value(h)
		if !okR {
			if n, isN := types.Unalias(deref(v.Type())).(*types.Named); isN && n.Origin() == hn.Origin() {
				okR = true
			}
		}
		c.Check(okR, rule, FStr(fn), "returns-handler#"+itoa(k+1), r.Pos(), "returns the receiver or a *Handler (%s)", Desc(v))
	}
}

// c18Emit: the pending-group emission protocol of Handle and WithAttrs (see R18.4).
func c18EmitProtocol(c *Ctx, rule string) {
	hd := c.Method(SlogPath, "Handler", "Handle")
	wa := c.Method(SlogPath, "Handler", "WithAttrs")
	if c.Anchor(rule, "zapslog.Handler.Handle/WithAttrs", hd != nil && wa != nil) {
		// emitters: helpers that append one Namespace field per pending group
		emitters := map[*ssa.Function]bool{}
		c.EachRootFunc(func(f *ssa.Function) {
			if f.Pkg == nil || f.Pkg.Pkg.Path() != SlogPath || f == hd || f == wa || f.Parent() != nil {
				return
			}
			ns, conv := false, false
			for _, cl := range Calls(f) {
				if IsCallTo(cl, "go.uber.org/zap.Namespace") {
					ns = true
				}
				if IsCallTo(cl, SlogPath+".convertAttrToField") {
					conv = true
				}
			}
			// a helper whose whole job is to append the namespaces (one that also converts attributes is explored inline)
			if ns && !conv {
				emitters[f] = true
			}
		})
		for f := range emitters {
			var ns *ssa.Call
			for _, cl := range Calls(f) {
				if IsCallTo(cl, "go.uber.org/zap.Namespace") {
					ns, _ = cl.(*ssa.Call)
				}
			}
			ok, over, why := LoopVisitsAll(f, ns)
			if !strings.HasSuffix(over, "."+slogGroups) {
				// the groups handed in by the callers
				for _, p := range f.Params {
					if p.Name() == over {
						Bound(func() { over = Desc(p) })
						if !strings.HasSuffix(over, "."+slogGroups) {
							// every call site passes the receiver's pending groups (possibly read into a local first)
							all := len(sitesOf(f)) > 0
							for _, site := range sitesOf(f) {
								for ai, a := range Args(site) {
									if ai < len(f.Params) && f.Params[ai] == p {
										d := Desc(a)
										// a local captured by the attribute callback: what was stored in it
										if u, ok := Strip(a).(*ssa.UnOp); ok {
											if fv, ok := u.X.(*ssa.FreeVar); ok {
												if b, ok := c18Binding(fv).(*ssa.Alloc); ok {
													if sv := singleStoreLoose(b); sv != nil {
														d = Desc(sv)
													} else if b.Referrers() != nil {
														// one state value instead of a flag: the local starts as the pending groups and is
														// set to nil once they are emitted - every store is the groups or nil
														allG, nSt := true, 0
														var cells []ssa.Value
														cells = append(cells, b)
														for _, r := range *b.Referrers() {
															if mk, isMk := r.(*ssa.MakeClosure); isMk {
																for bi, bv := range mk.Bindings {
																	if lf, isF := mk.Fn.(*ssa.Function); isF && bv == ssa.Value(b) && bi < len(lf.FreeVars) {
																		cells = append(cells, lf.FreeVars[bi])
																	}
																}
															}
														}
														for _, cell := range cells {
															if cell.Referrers() == nil {
																continue
															}
															for _, r := range *cell.Referrers() {
																if st, isSt := r.(*ssa.Store); isSt && st.Addr == cell {
																	nSt++
																	if !c18GroupsOrNil(st.Val, 0) {
																		allG = false
																	}
																}
															}
														}
														if allG && nSt > 0 {
															d = "h." + slogGroups
														}
													}
												}
											}
										}
										if !strings.HasSuffix(d, "."+slogGroups) && !c18GroupsOrNil(a, 0) {
											all = false
										}
									}
								}
							}
							if all {
								over = "h." + slogGroups
							}
						}
					}
				}
			}
			c.Check(ok && strings.HasSuffix(over, "."+slogGroups), rule, FStr(f), "emits-every-group", f.Pos(), "the emitter appends one Namespace field for every pending group, in order, no early exit (ranges over %s%s)", over, why)
		}
		for _, fn := range []*ssa.Function{hd, wa} {
			recv := fn.Params[0]
			rn := PN(recv)
			cut := 0
			// WithAttrs is explored once for every length 0..3 of its attribute list (a list sized from that length -
			// make([]Field, len(attrs)) - is then evident element by element)
			lens := []int64{-1}
			if fn == wa && len(fn.Params) == 2 {
				lens = []int64{0, 1, 2, 3}
			}
			var seqs []string
			trunc := false
			seenSeq := map[string]bool{}
			for _, alen := range lens {
				alen := alen
				seqs1, trunc1 := ConcPaths(fn, ConcCfg{
					SliceLen: func(p *ssa.Parameter) (int64, bool) {
						if alen >= 0 && p == fn.Params[1] {
							return alen, true
						}
						return 0, false
					},
					MaxIter: 3, IterClosures: true, Cut: &cut, MaxStates: 400000,
					Inline: func(h *ssa.Function) bool { return !emitters[h] && FNm(h) != "convertAttrToField" },
					// what an emitter returns: the list it was handed plus the pending groups (one marker element)
					Fork: func(in ssa.Instruction, st *ConcState) []ConcAlt {
						x, ok := in.(*ssa.Call)
						if !ok || StaticCallee(x) == nil || !emitters[StaticCallee(x)] {
							return nil
						}
						for _, a := range x.Call.Args {
							if !isFieldList(a.Type()) {
								continue
							}
							if base, has := st.ListOf(a); has {
								return []ConcAlt{{Lists: map[ssa.Value][]ssa.Value{x: append(append([]ssa.Value{}, base...), x)}}}
							}
						}
						return nil
					},
					Event: func(in ssa.Instruction, st *ConcState) string {
						switch x := in.(type) {
						case *ssa.Call:
							if f := StaticCallee(x); f != nil && emitters[f] {
								return "emit"
							}
							// what is finally handed on, element by element, when the list was built evidently on this path
							if IsCallTo(x, "(go.uber.org/zap/zapcore.Core).With") || IsCallTo(x, "(*go.uber.org/zap/zapcore.CheckedEntry).Write") {
								nm := "with"
								if IsCallTo(x, "(*go.uber.org/zap/zapcore.CheckedEntry).Write") {
									nm = "write"
								}
								a := x.Call.Args[len(x.Call.Args)-1]
								if l, has := st.ListOf(a); has {
									tags := ""
									for _, e := range l {
										tags += c18ElemTag(st, e, emitters)
									}
									return nm + "[" + tags + "]"
								}
								return nm
							}
							switch {
							case IsCallTo(x, SlogPath+".convertAttrToField"):
								return "attr"
							case IsCallTo(x, "go.uber.org/zap.Namespace"):
								return "ns"
							case IsCallTo(x, "(go.uber.org/zap/zapcore.Core).With"):
								return "with"
							case IsCallTo(x, "(*go.uber.org/zap/zapcore.CheckedEntry).Write"):
								return "write"
							case CallBuiltin(x) == "append":
								if sl, ok := types.Unalias(x.Type()).Underlying().(*types.Slice); ok && strings.HasSuffix(TStr(sl.Elem()), "zapcore.Field") {
									return "add"
								}
							}
						case *ssa.Store:
							if fa, ok := x.Addr.(*ssa.FieldAddr); ok && fieldName(fa.X.Type(), fa.Field) == slogGroups {
								base := Strip(fa.X)
								for k := 0; k < 6; k++ {
									if nx := st.Step(base); nx != nil {
										base = Strip(nx)
									}
								}
								if Root(base) == ssa.Value(recv) {
									return "store-receiver-groups"
								}
								if n, known := st.IsNil(x.Val); known && n {
									return "clear"
								}
								// keeping the parent's pending groups in a freshly built handler is no event
								v := x.Val
								for k := 0; k < 8; k++ {
									if ownedBy(v, recv, 0) || st.Desc(v) == rn+"."+slogGroups {
										return ""
									}
									nx := st.Step(v)
									if nx == nil {
										break
									}
									v = nx
								}
								return "set-groups"
							}
						}
						return ""
					},
					Branch: func(cond ssa.Value, taken bool, st *ConcState) string {
						pol := taken
						for k := 0; k < 8; k++ {
							if u, ok := cond.(*ssa.UnOp); ok && u.Op == token.NOT {
								cond, pol = u.X, !pol
								continue
							}
							if nx := st.Step(cond); nx != nil {
								cond = nx
								continue
							}
							break
						}
						tf := func(n string, v bool) string {
							if v {
								return n + "=T"
							}
							return n + "=F"
						}
						bo, ok := cond.(*ssa.BinOp)
						if !ok {
							return ""
						}
						isConv := func(v ssa.Value) bool {
							v = Strip(v)
							for k := 0; k < 8; k++ {
								if cl, ok := v.(*ssa.Call); ok && IsCallTo(cl, SlogPath+".convertAttrToField") {
									return true
								}
								nx := st.Step(v)
								if nx == nil {
									return false
								}
								v = Strip(nx)
							}
							return false
						}
						isSkip := func(v ssa.Value) bool {
							cl, ok := Strip(v).(*ssa.Call)
							return ok && IsCallTo(cl, "go.uber.org/zap.Skip")
						}
						if (isConv(bo.X) && isSkip(bo.Y) || isConv(bo.Y) && isSkip(bo.X)) && (bo.Op == token.NEQ || bo.Op == token.EQL) {
							return tf("real", pol == (bo.Op == token.NEQ))
						}
						x, y, op := st.Desc(bo.X), st.Desc(bo.Y), bo.Op
						// len(<something that on this path holds the receiver's pending groups>)
						lenOfGroups := func(v ssa.Value) bool {
							lc, ok := Strip(v).(*ssa.Call)
							if !ok || CallBuiltin(lc) != "len" {
								return false
							}
							a := lc.Call.Args[0]
							for k := 0; k < 8; k++ {
								if st.Desc(a) == rn+"."+slogGroups {
									return true
								}
								// the groups field of something that on this path IS the receiver (a handler kept in a
								// local struct next to the fields being collected)
								if ld, isLd := a.(*ssa.UnOp); isLd && ld.Op == token.MUL {
									if fa, isFA := ld.X.(*ssa.FieldAddr); isFA && fieldName(fa.X.Type(), fa.Field) == slogGroups {
										b := Strip(fa.X)
										for j := 0; j < 8; j++ {
											nx := st.Step(b)
											if nx == nil {
												break
											}
											b = Strip(nx)
										}
										if b == ssa.Value(recv) {
											return true
										}
										// ... or of a copy of the receiver (cloned := *h) whose groups were not replaced yet
										if al, isAl := b.(*ssa.Alloc); isAl {
											fs := st.FieldsOf(al)
											if _, replaced := fs[slogGroups]; !replaced && (fs["*"] == "*"+rn || fs["*"] == rn) {
												return true
											}
										}
									}
								}
								nx := st.Step(a)
								if nx == nil {
									return false
								}
								a = nx
							}
							return false
						}
						if os.Getenv("ZV_DEBUG") != "" {
							if lc, ok := Strip(bo.X).(*ssa.Call); ok && CallBuiltin(lc) == "len" {
								a := lc.Call.Args[0]
								fmt.Println("LEN", st.Desc(a), "step:", st.Step(a), lenOfGroups(bo.X))
							}
						}
						if lenOfGroups(bo.X) {
							x = "len(" + rn + "." + slogGroups + ")"
						}
						if lenOfGroups(bo.Y) {
							y = "len(" + rn + "." + slogGroups + ")"
						}
						if y == "len("+rn+"."+slogGroups+")" && x == "0" {
							x, y, op = y, x, swapOp(op)
						}
						if x == "len("+rn+"."+slogGroups+")" && y == "0" {
							switch op {
							case token.GTR, token.NEQ:
								return tf("pending", pol)
							case token.EQL, token.LEQ:
								return tf("pending", !pol)
							}
						}
						return ""
					},
				})
				trunc = trunc || trunc1
				for _, sq := range seqs1 {
					if !seenSeq[sq] {
						seenSeq[sq] = true
						seqs = append(seqs, sq)
					}
				}
			}
			sort.Strings(seqs)
			n := FStr(fn)
			if trunc || len(seqs) == 0 {
				c.Und(rule, n, "emission-protocol", fn.Pos(), "path exploration incomplete (%d sequences, truncated=%v)", len(seqs), trunc)
				continue
			}
			var bad []string
			nEmit := 0
			if os.Getenv("ZV_DEBUG") != "" {
				for _, sq := range seqs {
					fmt.Println("SEQ", FNm(fn), sq)
				}
			}
			// prefixes after which some path emits namespaces one by one (an inline loop over the pending groups): a path with
			// the same prefix and no emission is that loop running zero times, which "groups are pending" excludes
			emitsAfter := map[string]bool{}
			for _, sq := range seqs {
				ev := strings.Split(sq, " ; ")
				for i, e := range ev {
					if e == "ns" && i > 0 && ev[i-1] != "ns" {
						emitsAfter[strings.Join(ev[:i], " ; ")] = true
					}
				}
			}
			for _, sq := range seqs {
				ev := strings.Split(sq, " ; ")
				// the pending groups do not change while one record / one attribute list is processed
				pendT, pendF, zeroIter := false, false, false
				for i, e := range ev {
					pendT = pendT || e == "pending=T"
					pendF = pendF || e == "pending=F"
					if e == "real=T" && i+1 < len(ev) && ev[i+1] != "ns" && ev[i+1] != "emit" && emitsAfter[strings.Join(ev[:i+1], " ; ")] {
						zeroIter = true
					}
				}
				if pendT && pendF || zeroIter {
					continue // not a path of the program
				}
				emitted, inAttr, emitThis, addedThis := false, false, false, false
				facts := map[string]bool{}
				// whether groups are pending does not change while one record / attribute list is processed: once
				// established on the path it holds for the later attributes too (a flag computed up front is tested
				// silently from then on)
				pathPend := map[string]bool{}
				cleared := false
				why := ""
				flush := func() {
					// end of one attribute's step
					if inAttr && !emitThis && !emitted && (facts["pending=T"] || pathPend["pending=T"]) && facts["real=T"] {
						why = "a real field is added while groups are pending and not yet emitted"
					}
					if inAttr && !emitThis && !emitted && !(facts["pending=F"] || pathPend["pending=F"] || facts["real=F"]) {
						why = "a field is added without emitting although neither 'no groups pending' nor 'field is Skip' was established"
					}
				}
				for _, e := range ev {
					if strings.HasPrefix(e, "with[") {
						e = "with"
					}
					if strings.HasPrefix(e, "write[") {
						e = "write"
					}
					switch e {
					case "attr":
						flush()
						inAttr, emitThis, addedThis = true, false, false
						facts = map[string]bool{}
					case "emit", "ns":
						if e == "ns" && emitThis {
							continue
						}
						nEmit++
						switch {
						case !inAttr:
							why = "groups emitted outside an attribute step"
						case emitted:
							why = "groups emitted twice"
						case addedThis:
							why = "groups emitted after the field they should precede"
						case !(facts["real=T"]):
							why = "groups emitted without having established that the field is not Skip (an empty group would appear)"
						}
						emitThis, emitted = true, true
					case "add":
						if inAttr {
							addedThis = true
						}
					case "clear":
						cleared = true
					case "store-receiver-groups", "set-groups":
						why = "the pending groups are overwritten (" + e + ")"
					case "with", "write":
						flush()
						inAttr = false
					default:
						if e == "pending=T" || e == "pending=F" {
							pathPend[e] = true
						}
						if inAttr && !addedThis {
							facts[e] = true
						}
					}
				}
				flush()
				if fn == wa && cleared != emitted {
					why = "the derived handler must drop its pending groups exactly when they were emitted into the core"
				}
				if fn == hd && cleared {
					why = "Handle must not clear groups"
				}
				// the other way to see it: the list finally handed on. When it is evident, it decides: skipped fields,
				// then - if groups are pending and a real field follows - the groups once, then the rest
				if lw, decided := c18ListVerdict(ev, fn == wa, pendF || pathPend["pending=F"]); decided {
					why = lw
					if lw == "" && strings.Contains(sq, "[") && strings.Contains(sq, "G") {
						nEmit++
					}
				}
				if why != "" {
					bad = append(bad, why+": "+sq)
				}
			}
			if len(bad) > 3 {
				bad = append(bad[:3], "… "+itoa(len(bad)-3)+" more")
			}
			c.Check(len(bad) == 0 && nEmit > 0, rule, n, "emission-protocol", fn.Pos(), "over %d paths (up to 3 attributes, helpers and the attribute callback explored inline; %d longer paths cut): the pending groups are emitted exactly once, immediately before the first field that is not Skip, only when groups are pending, never otherwise; %s: %v", len(seqs), cut, map[bool]string{true: "WithAttrs clears the clone's groups exactly when it emitted them", false: "Handle leaves the handler's groups untouched"}[fn == wa], bad)
		}
	}

}

// cDelegatesOnly: fn is an adapter that must leave the representation to the one routine that owns it. Explored with
// its helpers inline, every method it calls on the encoder it was handed is reached through one of the allowed
// delegates (which are not explored) - any direct use of the encoder is a second implementation that the rules
// deciding the first one do not see.
func cDelegatesOnly(c *Ctx, rule string, fn *ssa.Function, slot, what string, allowed func(cl *ssa.Call, st *ConcState) bool) {
	if fn == nil {
		return
	}
	var encP ssa.Value
	for _, p := range fn.Params {
		if strings.HasSuffix(TStr(p.Type()), "zapcore.ObjectEncoder") || strings.HasSuffix(TStr(p.Type()), "zapcore.ArrayEncoder") {
			encP = p
		}
	}
	if encP == nil {
		c.Und(rule, FStr(fn), slot, fn.Pos(), "no encoder parameter")
		return
	}
	resolve := func(st *ConcState, v ssa.Value) ssa.Value {
		for k := 0; k < 16 && v != nil; k++ {
			switch x := v.(type) {
			case *ssa.ChangeInterface:
				v = x.X
				continue
			case *ssa.MakeInterface:
				v = x.X
				continue
			}
			nx := st.Step(v)
			if nx == nil {
				break
			}
			v = nx
		}
		return v
	}
	var direct []string
	nDeleg := 0
	seqs, trunc := ConcPaths(fn, ConcCfg{
		MaxIter: 2,
		Inline: func(h *ssa.Function) bool {
			return h != fn && h.Pkg == fn.Pkg
		},
		Event: func(in ssa.Instruction, st *ConcState) string {
			x, ok := in.(*ssa.Call)
			if !ok {
				return ""
			}
			if allowed(x, st) {
				nDeleg++
				return "delegate"
			}
			// a method of the encoder called directly, or the encoder handed to anything else
			if x.Call.IsInvoke() && resolve(st, x.Call.Value) == encP {
				direct = append(direct, "enc."+FNm(x.Call.Method))
				return "direct"
			}
			for _, a := range x.Call.Args {
				if resolve(st, a) == encP {
					if sc := x.Call.StaticCallee(); sc != nil && sc.Pkg == fn.Pkg && len(sc.Blocks) > 0 && sc != fn {
						return "" // explored inline
					}
					direct = append(direct, "encoder handed to "+st.Desc(x.Call.Value))
					return "direct"
				}
			}
			return ""
		},
	})
	c.Check(!trunc && len(seqs) > 0 && len(direct) == 0 && nDeleg > 0, rule, FStr(fn), slot, fn.Pos(), "%s; direct uses of the encoder: %v", what, uniqSorted(direct))
}

// slogGroups: the name of the field of zapslog.Handler that holds the groups opened by WithGroup and not yet emitted
// (its one []string field); set by c18GroupsField.
var slogGroups = "groups"

func c18GroupsField(c *Ctx) {
	slogGroups = "groups"
	h := c.Named(SlogPath, "Handler")
	if h == nil {
		return
	}
	if st, ok := h.Underlying().(*types.Struct); ok {
		for i := 0; i < st.NumFields(); i++ {
			if TypeName(st.Field(i).Type()) == "[]string" {
				slogGroups = FN(st.Field(i))
			}
		}
	}
}

func isFieldList(t types.Type) bool {
	sl, ok := types.Unalias(t).Underlying().(*types.Slice)
	return ok && strings.HasSuffix(TStr(sl.Elem()), "zapcore.Field")
}

// c18ElemTag: one element of the field list handed on: S a converted attribute known to be Skip on this path, R one
// known not to be, A one of which neither is known, G the pending groups (what an emitter appended), N one namespace
// appended directly, ? anything else.
func c18ElemTag(st *ConcState, e ssa.Value, emitters map[*ssa.Function]bool) string {
	if e == nil {
		return "?"
	}
	v := e
	for k := 0; k < 12; k++ {
		nx := st.Step(v)
		if nx == nil {
			break
		}
		v = nx
	}
	call, ok := Underlying(v).(*ssa.Call)
	if !ok {
		return "?"
	}
	switch {
	case StaticCallee(call) != nil && emitters[StaticCallee(call)]:
		return "G"
	case IsCallTo(call, "go.uber.org/zap.Namespace"):
		return "N"
	case IsCallTo(call, "go.uber.org/zap.Skip"):
		return "S"
	case IsCallTo(call, SlogPath+".convertAttrToField"):
		isSkip := func(o ssa.Value) bool {
			oc, isC := Underlying(o).(*ssa.Call)
			return isC && IsCallTo(oc, "go.uber.org/zap.Skip")
		}
		if eq, known := st.EqualTo(v, isSkip); known {
			if eq {
				return "S"
			}
			return "R"
		}
		return "A"
	}
	return "?"
}

// c18ListVerdict decides a path by the list it finally hands to Core.With / CheckedEntry.Write, when that list is
// evident (decided=false otherwise): why is "" when the list is what the pending-group protocol asks for.
func c18ListVerdict(ev []string, isWithAttrs bool, notPending bool) (why string, decided bool) {
	tags, cleared := "", false
	found := false
	for _, e := range ev {
		for _, p := range []string{"with[", "write["} {
			if strings.HasPrefix(e, p) {
				tags, found = strings.TrimSuffix(strings.TrimPrefix(e, p), "]"), true
			}
		}
		if e == "clear" {
			cleared = true
		}
		if e == "store-receiver-groups" || e == "set-groups" {
			return "the pending groups are overwritten (" + e + ")", true
		}
	}
	if !found || strings.Contains(tags, "?") {
		return "", false
	}
	// namespaces appended one by one count as the group block
	norm := ""
	for i := 0; i < len(tags); i++ {
		ch := tags[i]
		if ch == 'N' {
			if i > 0 && tags[i-1] == 'N' {
				continue
			}
			ch = 'G'
		}
		norm += string(ch)
	}
	g := strings.Index(norm, "G")
	switch {
	case strings.Count(norm, "G") > 1:
		return "groups emitted twice", true
	case g < 0:
		// nothing emitted: fine when no groups are pending, or when nothing but skipped fields is handed on
		if !notPending && strings.Trim(norm, "S") != "" {
			return "a field is added without emitting although neither 'no groups pending' nor 'field is Skip' was established", true
		}
	default:
		if strings.Trim(norm[:g], "S") != "" {
			return "groups emitted after a field they should precede (or after a field not known to be Skip)", true
		}
		if g+1 >= len(norm) || norm[g+1] != 'R' {
			return "groups emitted without a field known not to be Skip right after them (an empty group would appear)", true
		}
	}
	if isWithAttrs && cleared != (g >= 0) {
		return "the derived handler must drop its pending groups exactly when they were emitted into the core", true
	}
	if !isWithAttrs && cleared {
		return "Handle must not clear groups", true
	}
	return "", true
}

// c18TalksToCore: h, or a function of the module it calls, asks a core (Check) or writes a checked entry.
func c18TalksToCore(h *ssa.Function, depth int) bool {
	if h == nil || depth > 4 {
		return false
	}
	for _, cl := range CallsDeep(h) {
		if c, ok := cl.(*ssa.Call); ok && IsCallTo(c, "(go.uber.org/zap/zapcore.Core).Check", "(*go.uber.org/zap/zapcore.CheckedEntry).Write") {
			return true
		}
		if sc := StaticCallee(cl); sc != nil && sc != h && curProgRoot(sc) && c18TalksToCore(sc, depth+1) {
			return true
		}
	}
	return false
}

// c18GroupsOrNil: v is the handler's pending groups, nil, or a local that only ever holds one of the two (one state
// value instead of a flag: `pending := h.groups … pending = nil`).
func c18GroupsOrNil(v ssa.Value, depth int) bool {
	return c18GroupsOrNilSeen(v, map[*ssa.Phi]bool{})
}

func c18GroupsOrNilSeen(v ssa.Value, seen map[*ssa.Phi]bool) bool {
	v = Strip(v)
	if IsNilConst(v) {
		return true
	}
	if x, isPhi := v.(*ssa.Phi); isPhi {
		if seen[x] {
			return true
		}
		seen[x] = true
		for _, e := range x.Edges {
			if !c18GroupsOrNilSeen(e, seen) {
				return false
			}
		}
		return len(x.Edges) > 0
	}
	return strings.HasSuffix(Desc(v), "."+slogGroups)
}

// c18LevelMap: R18.2 (also run for C05 as R5.17: the level a record is filtered and reported at).
func c18LevelMap(c *Ctx) {
	lvf := c.Func(SlogPath, "convertSlogLevel")
	if c.Anchor("R18.2", "zapslog.convertSlogLevel", lvf != nil) {
		// evaluated: the map is applied to every slog level in [-2048, 2048] and to the extremes
		it := NewInterp(c)
		var pts []int64
		for l := int64(-2048); l <= 2048; l++ {
			pts = append(pts, l)
		}
		pts = append([]int64{math.MinInt64, math.MinInt32}, pts...)
		pts = append(pts, math.MaxInt32, math.MaxInt64)
		var zs []int64
		evalErr := ""
		for _, l := range pts {
			r, err := it.Run(lvf, []IVal{IInt(l)})
			if err != nil || len(r) != 1 || r[0].K != ivInt {
				evalErr = fmt.Sprintf("convertSlogLevel(%d): %v %v", l, r, err)
				break
			}
			zs = append(zs, r[0].I)
		}
		if evalErr != "" {
			c.Und("R18.2", FStr(lvf), "monotone", lvf.Pos(), "cannot evaluate the level map: %s", evalErr)
		} else {
			mono := ""
			for i := 1; i < len(zs); i++ {
				if zs[i] < zs[i-1] {
					mono = fmt.Sprintf("slog level %d maps to %d but %d maps to %d", pts[i-1], zs[i-1], pts[i], zs[i])
				}
			}
			anch := ""
			for _, n := range []string{"Debug", "Info", "Warn", "Error"} {
				sl, ok1 := c.ConstVal("log/slog", "Level"+n)
				zl, ok2 := c.ConstVal(CorePath, n+"Level")
				if !ok1 || !ok2 {
					anch += "missing constant " + n + "; "
					continue
				}
				r, err := it.Run(lvf, []IVal{IInt(sl)})
				if err != nil || len(r) != 1 || r[0].I != zl {
					anch += fmt.Sprintf("slog.Level%s(%d) maps to %v, want %d; ", n, sl, r, zl)
				}
			}
			dz, _ := c.ConstVal(CorePath, "DebugLevel")
			ez, _ := c.ConstVal(CorePath, "ErrorLevel")
			rng := ""
			for i, z := range zs {
				if z < dz || z > ez {
					rng = fmt.Sprintf("slog level %d maps to %d, outside [Debug, Error] (slog has no level that may panic or exit)", pts[i], z)
				}
			}
			// ... and a level between two named ones belongs to the named level below it (slog: "a level is enabled if it
			// is at least the handler's minimum" - Debug+2 is a debug message, not an Info one)
			steps := ""
			{
				names := []string{"Debug", "Info", "Warn", "Error"}
				var sls, zls []int64
				okC := true
				for _, n := range names {
					sl, ok1 := c.ConstVal("log/slog", "Level"+n)
					zl, ok2 := c.ConstVal(CorePath, n+"Level")
					okC = okC && ok1 && ok2
					sls, zls = append(sls, sl), append(zls, zl)
				}
				if okC {
					for i, l := range pts {
						want := zls[0]
						for k := range sls {
							if l >= sls[k] {
								want = zls[k]
							}
						}
						if zs[i] != want && steps == "" {
							steps = fmt.Sprintf("slog level %d maps to %d, want %d (the named level at or below it); ", l, zs[i], want)
						}
					}
				}
			}
			c.Check(steps == "", "R18.2", FStr(lvf), "steps-at-named-levels", lvf.Pos(), "evaluated on %d slog levels: every level maps to the zap level of the greatest named slog level not above it (Debug for everything below Info) %s", len(pts), steps)
			c.Check(mono == "" && anch == "" && rng == "", "R18.2", FStr(lvf), "monotone", lvf.Pos(), "evaluated on %d slog levels: the map is non-decreasing, sends slog's four named levels to zap's, and stays within [Debug, Error] %s %s %s", len(pts), mono, anch, rng)
		}
		// shared
		en := c.Method(SlogPath, "Handler", "Enabled")
		hd := c.Method(SlogPath, "Handler", "Handle")
		if c.Anchor("R18.2", "zapslog.Handler.Enabled/Handle", en != nil && hd != nil) {
			for _, r := range Returns(en) {
				d := Desc(RetVals(r)[0])
				c.Check(d == "Enabled(h.core, convertSlogLevel(level))", "R18.2", FStr(en), "enabled-uses-map", r.Pos(), "Enabled asks the core about the mapped level (%s)", d)
			}
			okL := c18HandleChecksMapped(hd)
			c.Check(okL, "R18.2", FStr(hd), "handle-uses-map", hd.Pos(), "Handle stamps the entry with convertSlogLevel(record.Level)")
		}
	}

}
