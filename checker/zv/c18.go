package zv

import (
	"fmt"
	"go/constant"
	"go/token"
	"go/types"
	"math"
	"regexp"
	"sort"
	"strings"

	"golang.org/x/tools/go/ssa"
)

const SlogPath = "go.uber.org/zap/exp/zapslog"

func init() {
	Props["C18"] = Prop{
		Title: "The slog handler reproduces slog's attribute and group semantics",
		Fn:    checkC18,
		Explanation: "Decides the kind table of convertAttrToField against the slog.Kind constants of the installed log/slog (each explicit arm uses the accessor of its own kind - a mismatched accessor panics inside slog - and a zap constructor of the accessor's result type, with the attribute's key; LogValuers are resolved and re-converted; every other kind reaches the Any fallback; the empty-Attr test comes first), the monotone threshold form of the level map shared by Enabled and Handle, the slog.Handler contract clauses that are visible in the code shape (empty group name returns the receiver; group attribute without attributes → Skip; empty key → Inline), the sibling agreement of Handle and WithAttrs on when pending groups are emitted (guarded by exactly field != Skip and an emitted-state flag - a captured cell or an SSA register, of either polarity - that is initialised to 'pending', flips on the emitting path and nowhere else; cleared in the derived handler iff emitted), derivation purity (no store through the receiver, no append onto the receiver's slice), and handled-iff-Check-accepts. " +
			"NOT decided: full tree semantics against a reference model of slog.",
		Assumptions: commonAssumptions,
	}
}

var reKindAtom = regexp.MustCompile(`^Kind\(attr\.Value\) == (\d+)$`)

func checkC18(c *Ctx) {
	c.Rule("R18.1", "kind table: accessor ↔ kind ↔ constructor type; fallback; empty-Attr first", 9)
	c.Rule("R18.2", "level map: descending thresholds with non-increasing zap levels; shared by Enabled and Handle", 2)
	c.Rule("R18.3", "slog.Handler contract clauses: empty group name, empty group attribute, inline group", 2)
	c.Rule("R18.4", "Handle and WithAttrs agree on the emission of pending groups", 4)
	c.Rule("R18.5", "WithAttrs/WithGroup are pure derivations", 3)
	c.Rule("R18.6", "a record is handled iff Core.Check accepts the mapped level", 2)

	conv := c.Func(SlogPath, "convertAttrToField")
	slog := c.Pkg("log/slog")
	if !c.Anchor("R18.1", "zapslog.convertAttrToField / log/slog", conv != nil && slog != nil) {
		return
	}
	name := conv.String()
	kindT := c.Named("log/slog", "Kind")
	kinds := map[int64]string{}
	for _, k := range c.ConstsOfType("log/slog", kindT) {
		v, _ := ConstObjInt(k)
		kinds[v] = k.Name()
	}
	accessor := map[string]string{"KindGroup": "Group", "KindLogValuer": "Resolve"}
	explicit := map[string]bool{}
	hasDefault := false
	skipFirst := false
	for k, r := range Returns(conv) {
		v := Strip(RetVals(r)[0])
		call, _ := v.(*ssa.Call)
		atoms := AtomStrings(Guards(r))
		var kind string
		isDefault := true
		notEmpty := false
		for _, a := range atoms {
			if m := reKindAtom.FindStringSubmatch(a); m != nil {
				n, _ := parseInt(m[1])
				kind = kinds[n]
				isDefault = false
			}
			if a == "!Equal(attr, {})" || strings.HasPrefix(a, "!Equal(attr,") {
				notEmpty = true
			}
		}
		if !notEmpty {
			// the empty-attr arm
			ok := call != nil && IsCallTo(call, "go.uber.org/zap.Skip") && len(atoms) == 1 && strings.HasPrefix(atoms[0], "Equal(attr,")
			c.Check(ok, "R18.1", name, "empty-attr-skipped", r.Pos(), "an empty Attr is converted to Skip before anything else (guards %v)", atoms)
			skipFirst = ok
			continue
		}
		if call == nil {
			c.Bad("R18.1", name, "return#"+itoa(k+1), r.Pos(), "unexpected return %s", Desc(v))
			continue
		}
		callee := CalleeFunc(call)
		if isDefault {
			hasDefault = true
			d := Desc(call)
			c.Check(d == "Any(attr.Key, Any(attr.Value))", "R18.1", name, "fallback", r.Pos(), "kinds without an explicit arm go to zap.Any(attr.Key, attr.Value.Any()) (%s)", d)
			continue
		}
		explicit[kind] = true
		switch kind {
		case "KindGroup":
			// handled by R18.3, but accessor must still be Group
			okA := true
			for _, a := range Args(call) {
				d := Desc(a)
				if strings.Contains(d, "(attr.Value)") && !strings.Contains(d, "Group(attr.Value)") {
					okA = false
				}
			}
			c.Check(okA, "R18.1", name, "arm/"+kind+"#"+itoa(k+1), r.Pos(), "the group arm reads the value with Group()")
		case "KindLogValuer":
			d := Desc(call)
			// convertAttrToField(Attr{Key: attr.Key, Value: attr.Value.Resolve()})
			ok := IsCallTo(call, SlogPath+".convertAttrToField")
			keyOK, valOK := false, false
			AllInstrs(conv, func(i ssa.Instruction) {
				if st, isSt := i.(*ssa.Store); isSt && st.Block() == r.Block() {
					switch Desc(st.Addr) {
					case "complit.Key":
						keyOK = Desc(st.Val) == "attr.Key"
					case "complit.Value":
						valOK = Desc(st.Val) == "Resolve(attr.Value)"
					}
				}
			})
			c.Check(ok && keyOK && valOK, "R18.1", name, "arm/"+kind, r.Pos(), "a LogValuer is resolved and converted again under the same key (%s)", d)
		default:
			want := strings.TrimPrefix(kind, "Kind")
			if a, ok := accessor[kind]; ok {
				want = a
			}
			args := Args(call)
			ok := callee != nil && callee.Pkg() != nil && callee.Pkg().Path() == ZapPath && len(args) == 2 && Desc(args[0]) == "attr.Key"
			accOK, typOK := false, false
			if ok {
				if ac, isCall := Strip(args[1]).(*ssa.Call); isCall {
					af := CalleeFunc(ac)
					accOK = af != nil && af.Name() == want && af.FullName() == "(log/slog.Value)."+want && Desc(Args(ac)[0]) == "attr.Value"
					sig := callee.Type().(*types.Signature)
					typOK = types.Identical(sig.Params().At(1).Type(), ac.Type())
				}
			}
			c.Check(ok && accOK && typOK, "R18.1", name, "arm/"+kind, r.Pos(), "arm %s reads Value.%s() (a different accessor panics in slog) and builds zap.%s of exactly that type under attr.Key (accessor ok=%v, type ok=%v)", kind, want, calleeName(callee), accOK, typOK)
		}
	}
	c.Check(skipFirst, "R18.1", name, "empty-attr-first", conv.Pos(), "the empty-Attr test dominates every other arm")
	var missing []string
	for _, kn := range kinds {
		if !explicit[kn] && !hasDefault {
			missing = append(missing, kn)
		}
	}
	sort.Strings(missing)
	c.Check(len(missing) == 0, "R18.1", name, "exhaustive", conv.Pos(), "all %d slog.Kind constants of the installed log/slog are handled (%d explicitly, the rest by the fallback); missing %v", len(kinds), len(explicit), missing)

	// ---------------- R18.2 ----------------
	lvf := c.Func(SlogPath, "convertSlogLevel")
	if c.Anchor("R18.2", "zapslog.convertSlogLevel", lvf != nil) {
		// evaluated: the map is applied to every slog level in [-2048, 2048] and to the extremes
		it := NewInterp(c)
		var pts []int64
		for l := int64(-2048); l <= 2048; l++ {
			pts = append(pts, l)
		}
		pts = append([]int64{math.MinInt64, math.MinInt32}, pts...)
		pts = append(pts, math.MaxInt32, math.MaxInt64)
		var zs []int64
		evalErr := ""
		for _, l := range pts {
			r, err := it.Run(lvf, []IVal{IInt(l)})
			if err != nil || len(r) != 1 || r[0].K != ivInt {
				evalErr = fmt.Sprintf("convertSlogLevel(%d): %v %v", l, r, err)
				break
			}
			zs = append(zs, r[0].I)
		}
		if evalErr != "" {
			c.Und("R18.2", lvf.String(), "monotone", lvf.Pos(), "cannot evaluate the level map: %s", evalErr)
		} else {
			mono := ""
			for i := 1; i < len(zs); i++ {
				if zs[i] < zs[i-1] {
					mono = fmt.Sprintf("slog level %d maps to %d but %d maps to %d", pts[i-1], zs[i-1], pts[i], zs[i])
				}
			}
			anch := ""
			for _, n := range []string{"Debug", "Info", "Warn", "Error"} {
				sl, ok1 := c.ConstVal("log/slog", "Level"+n)
				zl, ok2 := c.ConstVal(CorePath, n+"Level")
				if !ok1 || !ok2 {
					anch += "missing constant " + n + "; "
					continue
				}
				r, err := it.Run(lvf, []IVal{IInt(sl)})
				if err != nil || len(r) != 1 || r[0].I != zl {
					anch += fmt.Sprintf("slog.Level%s(%d) maps to %v, want %d; ", n, sl, r, zl)
				}
			}
			dz, _ := c.ConstVal(CorePath, "DebugLevel")
			ez, _ := c.ConstVal(CorePath, "ErrorLevel")
			rng := ""
			for i, z := range zs {
				if z < dz || z > ez {
					rng = fmt.Sprintf("slog level %d maps to %d, outside [Debug, Error] (slog has no level that may panic or exit)", pts[i], z)
				}
			}
			c.Check(mono == "" && anch == "" && rng == "", "R18.2", lvf.String(), "monotone", lvf.Pos(), "evaluated on %d slog levels: the map is non-decreasing, sends slog's four named levels to zap's, and stays within [Debug, Error] %s %s %s", len(pts), mono, anch, rng)
		}
		// shared
		en := c.Method(SlogPath, "Handler", "Enabled")
		hd := c.Method(SlogPath, "Handler", "Handle")
		if c.Anchor("R18.2", "zapslog.Handler.Enabled/Handle", en != nil && hd != nil) {
			for _, r := range Returns(en) {
				d := Desc(RetVals(r)[0])
				c.Check(d == "Enabled(h.core, convertSlogLevel(level))", "R18.2", en.String(), "enabled-uses-map", r.Pos(), "Enabled asks the core about the mapped level (%s)", d)
			}
			okL := false
			AllInstrs(hd, func(i ssa.Instruction) {
				if st, ok := i.(*ssa.Store); ok && Desc(st.Addr) == "ent.Level" {
					okL = Desc(st.Val) == "convertSlogLevel(record.Level)"
				}
			})
			c.Check(okL, "R18.2", hd.String(), "handle-uses-map", hd.Pos(), "Handle stamps the entry with convertSlogLevel(record.Level)")
		}
	}

	// ---------------- R18.3 ----------------
	wg := c.Method(SlogPath, "Handler", "WithGroup")
	if c.Anchor("R18.3", "zapslog.Handler.WithGroup", wg != nil) {
		ok := false
		for _, r := range Returns(wg) {
			atoms := AtomStrings(Guards(r))
			if len(atoms) == 1 && atoms[0] == `group == ""` {
				ok = Strip(RetVals(r)[0]) == ssa.Value(wg.Params[0])
			}
		}
		c.Check(ok, "R18.3", wg.String(), "empty-name-returns-receiver", wg.Pos(), "slog.Handler: \"If the name is empty, WithGroup returns the receiver\"")
	}
	{
		emptyGroup, inline := false, false
		for _, r := range Returns(conv) {
			call, _ := Strip(RetVals(r)[0]).(*ssa.Call)
			if call == nil {
				continue
			}
			atoms := AtomStrings(Guards(r))
			isGroup := false
			has := map[string]bool{}
			for _, a := range atoms {
				if m := reKindAtom.FindStringSubmatch(a); m != nil {
					n, _ := parseInt(m[1])
					isGroup = kinds[n] == "KindGroup"
				}
				has[a] = true
			}
			if !isGroup {
				continue
			}
			if IsCallTo(call, "go.uber.org/zap.Skip") && has["len(Group(attr.Value)) == 0"] {
				emptyGroup = true
			}
			if IsCallTo(call, "go.uber.org/zap.Inline") && has[`attr.Key == ""`] {
				inline = true
			}
			if IsCallTo(call, "go.uber.org/zap.Object") && !(has[`attr.Key != ""`] && has["len(Group(attr.Value)) > 0"]) {
				emptyGroup = false
			}
		}
		c.Check(emptyGroup, "R18.3", name, "empty-group-omitted", conv.Pos(), "slog.Handler: \"If a group has no Attrs (even if it has a non-empty key), ignore it\": the KindGroup arm returns Skip when len(Group()) == 0 and builds an object only otherwise")
		c.Check(inline, "R18.3", name, "empty-key-inlined", conv.Pos(), "slog.Handler: a group with an empty key is inlined")
	}

	// ---------------- R18.4 ----------------
	hd := c.Method(SlogPath, "Handler", "Handle")
	wa := c.Method(SlogPath, "Handler", "WithAttrs")
	if c.Anchor("R18.4", "zapslog.Handler.Handle/WithAttrs", hd != nil && wa != nil) {
		he := c18Emission(hd)
		we := c18Emission(wa)
		for _, x := range []struct {
			fn *ssa.Function
			e  *c18Emit
		}{{hd, he}, {wa, we}} {
			n := x.fn.String()
			if x.e == nil {
				c.Bad("R18.4", n, "emit-guard", x.fn.Pos(), "no call to appendGroups found")
				continue
			}
			c.Check(x.e.problem == "", "R18.4", n, "emit-guard", x.e.call.Pos(), "pending groups are emitted under exactly: not yet emitted ∧ field ≠ Skip (∧ groups pending): %s (guards %v)", x.e.problem, x.e.atoms)
			c.Check(x.e.once == "", "R18.4", n, "emitted-once", x.e.call.Pos(), "the emitted-state flag is initialised to 'pending', flips on the emitting path and nowhere else, so the groups are emitted exactly once, before the first real field: %s", x.e.once)
		}
		if he != nil && we != nil {
			c.Check(he.problem == "" && we.problem == "" && he.hasSkip == we.hasSkip, "R18.4", SlogPath+".Handler", "siblings-agree", token.NoPos, "Handle and WithAttrs use the same emission condition (%v / %v)", he.atoms, we.atoms)
		}
		// WithAttrs clears groups iff emitted
		cleared := false
		if we != nil {
			AllInstrs(wa, func(i ssa.Instruction) {
				st, ok := i.(*ssa.Store)
				if !ok {
					return
				}
				fa, ok := st.Addr.(*ssa.FieldAddr)
				if !ok || fieldName(fa.X.Type(), fa.Field) != "groups" || !c18FreshCopy(fa.X, wa.Params[0], 0) {
					return
				}
				has := false
				for _, a := range Guards(st) {
					if we.sameFlag(a.Cond) && a.Pol != we.pendingPol {
						has = true
					}
				}
				cleared = has && IsNilConst(Strip(st.Val))
			})
		}
		c.Check(cleared, "R18.4", wa.String(), "cleared-iff-emitted", wa.Pos(), "the derived handler drops its pending groups exactly when they were emitted into the core")
	}

	// ---------------- R18.5 ----------------
	for _, fn := range []*ssa.Function{wg, wa} {
		if fn == nil {
			continue
		}
		h := fn.Params[0]
		var bad []string
		for _, f := range WithClosures(fn) {
			AllInstrs(f, func(i ssa.Instruction) {
				switch x := i.(type) {
				case *ssa.Store:
					if Root(x.Addr) == ssa.Value(h) {
						bad = append(bad, "store to "+Desc(x.Addr))
					}
				case *ssa.Call:
					if CallBuiltin(x) == "append" && strings.HasPrefix(Desc(x.Call.Args[0]), h.Name()+".") {
						if sl, ok := x.Call.Args[0].(*ssa.Slice); !ok || sl.Max == nil {
							bad = append(bad, "append onto "+Desc(x.Call.Args[0])+" (may write into the parent's backing array shared with its other children)")
						}
					}
				}
			})
		}
		c.Check(len(bad) == 0, "R18.5", fn.String(), "pure", fn.Pos(), "no store through the receiver and no uncapped append onto its slices: %v", bad)
		// returns a fresh clone (or the receiver itself on the no-op branch)
		for k, r := range Returns(fn) {
			v := Strip(RetVals(r)[0])
			isAlloc := c18FreshCopy(v, h, 0)
			c.Check(isAlloc || v == ssa.Value(h), "R18.5", fn.String(), "returns-clone#"+itoa(k+1), r.Pos(), "returns a fresh copy of the handler (or the untouched receiver): %s", Desc(v))
		}
	}

	// ---------------- R18.6 ----------------
	if hd != nil {
		var chk *ssa.Call
		for _, cl := range Calls(hd) {
			if IsCallTo(cl, "(go.uber.org/zap/zapcore.Core).Check") {
				chk, _ = cl.(*ssa.Call)
			}
		}
		if chk == nil {
			c.Bad("R18.6", hd.String(), "checks", hd.Pos(), "Handle does not call Core.Check")
		} else {
			c.Check(Desc(Args(chk)[0]) == "h.core" && IsNilConst(Args(chk)[2]), "R18.6", hd.String(), "checks-core", chk.Pos(), "Handle asks its core with a nil checked entry")
			var w ssa.Instruction
			for _, cl := range Calls(hd) {
				if IsCallTo(cl, "(*go.uber.org/zap/zapcore.CheckedEntry).Write") && Strip(Args(cl)[0]) == ssa.Value(chk) {
					w = cl
				}
			}
			_, t, f := BranchOn(hd, Desc(chk)+" != nil")
			okW := w != nil && t != nil && !ExistsPath(hd, AtBlock(t), IsReturn, func(i ssa.Instruction) bool { return i == w })
			okN := f != nil && !ExistsPath(hd, AtBlock(f), func(i ssa.Instruction) bool { _, isCall := i.(ssa.CallInstruction); return isCall }, nil)
			c.Check(okW, "R18.6", hd.String(), "writes-iff-accepted", chk.Pos(), "an accepted record is always written")
			c.Check(okN, "R18.6", hd.String(), "declined-does-nothing", chk.Pos(), "a declined record returns at once without any further call")
		}
	}
}

func calleeName(f *types.Func) string {
	if f == nil {
		return "?"
	}
	return f.Name()
}

func posOfCall(c *ssa.Call) token.Pos {
	if c == nil {
		return token.NoPos
	}
	return c.Pos()
}

// c18Emit describes how a function decides to emit the handler's pending groups.
type c18Emit struct {
	call       *ssa.Call
	owner      *ssa.Function
	atoms      []string
	hasSkip    bool
	pendingPol bool // the flag value (as tested) that means "not yet emitted"
	cell       ssa.Value
	phiName    string
	problem    string
	once       string
}

func (e *c18Emit) sameFlag(cond ssa.Value) bool {
	cell, phi := c18FlagOf(cond)
	if e.cell != nil {
		return cell == e.cell
	}
	return e.phiName != "" && phi != nil && phi.Comment == e.phiName
}

// c18FlagOf: cond reads a local boolean variable (a captured/addressed cell or an SSA register).
func c18FlagOf(cond ssa.Value) (cell ssa.Value, phi *ssa.Phi) {
	switch x := cond.(type) {
	case *ssa.Phi:
		if b, ok := x.Type().Underlying().(*types.Basic); ok && b.Kind() == types.Bool {
			return nil, x
		}
	case *ssa.UnOp:
		if x.Op != token.MUL {
			return nil, nil
		}
		switch y := x.X.(type) {
		case *ssa.Alloc:
			return y, nil
		case *ssa.FreeVar:
			return c18Binding(y), nil
		}
	}
	return nil, nil
}

func c18Binding(fv *ssa.FreeVar) ssa.Value {
	fn := fv.Parent()
	idx := -1
	for i, f := range fn.FreeVars {
		if f == fv {
			idx = i
		}
	}
	if fn.Parent() == nil || idx < 0 {
		return nil
	}
	var out ssa.Value
	AllInstrs(fn.Parent(), func(i ssa.Instruction) {
		if mk, ok := i.(*ssa.MakeClosure); ok && mk.Fn == ssa.Value(fn) && idx < len(mk.Bindings) {
			out = mk.Bindings[idx]
		}
	})
	if f2, ok := out.(*ssa.FreeVar); ok {
		return c18Binding(f2)
	}
	return out
}

func c18Emission(fn *ssa.Function) *c18Emit {
	e := &c18Emit{}
	for _, f := range WithClosures(fn) {
		for _, cl := range Calls(f) {
			if IsCallTo(cl, "(*"+SlogPath+".Handler).appendGroups") {
				e.call, _ = cl.(*ssa.Call)
				e.owner = f
			}
		}
	}
	if e.call == nil {
		return nil
	}
	recv := fn.Params[0].Name()
	var flagAtom *Atom
	for _, a := range Guards(e.call) {
		a := a
		s := AtomString(a)
		e.atoms = append(e.atoms, s)
		switch {
		case regexp.MustCompile(`^convertAttrToField\(.*\) != Skip\(\)$`).MatchString(s):
			e.hasSkip = true
		case strings.Contains(s, "rangeindex"):
			// iterating the attributes
		case s == "len("+recv+".groups) > 0":
			// optional: appending no groups is a no-op
		default:
			cell, phi := c18FlagOf(a.Cond)
			if (cell != nil || phi != nil) && flagAtom == nil {
				flagAtom = &a
				e.cell = cell
				if phi != nil {
					e.phiName = phi.Comment
				}
				e.pendingPol = a.Pol
				continue
			}
			e.problem += "extra condition " + s + " restricts the emission; "
		}
	}
	if !e.hasSkip {
		e.problem += "the groups are emitted even for a Skip field (an empty group would appear); "
	}
	if flagAtom == nil {
		e.problem += "no emitted-state flag guards the emission; "
		e.once = "no flag"
		return e
	}
	// definitions of the flag
	type def struct {
		val   ssa.Value
		at    *ssa.BasicBlock
		owner *ssa.Function
	}
	var defs []def
	if e.cell != nil {
		for _, f := range WithClosures(fn) {
			AllInstrs(f, func(i ssa.Instruction) {
				st, ok := i.(*ssa.Store)
				if !ok {
					return
				}
				tgt := st.Addr
				if fv, ok := tgt.(*ssa.FreeVar); ok {
					tgt = c18Binding(fv)
				}
				if tgt == e.cell {
					defs = append(defs, def{st.Val, st.Block(), f})
				}
			})
		}
		// an addressed bool starts as false unless stored first
		hasInit := false
		for _, d := range defs {
			if d.owner == fn && !(d.owner == e.owner && e.call.Block().Dominates(d.at)) {
				hasInit = true
			}
		}
		if !hasInit {
			defs = append(defs, def{ssa.NewConst(constant.MakeBool(false), types.Typ[types.Bool]), nil, fn})
		}
	} else {
		seen := map[*ssa.Phi]bool{}
		var walk func(ph *ssa.Phi)
		walk = func(ph *ssa.Phi) {
			if seen[ph] {
				return
			}
			seen[ph] = true
			for k, ed := range ph.Edges {
				if p2, ok := ed.(*ssa.Phi); ok {
					walk(p2)
					continue
				}
				defs = append(defs, def{ed, ph.Block().Preds[k], ph.Parent()})
			}
		}
		AllInstrs(e.owner, func(i ssa.Instruction) {
			if ph, ok := i.(*ssa.Phi); ok && ph.Comment == e.phiName {
				walk(ph)
			}
		})
	}
	flipped := false
	pend := "false"
	if e.pendingPol {
		pend = "true"
	}
	for _, d := range defs {
		after := d.at != nil && d.owner == e.owner && (d.at == e.call.Block() || e.call.Block().Dominates(d.at))
		dv := Desc(d.val)
		switch {
		case after && (dv == "true" || dv == "false") && dv != pend:
			flipped = true
		case after:
			e.once += "after the emission the flag becomes " + dv + "; "
		case dv == pend:
			// initialised to "pending"
		case e.pendingPol && dv == "(len("+recv+".groups) > 0)":
			// initialised to "there are groups pending"
		default:
			e.once += "the flag is also set to " + dv + " off the emitting path; "
		}
	}
	if !flipped {
		e.once += "the flag does not flip on the emitting path; "
	}
	return e
}

// c18FreshCopy: v is the address of a new Handler initialised as a copy of *h
// (directly, or returned by a helper that does just that).
func c18FreshCopy(v ssa.Value, h ssa.Value, depth int) bool {
	v = Strip(v)
	switch x := v.(type) {
	case *ssa.Alloc:
		copied := false
		for _, r := range *x.Referrers() {
			if st, ok := r.(*ssa.Store); ok && st.Addr == ssa.Value(x) {
				if ld, ok := st.Val.(*ssa.UnOp); ok && ld.Op == token.MUL && Strip(ld.X) == h {
					copied = true
				}
			}
		}
		return copied
	case *ssa.Call:
		hp := helperOf(x)
		if hp == nil || depth > 2 || len(hp.Params) == 0 {
			return false
		}
		// which parameter receives h
		var hpParam ssa.Value
		for i, a := range x.Call.Args {
			if Strip(a) == h && i < len(hp.Params) {
				hpParam = hp.Params[i]
			}
		}
		if hpParam == nil {
			return false
		}
		rets := Returns(hp)
		for _, r := range rets {
			if !c18FreshCopy(RetVals(r)[0], hpParam, depth+1) {
				return false
			}
		}
		return len(rets) > 0
	}
	return false
}
