package zv

import (
	"go/token"
	"go/types"
	"sort"
	"strings"

	"golang.org/x/tools/go/ssa"
)

// The unpack side of R3.1, decided on the resolved program rather than on the text of the switch: Field.AddTo is
// explored with f.Type fixed to each FieldType constant in turn (unexported helpers that take the Field explored
// inline). What the arm does is then the set of calls it reaches on those paths; for every argument the chain of
// conversions / math.Float*bits calls / type assertions is peeled down to the slot of f it starts from. Hoisting a
// conversion into a local, splitting the switch into helpers or dispatching another way leaves this description as it
// is.

type armArg struct {
	ops  []cop  // outermost first, as exprChain
	leaf string // slot of the Field ("Integer", "String", "Interface", "Key", …) or "" when the value is composite
	typ  types.Type
}

type armCall struct {
	name  string
	fn    *types.Func
	pos   token.Pos
	args  []armArg // for an invoke: the arguments after the receiver
	onEnc bool     // a method of the encoder handed to AddTo, or a call that is handed the encoder
}

type armInfo struct {
	read    map[string]bool
	asserts []types.Type
	calls   []armCall
	panics  bool // some path panics explicitly
	nopanic bool // some path returns
	silent  bool // some path returns without having handed the encoder anything
	trunc   bool
}

func c3ArmSSA(c *Ctx, fn *ssa.Function, kv int64) *armInfo {
	ai := &armInfo{read: map[string]bool{}}
	field := c.fieldNamed()
	rn := PN(fn.Params[0])
	encParam := fn.Params[1]
	slots := map[string]bool{}
	if st, ok := field.Underlying().(*types.Struct); ok {
		for i := 0; i < st.NumFields(); i++ {
			slots[FN(st.Field(i))] = true
		}
	}
	isField := func(t types.Type) bool {
		n, _ := types.Unalias(deref(t)).(*types.Named)
		return n != nil && n.Obj() == field.Obj()
	}
	seenAssert := map[string]bool{}
	var chain func(st *ConcState, v ssa.Value, d int) armArg
	chain = func(st *ConcState, v ssa.Value, d int) armArg {
		a := armArg{typ: v.Type()}
		if d > 12 {
			return a
		}
		for i := 0; i < 24; i++ {
			switch x := v.(type) {
			case *ssa.MakeInterface:
				v = x.X
				continue
			case *ssa.ChangeInterface:
				v = x.X
				continue
			}
			switch x := v.(type) {
			case *ssa.ChangeType:
				a.ops = append(a.ops, cop{kind: "conv", typ: x.Type()})
				v = x.X
				continue
			case *ssa.Convert:
				a.ops = append(a.ops, cop{kind: "conv", typ: x.Type()})
				v = x.X
				continue
			}
			if ds := st.Desc(v); strings.HasPrefix(ds, rn+".") && slots[ds[len(rn)+1:]] {
				a.leaf = ds[len(rn)+1:]
				if a.leaf != "Key" && a.leaf != "Type" {
					ai.read[a.leaf] = true
				}
				return a
			}
			switch x := v.(type) {
			case *ssa.TypeAssert:
				if !seenAssert[TStr(x.AssertedType)] {
					seenAssert[TStr(x.AssertedType)] = true
					ai.asserts = append(ai.asserts, x.AssertedType)
				}
				a.ops = append(a.ops, cop{kind: "assert", typ: x.AssertedType})
				v = x.X
				continue
			case *ssa.Extract:
				if ta, ok := x.Tuple.(*ssa.TypeAssert); ok && x.Index == 0 {
					v = ta
					continue
				}
			case *ssa.Call:
				if f := CalleeFunc(x); f != nil && f.Pkg() != nil && f.Pkg().Path() == "math" && len(x.Call.Args) == 1 {
					a.ops = append(a.ops, cop{kind: "call", name: FNm(f), typ: x.Type()})
					v = x.Call.Args[0]
					continue
				}
			}
			if nx := st.Step(v); nx != nil {
				v = nx
				continue
			}
			break
		}
		// composite: every slot it is computed from counts as read
		var ops [16]*ssa.Value
		if in, ok := v.(ssa.Instruction); ok {
			switch v.(type) {
			case *ssa.Call, *ssa.BinOp, *ssa.UnOp, *ssa.Extract, *ssa.Phi, *ssa.Slice, *ssa.Index, *ssa.Lookup:
				for _, op := range in.Operands(ops[:0]) {
					if op != nil && *op != nil {
						chain(st, *op, d+1)
					}
				}
			}
		}
		a.ops = append(a.ops, cop{kind: "expr", name: st.Desc(v)})
		return a
	}
	seenCall := map[string]bool{}
	// helpers that unpack on the arm's behalf (they take the Field itself) are explored inline
	takesField := func(h *ssa.Function) bool {
		for _, p := range h.Params {
			if isField(p.Type()) {
				return true
			}
		}
		return false
	}
	seqs, trunc := ConcPaths(fn, ConcCfg{
		Conc: func(d string) (int64, bool) {
			if d == rn+".Type" {
				return kv, true
			}
			return 0, false
		},
		Inline: takesField,
		Branch: func(cond ssa.Value, taken bool, st *ConcState) string {
			chain(st, cond, 0)
			return ""
		},
		Event: func(in ssa.Instruction, st *ConcState) string {
			switch x := in.(type) {
			case *ssa.Panic:
				return "panic"
			case *ssa.Return:
				return "ret"
			case *ssa.Call:
				if _, isB := x.Call.Value.(*ssa.Builtin); isB {
					return ""
				}
				if h := helperOf(x); h != nil && takesField(h) {
					return "" // explored inline: what it does shows up as its own calls
				}
				if !x.Call.IsInvoke() && x.Call.StaticCallee() == nil {
					// a function value that is evident on this path (the entry of a table of adders indexed by the field
					// type): explored inline as well
					fv := x.Call.Value
					for i := 0; i < 8; i++ {
						if ct, isCT := fv.(*ssa.ChangeType); isCT {
							fv = ct.X // a literal converted to the table's named function type
							continue
						}
						if nx := st.Step(fv); nx != nil {
							fv = nx
						} else {
							break
						}
					}
					var h *ssa.Function
					switch y := fv.(type) {
					case *ssa.Function:
						h = y
					case *ssa.MakeClosure:
						h, _ = y.Fn.(*ssa.Function)
					}
					if h != nil && len(h.Blocks) > 0 && takesField(h) {
						return ""
					}

				}
				ac := armCall{pos: x.Pos()}
				if x.Call.IsInvoke() {
					ac.name, ac.fn = FNm(x.Call.Method), x.Call.Method
					r := x.Call.Value
					for i := 0; i < 8; i++ {
						if nx := st.Step(r); nx != nil {
							r = nx
						} else {
							break
						}
					}
					ac.onEnc = r == ssa.Value(encParam)
					if !ac.onEnc {
						chain(st, x.Call.Value, 0)
					}
				} else if f := CalleeFunc(x); f != nil {
					ac.name = FNm(f)
					ac.fn = f
					if f.Pkg() != nil && f.Pkg().Path() == "math" && len(x.Call.Args) == 1 {
						return "" // part of a chain
					}
				} else {
					ac.name = "(dynamic)"
					chain(st, x.Call.Value, 0)
				}
				for i, a := range x.Call.Args {
					if !x.Call.IsInvoke() && i == 0 && x.Call.Signature().Recv() != nil {
						// the receiver of a statically dispatched method: a value computed from the slots
						chain(st, a, 0)
						continue
					}
					r := a
					for i := 0; i < 8; i++ {
						if nx := st.Step(r); nx != nil {
							r = nx
						} else {
							break
						}
					}
					if r == ssa.Value(encParam) {
						ac.onEnc = true
					}
					ac.args = append(ac.args, chain(st, a, 0))
				}
				key := ac.name + "@" + c.Pos(x.Pos())
				if !seenCall[key] {
					seenCall[key] = true
					ai.calls = append(ai.calls, ac)
				}
				if ac.onEnc {
					return "enc"
				}
				return ""
			}
			return ""
		},
	})
	ai.trunc = trunc || len(seqs) == 0
	for _, sq := range seqs {
		if strings.HasSuffix(sq, "panic") {
			ai.panics = true
		} else {
			ai.nopanic = true
			if !strings.Contains(sq, "enc") {
				ai.silent = true
			}
		}
	}
	return ai
}

func (ai *armInfo) readList() []string {
	var rd []string
	for s := range ai.read {
		rd = append(rd, s)
	}
	sort.Strings(rd)
	return rd
}
