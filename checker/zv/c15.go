package zv

import (
	"fmt"
	"go/ast"
	"go/token"
	"go/types"
	"regexp"
	"sort"
	"strings"

	"golang.org/x/tools/go/ssa"
)

func init() {
	Props["C15"] = Prop{
		Title: "Caller and stack annotations identify the user's call site",
		Fn:    checkC15,
		Explanation: "Skip arithmetic is additive over a static call chain, so it is decided exactly: for every user-facing entry point (the 9 Logger methods, the 32 SugaredLogger methods, zap.Stack/StackSkip, the std-log bridge behind log.Print*/(*log.Logger).Print* of the installed toolchain, the slog front ends of the installed log/slog down to Handler.Handle) every static chain to every runtime.Callers call site is enumerated; the number of frames on it (bound-method thunks not counted) must equal the sum of the constant skip contributions along it plus the preset the front end stores in callerSkip (Sugar's constant, the std-log depth constants), and the logger's own callerSkip must enter exactly once with coefficient 1. The net callerSkip change of every derive/convert method is computed (Sugar +k, Desugar −k, all others 0, including through chains such as base.WithLazy(…).Sugar()); check is called only from exported Logger methods; caller and stack come from one Capture whose depth is Full iff a stack is wanted and are attached under exactly addCaller / addStack (the slog handler: exactly record.Level ≥ addStackAt, caller from the record's PC); Capture's growth loop re-captures with the same skip until the buffer is not full and FormatStack drops only the final frame. " +
			"NOT decided: the runtime's frame reporting and inlining, TrimmedPath's string handling.",
		Assumptions: append([]string{"runtime.Callers skip semantics: 0 = Callers itself; bound-method and promoted-method wrappers are elided by the runtime"}, commonAssumptions...),
	}
}

// lin is a linear expression const + Σ coef·symbol.
type lin struct {
	c    int64
	syms map[string]int64
}

func (a lin) add(b lin, sign int64) lin {
	r := lin{c: a.c + sign*b.c, syms: map[string]int64{}}
	for k, v := range a.syms {
		r.syms[k] += v
	}
	for k, v := range b.syms {
		r.syms[k] += sign * v
	}
	for k, v := range r.syms {
		if v == 0 {
			delete(r.syms, k)
		}
	}
	return r
}

func (a lin) String() string {
	var ks []string
	for k := range a.syms {
		ks = append(ks, k)
	}
	sort.Strings(ks)
	s := fmt.Sprint(a.c)
	for _, k := range ks {
		s += fmt.Sprintf(" + %d·%s", a.syms[k], k)
	}
	return s
}

func evalLin(v ssa.Value, env map[*ssa.Parameter]lin, depth int) lin {
	if depth > 10 {
		return lin{syms: map[string]int64{"?": 1}}
	}
	switch x := v.(type) {
	case *ssa.Const:
		if n, ok := ConstInt(x); ok {
			return lin{c: n}
		}
	case *ssa.Parameter:
		if e, ok := env[x]; ok {
			return e
		}
		return lin{syms: map[string]int64{"param " + x.Name(): 1}}
	case *ssa.BinOp:
		switch x.Op {
		case token.ADD:
			return evalLin(x.X, env, depth+1).add(evalLin(x.Y, env, depth+1), 1)
		case token.SUB:
			return evalLin(x.X, env, depth+1).add(evalLin(x.Y, env, depth+1), -1)
		}
	case *ssa.Convert:
		return evalLin(x.X, env, depth+1)
	case *ssa.ChangeType:
		return evalLin(x.X, env, depth+1)
	case *ssa.UnOp:
		if x.Op == token.MUL {
			if fa, ok := x.X.(*ssa.FieldAddr); ok {
				return lin{syms: map[string]int64{fieldName(fa.X.Type(), fa.Field): 1}}
			}
			if a, ok := x.X.(*ssa.Alloc); ok {
				if s := singleStore(a); s != nil {
					return evalLin(s, env, depth+1)
				}
			}
			if fv, ok := x.X.(*ssa.FreeVar); ok {
				return lin{syms: map[string]int64{fv.Name(): 1}}
			}
		}
	case *ssa.FreeVar:
		return lin{syms: map[string]int64{x.Name(): 1}}
	case *ssa.Phi:
		var first *lin
		same := true
		for _, e := range x.Edges {
			l := evalLin(e, env, depth+1)
			if first == nil {
				first = &l
			} else if first.String() != l.String() {
				same = false
			}
		}
		if first != nil && same {
			return *first
		}
	}
	return lin{syms: map[string]int64{"?" + Desc(v): 1}}
}

type skipPath struct {
	chain []string
	skip  lin
	site  token.Pos
}

// c15Walker enumerates static chains to runtime.Callers.
type c15Walker struct {
	c       *Ctx
	bridges map[string][]*ssa.Function // key: caller function + "|" + invoked/dynamic callee description
	allowed func(from, f *ssa.Function) bool
	paths   []skipPath
}

func (w *c15Walker) walk(fn *ssa.Function, env map[*ssa.Parameter]lin, chain []string, depth int) {
	if depth > 9 {
		return
	}
	chain = append(chain, FStr(fn))
	for _, cl := range Calls(fn) {
		if _, isDefer := cl.(*ssa.Defer); isDefer {
			continue
		}
		if IsCallTo(cl, "runtime.Callers") {
			sk := evalLin(cl.Common().Args[0], env, 0)
			w.paths = append(w.paths, skipPath{append(append([]string{}, chain...), "runtime.Callers"), sk, cl.Pos()})
			continue
		}
		var targets []*ssa.Function
		if callee := StaticCallee(cl); callee != nil {
			if w.allowed(fn, callee) {
				targets = []*ssa.Function{callee}
			}
		} else {
			key := FStr(fn) + "|" + dynDesc(cl)
			targets = w.bridges[key]
		}
		for _, t := range targets {
			if t == nil || len(t.Blocks) == 0 {
				continue
			}
			onChain := false
			for _, cn := range chain {
				if cn == FStr(t) {
					onChain = true
				}
			}
			if onChain {
				continue
			}
			nenv := map[*ssa.Parameter]lin{}
			args := cl.Common().Args
			if cl.Common().IsInvoke() {
				args = append([]ssa.Value{cl.Common().Value}, args...)
			}
			if StaticCallee(cl) == nil && !cl.Common().IsInvoke() {
				// call of a func value bridged to a bound method: receiver unknown, shift params by one
				for i, a := range args {
					if i+1 < len(t.Params) {
						nenv[t.Params[i+1]] = evalLin(a, env, 0)
					}
				}
			} else {
				for i, a := range args {
					if i < len(t.Params) {
						nenv[t.Params[i]] = evalLin(a, env, 0)
					}
				}
			}
			w.walk(t, nenv, chain, depth+1)
		}
	}
}

func dynDesc(cl ssa.CallInstruction) string {
	if cl.Common().IsInvoke() {
		return "invoke " + cl.Common().Method.FullName()
	}
	return "dyn " + Desc(cl.Common().Value)
}

func checkC15(c *Ctx) {
	c.Rule("R15.1", "frames on every static chain from a front-end entry to runtime.Callers = constant skips along it + the front end's preset; callerSkip enters once", 60)
	c.Rule("R15.2", "conversions cancel: Sugar +k, Desugar −k, every other derive method leaves callerSkip unchanged", 8)
	c.Rule("R15.3", "Logger.check is called only by exported Logger methods", 6)
	c.Rule("R15.4", "one capture shared by caller and stack; attached under exactly addCaller / addStack; slog: stack iff record.Level >= addStackAt, caller from record.PC", 3)
	c.Rule("R15.7", "Config: caller and stack annotations are installed exactly as configured (DisableStacktrace wins over Development)", 1)
	c15ConfigAnnotations(c, "R15.7")
	c.Rule("R15.8", "Config.Build: the caller's options take effect after the configuration's (a caller's WithCaller / AddStacktrace / AddCallerSkip is not overridden by the annotations derived from the Config)", 1)
	c10BuildOptionOrder(c, "R15.8")
	c.Rule("R15.5", "whole stack: growth loop re-captures with the same skip while full; only the final frame is dropped", 3)
	c.Rule("R15.9", "the slog handler's defaults are set before the options are applied; nothing is stored into the handler afterwards", 1)
	c15DefaultsBeforeOptions(c, "R15.9")
	c.Rule("R15.10", "the short caller names the same file as the full one: everything after the penultimate '/', the whole path with fewer than two separators (a leading separator is kept)", 1)
	c2TrimmedPath(c, "R15.10")

	zp := ZapPath
	check := c.Method(zp, "Logger", "check")
	lw := c.Method(zp, "loggerWriter", "Write")
	handle := c.Method(SlogPath, "Handler", "Handle")
	if !c.Anchor("R15.1", "zap.Logger.check / loggerWriter.Write / zapslog.Handler.Handle", check != nil && lw != nil && handle != nil) {
		return
	}
	w := &c15Walker{c: c, bridges: map[string][]*ssa.Function{}}
	callsCheck := func(f *ssa.Function) bool {
		for _, cl := range Calls(f) {
			if StaticCallee(cl) == check {
				return true
			}
		}
		return false
	}
	w.allowed = func(from, f *ssa.Function) bool {
		if f.Pkg == nil {
			return false
		}
		p := f.Pkg.Pkg.Path()
		if from == lw && p == zp && ast.IsExported(FNm(f)) && callsCheck(f) {
			// the std-log bridge calling the Logger method it stands for directly (rather than through a stored
			// method value)
			return true
		}
		if p == "go.uber.org/zap/internal/stacktrace" {
			return true
		}
		if p == zp {
			switch FNm(f) {
			case "Check", "StackSkip", "Stack":
				return true
			}
			// unexported helpers between a front end and the capture (check, log, logln, and whatever they are split
			// into); an exported method reached from inside zap (sweetenFields reporting through s.base.Error) starts
			// a chain of its own
			return !ast.IsExported(FNm(f)) && f.Parent() == nil
		}
		if p == "log" {
			return FNm(f) == "output"
		}
		if p == "log/slog" {
			return FNm(f) == "log" || FNm(f) == "logAttrs"
		}
		return false
	}
	// bridges for dynamic calls
	stdOutput := c.Method("log", "Logger", "output")
	if c.Anchor("R15.1", "log.(*Logger).output (installed toolchain)", stdOutput != nil) {
		w.bridges[FStr(stdOutput)+"|invoke (io.Writer).Write"] = []*ssa.Function{lw}
	}
	if dc := dynFuncCall(lw); dc != nil {
		w.bridges[FStr(lw)+"|dyn "+Desc(dc.Call.Value)] = []*ssa.Function{c.Method(zp, "Logger", "Info")}
	} else {
		w.bridges[FStr(lw)+"|dyn l.logFunc"] = []*ssa.Function{c.Method(zp, "Logger", "Info")}
	}
	for _, n := range []string{"log", "logAttrs"} {
		if f := c.Method("log/slog", "Logger", n); f != nil {
			w.bridges[FStr(f)+"|invoke (log/slog.Handler).Handle"] = []*ssa.Function{handle}
		}
	}
	// presets
	// the preset Sugar stores: by exploring Sugar with the receiver's callerSkip fixed (c15SkipDelta)
	sugarK := int64(-999)
	if sf := c.Method(zp, "Logger", "Sugar"); sf != nil {
		if d, ok, _ := c15SkipDelta(c, sf); ok {
			sugarK = d
		}
	}
	stdK := int64(-999)
	stdAgree := true
	nStd := 0
	for _, fnm := range []string{"NewStdLog", "NewStdLogAt", "RedirectStdLog", "RedirectStdLogAt"} {
		f := c.Func(zp, fnm)
		if f == nil {
			continue
		}
		has := false
		for _, cl := range CallsDeep(f) {
			if IsCallTo(cl, "go.uber.org/zap.AddCallerSkip") {
				v, ok := ConstInt(cl.Common().Args[0])
				has = true
				if !ok {
					stdAgree = false
				} else if stdK == -999 {
					stdK = v
				} else if stdK != v {
					stdAgree = false
				}
			}
		}
		if !has {
			// delegating to another of the bridges takes over its constant
			for _, cl := range Calls(f) {
				if IsCallTo(cl, "go.uber.org/zap.NewStdLog", "go.uber.org/zap.NewStdLogAt", "go.uber.org/zap.RedirectStdLog", "go.uber.org/zap.RedirectStdLogAt") {
					has = true
				}
			}
		}
		if has {
			nStd++
		}
	}
	c.Check(stdAgree && nStd == 4, "R15.1", zp+".NewStdLog/NewStdLogAt/RedirectStdLog/RedirectStdLogAt", "std-depth-constant", token.NoPos, "the four std-log bridges (their unexported helpers included) add the same caller skip (%d)", stdK)
	// AddCallerSkip is additive
	if acs := c.Func(zp, "AddCallerSkip"); acs != nil {
		ok := false
		fns := WithClosures(acs)
		viaType := false
		// the option may be a named type holding the number, its apply method doing the addition
		for _, r := range Returns(acs) {
			v := RetVals(r)[0]
			if mi, isMI := v.(*ssa.MakeInterface); isMI {
				v = mi.X
			}
			if n, isN := types.Unalias(v.Type()).(*types.Named); isN && n.Obj().Pkg() != nil && n.Obj().Pkg().Path() == zp {
				if m := c.Method(zp, TNm(n.Obj()), "apply"); m != nil {
					// the value handed to the type is the parameter itself
					if cv, isCv := Strip(v).(*ssa.Convert); isCv && Strip(cv.X) == ssa.Value(acs.Params[0]) || Strip(v) == ssa.Value(acs.Params[0]) {
						fns = append(fns, m)
						viaType = true
					}
				}
			}
		}
		for _, f := range fns {
			for _, st := range FieldStoresOf(f, c.Named(zp, "Logger")) {
				if st.Field == "callerSkip" {
					l := evalLin(st.Instr.Val, nil, 0)
					other := ""
					for k := range l.syms {
						if k != "callerSkip" {
							other = k
						}
					}
					ok = l.c == 0 && l.syms["callerSkip"] == 1 && len(l.syms) == 2 && l.syms[other] == 1 && (other == "skip" || viaType && len(f.Params) > 0 && (other == PN(f.Params[0]) || other == "param "+PN(f.Params[0])))
				}
			}
		}
		c.Check(ok, "R15.1", FStr(acs), "additive", acs.Pos(), "AddCallerSkip(n) adds exactly n to callerSkip")
	}
	// the slog handler's option does the same: it ADDS to what is there (options of layered wrappers accumulate)
	if wcs := c.Func(SlogPath, "WithCallerSkip"); c.Anchor("R15.1", "zapslog.WithCallerSkip", wcs != nil && len(wcs.Params) == 1) {
		okS, nSt := false, 0
		hn := c.Named(SlogPath, "Handler")
		cands := WithClosures(wcs)
		// the option may be a value of a named type whose apply method does the addition
		for _, r := range Returns(wcs) {
			v := RetVals(r)[0]
			if mi, isMI := v.(*ssa.MakeInterface); isMI {
				v = mi.X
			}
			if m := c.SSA.LookupMethod(v.Type(), c.Pkg(SlogPath).Types, "apply"); m != nil && m.Synthetic == "" && len(m.Blocks) > 0 {
				cands = append(cands, m)
			}
		}
		for _, f := range cands {
			if hn == nil {
				break
			}
			AllInstrs(f, func(in ssa.Instruction) {
				sto, isSt := in.(*ssa.Store)
				if !isSt {
					return
				}
				fa, isFA := sto.Addr.(*ssa.FieldAddr)
				if !isFA || fieldName(fa.X.Type(), fa.Field) != "callerSkip" {
					return
				}
				nSt++
				l := evalLin(sto.Val, nil, 0)
				others := 0
				for k, v := range l.syms {
					if k != "callerSkip" {
						others++
						if v != 1 {
							others = 99
						}
					}
				}
				okS = l.c == 0 && l.syms["callerSkip"] == 1 && others == 1
			})
		}
		c.Check(okS && nSt == 1, "R15.1", FStr(wcs), "additive", wcs.Pos(), "zapslog.WithCallerSkip(n) adds exactly n to the handler's callerSkip (one store: callerSkip + n)")
	}

	// the preset zapslog.NewHandler stores in its handler's callerSkip (none on the reference tree: Handle adds its
	// constant itself), by exploring NewHandler without options
	slogK := int64(0)
	if nh := c.Func(SlogPath, "NewHandler"); nh != nil {
		var seen []int64
		ConcPaths(nh, ConcCfg{
			SliceLen: func(p *ssa.Parameter) (int64, bool) { return 0, true }, Unroll: true,
			Event: func(in ssa.Instruction, st *ConcState) string {
				if r, ok := in.(*ssa.Return); ok && len(r.Results) == 1 && len(st.cfg.stackDepth()) == 0 {
					// the setting may live in a struct the handler holds by value; never assigned: the zero value
					found := false
					for f, d := range st.FieldsOf(r.Results[0]) {
						if f == "callerSkip" || strings.HasSuffix(f, ".callerSkip") {
							found = true
							if k, ok := parseInt(d); ok {
								seen = append(seen, k)
							} else {
								seen = append(seen, -999)
							}
						}
					}
					if !found {
						seen = append(seen, 0)
					}
				}
				return ""
			},
		})
		if len(seen) > 0 {
			slogK = seen[0]
			for _, k := range seen {
				if k != slogK {
					slogK = -999
				}
			}
		}
	}
	type entry struct {
		fn     *ssa.Function
		preset int64
		family string
	}
	var entries []entry
	for _, n := range append(append([]string{}, levelNames...), "Log", "Check") {
		if f := c.Method(zp, "Logger", n); f != nil {
			entries = append(entries, entry{f, 0, "Logger"})
		}
	}
	for _, n := range append(append([]string{}, levelNames...), "Log") {
		for _, suf := range []string{"", "f", "w", "ln"} {
			if f := c.Method(zp, "SugaredLogger", n+suf); f != nil {
				entries = append(entries, entry{f, sugarK, "SugaredLogger"})
			}
		}
	}
	for _, n := range []string{"Stack", "StackSkip"} {
		if f := c.Func(zp, n); f != nil {
			entries = append(entries, entry{f, 0, "field"})
		}
	}
	for _, n := range []string{"Print", "Printf", "Println"} {
		if f := c.Func("log", n); f != nil {
			entries = append(entries, entry{f, stdK, "std-log"})
		}
		if f := c.Method("log", "Logger", n); f != nil {
			entries = append(entries, entry{f, stdK, "std-log"})
		}
	}
	for _, n := range []string{"Debug", "Info", "Warn", "Error", "Log", "LogAttrs", "DebugContext", "InfoContext", "WarnContext", "ErrorContext"} {
		if f := c.Method("log/slog", "Logger", n); f != nil {
			entries = append(entries, entry{f, slogK, "slog"})
		}
	}
	for _, e := range entries {
		w.paths = nil
		env := map[*ssa.Parameter]lin{}
		w.walk(e.fn, env, nil, 0)
		name := FStr(e.fn)
		if len(w.paths) == 0 {
			c.Bad("R15.1", name, "chain", e.fn.Pos(), "no static chain from this entry point to runtime.Callers was found")
			continue
		}
		// slog front ends also call runtime.Callers themselves (for record.PC): ignore chains that end inside log/slog
		npaths := 0
		for _, p := range w.paths {
			last := p.chain[len(p.chain)-2]
			if strings.Contains(last, "log/slog") {
				continue
			}
			npaths++
			frames := int64(len(p.chain))
			syms := map[string]int64{}
			for k, v := range p.skip.syms {
				syms[k] = v
			}
			// the logger's own skip: exactly once
			cs := syms["callerSkip"]
			delete(syms, "callerSkip")
			if e.family == "field" && FNm(e.fn) == "StackSkip" {
				delete(syms, "param skip")
			}
			okSyms := len(syms) == 0 && (cs == 1 || e.family == "field")
			c.Check(frames == p.skip.c+e.preset && okSyms, "R15.1", name, "depth=skip@"+shortChain(p.chain), p.site,
				"%d frames from the user's call to runtime.Callers [%s]; skip passed = %s, front-end preset in callerSkip = %d: must satisfy frames = constant + preset with callerSkip entering once (other symbols: %v)",
				frames, shortChain(p.chain), p.skip, e.preset, syms)
		}
		if npaths == 0 {
			c.Bad("R15.1", name, "chain", e.fn.Pos(), "no chain into zap's capture was found")
		}
	}

	c15Conversions(c, sugarK)
	c.Rule("R15.6", "handlers derived through WithAttrs/WithGroup keep the caller skip and the caller/stack options", 2)
	for _, m := range []string{"WithAttrs", "WithGroup"} {
		if fn := c.Method(SlogPath, "Handler", m); fn != nil {
			c18Carries(c, "R15.6", fn)
		}
	}
	c15CheckCallers(c)
	c15Attach(c)
	c15Whole(c)
}

func shortChain(ch []string) string {
	var s []string
	for _, x := range ch {
		x = strings.ReplaceAll(x, "go.uber.org/zap/internal/stacktrace.", "")
		x = strings.ReplaceAll(x, "go.uber.org/zap/exp/zapslog.", "zapslog.")
		x = strings.ReplaceAll(x, "go.uber.org/zap.", "")
		s = append(s, x)
	}
	return strings.Join(s, "→")
}

// c15SkipDelta: the net change of the logger's callerSkip through a method of Logger / SugaredLogger that returns a
// logger, decided by exploring the method (Logger and SugaredLogger methods and their helpers inline, no options, no
// fields) with the receiver's callerSkip fixed to a concrete value and reading the field off every returned logger.
func c15SkipDelta(c *Ctx, fn *ssa.Function) (delta int64, ok bool, why string) {
	const start = 1000
	if len(fn.Params) == 0 {
		return 0, false, "no receiver"
	}
	recv := fn.Params[0]
	lg, sg := c.Named(ZapPath, "Logger"), c.Named(ZapPath, "SugaredLogger")
	if lg == nil || sg == nil {
		return 0, false, "Logger / SugaredLogger do not resolve"
	}
	isT := func(t types.Type, n *types.Named) bool {
		x, _ := types.Unalias(deref(t)).(*types.Named)
		return x != nil && x.Obj() == n.Obj()
	}
	// the field of SugaredLogger that holds the *Logger
	baseField := ""
	if st, isS := sg.Underlying().(*types.Struct); isS {
		for i := 0; i < st.NumFields(); i++ {
			if isT(st.Field(i).Type(), lg) {
				baseField = FN(st.Field(i))
			}
		}
	}
	field := "callerSkip"
	if isT(recv.Type(), sg) {
		field = baseField + ".callerSkip"
	}
	inl := func(h *ssa.Function) bool {
		if h.Pkg == nil || h.Pkg.Pkg.Path() != ZapPath {
			return false
		}
		r := h
		for r.Parent() != nil {
			r = r.Parent()
		}
		if rn := RecvNamed(r); rn != nil && (rn.Obj() == lg.Obj() || rn.Obj() == sg.Obj()) {
			return true
		}
		// an unexported helper of the package (one that applies a list of options, say)
		if !token.IsExported(r.Name()) {
			return true
		}
		// an option constructor (AddCallerSkip(2)): what it returns is applied right here
		if r.Signature.Recv() == nil && r.Signature.Results().Len() == 1 && strings.HasSuffix(TStr(r.Signature.Results().At(0).Type()), "zap.Option") {
			return true
		}
		return false
	}
	skipOf := func(st *ConcState, v ssa.Value) (int64, bool) {
		if isT(v.Type(), sg) {
			_, _, b := st.FieldOf(v, baseField)
			if b == nil {
				// the receiver itself (or a logger whose base was never replaced)
				if k, isInt, _ := st.FieldOf(v, baseField+".callerSkip"); isInt {
					return k, true
				}
				return 0, false
			}
			v = b
		}
		k, isInt, _ := st.FieldOf(v, "callerSkip")
		return k, isInt
	}
	var results []string
	seqs, trunc := ConcPaths(fn, ConcCfg{
		Inline: inl, InlineAny: inl, MaxDepth: 10, MaxStates: 200000, Unroll: true,
		Devirt:     func(m *ssa.Function) bool { return m.Pkg != nil && m.Pkg.Pkg.Path() == ZapPath || m.Synthetic != "" },
		InitFields: []FieldVal{{Obj: recv, Field: field, Val: start}},
		SliceLen:   func(p *ssa.Parameter) (int64, bool) { return 0, true },
		Event: func(in ssa.Instruction, st *ConcState) string {
			r, isR := in.(*ssa.Return)
			if !isR || len(r.Results) != 1 {
				return ""
			}
			if k, ok := skipOf(st, r.Results[0]); ok {
				return "ret " + itoa(int(k-start))
			}
			return "ret ?" + st.Desc(r.Results[0])
		},
	})
	if trunc || len(seqs) == 0 {
		return 0, false, "path exploration incomplete"
	}
	for _, sq := range seqs {
		toks := strings.Split(sq, " ; ")
		results = append(results, toks[len(toks)-1])
	}
	sort.Strings(results)
	first := results[0]
	for _, r := range results {
		if r != first {
			return 0, false, "paths disagree: " + strings.Join(results, ", ")
		}
	}
	if strings.HasPrefix(first, "ret ?") || first == "panic" {
		return 0, false, "not evident: " + first
	}
	var k int
	fmt.Sscanf(first, "ret %d", &k)
	return int64(k), true, ""
}

// c15Conversions computes the net callerSkip change of derive/convert methods.
func c15Conversions(c *Ctx, sugarK int64) {
	zp := ZapPath
	want := map[string]int64{"(*go.uber.org/zap.Logger).Sugar": sugarK, "(*go.uber.org/zap.SugaredLogger).Desugar": -sugarK}
	for _, t := range []string{"Logger", "SugaredLogger"} {
		named := c.Named(zp, t)
		if named == nil {
			continue
		}
		ms := c.SSA.MethodSets.MethodSet(types.NewPointer(named))
		for i := 0; i < ms.Len(); i++ {
			fn := c.SSA.MethodValue(ms.At(i))
			if fn == nil || fn.Signature.Results().Len() != 1 || !ast.IsExported(FNm(fn)) {
				// unexported helpers have no contract of their own: they are explored inline from the exported methods
				continue
			}
			rt := TypeName(fn.Signature.Results().At(0).Type())
			if rt != "*zap.Logger" && rt != "*zap.SugaredLogger" {
				continue
			}
			d, ok, why := c15SkipDelta(c, fn)
			w := want[FStr(fn)]
			c.Check(ok && d == w, "R15.2", FStr(fn), "net-skip-change", fn.Pos(), "net change of the logger's callerSkip through %s, by exploring it with the receiver's callerSkip fixed (no options, no fields): %d %s (must be %d: Sugar adds %d, Desugar removes it, everything else keeps it)", FNm(fn), d, why, w, sugarK)
		}
	}
	// clone copies callerSkip (struct copy)
	cl := c.Method(zp, "Logger", "clone")
	if c.Anchor("R15.2", "zap.Logger.clone", cl != nil) {
		ok := false
		for _, r := range Returns(cl) {
			if a, isA := Strip(RetVals(r)[0]).(*ssa.Alloc); isA {
				if s := singleStoreLoose(a); s != nil {
					if u, isU := s.(*ssa.UnOp); isU && u.X == ssa.Value(cl.Params[0]) {
						ok = true
					}
				}
			}
		}
		c.Check(ok, "R15.2", FStr(cl), "copies-everything", cl.Pos(), "clone is a whole-struct copy (callerSkip included)")
	}
}

func c15CheckCallers(c *Ctx) {
	for _, cl := range c.CallersOf("(*go.uber.org/zap.Logger).check") {
		fn := cl.Parent()
		rn := RecvNamed(fn)
		ok := rn != nil && TNm(rn.Obj()) == "Logger" && fn.Object() != nil && fn.Object().Exported() && fn.Parent() == nil
		c.Check(ok, "R15.3", FStr(fn), "check-caller", cl.Pos(), "check is called directly from an exported *Logger method (its skip offset assumes exactly that depth)")
	}
}

func c15Attach(c *Ctx) {
	fn := c.Method(ZapPath, "Logger", "check")
	if !c.Anchor("R15.4", "zap.Logger.check", fn != nil) {
		return
	}
	name := FStr(fn)
	rn := PN(fn.Params[0])
	resolve := func(st *ConcState, v ssa.Value) ssa.Value {
		for k := 0; k < 16 && v != nil; k++ {
			if ct, ok := v.(*ssa.ChangeType); ok {
				v = ct.X
				continue
			}
			nx := st.Step(v)
			if nx == nil {
				break
			}
			v = nx
		}
		return v
	}
	// isFrame: v is (a field of) the frame the first Next() of the captured stack returned
	var isFrame func(st *ConcState, v ssa.Value, d int) bool
	isFrame = func(st *ConcState, v ssa.Value, d int) bool {
		if d > 6 {
			return false
		}
		r := resolve(st, v)
		switch x := r.(type) {
		case *ssa.Extract:
			cl, ok := x.Tuple.(*ssa.Call)
			return ok && x.Index == 0 && IsCallTo(cl, "(*go.uber.org/zap/internal/stacktrace.Stack).Next")
		case *ssa.Field:
			return isFrame(st, x.X, d+1)
		case *ssa.UnOp:
			if x.Op == token.MUL {
				if fa, ok := x.X.(*ssa.FieldAddr); ok {
					return isFrame(st, fa.X, d+1)
				}
				if al, ok := x.X.(*ssa.Alloc); ok {
					if sv := singleStoreLoose(al); sv != nil {
						return isFrame(st, sv, d+1)
					}
				}
			}
		case *ssa.Alloc:
			if sv := singleStoreLoose(x); sv != nil {
				return isFrame(st, sv, d+1)
			}
		}
		return false
	}
	var bad []string
	nPaths := 0
	for _, addCaller := range []int64{0, 1} {
		ac := addCaller
		seqs, trunc := ConcPaths(fn, ConcCfg{
			Prune: true, MaxStates: 400000,
			Conc: func(d string) (int64, bool) {
				if d == rn+".addCaller" {
					return ac, true
				}
				return 0, false
			},
			Branch: func(cond ssa.Value, taken bool, st *ConcState) string {
				pol := taken
				for k := 0; k < 8; k++ {
					if u, ok := cond.(*ssa.UnOp); ok && u.Op == token.NOT {
						cond, pol = u.X, !pol
						continue
					}
					if nx := st.Step(cond); nx != nil {
						cond = nx
						continue
					}
					break
				}
				tf := func(n string, v bool) string { return n + "=" + map[bool]string{true: "T", false: "F"}[v] }
				switch x := cond.(type) {
				case *ssa.Call:
					if x.Call.IsInvoke() && FNm(x.Call.Method) == "Enabled" && strings.HasSuffix(st.Desc(x.Call.Value), ".addStack") {
						// asked about the level of the entry as the cores accepted it (a core may re-level an entry), not
						// about the level the caller asked for
						okLvl := false
						if ld, isLd := resolve(st, x.Call.Args[0]).(*ssa.UnOp); isLd && ld.Op == token.MUL {
							if f1, isF := ld.X.(*ssa.FieldAddr); isF && fieldName(f1.X.Type(), f1.Field) == "Level" {
								if f2, isF2 := f1.X.(*ssa.FieldAddr); isF2 && fieldName(f2.X.Type(), f2.Field) == "Entry" && strings.HasSuffix(TypeName(f2.X.Type()), "zapcore.CheckedEntry") {
									okLvl = true
								}
							}
						}
						if !okLvl {
							return "stack-wanted-for(" + st.Desc(x.Call.Args[0]) + ")"
						}
						return tf("stack-wanted", pol)
					}
				case *ssa.Extract:
					if cl, ok := x.Tuple.(*ssa.Call); ok && x.Index == 1 && IsCallTo(cl, "(*go.uber.org/zap/internal/stacktrace.Stack).Next") {
						return tf("more", pol)
					}
				case *ssa.BinOp:
					if cl, ok := resolve(st, x.X).(*ssa.Call); ok && IsCallTo(cl, "(*go.uber.org/zap/internal/stacktrace.Stack).Count") {
						if k, known := st.Int(x.Y); known && k == 0 && (x.Op == token.EQL || x.Op == token.NEQ || x.Op == token.GTR || x.Op == token.LEQ) {
							return tf("no-frames", pol == (x.Op == token.EQL || x.Op == token.LEQ))
						}
					}
					if IsNilConst(x.Y) {
						if cl, ok := resolve(st, x.X).(*ssa.Call); ok && cl.Call.IsInvoke() && FNm(cl.Call.Method) == "Check" {
							return tf("accepted", pol == (x.Op == token.NEQ))
						}
					}
				}
				return ""
			},
			Event: func(in ssa.Instruction, st *ConcState) string {
				switch x := in.(type) {
				case *ssa.Call:
					switch {
					case IsCallTo(x, "go.uber.org/zap/internal/stacktrace.Capture"):
						d := "?"
						if k, ok := st.Int(Args(x)[1]); ok {
							d = map[int64]string{0: "First", 1: "Full"}[k]
						}
						return "capture(" + d + ")"
					case IsCallTo(x, "(*go.uber.org/zap/internal/stacktrace.Stack).Next"):
						return "next"
					case IsCallTo(x, "(*go.uber.org/zap/internal/stacktrace.Formatter).FormatFrame"):
						if isFrame(st, Args(x)[1], 0) {
							return "format(first)"
						}
						return "format(?" + st.Desc(Args(x)[1]) + ")"
					case IsCallTo(x, "(*go.uber.org/zap/internal/stacktrace.Formatter).FormatStack"):
						return "format(rest)"
					}
				case *ssa.Store:
					d := st.Desc(x.Addr)
					switch {
					case strings.HasSuffix(d, ".Entry.Caller") || strings.HasSuffix(d, ".Caller"):
						// the caller is built from the frame
						ok := false
						if isStructVal(x.Val) {
							for _, f := range []string{"PC", "File", "Line", "Function"} {
								if _, _, fv := st.FieldOf(x.Val, f); fv != nil && isFrame(st, fv, 0) {
									ok = true
								}
							}
							if cl, isCall := resolve(st, x.Val).(*ssa.Call); isCall && len(cl.Call.Args) > 0 {
								for _, a := range cl.Call.Args {
									if isFrame(st, a, 0) {
										ok = true
									}
								}
							}
						}
						if ok {
							return "caller(first)"
						}
						return "caller(?" + fmt.Sprint(st.FieldsOf(x.Val)) + ")"
					case strings.HasSuffix(d, ".Entry.Stack") || strings.HasSuffix(d, ".Stack"):
						return "stack"
					}
				}
				return ""
			},
		})
		if trunc || len(seqs) == 0 {
			c.Und("R15.4", name, "caller-and-stack", fn.Pos(), "path exploration of Logger.check incomplete (%d sequences, truncated=%v)", len(seqs), trunc)
			return
		}
		for _, sq := range seqs {
			toks := strings.Split(sq, " ; ")
			facts := map[string]bool{}
			var acts []string
			for _, t := range toks {
				if t == "" {
					continue
				}
				if strings.Contains(t, "=") && !strings.Contains(t, "(") {
					facts[t] = true
				} else {
					acts = append(acts, t)
				}
			}
			if len(acts) == 0 && !facts["accepted=T"] && !facts["accepted=F"] {
				continue // the level gate in front of everything
			}
			if facts["accepted=F"] {
				if len(acts) > 0 {
					bad = append(bad, "an entry no core accepted still captures or annotates: "+sq)
				}
				continue
			}
			nPaths++
			wantStack := facts["stack-wanted=T"]
			got := strings.Join(acts, " ; ")
			var want []string
			switch {
			case ac == 0 && !wantStack:
				want = []string{""}
			case facts["no-frames=T"]:
				d := map[bool]string{true: "Full", false: "First"}[wantStack]
				want = []string{"capture(" + d + ")"}
			default:
				d := map[bool]string{true: "Full", false: "First"}[wantStack]
				w := "capture(" + d + ") ; next"
				if ac == 1 {
					w += " ; caller(first)"
				}
				if wantStack {
					w += " ; format(first)"
					if facts["more=T"] {
						w += " ; format(rest)"
					}
					w += " ; stack"
				}
				want = []string{w}
			}
			if got != want[0] {
				bad = append(bad, "addCaller="+itoa(int(ac))+": expected ["+want[0]+"], path does "+sq)
			}
		}
	}
	if len(bad) > 3 {
		bad = append(bad[:3:3], "… "+itoa(len(bad)-3)+" more")
	}
	c.Check(len(bad) == 0 && nPaths >= 6, "R15.4", name, "caller-and-stack", fn.Pos(), "over %d paths of Logger.check (addCaller fixed to off/on, helpers inline): nothing is captured when neither caller nor stack is wanted; otherwise one capture, Full exactly when a stack is wanted; with no frames nothing is attached; else the caller (exactly under addCaller) is built from the first frame and the stack (exactly when wanted) starts with that same frame and continues with the rest iff more frames exist: %v", nPaths, bad)

	// zapslog
	h := c.Method(SlogPath, "Handler", "Handle")
	if c.Anchor("R15.4", "zapslog.Handler.Handle", h != nil) {
		var cs, ss *ssa.Store
		AllInstrs(h, func(i ssa.Instruction) {
			if st, ok := i.(*ssa.Store); ok {
				d := Desc(st.Addr)
				if strings.HasSuffix(d, ".Entry.Caller") {
					cs = st
				}
				if strings.HasSuffix(d, ".Entry.Stack") {
					ss = st
				}
			}
		})
		if cs == nil || ss == nil {
			c.Bad("R15.4", FStr(h), "attach", h.Pos(), "expected stores to ce.Caller and ce.Stack")
		} else {
			// (the test that the core accepted the record at all - a nil test of a *CheckedEntry, however it was obtained -
			// is not part of the threshold)
			var atoms []string
			for _, ga := range Guards(ss) {
				if bo, isBO := ga.Cond.(*ssa.BinOp); isBO && (IsNilConst(bo.X) || IsNilConst(bo.Y)) {
					if strings.HasSuffix(TypeName(bo.X.Type()), "zapcore.CheckedEntry") || strings.HasSuffix(TypeName(bo.Y.Type()), "zapcore.CheckedEntry") {
						continue
					}
				}
				atoms = append(atoms, AtomStrings([]Atom{ga})...)
			}
			sort.Strings(atoms)
			// a handler setting: a field of the handler, or of a settings struct it holds by value
			hset := func(d, f string) bool {
				return strings.HasPrefix(d, "h.") && (d == "h."+f || strings.HasSuffix(d, "."+f)) && !strings.ContainsAny(d, "()[ ")
			}
			thrOK := false
			if len(atoms) == 1 && strings.HasPrefix(atoms[0], "record.Level >= ") {
				thrOK = hset(strings.TrimPrefix(atoms[0], "record.Level >= "), "addStackAt")
			}
			c.Check(thrOK, "R15.4", FStr(h), "stack-iff-threshold", ss.Pos(), "a stack is attached exactly when record.Level >= addStackAt, compared on the slog level itself (guards %v)", atoms)
			// the skip handed to Take is the handler's callerSkip plus a constant (how large the constant has to be is
			// decided by R15.1 on the whole chain, together with what NewHandler presets)
			skipOK := false
			if tk, isCall := Strip(ss.Val).(*ssa.Call); isCall && len(tk.Call.Args) == 1 {
				l := evalLin(tk.Call.Args[0], nil, 0)
				skipOK = l.syms["callerSkip"] == 1 && len(l.syms) == 1
			}
			c.Check(skipOK, "R15.4", FStr(h), "stack-skip-expr", ss.Pos(), "the trace is taken with skip callerSkip + a constant (%s)", Desc(ss.Val))
			ga := AtomStrings(Guards(cs))
			// the frame is resolved from record.PC (directly or in a helper that is handed record.PC)
			fromPC, frames := false, false
			for _, f := range Region(h) {
				AllInstrs(f, func(i ssa.Instruction) {
					switch x := i.(type) {
					case *ssa.Store:
						var d string
						Bound(func() { d = Desc(x.Val) })
						if d == "record.PC" {
							fromPC = true
						}
					case *ssa.Call:
						if IsCallTo(x, "runtime.CallersFrames") {
							frames = true
						}
					}
				})
			}
			addCallerGuard := false
			for _, a := range ga {
				if hset(a, "addCaller") {
					addCallerGuard = true
				}
			}
			// all of the frame is carried over (a caller without its Function is not the caller zap's own loggers report)
			callerFields := map[string]bool{}
			for _, rf := range Region(h) {
				AllInstrs(rf, func(i ssa.Instruction) {
					if st, ok := i.(*ssa.Store); ok {
						if fa, ok := st.Addr.(*ssa.FieldAddr); ok && TypeName(deref(fa.X.Type())) == "zapcore.EntryCaller" {
							callerFields[fieldName(fa.X.Type(), fa.Field)] = true
						}
					}
				})
			}
			c.Check(callerFields["PC"] && callerFields["File"] && callerFields["Line"] && callerFields["Function"] && callerFields["Defined"], "R15.4", FStr(h), "caller-complete", cs.Pos(), "the caller carries Defined, PC, File, Line and Function of the resolved frame (set: %v)", callerFields)
			c.Check(addCallerGuard && fromPC && frames, "R15.4", FStr(h), "caller-from-record-pc", cs.Pos(), "the caller is resolved with runtime.CallersFrames from the PC slog recorded, under addCaller (guards %v)", ga)
		}
	}
}

func c15Whole(c *Ctx) {
	cp := c.Func("go.uber.org/zap/internal/stacktrace", "Capture")
	if !c.Anchor("R15.5", "stacktrace.Capture", cp != nil) {
		return
	}
	var callers []*ssa.Call
	for _, cl := range Calls(cp) {
		if IsCallTo(cl, "runtime.Callers") {
			callers = append(callers, cl.(*ssa.Call))
		}
	}
	skips := map[string]bool{}
	for _, cl := range callers {
		skips[Desc(cl.Call.Args[0])] = true
	}
	c.Check(len(callers) >= 2 && len(skips) == 1, "R15.5", FStr(cp), "same-skip-on-regrow", cp.Pos(), "every runtime.Callers call in Capture (initial and re-capture) uses the same skip expression (%v)", keys(skips))
	// growth loop, by path exploration with depth fixed to Full (up to two re-captures): the loop is left - and the
	// frames handed on - only after a capture that did NOT fill its buffer (a full buffer may have been truncated)
	fullV, okFull := c.ConstVal("go.uber.org/zap/internal/stacktrace", "Full")
	if c.Anchor("R15.5", "stacktrace.Full / Capture(skip, depth)", okFull && len(cp.Params) == 2) {
		resolve := func(st *ConcState, v ssa.Value) ssa.Value {
			for k := 0; k < 12; k++ {
				nx := st.Step(v)
				if nx == nil {
					break
				}
				v = nx
			}
			return v
		}
		isCallers := func(st *ConcState, v ssa.Value) bool {
			cl, ok := resolve(st, v).(*ssa.Call)
			return ok && IsCallTo(cl, "runtime.Callers")
		}
		cut := 0
		seqs, trunc := ConcPaths(cp, ConcCfg{
			MaxIter: 2, Cut: &cut,
			Init: func(st *ConcState) { st.SetInt(cp.Params[1], fullV) },
			Event: func(in ssa.Instruction, st *ConcState) string {
				switch x := in.(type) {
				case *ssa.Call:
					if IsCallTo(x, "runtime.Callers") {
						return "capture"
					}
					if IsCallTo(x, "runtime.CallersFrames") {
						return "use"
					}
				case *ssa.Return:
					return "ret"
				}
				return ""
			},
			Branch: func(cond ssa.Value, taken bool, st *ConcState) string {
				pol := taken
				for k := 0; k < 8; k++ {
					if u, ok := cond.(*ssa.UnOp); ok && u.Op == token.NOT {
						cond, pol = u.X, !pol
						continue
					}
					if nx := st.Step(cond); nx != nil {
						cond = nx
						continue
					}
					break
				}
				bo, ok := cond.(*ssa.BinOp)
				if !ok {
					return ""
				}
				x, y, op := bo.X, bo.Y, bo.Op
				if isCallers(st, y) {
					x, y, op = y, x, swapOp(op)
				}
				if !isCallers(st, x) {
					return ""
				}
				lc, isLen := resolve(st, y).(*ssa.Call)
				if !isLen || CallBuiltin(lc) != "len" {
					return ""
				}
				// frames captured compared with the room there was
				switch op {
				case token.EQL, token.GEQ:
					if pol {
						return "full"
					}
					return "not-full"
				case token.NEQ, token.LSS:
					if pol {
						return "not-full"
					}
					return "full"
				}
				return ""
			},
		})
		var bad []string
		nGrow := 0
		for _, sq := range seqs {
			toks := strings.Split(sq, " ; ")
			last := ""
			captures := 0
			viol := false
			for _, t := range toks {
				switch t {
				case "capture":
					captures++
					last = "capture"
				case "full", "not-full":
					last = t
				case "use":
					if last != "not-full" {
						viol = true
					}
				}
			}
			if captures >= 2 {
				nGrow++
			}
			if viol {
				bad = append(bad, sq)
			}
		}
		c.Check(!trunc && len(seqs) > 0 && nGrow > 0 && len(bad) == 0, "R15.5", FStr(cp), "grows-until-not-full", cp.Pos(), "with depth = Full, on every path (%d explored, up to two re-captures; %d longer ones cut) the frames are handed on only after a capture that came back with room to spare; a full buffer is always re-captured into a bigger one (offending: %v)", len(seqs), cut, bad)
	}
	// pcs cut to the number of frames captured: by path exploration with depth fixed to each of its constants (up to
	// two re-captures), what is handed to runtime.CallersFrames is buf[:n] where n is what a runtime.Callers call
	// returned and buf is the buffer that very call filled
	firstV, okFirst := c.ConstVal("go.uber.org/zap/internal/stacktrace", "First")
	fullV2, okFull2 := c.ConstVal("go.uber.org/zap/internal/stacktrace", "Full")
	if c.Anchor("R15.5", "stacktrace.First/Full / Capture(skip, depth)", okFirst && okFull2 && len(cp.Params) == 2) {
		resolve := func(st *ConcState, v ssa.Value) ssa.Value {
			for k := 0; k < 12; k++ {
				nx := st.Step(v)
				if nx == nil {
					break
				}
				v = nx
			}
			return v
		}
		var bad []string
		nUse := 0
		for _, dv := range []int64{firstV, fullV2} {
			dv := dv
			cut := 0
			seqs, trunc := ConcPaths(cp, ConcCfg{
				MaxIter: 2, Cut: &cut,
				Init: func(st *ConcState) { st.SetInt(cp.Params[1], dv) },
				Event: func(in ssa.Instruction, st *ConcState) string {
					x, ok := in.(*ssa.Call)
					if !ok || !IsCallTo(x, "runtime.CallersFrames") || len(x.Call.Args) != 1 {
						return ""
					}
					sl, isSl := resolve(st, x.Call.Args[0]).(*ssa.Slice)
					if !isSl || sl.High == nil || sl.Low != nil {
						return "use(uncut " + st.Desc(x.Call.Args[0]) + ")"
					}
					cl, isCall := resolve(st, sl.High).(*ssa.Call)
					if !isCall || !IsCallTo(cl, "runtime.Callers") || len(cl.Call.Args) != 2 {
						return "use(cut to " + st.Desc(sl.High) + ")"
					}
					// the same memory from its start: s, s[:k] and s[:k][:m] all begin where s begins
					fromStart := func(v ssa.Value) ssa.Value {
						v = resolve(st, v)
						for k := 0; k < 6; k++ {
							in, isSl := v.(*ssa.Slice)
							if !isSl || in.Low != nil {
								break
							}
							v = resolve(st, in.X)
						}
						return v
					}
					sameMem := func(a, b ssa.Value) bool {
						if a == b {
							return true
						}
						// two loads of one field that nothing was stored into on this path (a store would make the later load
						// resolve to the stored value)
						la, okA := a.(*ssa.UnOp)
						lb, okB := b.(*ssa.UnOp)
						return okA && okB && la.Op == token.MUL && lb.Op == token.MUL && st.Desc(a) == st.Desc(b)
					}
					if resolve(st, sl.X) != resolve(st, cl.Call.Args[1]) && !sameMem(fromStart(sl.X), fromStart(cl.Call.Args[1])) {
						return "use(" + st.Desc(sl.X) + " cut to the count of a capture into " + st.Desc(cl.Call.Args[1]) + ")"
					}
					return "use(cut)"
				},
			})
			if trunc || len(seqs) == 0 {
				bad = append(bad, "depth="+itoa(int(dv))+": exploration incomplete")
			}
			for _, sq := range seqs {
				if sq == "use(cut)" {
					nUse++
				} else {
					bad = append(bad, "depth="+itoa(int(dv))+": "+sq)
				}
			}
		}
		c.Check(nUse >= 2 && len(bad) == 0, "R15.5", FStr(cp), "cut-to-count", cp.Pos(), "with depth First and with depth Full, on every path the frames handed on are the buffer of a runtime.Callers call cut to exactly the count that call returned: %v", uniqSorted(bad))
	}
	fs := c.Method("go.uber.org/zap/internal/stacktrace", "Formatter", "FormatStack")
	if c.Anchor("R15.5", "stacktrace.Formatter.FormatStack", fs != nil) {
		// by path exploration (helpers and the function values handed to them inline, up to three frames): every frame
		// for which Next reported "more" is formatted, the one it reports last is not, and nothing else ends the loop
		cut := 0
		seqs, trunc := ConcPaths(fs, ConcCfg{
			MaxIter: 3, Cut: &cut,
			Event: func(in ssa.Instruction, st *ConcState) string {
				switch x := in.(type) {
				case *ssa.Call:
					if IsCallTo(x, "(*go.uber.org/zap/internal/stacktrace.Formatter).FormatFrame") {
						return "format"
					}
					if IsCallTo(x, "(*go.uber.org/zap/internal/stacktrace.Stack).Next") {
						return "next"
					}
				case *ssa.Return:
					if len(st.cfg.stackDepth()) == 0 {
						return "ret"
					}
				}
				return ""
			},
			Branch: func(cond ssa.Value, taken bool, st *ConcState) string {
				pol := taken
				for k := 0; k < 8; k++ {
					if u, isU := cond.(*ssa.UnOp); isU && u.Op == token.NOT {
						cond, pol = u.X, !pol
						continue
					}
					if nx := st.Step(cond); nx != nil {
						cond = nx
						continue
					}
					break
				}
				if ex, isEx := cond.(*ssa.Extract); isEx && ex.Index == 1 {
					if cl, isCall := ex.Tuple.(*ssa.Call); isCall && IsCallTo(cl, "(*go.uber.org/zap/internal/stacktrace.Stack).Next") {
						if pol {
							return "more"
						}
						return "last"
					}
				}
				return ""
			},
		})
		re := regexp.MustCompile(`^(next ; more ; format ; )*next ; last ; ret$`)
		ok := !trunc && len(seqs) > 0
		nLoop := 0
		for _, sq := range seqs {
			if !re.MatchString(sq) {
				ok = false
			}
			if strings.Contains(sq, "format") {
				nLoop++
			}
		}
		ok = ok && nLoop > 0
		c.Check(ok, "R15.5", FStr(fs), "drops-only-last", fs.Pos(), "every frame is formatted while more frames follow; only the final (runtime) frame is dropped")
	}
}

// c15ConfigAnnotations: Config.buildOptions, evaluated for each combination of Development, DisableCaller and
// DisableStacktrace: AddCaller is installed exactly when callers are not disabled, AddStacktrace exactly when stack
// traces are not disabled - at WarnLevel in development, ErrorLevel otherwise - and Development() exactly in
// development.
func c15ConfigAnnotations(c *Ctx, rule string) {
	fn := c.Method(ZapPath, "Config", "buildOptions")
	if !c.Anchor(rule, "zap.Config.buildOptions", fn != nil) {
		return
	}
	rn := PN(fn.Params[0])
	warn, _ := c.ConstVal(CorePath, "WarnLevel")
	errl, _ := c.ConstVal(CorePath, "ErrorLevel")
	var bad []string
	n := 0
	for dev := int64(0); dev <= 1; dev++ {
		for dc := int64(0); dc <= 1; dc++ {
			for ds := int64(0); ds <= 1; ds++ {
				d0, c0, s0 := dev, dc, ds
				seqs, trunc := ConcPaths(fn, ConcCfg{
					Prune: true,
					// the three switches of the configuration the method is called on (a copy handed to a helper
					// carries them along)
					InitFields: []FieldVal{{Obj: fn.Params[0], Field: "Development", Val: d0}, {Obj: fn.Params[0], Field: "DisableCaller", Val: c0}, {Obj: fn.Params[0], Field: "DisableStacktrace", Val: s0}},
					Conc: func(d string) (int64, bool) {
						switch d {
						case rn + ".Development":
							return d0, true
						case rn + ".DisableCaller":
							return c0, true
						case rn + ".DisableStacktrace":
							return s0, true
						}
						return 0, false
					},
					Inline: func(h *ssa.Function) bool {
						return FNm(h) != "AddCaller" && FNm(h) != "AddStacktrace" && FNm(h) != "Development" && FNm(h) != "Fields" && FNm(h) != "WrapCore" && FNm(h) != "ErrorOutput"
					},
					Event: func(in ssa.Instruction, st *ConcState) string {
						x, ok := in.(*ssa.Call)
						if !ok {
							return ""
						}
						switch {
						case IsCallTo(x, ZapPath+".AddCaller"):
							return "caller"
						case IsCallTo(x, ZapPath+".WithCaller") && len(x.Call.Args) == 1:
							// AddCaller is WithCaller(true); WithCaller(false) on the fresh logger annotates nothing
							if k, known := st.Int(x.Call.Args[0]); known {
								if k != 0 {
									return "caller"
								}
								return ""
							}
							return "caller(?" + st.Desc(x.Call.Args[0]) + ")"
						case IsCallTo(x, ZapPath+".Development"):
							return "development"
						case IsCallTo(x, ZapPath+".AddStacktrace"):
							a := x.Call.Args[0]
							for k := 0; k < 8; k++ {
								if mi, isMI := a.(*ssa.MakeInterface); isMI {
									a = mi.X
									continue
								}
								if nx := st.Step(a); nx != nil {
									a = nx
									continue
								}
								break
							}
							if k, known := st.Int(a); known {
								return "stack(" + itoa(int(k)) + ")"
							}
							return "stack(?" + st.Desc(x.Call.Args[0]) + ")"
						}
						return ""
					},
				})
				tag := "Development=" + itoa(int(d0)) + " DisableCaller=" + itoa(int(c0)) + " DisableStacktrace=" + itoa(int(s0)) + ": "
				if trunc || len(seqs) == 0 {
					c.Und(rule, FStr(fn), "annotations-as-configured", fn.Pos(), "path exploration incomplete (%s)", tag)
					return
				}
				want := map[string]bool{}
				if c0 == 0 {
					want["caller"] = true
				}
				if d0 == 1 {
					want["development"] = true
				}
				if s0 == 0 {
					lv := errl
					if d0 == 1 {
						lv = warn
					}
					want["stack("+itoa(int(lv))+")"] = true
				}
				for _, sq := range seqs {
					n++
					got := map[string]bool{}
					for _, t := range strings.Split(sq, " ; ") {
						if t != "" {
							got[t] = true
						}
					}
					ok := len(got) == len(want)
					for w := range want {
						ok = ok && got[w]
					}
					if !ok {
						bad = append(bad, tag+sq)
					}
				}
			}
		}
	}
	c.Check(len(bad) == 0 && n >= 8, rule, FStr(fn), "annotations-as-configured", fn.Pos(), "for each of the 8 combinations of Development / DisableCaller / DisableStacktrace: AddCaller iff callers are not disabled, AddStacktrace iff stack traces are not disabled (WarnLevel in development, ErrorLevel otherwise), Development() iff development: %v", bad)
}
