package zv

import (
	"go/token"
	"go/types"
	"strings"

	"golang.org/x/tools/go/ssa"
)

func init() {
	Props["C04"] = Prop{
		Title: "Concurrent logging delivers every entry exactly once as an intact line",
		Fn:    checkC04,
		Explanation: "Interleavings are not enumerated. Decided are the mechanisms that make the claim true on every schedule: ioCore.Write hands the sink the complete encoded line in exactly one Write call and frees the buffer only afterwards, once; the locked and buffered syncers hold their mutex across every inner call and release it at every exit; Open/CombineWriteSyncers/New wrap what they return in Lock; EncodeEntry/Clone work on a per-call private clone and never write through the shared encoder, and each encoder exclusively owns its pooled buffers; tees and multi-syncers visit every branch with no early exit; the buffered syncer buffers whole writes (exact flush-first condition); nothing on the logging path starts a goroutine or sends on a channel, so each goroutine's entries are written in program order. " +
			"NOT decided: the schedules themselves, atomicity of the underlying sink, OS behaviour.",
		Assumptions: commonAssumptions,
	}
}

func checkC04(c *Ctx) {
	c.Rule("R4.1", "ioCore.Write: one whole-line write, buffer freed once, after the write", 1)
	c.Rule("R4.3", "locked and buffered syncers hold their mutex across inner calls", 6)
	c.Rule("R4.4", "sinks handed out by Open/CombineWriteSyncers/New are wrapped in Lock", 3)
	c.Rule("R4.5", "per-call private encoder state; exclusive ownership of pooled buffers", 6)
	c.Rule("R4.6", "tees and multi-syncers visit every branch, no early exit", 3)
	c.Rule("R4.7", "no goroutine start or channel send on the logging path", 2)
	c.Rule("R4.9", "file sinks are opened in append mode (several descriptors on one file add whole lines at its end)", 4)
	c.Rule("R4.8", "BufferedWriteSyncer buffers whole writes", 3)

	c19FileOpen(c, "R4.9")
	c.Rule("R4.10", "combined syncers keep every sink they are given, in order; nothing points into a pooled object after its release", 2)
	cKeepsAll(c, "R4.10", c.Func(CorePath, "NewMultiWriteSyncer"), "zapcore.NewMultiWriteSyncer", "ret(cores[0:0])")
	c8UseAfterRelease(c, "R4.10", c8ReleaseFns(c))
	c.Rule("R4.12", "zapcore.Lock leaves only its own *lockedWriteSyncer unwrapped: anything else - also a sink that merely has Lock/Unlock methods of its own - gets the mutex that serialises whole-line writes", 2)
	c.As(map[string]string{"R13.3": "R4.12"}, func() {
		c13WrapOrKeep(c, c.Func(CorePath, "Lock"), c.Named(CorePath, "lockedWriteSyncer"), "ws", "*go.uber.org/zap/zapcore.lockedWriteSyncer",
			"no-double-wrap", "wraps-argument", "an already locked syncer is returned as it is; anything else is wrapped in a fresh *lockedWriteSyncer whose ws is the argument")
	})
	c.Rule("R4.13", "nothing built from a shared core's or handler's slice shares its backing-array tail (two goroutines logging through one child would write the same element: entries overwrite each other)", 1)
	c7AppendsAll(c, "R4.13")
	c.Rule("R4.11", "derived slog handlers never share a slice tail with their parent (a sibling derived later would overwrite the group names of entries being logged)", 0)
	for _, m := range []string{"WithAttrs", "WithGroup"} {
		if fn := c.Method(SlogPath, "Handler", m); c.Anchor("R4.11", "zapslog.Handler."+m, fn != nil) {
			c7Appends(c, "R4.11", fn)
		}
	}

	// R4.1 (shares the decision procedure of R8.4)
	{
		w := c.Method(CorePath, "ioCore", "Write")
		if c.Anchor("R4.1", "zapcore.ioCore.Write", w != nil) {
			ok, others := ioCoreWriteShape(c, w)
			c.Check(ok, "R4.1", FStr(w), "one-whole-line-write", w.Pos(), "each accepted entry causes exactly one c.out.Write of the complete encoded line (buf.Bytes() of EncodeEntry's buffer), and the buffer goes back to the pool once, only after that call returned")
			c.Check(len(others) == 0, "R4.1", FStr(w), "only-writer", w.Pos(), "no other ioCore method writes to the sink (%v)", others)
		}
	}
	// R4.3
	lockedSyncerMethods(c, "R4.3")
	for _, m := range []string{"Write", "Sync"} {
		fb := c.Method(CorePath, "BufferedWriteSyncer", m)
		if c.Anchor("R4.3", "zapcore.BufferedWriteSyncer."+m, fb != nil) {
			LockedAcross(c, "R4.3", fb, func(cl ssa.CallInstruction) bool {
				return IsCallTo(cl, "(*bufio.Writer).Write", "(*bufio.Writer).Flush", "(go.uber.org/zap/zapcore.WriteSyncer).Sync")
			}, ".mu")
		}
	}
	// R4.4
	c4LocksCombined(c, "R4.4")
	c4OpenReturnsCombined(c, "R4.4")
	nw := c.Func(ZapPath, "New")
	if c.Anchor("R4.4", "zap.New", nw != nil) {
		// by path exploration (constructor helpers inline): what the new Logger's errorOutput holds when it is handed on
		ok := false
		seen := 0
		ConcPaths(nw, ConcCfg{
			Event: func(in ssa.Instruction, st *ConcState) string {
				var obj ssa.Value
				switch x := in.(type) {
				case *ssa.Call:
					if IsCallTo(x, "(*go.uber.org/zap.Logger).WithOptions") {
						obj = Args(x)[0]
					}
				case *ssa.Return:
					if len(x.Results) == 1 {
						obj = x.Results[0]
					}
				}
				if obj == nil {
					return ""
				}
				_, _, v := st.FieldOf(obj, "errorOutput")
				for k := 0; k < 12 && v != nil; k++ {
					if cl, isCall := v.(*ssa.Call); isCall {
						seen++
						if IsCallTo(cl, CorePath+".Lock") {
							ok = true
						} else {
							ok = false
						}
						return "errorOutput"
					}
					v = st.Step(v)
				}
				return ""
			},
		})
		ok = ok && seen > 0
		c.Check(ok, "R4.4", FStr(nw), "locks-stderr", nw.Pos(), "the default error output is zapcore.Lock(os.Stderr)")
	}
	lk := c.Func(CorePath, "Lock")
	if c.Anchor("R4.4", "zapcore.Lock", lk != nil) {
		// decided by path exploration in R13.3 (c13WrapOrKeep); here: some *lockedWriteSyncer is built in Lock or a helper of it
		ok := false
		for _, f := range Region(lk) {
			AllInstrs(f, func(i ssa.Instruction) {
				if a, isA := i.(*ssa.Alloc); isA && TypeName(deref(a.Type())) == "zapcore.lockedWriteSyncer" {
					ok = true
				}
			})
		}
		c.Check(ok, "R4.4", FStr(lk), "wraps", lk.Pos(), "Lock returns a *lockedWriteSyncer around its argument")
	}
	// R4.5
	c9EncoderPurity(c, "R4.5")
	c8Ownership4(c, "R4.5")
	// R4.6
	for _, t := range []struct{ typ, m, inner string }{
		{"multiCore", "Check", "(go.uber.org/zap/zapcore.Core).Check"},
		{"multiCore", "Write", "(go.uber.org/zap/zapcore.Core).Write"},
		{"multiCore", "Sync", "(go.uber.org/zap/zapcore.Core).Sync"},
		{"multiWriteSyncer", "Write", "(io.Writer).Write"},
		{"multiWriteSyncer", "Sync", "(go.uber.org/zap/zapcore.WriteSyncer).Sync"},
	} {
		fn := c.Method(CorePath, t.typ, t.m)
		if !c.Anchor("R4.6", "zapcore."+t.typ+"."+t.m, fn != nil) {
			continue
		}
		tt := t
		ok, why, inner, _ := VisitsAll(fn, func(cl ssa.CallInstruction) bool {
			return IsCallTo(cl, tt.inner, "(go.uber.org/zap/zapcore.WriteSyncer).Write") && cl.Common().IsInvoke() && FNm(cl.Common().Method) == tt.m
		}, fn.Params[0])
		pos := fn.Pos()
		if inner != nil {
			pos = inner.Pos()
		}
		c.Check(ok, "R4.6", FStr(fn), "visits-all", pos, "%s reaches every branch of %s (loop over the whole collection, no early exit) %s", t.m, PN(fn.Params[0]), why)
	}
	// R4.7
	{
		var sites []string
		nScanned := 0
		// the one allowed go statement: BufferedWriteSyncer's initialiser (the method that creates its bufio writer)
		// starting the flush loop
		allowed := "(*go.uber.org/zap/zapcore.BufferedWriteSyncer).initialize"
		if bws := c.Named(CorePath, "BufferedWriteSyncer"); bws != nil {
			if roles, ok := discoverBWS(c, bws); ok {
				allowed = FStr(roles.initFn)
			}
		}
		sawAllowed := false
		c.EachRootFunc(func(fn *ssa.Function) {
			if fn.Pkg != nil && (strings.Contains(fn.Pkg.Pkg.Path(), "/internal/ztest") || strings.HasSuffix(fn.Pkg.Pkg.Path(), "/zaptest")) {
				return
			}
			nScanned++
			AllInstrs(fn, func(i ssa.Instruction) {
				switch i.(type) {
				case *ssa.Go:
					if FStr(fn) == allowed {
						sawAllowed = true
						return
					}
					sites = append(sites, "go in "+FuncKey(fn))
				case *ssa.Send:
					sites = append(sites, "send in "+FuncKey(fn))
				}
			})
		})
		c.Check(len(sites) == 0 && nScanned > 300, "R4.7", "logging path", "synchronous", token.NoPos, "%d functions scanned: no go statement or channel send anywhere in zap's non-test library code except the flush loop start (%v); a log call therefore completes its sink write before it returns", nScanned, sites)
		c.Check(sawAllowed, "R4.7", "BufferedWriteSyncer initialiser", "canary-go-statement", token.NoPos, "the scanner does see the one known go statement (BufferedWriteSyncer.initialize)")
	}
	c.Rule("R4.16", "CheckedEntry.Write hands the entry to every core that accepted it in Check - each one, in every round of its loop, whatever the core would answer now (a tee branch whose level was raised in between still gets the entry it accepted)", 3)
	c.As(map[string]string{"R6.3": "R4.16"}, func() { c6Write(c) })
	c.Rule("R4.15", "an observer branch hands out a copy of its entries, or its array after giving it up: entries a tee delivers later never overwrite the ones already taken", 2)
	c8ObserverHandsOutOwnStorage(c, "R4.15")
	c.Rule("R4.17", "the lazily derived core is built exactly once whatever the number of goroutines that use it first (sync.Once): a second first user never sees a core that is not there yet and loses its entry", 3)
	c.As(map[string]string{"R7.6": "R4.17"}, func() { c7Lazy(c) })
	c.Rule("R4.18", "Check discipline of every Core: a core that declines hands back the checked entry it was given - returning nil would discard what the other branches of a tee had registered", 8)
	c.Rule("R4.19", "pooled buffers are released at most once: a buffer freed twice is handed to two concurrent log calls, whose lines then reach the sink torn or merged", 3)
	c.As(map[string]string{"R8.4": "R4.19"}, func() { c8SingleRelease(c) })
	c.As(map[string]string{"R5.1": "R4.18"}, func() { c5CheckDiscipline(c) })
	// R4.8, R4.14
	c.Rule("R4.14", "every access to the buffered syncer's state - its bufio writer included - holds its mutex (a flush that runs beside a Write makes bufio drop or tear the line being buffered)", 10)
	c12Rules(c, "R4.14", "R4.8", "", "", "")
}

// c8Ownership4 is c8Ownership under another rule id.
func c8Ownership4(c *Ctx, rule string) {
	named := c.Named(CorePath, "jsonEncoder")
	if !c.Anchor(rule, CorePath+".jsonEncoder", named != nil) {
		return
	}
	for _, a := range c.FieldAccesses(named, map[string]bool{"buf": true, "reflectBuf": true}) {
		if !a.Write || a.Esc {
			continue
		}
		st, ok := a.Instr.(*ssa.Store)
		if !ok {
			continue
		}
		okV := IsNilConst(Strip(st.Val)) || isFreshBuffer(st.Val)
		c.Check(okV, rule, FuncKey(a.Fn), "buffer-field/"+a.Field+"@"+relLine(c, a), st.Pos(), "jsonEncoder.%s is assigned %s: nil or a buffer fresh from the pool (two encoders sharing one pooled buffer corrupt each other's lines)", a.Field, Desc(st.Val))
	}
}

// ioCoreWriteShape: EncodeEntry, then exactly one sink Write of the whole
// encoded buffer, then exactly one Free, on every path that got a buffer
// (the sequence may live in an extracted helper).
func ioCoreWriteShape(c *Ctx, w *ssa.Function) (bool, []string) {
	var enc, free *ssa.Call
	var outs []*ssa.Call
	nfree := 0
	for _, cl := range CallsDeep(w) {
		call, _ := cl.(*ssa.Call)
		switch {
		case IsCallTo(cl, "(go.uber.org/zap/zapcore.Encoder).EncodeEntry"):
			enc = call
		case IsCallTo(cl, "(io.Writer).Write", "(go.uber.org/zap/zapcore.WriteSyncer).Write"):
			outs = append(outs, call)
		case IsCallTo(cl, "(*go.uber.org/zap/buffer.Buffer).Free"):
			free = call
			nfree++
		}
	}
	rc := PN(w.Params[0])
	ok := enc != nil && len(outs) == 1 && free != nil && nfree == 1
	if ok {
		bufD := Desc(enc) + "#0"
		var fd, od, dst string
		Bound(func() {
			fd, od, dst = Desc(Args(free)[0]), Desc(Args(outs[0])[1]), Desc(Args(outs[0])[0])
		})
		ok = fd == bufD && od == "Bytes("+bufD+")" && Dominates(outs[0], free) && dst == rc+".out"
		start := successStart(w, enc)
		ok = ok && !ExistsPath(w, start, IsReturn, func(i ssa.Instruction) bool { return i == ssa.Instruction(outs[0]) })
		ok = ok && !ExistsPath(w, start, IsReturn, func(i ssa.Instruction) bool { return i == ssa.Instruction(free) })
		ok = ok && LoopHeader(outs[0].Block()) == nil && !ExistsPath(w, free, func(i ssa.Instruction) bool { return i == ssa.Instruction(free) || i == ssa.Instruction(outs[0]) }, nil)
	}
	region := map[*ssa.Function]bool{}
	for _, f := range Region(w) {
		region[f] = true
	}
	var others []string
	for _, fn := range c.RootFuncs() {
		if rn := RecvNamed(fn); rn != nil && FNm(rn.Obj()) == "ioCore" && !region[fn] {
			for _, cl := range Calls(fn) {
				if IsCallTo(cl, "(io.Writer).Write", "(go.uber.org/zap/zapcore.WriteSyncer).Write") {
					others = append(others, FNm(fn))
				}
			}
		}
	}
	return ok, others
}

// c4LocksCombined: with one or more writers, every path of zap.CombineWriteSyncers returns zapcore.Lock(...) around
// zapcore.NewMultiWriteSyncer of ALL the writers it was given: one mutex around the whole group, so that a line reaches
// every destination before the next line reaches any (per-destination locks would let two goroutines' lines arrive
// in different orders at different destinations, and leave a shared multi-writer unprotected).
func c4LocksCombined(c *Ctx, rule string) {
	cw := c.Func(ZapPath, "CombineWriteSyncers")
	lock := c.Func(CorePath, "Lock")
	multi := c.Func(CorePath, "NewMultiWriteSyncer")
	if !c.Anchor(rule, "zap.CombineWriteSyncers / zapcore.Lock / zapcore.NewMultiWriteSyncer", cw != nil && lock != nil && multi != nil && len(cw.Params) == 1) {
		return
	}
	writers := cw.Params[0]
	resolve := func(st *ConcState, v ssa.Value) ssa.Value {
		for k := 0; k < 12; k++ {
			switch x := v.(type) {
			case *ssa.MakeInterface:
				v = x.X
				continue
			case *ssa.ChangeInterface:
				v = x.X
				continue
			}
			nx := st.Step(v)
			if nx == nil {
				break
			}
			v = nx
		}
		return v
	}
	for _, n := range []int64{1, 2, 3} {
		nn := n
		seqs, trunc := ConcPaths(cw, ConcCfg{
			SliceLen: func(p *ssa.Parameter) (int64, bool) { return nn, p == writers },
			Inline:   func(h *ssa.Function) bool { return h != lock && h != multi },
			Event: func(in ssa.Instruction, st *ConcState) string {
				r, ok := in.(*ssa.Return)
				if !ok || len(r.Results) != 1 || len(st.cfg.stackDepth()) != 0 {
					return ""
				}
				v := resolve(st, r.Results[0])
				if cl, isCall := v.(*ssa.Call); isCall && cl.Call.StaticCallee() == lock && len(cl.Call.Args) == 1 {
					in := resolve(st, cl.Call.Args[0])
					if c2, isC2 := in.(*ssa.Call); isC2 && c2.Call.StaticCallee() == multi && len(c2.Call.Args) == 1 && resolve(st, c2.Call.Args[0]) == ssa.Value(writers) {
						return "ret-lock(multi(writers))"
					}
					return "ret-lock(" + st.Desc(cl.Call.Args[0]) + ")"
				}
				return "ret-other(" + st.Desc(r.Results[0]) + ")"
			},
		})
		var bad []string
		for _, sq := range seqs {
			if sq != "ret-lock(multi(writers))" {
				bad = append(bad, sq)
			}
		}
		c.Check(!trunc && len(seqs) > 0 && len(bad) == 0, rule, FStr(cw), "locks-combined/"+itoa(int(n)), cw.Pos(), "with %d writer(s) every path returns zapcore.Lock(zapcore.NewMultiWriteSyncer(writers...)): one mutex around the whole group (offending: %v)", n, bad)
	}
}

// c4OpenReturnsCombined: by path exploration of zap.Open (its helpers inline, up to two destinations): on every path
// without an error, what is returned is zap.CombineWriteSyncers of a list that holds exactly the sinks opened on that
// path (so the lock CombineWriteSyncers adds covers them all).
func c4OpenReturnsCombined(c *Ctx, rule string) {
	op := c.Func(ZapPath, "Open")
	comb := c.Func(ZapPath, "CombineWriteSyncers")
	if !c.Anchor(rule, "zap.Open / zap.CombineWriteSyncers", op != nil && comb != nil) {
		return
	}
	resolve := func(st *ConcState, v ssa.Value) ssa.Value {
		for k := 0; k < 16; k++ {
			if ct, ok := v.(*ssa.ChangeType); ok {
				v = ct.X
				continue
			}
			nx := st.Step(v)
			if nx == nil {
				break
			}
			v = nx
		}
		return v
	}
	isSyncerList := func(t types.Type) bool {
		sl, ok := types.Unalias(t).Underlying().(*types.Slice)
		return ok && strings.HasSuffix(TStr(sl.Elem()), "zapcore.WriteSyncer")
	}
	cut := 0
	seqs, trunc := ConcPaths(op, ConcCfg{
		MaxIter: 2, Cut: &cut,
		Inline: func(h *ssa.Function) bool {
			return h != comb && FStr(h) != "(*go.uber.org/zap.sinkRegistry).newSink" && !(h.Parent() != nil && len(h.Params) == 0 && h.Signature.Results().Len() == 0)
		},
		Fork: func(in ssa.Instruction, st *ConcState) []ConcAlt {
			x, ok := in.(*ssa.Extract)
			if !ok || x.Index != 1 {
				return nil
			}
			if cl, isC := x.Tuple.(*ssa.Call); isC && isNewSink(cl) {
				return []ConcAlt{{Ev: "opened", Nils: map[ssa.Value]bool{x: true}}, {Ev: "failed", Nils: map[ssa.Value]bool{x: false}}}
			}
			return nil
		},
		Event: func(in ssa.Instruction, st *ConcState) string {
			if cl, isCall := in.(*ssa.Call); isCall && CallBuiltin(cl) == "append" && isSyncerList(cl.Type()) {
				return "listed"
			}
			r, ok := in.(*ssa.Return)
			if !ok || len(r.Results) != 3 || len(st.cfg.stackDepth()) != 0 {
				return ""
			}
			if n, known := st.IsNil(r.Results[2]); !known || !n {
				return "ret-err"
			}
			cl, isC := resolve(st, r.Results[0]).(*ssa.Call)
			if !isC || cl.Call.StaticCallee() != comb || len(cl.Call.Args) != 1 {
				return "ret-ok(" + st.Desc(r.Results[0]) + ")"
			}
			// the list handed over: the variable the opened sinks were appended to (its latest value), or a fresh
			// empty list when nothing was appended
			switch y := resolve(st, cl.Call.Args[0]).(type) {
			case *ssa.Call:
				if CallBuiltin(y) == "append" && isSyncerList(y.Type()) {
					return "ret-combined:appended"
				}
			case *ssa.MakeSlice:
				if k, isC := ConstInt(y.Len); isC && k == 0 {
					return "ret-combined:fresh"
				}
				return "ret-combined:?" // sized at run time and filled element by element: not decided here
			case *ssa.Const:
				if y.Value == nil {
					return "ret-combined:fresh"
				}
			}
			return "ret-combined:?"
		},
	})
	var bad []string
	nOK, nUnknown := 0, 0
	for _, sq := range seqs {
		toks := strings.Split(sq, " ; ")
		last := toks[len(toks)-1]
		opened, listed, pend := 0, 0, false
		orderOK := true
		for _, t := range toks {
			switch t {
			case "opened":
				if pend {
					orderOK = false // the previous sink was never listed
				}
				opened++
				pend = true
			case "listed":
				listed++
				pend = false
			}
		}
		switch {
		case last == "ret-err":
		case orderOK && !pend && opened == listed && (opened > 0 && last == "ret-combined:appended" || opened == 0 && (last == "ret-combined:fresh" || last == "ret-combined:appended")):
			nOK++
		case last == "ret-combined:?":
			nUnknown++ // the list is built in a way this rule does not follow: no verdict on this path
		default:
			bad = append(bad, sq)
		}
	}
	c.Check(!trunc && nOK+nUnknown > 0 && len(bad) == 0, rule, FStr(op), "returns-combined", op.Pos(), "on every path without an error (%d paths, up to two destinations; %d longer ones cut) Open returns CombineWriteSyncers of exactly the sinks it opened (%d paths decided, %d build the list in a way that is not followed; offending: %v)", len(seqs), cut, nOK, nUnknown, bad)
}
