package zv

import (
	"fmt"
	"go/token"
	"go/types"
	"strconv"
	"strings"

	"golang.org/x/tools/go/ssa"
)

// c14Sweep decides R14.1/R14.2 for SugaredLogger.sweetenFields by path exploration against a reference model.
//
// Every path of up to three sweeps of the loop is walked with the index concrete and the argument count L symbolic;
// the path's events (reads of args[k], type tests of args[k], comparisons with L, appends, error entries, return) are
// replayed against the documented behaviour:
//
//	at position p:  a zap.Field is appended as is                                    (p += 1)
//	                an error: the first becomes zap.Error, later ones are reported   (p += 1)
//	                the last argument: reported as dangling key, sweep ends
//	                otherwise a pair: string key → zap.Any(key, value), else recorded as invalid pair (p += 2)
//	after the sweep: recorded invalid pairs are reported; the accumulated fields are returned
//
// Any way of keeping the index, of ordering the type tests or of splitting the function satisfies it; consuming an
// argument twice, skipping one, reading beyond the arguments, or letting one vanish does not.
func c14Sweep(c *Ctx) {
	fn := c.Method(ZapPath, "SugaredLogger", "sweetenFields")
	if !c.Anchor("R14.1", "zap.SugaredLogger.sweetenFields", fn != nil && len(fn.Params) == 2) {
		return
	}
	name := FStr(fn)
	args := fn.Params[1]
	resolve := func(st *ConcState, v ssa.Value) ssa.Value {
		v = stripConv(v)
		for k := 0; k < 16; k++ {
			nx := st.Step(v)
			if nx == nil {
				break
			}
			v = stripConv(nx)
		}
		return v
	}
	// argIndex: v is (a load of) args[k] with k evident on the path
	argIndex := func(st *ConcState, v ssa.Value) (int64, bool) {
		v = resolve(st, v)
		if mi, ok := v.(*ssa.MakeInterface); ok {
			v = resolve(st, mi.X)
		}
		u, ok := v.(*ssa.UnOp)
		if !ok || u.Op != token.MUL {
			return 0, false
		}
		ia, ok := u.X.(*ssa.IndexAddr)
		if !ok || resolve(st, ia.X) != ssa.Value(args) {
			return 0, false
		}
		return st.Int(ia.Index)
	}
	// assertOf: v is the value (#0) of a comma-ok type assertion of args[k]
	assertOf := func(st *ConcState, v ssa.Value) (typ string, k int64, ok bool) {
		v = resolve(st, v)
		if mi, isMI := v.(*ssa.MakeInterface); isMI {
			v = resolve(st, mi.X)
		}
		var ta *ssa.TypeAssert
		switch x := v.(type) {
		case *ssa.Extract:
			if x.Index != 0 {
				return "", 0, false
			}
			ta, _ = x.Tuple.(*ssa.TypeAssert)
		case *ssa.TypeAssert:
			ta = x
		}
		if ta == nil {
			return "", 0, false
		}
		k, ok = argIndex(st, ta.X)
		return typeTag(ta.AssertedType), k, ok
	}
	ki := func(k int64) string { return strconv.FormatInt(k, 10) }
	// lin: v = a + b·L with L = len(args) (defined below)
	var lin func(st *ConcState, v ssa.Value, d int) (a, b int64, ok bool)
	// argFromEnd: v is (a load of) args[len(args)+a] with a < 0
	argFromEnd := func(st *ConcState, v ssa.Value) (int64, bool) {
		v = resolve(st, v)
		if mi, ok := v.(*ssa.MakeInterface); ok {
			v = resolve(st, mi.X)
		}
		u, ok := v.(*ssa.UnOp)
		if !ok || u.Op != token.MUL {
			return 0, false
		}
		ia, ok := u.X.(*ssa.IndexAddr)
		if !ok || resolve(st, ia.X) != ssa.Value(args) {
			return 0, false
		}
		if a, b, ok := lin(st, ia.Index, 0); ok && b == 1 && a < 0 {
			return a, true
		}
		return 0, false
	}
	classifyField := func(st *ConcState, e ssa.Value) string {
		if t, k, ok := assertOf(st, e); ok && t == "Field" {
			return "F(" + ki(k) + ")"
		}
		r := resolve(st, e)
		if cl, ok := r.(*ssa.Call); ok {
			switch {
			case IsCallTo(cl, "go.uber.org/zap.Error") && len(cl.Call.Args) == 1:
				// an error that was set aside in a list during the sweep: described when it was put there
				if tg := st.TagOf(cl.Call.Args[0]); strings.HasPrefix(tg, "E(") {
					return tg
				}
				if t, k, ok := assertOf(st, cl.Call.Args[0]); ok && t == "error" {
					return "E(" + ki(k) + ")"
				}
			case IsCallTo(cl, "go.uber.org/zap.Any") && len(cl.Call.Args) == 2:
				t, k, ok := assertOf(st, cl.Call.Args[0])
				k2, ok2 := argIndex(st, cl.Call.Args[1])
				if ok && ok2 && t == "string" {
					return "A(" + ki(k) + "," + ki(k2) + ")"
				}
				if s, isC := ConstString(resolve(st, cl.Call.Args[0])); isC && ok2 {
					return "Any(" + strconv.Quote(s) + "," + ki(k2) + ")"
				}
				if s, isC := ConstString(resolve(st, cl.Call.Args[0])); isC {
					if a, okE := argFromEnd(st, cl.Call.Args[1]); okE {
						return "Any(" + strconv.Quote(s) + ",L" + ki(a) + ")"
					}
				}
			case IsCallTo(cl, "go.uber.org/zap.Array") && len(cl.Call.Args) == 2:
				if s, isC := ConstString(resolve(st, cl.Call.Args[0])); isC {
					return "Array(" + strconv.Quote(s) + ")"
				}
			}
		}
		return "other(" + st.Desc(e) + ")"
	}
	lin = func(st *ConcState, v ssa.Value, d int) (int64, int64, bool) {
		if k, known := st.Int(v); known {
			return k, 0, true
		}
		if d > 6 {
			return 0, 0, false
		}
		r := resolve(st, v)
		if k, known := st.Int(r); known {
			return k, 0, true
		}
		switch x := r.(type) {
		case *ssa.Call:
			if CallBuiltin(x) == "len" && len(x.Call.Args) == 1 && resolve(st, x.Call.Args[0]) == ssa.Value(args) {
				return 0, 1, true
			}
		case *ssa.BinOp:
			a1, b1, ok1 := lin(st, x.X, d+1)
			a2, b2, ok2 := lin(st, x.Y, d+1)
			if ok1 && ok2 {
				switch x.Op {
				case token.ADD:
					return a1 + a2, b1 + b2, true
				case token.SUB:
					return a1 - a2, b1 - b2, true
				}
			}
		}
		return 0, 0, false
	}
	isInvalidSlice := func(t types.Type) bool {
		sl, ok := types.Unalias(t).Underlying().(*types.Slice)
		return ok && strings.HasSuffix(TStr(sl.Elem()), "zap.invalidPair")
	}
	isFieldSlice := func(t types.Type) bool {
		sl, ok := types.Unalias(t).Underlying().(*types.Slice)
		return ok && typeTag(sl.Elem()) == "Field"
	}
	isErrSlice := func(t types.Type) bool {
		sl, ok := types.Unalias(t).Underlying().(*types.Slice)
		return ok && TStr(sl.Elem()) == "error"
	}
	cut := 0
	seqs, trunc := ConcPaths(fn, ConcCfg{
		MaxIter: depth(3, 4), Cut: &cut, MaxStates: 2000000,
		// a bare error set aside for later: which argument it is, said while the loop variable still points at it
		ElemTag: func(st *ConcState, v ssa.Value) string {
			if TStr(v.Type()) != "error" {
				return ""
			}
			if t, k, ok := assertOf(st, v); ok && t == "error" {
				return "E(" + ki(k) + ")"
			}
			return ""
		},
		Inline: func(h *ssa.Function) bool {
			// the logger's own Error method is an effect, not part of the sweep
			return h.Pkg != nil && h.Pkg.Pkg.Path() == ZapPath && !strings.HasPrefix(FStr(h), "(*go.uber.org/zap.Logger).") &&
				FNm(h) != "Any" && FNm(h) != "Error" && FNm(h) != "Array"
		},
		Event: func(in ssa.Instruction, st *ConcState) string {
			switch x := in.(type) {
			case *ssa.UnOp:
				if x.Op == token.MUL {
					if ia, ok := x.X.(*ssa.IndexAddr); ok && resolve(st, ia.X) == ssa.Value(args) {
						if k, known := st.Int(ia.Index); known {
							return "rd(" + ki(k) + ")"
						}
						// the last argument, by its distance from the end: args[len(args)-1]
						if a, b, ok := lin(st, ia.Index, 0); ok && b == 1 && a < 0 {
							return "rd(L" + ki(a) + ")"
						}
						return "rd(?" + st.Desc(ia.Index) + ")"
					}
				}
			case *ssa.TypeAssert:
				if !x.CommaOk {
					if k, ok := argIndex(st, x.X); ok {
						return "must-be-" + typeTag(x.AssertedType) + "(" + ki(k) + ")"
					}
				}
			case *ssa.Call:
				if CallBuiltin(x) == "append" {
					_, elems := appendParts(x)
					switch {
					case isFieldSlice(x.Type()):
						var out []string
						for _, e := range elems {
							out = append(out, classifyField(st, e))
						}
						if len(elems) == 0 {
							return "fields+(?" + st.Desc(x.Call.Args[1]) + ")"
						}
						return "fields+" + strings.Join(out, "+")
					case isErrSlice(x.Type()):
						var out []string
						for _, e := range elems {
							if t, k, ok := assertOf(st, e); ok && t == "error" {
								out = append(out, "E("+ki(k)+")")
							} else {
								out = append(out, "other("+st.Desc(e)+")")
							}
						}
						if len(elems) == 0 {
							return ""
						}
						return "errs+" + strings.Join(out, "+")
					case isInvalidSlice(x.Type()):
						var out []string
						for _, e := range elems {
							pos, isInt, _ := st.FieldOf(e, "position")
							_, _, kv := st.FieldOf(e, "key")
							_, _, vv := st.FieldOf(e, "value")
							ps, ks, vs := "?", "?", "?"
							if isInt {
								ps = ki(pos)
							}
							if kv != nil {
								if k, ok := argIndex(st, kv); ok {
									ks = ki(k)
								}
							}
							if vv != nil {
								if k, ok := argIndex(st, vv); ok {
									vs = ki(k)
								}
							}
							out = append(out, "I("+ps+","+ks+","+vs+")")
						}
						if len(elems) == 0 {
							return "invalid+(?)"
						}
						return "invalid+" + strings.Join(out, "+")
					}
					return ""
				}
				if IsCallTo(x, "(*go.uber.org/zap.Logger).Error", "(*go.uber.org/zap.Logger).DPanic", "(*go.uber.org/zap.Logger).Warn", "(*go.uber.org/zap.Logger).Info", "(*go.uber.org/zap.Logger).Debug") {
					a := Args(x)
					lvl := FNm(CalleeFunc(x))
					msg := "?"
					if s, ok := ConstString(resolve(st, a[1])); ok {
						msg = s
					}
					var out []string
					if len(a) > 2 {
						for _, e := range varargElems(a[2]) {
							out = append(out, classifyField(st, e))
						}
					}
					return "log:" + lvl + ":" + strconv.Quote(msg) + ":" + strings.Join(out, "+")
				}
			case *ssa.Return:
				if len(x.Results) != 1 {
					return "ret(?)"
				}
				if n, known := st.IsNil(x.Results[0]); known && n {
					return "ret(nil)"
				}
				r := resolve(st, x.Results[0])
				if cl, ok := r.(*ssa.Call); ok && CallBuiltin(cl) == "append" && isFieldSlice(cl.Type()) {
					return "ret(fields)"
				}
				if _, ok := r.(*ssa.MakeSlice); ok {
					return "ret(fields)"
				}
				return fmt.Sprintf("ret(?%s %T)", st.Desc(x.Results[0]), r)
			}
			return ""
		},
		Branch: func(cond ssa.Value, taken bool, st *ConcState) string {
			pol := taken
			for k := 0; k < 8; k++ {
				if u, ok := cond.(*ssa.UnOp); ok && u.Op == token.NOT {
					cond, pol = u.X, !pol
					continue
				}
				if nx := st.Step(cond); nx != nil {
					cond = nx
					continue
				}
				break
			}
			tf := func(b bool) string {
				if b {
					return "T"
				}
				return "F"
			}
			if ex, ok := cond.(*ssa.Extract); ok && ex.Index == 1 {
				if ta, ok := ex.Tuple.(*ssa.TypeAssert); ok {
					if k, ok := argIndex(st, ta.X); ok {
						return "is" + typeTag(ta.AssertedType) + "(" + ki(k) + ")=" + tf(pol)
					}
				}
			}
			bo, ok := cond.(*ssa.BinOp)
			if !ok {
				return ""
			}
			// length of the invalid-pair list
			for _, side := range []ssa.Value{bo.X, bo.Y} {
				if cl, ok := resolve(st, side).(*ssa.Call); ok && len(cl.Call.Args) == 1 && isInvalidSlice(cl.Call.Args[0].Type()) {
					switch CallBuiltin(cl) {
					case "cap":
						return ""
					case "len":
						other := bo.Y
						op := bo.Op
						if side == bo.Y {
							other, op = bo.X, swapOp(op)
						}
						if k, known := st.Int(other); known {
							// len(invalid) op k: is it true for len = 0?
							var at0 bool
							switch op {
							case token.GTR:
								at0 = 0 > k
							case token.GEQ:
								at0 = 0 >= k
							case token.NEQ:
								at0 = 0 != k
							case token.EQL:
								at0 = 0 == k
							case token.LSS:
								at0 = 0 < k
							case token.LEQ:
								at0 = 0 <= k
							}
							// only the distinction empty / non-empty is modelled (k ∈ {0, 1})
							if pol == at0 {
								return "invalid-empty=maybe"
							}
							return "invalid-empty=F"
						}
					}
				}
			}
			a1, b1, ok1 := lin(st, bo.X, 0)
			a2, b2, ok2 := lin(st, bo.Y, 0)
			if !ok1 || !ok2 {
				return ""
			}
			// (a1-a2) + (b1-b2)·L  op  0
			a, b, op := a1-a2, b1-b2, bo.Op
			if b == 0 {
				return ""
			}
			if b < 0 {
				a, b, op = -a, -b, swapOp(op)
			}
			if b != 1 {
				return "L?(" + st.Desc(cond) + ")"
			}
			// L op -a
			if !pol {
				switch op {
				case token.LSS:
					op = token.GEQ
				case token.LEQ:
					op = token.GTR
				case token.GTR:
					op = token.LEQ
				case token.GEQ:
					op = token.LSS
				case token.EQL:
					op = token.NEQ
				case token.NEQ:
					op = token.EQL
				}
			}
			return "L" + op.String() + ki(-a)
		},
	})
	if trunc || len(seqs) == 0 {
		c.Und("R14.1", name, "sweep", fn.Pos(), "path exploration of sweetenFields incomplete (%d sequences, truncated=%v)", len(seqs), trunc)
		return
	}
	// ---- replay against the reference model ----
	type viol struct{ slot, why, path string }
	var viols []viol
	feasible, maxArgs := 0, int64(0)
	const inf = int64(1) << 40
	for _, sq := range seqs {
		toks := strings.Split(sq, " ; ")
		lo, hi := int64(0), inf
		p := int64(0)
		seenErr, nInvalid, reported, ended := false, 0, false, false
		var setAside []int64 // bare errors recorded during the sweep, to be reported after it
		danglingPending := false
		// fromEnd: "L-1" → the index it denotes, once the length is known exactly
		fromEnd := func(s string) (int64, bool) {
			if !strings.HasPrefix(s, "L-") {
				return 0, false
			}
			a, err := strconv.ParseInt(s[1:], 10, 64)
			if err != nil || lo != hi {
				return 0, false
			}
			return hi + a, true
		}
		_ = danglingPending
		facts := map[string]int{} // "Field@3" → 1 / -1
		infeasible := false
		var bad []viol
		fail := func(slot, why string) { bad = append(bad, viol{slot, why, sq}) }
		needLen := func(k int64, what string) {
			// args[k] exists on this path only if L ≥ k+1 is established
			if lo < k+1 {
				fail("bounds", what+" while the path has only established len(args) ≥ "+ki(lo))
			}
		}
		fact := func(t string, k int64) int { return facts[t+"@"+ki(k)] }
		consume := func(k, n int64, what string) bool {
			if ended {
				fail("advance", what+" after the sweep ended with the dangling key")
				return false
			}
			if k != p {
				fail("advance", what+" but the next unread argument is args["+ki(p)+"] (an argument is skipped or read twice)")
				return false
			}
			needLen(k+n-1, what)
			p += n
			return true
		}
		notFieldOrError := func(k int64, what string) {
			if fact("Field", k) != -1 || fact("error", k) != -1 {
				fail("representation", what+" without having excluded that args["+ki(k)+"] is a zap.Field or an error")
			}
		}
		parseInts := func(s string) []int64 {
			var out []int64
			for _, f := range strings.Split(s, ",") {
				v, err := strconv.ParseInt(f, 10, 64)
				if err != nil {
					return nil
				}
				out = append(out, v)
			}
			return out
		}
		for _, t := range toks {
			if infeasible {
				break
			}
			switch {
			case strings.HasPrefix(t, "L?"):
				fail("bounds", "a condition on len(args) that the model cannot interpret: "+t)
			case len(t) > 2 && t[0] == 'L' && strings.ContainsAny(t[1:2], "<>=!"):
				i := 1
				for i < len(t) && strings.ContainsRune("<>=!", rune(t[i])) {
					i++
				}
				op := t[1:i]
				k, err := strconv.ParseInt(t[i:], 10, 64)
				if err != nil {
					fail("bounds", "unparsed "+t)
					break
				}
				switch op {
				case "<":
					hi = min(hi, k-1)
				case "<=":
					hi = min(hi, k)
				case ">":
					lo = max(lo, k+1)
				case ">=":
					lo = max(lo, k)
				case "==":
					lo, hi = max(lo, k), min(hi, k)
				case "!=":
					if lo == k {
						lo++
					}
					if hi == k {
						hi--
					}
				}
				if lo > hi {
					infeasible = true
				}
			case strings.HasPrefix(t, "rd(L"):
				k, ok := fromEnd(strings.TrimSuffix(t[3:], ")"))
				if !ok {
					fail("bounds", "args read at a distance from the end while the length is not known exactly: "+t)
					break
				}
				needLen(k, "args["+ki(k)+"] is read")
			case strings.HasPrefix(t, "errs+"):
				for _, e := range strings.Split(t[len("errs+"):], "+") {
					if !strings.HasPrefix(e, "E(") {
						fail("representation", "something other than a bare error argument is set aside as an additional error: "+e)
						continue
					}
					ks := parseInts(e[2 : len(e)-1])
					if len(ks) == 1 && consume(ks[0], 1, "args["+ki(ks[0])+"] is set aside as an additional error") {
						if fact("error", ks[0]) != 1 {
							fail("representation", "set aside as an error without the type test having succeeded")
						}
						if !seenErr {
							fail("first-error-only", "the first bare error is only reported, not added as the entry's error field")
						}
						setAside = append(setAside, ks[0])
					}
				}
			case strings.HasPrefix(t, "rd("):
				k, err := strconv.ParseInt(strings.TrimSuffix(t[3:], ")"), 10, 64)
				if err != nil {
					fail("bounds", "args read at an index that is not evident: "+t)
					break
				}
				needLen(k, "args["+ki(k)+"] is read")
			case strings.HasPrefix(t, "is"):
				// isField(3)=T
				op := strings.Index(t, "(")
				cl := strings.Index(t, ")")
				k, _ := strconv.ParseInt(t[op+1:cl], 10, 64)
				key := t[2:op] + "@" + ki(k)
				v := 1
				if strings.HasSuffix(t, "=F") {
					v = -1
				}
				if old := facts[key]; old != 0 && old != v {
					infeasible = true
				}
				facts[key] = v
				if v == 1 {
					// the dynamic types are mutually exclusive
					for _, o := range []string{"Field", "error", "string"} {
						if o != t[2:op] {
							if facts[o+"@"+ki(k)] == 1 {
								infeasible = true
							}
							facts[o+"@"+ki(k)] = -1
						}
					}
				}
			case strings.HasPrefix(t, "must-be-"):
				fail("representation", "an unchecked type assertion "+t+" panics for other arguments")
			case strings.HasPrefix(t, "fields+"):
				for _, e := range strings.Split(t[len("fields+"):], "+") {
					switch {
					case strings.HasPrefix(e, "F("):
						ks := parseInts(e[2 : len(e)-1])
						if len(ks) == 1 && consume(ks[0], 1, "args["+ki(ks[0])+"] is appended as a typed field") {
							if fact("Field", ks[0]) != 1 {
								fail("representation", e+" appended without the type test having succeeded")
							}
						}
					case strings.HasPrefix(e, "E("):
						ks := parseInts(e[2 : len(e)-1])
						if len(ks) == 1 && consume(ks[0], 1, "args["+ki(ks[0])+"] is appended as zap.Error") {
							if fact("error", ks[0]) != 1 {
								fail("representation", e+" appended without the type test having succeeded")
							}
							if seenErr {
								fail("first-error-only", "a second bare error is appended as a field (only the first may be; later ones are reported)")
							}
							seenErr = true
						}
					case strings.HasPrefix(e, "A("):
						ks := parseInts(e[2 : len(e)-1])
						if len(ks) == 2 {
							if ks[1] != ks[0]+1 {
								fail("advance", "the pair "+e+" does not take the value next to its key")
							} else if consume(ks[0], 2, "args["+ki(ks[0])+"], args["+ki(ks[1])+"] are appended as a key-value pair") {
								notFieldOrError(ks[0], e)
								if fact("string", ks[0]) != 1 {
									fail("representation", e+" without the key being a string")
								}
							}
						}
					default:
						fail("representation", "appended element "+e+" is none of: the typed field itself, zap.Error(err), zap.Any(key, value)")
					}
				}
			case strings.HasPrefix(t, "invalid+"):
				for _, e := range strings.Split(t[len("invalid+"):], "+") {
					ks := parseInts(strings.TrimSuffix(strings.TrimPrefix(e, "I("), ")"))
					if len(ks) != 3 {
						fail("accounted", "an invalid pair is recorded with a position/key/value that is not evident: "+e)
						continue
					}
					if ks[0] != ks[1] || ks[2] != ks[1]+1 {
						fail("accounted", "the invalid pair "+e+" does not record (position k, args[k], args[k+1])")
						continue
					}
					if consume(ks[1], 2, "args["+ki(ks[1])+"], args["+ki(ks[2])+"] are recorded as an invalid pair") {
						notFieldOrError(ks[1], e)
						if fact("string", ks[1]) != -1 {
							fail("representation", e+" recorded although the key may be a string")
						}
						nInvalid++
					}
				}
			case strings.HasPrefix(t, "invalid-empty="):
				if t == "invalid-empty=F" && nInvalid == 0 {
					infeasible = true
				}
				if t == "invalid-empty=maybe" && nInvalid > 0 {
					infeasible = true
				}
			case strings.HasPrefix(t, "log:"):
				f := strings.SplitN(t, ":", 4)
				lvl, payload := f[1], f[3]
				switch {
				case strings.HasPrefix(payload, "E(") && len(setAside) > 0:
					// one of the errors set aside during the sweep, reported now: in the order they were found
					ks := parseInts(payload[2 : len(payload)-1])
					if len(ks) != 1 || ks[0] != setAside[0] {
						fail("accounted", "the errors set aside are not reported in the order they were found: "+payload+" while args["+ki(setAside[0])+"] is due")
					}
					setAside = setAside[1:]
					if lvl != "Error" {
						fail("accounted", "the additional error is reported at level "+lvl+" (must be Error)")
					}
				case strings.HasPrefix(payload, "E("):
					ks := parseInts(payload[2 : len(payload)-1])
					if len(ks) == 1 && consume(ks[0], 1, "args["+ki(ks[0])+"] is reported as an additional error") {
						if fact("error", ks[0]) != 1 {
							fail("representation", "reported as an error without the type test having succeeded")
						}
						if !seenErr {
							fail("first-error-only", "the first bare error is only reported, not added as the entry's error field")
						}
						if lvl != "Error" {
							fail("accounted", "the additional error is reported at level "+lvl+" (must be Error)")
						}
					}
				case strings.HasPrefix(payload, "Any(\"ignored\","):
					inner := strings.TrimSuffix(strings.TrimPrefix(payload, "Any(\"ignored\","), ")")
					ks := parseInts(inner)
					if k, ok := fromEnd(inner); ok {
						ks = []int64{k}
					}
					if len(ks) == 1 {
						k := ks[0]
						if ended || k != p {
							fail("advance", "args["+ki(k)+"] is reported as a dangling key but the next unread argument is args["+ki(p)+"]")
							break
						}
						needLen(k, "the dangling key is read")
						notFieldOrError(k, "dangling-key report")
						if !(lo == k+1 && hi == k+1) {
							fail("accounted", "args["+ki(k)+"] is reported as dangling (and the rest ignored) without it being established that it is the last argument")
						}
						if lvl != "Error" {
							fail("accounted", "the dangling key is reported at level "+lvl+" (must be Error)")
						}
						p = k + 1
						ended = true
					}
				case payload == "Array(\"invalid\")":
					if nInvalid == 0 {
						fail("accounted", "invalid pairs are reported although none was recorded")
					}
					if lvl != "Error" {
						fail("accounted", "the invalid pairs are reported at level "+lvl+" (must be Error)")
					}
					reported = true
				default:
					fail("accounted", "an entry is logged that the model does not know: "+t)
				}
			case strings.HasPrefix(t, "ret("):
				if lo == 0 && hi == 0 && p == 0 {
					break // no arguments at all: any result
				}
				if !(lo == p && hi == p) {
					fail("accounted", "the function returns after consuming "+ki(p)+" argument(s) while len(args) is only known to lie in ["+ki(lo)+", "+map[bool]string{true: "∞", false: ki(hi)}[hi >= inf]+"]: arguments may remain unread")
				}
				if nInvalid > 0 && !reported {
					fail("accounted", "invalid pairs were recorded but are not reported before returning")
				}
				if len(setAside) > 0 {
					fail("accounted", "args["+ki(setAside[0])+"] was set aside as an additional error but is not reported before returning")
				}
				if t != "ret(fields)" {
					fail("accounted", "the accumulated fields are not what is returned: "+t)
				}
			}
		}
		if infeasible {
			continue
		}
		feasible++
		if p > maxArgs {
			maxArgs = p
		}
		viols = append(viols, bad...)
	}
	slots := []struct{ rule, slot, doc string }{
		{"R14.1", "advance", "arguments are consumed strictly in order, each exactly once (one for a field / error / dangling key, two for a pair)"},
		{"R14.1", "bounds", "args[k] is read only where len(args) > k is established (the value of a pair only after the dangling-key test)"},
		{"R14.1", "accounted", "every argument ends in the fields, in the reported invalid pairs or in an error entry naming it; the sweep ends only when all are consumed; the accumulated fields are returned"},
		{"R14.2", "representation", "typed Field as is, bare error via zap.Error, string-keyed pair via zap.Any, anything else as invalid pair — each only after the type tests that justify it"},
		{"R14.2", "first-error-only", "the first bare error becomes the entry's error field, every later one is reported; the flag changes on bare errors only"},
	}
	for _, s := range slots {
		var ex []string
		for _, v := range viols {
			if v.slot == s.slot && len(ex) < 2 {
				ex = append(ex, v.why+" [path: "+v.path+"]")
			}
		}
		c.Check(len(ex) == 0 && feasible >= 10 && maxArgs >= 4, s.rule, name, s.slot, fn.Pos(), "replayed %d feasible paths (up to %d sweeps, up to %d arguments; %d longer paths cut) against the reference model: %s %v", feasible, depth(3, 4), maxArgs, cut, s.doc, ex)
	}
}

func typeTag(t types.Type) string {
	s := TStr(t)
	switch {
	case s == "go.uber.org/zap/zapcore.Field" || s == "go.uber.org/zap.Field":
		return "Field"
	case s == "error":
		return "error"
	case s == "string":
		return "string"
	}
	return "T[" + s + "]"
}
