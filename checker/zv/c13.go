package zv

import (
	"go/token"
	"go/types"
	"sort"
	"strconv"
	"strings"

	"golang.org/x/tools/go/ssa"
)

func init() {
	Props["C13"] = Prop{
		Title: "Zap's writers and WriteSyncer combinators honour the io.Writer contract",
		Fn:    checkC13,
		Explanation: "Decides, on every path of every Write([]byte)(int,error) method defined in non-test code, the SHAPE of the returned pair: " +
			"(len(original parameter), nil), (k, provably non-nil error) or an unchanged relay of an inner Write(original parameter); " +
			"for the multi-syncer, by path exploration over up to two sinks whose Write outcome is forked (count 0, 1 or 2; error or not): every sink is given the caller's bytes, the count returned is the smallest any sink reported (a genuine 0 included), the error returned is non-nil exactly when some sink failed - however the code accumulates them; every sink is visited with no early exit; Sync likewise; " +
			"for Lock/AddSync: results relayed unchanged, no double wrapping, mutex held across the inner call on every path and released at every exit. " +
			"NOT decided: that wrapped writers honour the contract themselves, payload sizes, runtime interleavings.",
		Assumptions: commonAssumptions,
	}
}

func isWriteSig(sig *types.Signature) bool {
	if sig.Params().Len() != 1 || sig.Results().Len() != 2 {
		return false
	}
	sl, ok := sig.Params().At(0).Type().(*types.Slice)
	if !ok || !types.Identical(sl.Elem(), types.Typ[types.Byte]) {
		return false
	}
	return types.Identical(sig.Results().At(0).Type(), types.Typ[types.Int]) && TStr(sig.Results().At(1).Type()) == "error"
}

// writeParam returns the []byte parameter of a Write method.
func writeParam(fn *ssa.Function) *ssa.Parameter {
	if len(fn.Params) == 2 {
		return fn.Params[1]
	}
	return nil
}

// isLenOf reports whether v is len(p) for exactly the parameter p.
func isLenOf(v ssa.Value, p *ssa.Parameter) bool {
	c, ok := Strip(v).(*ssa.Call)
	if !ok || CallBuiltin(c) != "len" || len(c.Call.Args) != 1 {
		return false
	}
	return c.Call.Args[0] == p
}

// relayOf: are (n, e) the two results of ONE call of a Write method with
// argument exactly p?
func relayOf(n, e ssa.Value, p *ssa.Parameter) (*ssa.Call, bool) {
	en, ok1 := Strip(n).(*ssa.Extract)
	ee, ok2 := Strip(e).(*ssa.Extract)
	if !ok1 || !ok2 || en.Tuple != ee.Tuple || en.Index != 0 || ee.Index != 1 {
		return nil, false
	}
	c, ok := en.Tuple.(*ssa.Call)
	if !ok {
		return nil, false
	}
	f := CalleeFunc(c)
	if f == nil || FNm(f) != "Write" || !isWriteSig(f.Type().(*types.Signature)) {
		return nil, false
	}
	args := c.Call.Args // for invoke: only args; for static method: recv first
	if !c.Call.IsInvoke() {
		args = args[1:]
	}
	if len(args) != 1 || args[0] != p {
		return c, false
	}
	return c, true
}

// provablyNonNil: e is non-nil at instruction at (guard e != nil, or a fresh error).
func provablyNonNil(e ssa.Value, at ssa.Instruction) bool {
	e = Strip(e)
	if c, ok := e.(*ssa.Call); ok {
		if f := CalleeFunc(c); f != nil {
			switch f.FullName() {
			case "errors.New", "fmt.Errorf":
				return true
			}
		}
	}
	want := Desc(e) + " != nil"
	for _, a := range Guards(at) {
		if AtomString(a) == want {
			return true
		}
	}
	return false
}

func checkC13(c *Ctx) {
	c.Rule("R13.1", "every return of every Write([]byte)(int,error) method is (len(param),nil) | (k, non-nil err) | relay of inner Write(param)", 8)
	c.Rule("R13.2", "multiWriteSyncer.Write: same bytes to every sink, no loop exit, all errors appended, min-fold count with accepted seed idiom; Sync visits all", 4)
	c.Rule("R13.3", "Lock / AddSync / writerWrapper relay and wrap exactly as documented", 5)
	c.Rule("R13.5", "BufferedWriteSyncer relays only its bufio.Writer (which enforces the contract); the sink is never written directly, pending bytes never discarded", 2)
	c12SinkOwnership(c, "R13.5")
	c.Rule("R13.4", "lockedWriteSyncer holds its mutex across the inner call on every path and releases it before every exit", 3)

	// table exceptions (one line of reason each)
	exempt := map[string]string{
		"(go.uber.org/zap/internal/ztest.FailWriter).Write":  "test double that deliberately fails every write (documented)",
		"(go.uber.org/zap/internal/ztest.ShortWriter).Write": "test double that deliberately reports a short count (documented)",
		"(go.uber.org/zap/zapcore.multiWriteSyncer).Write":   "aggregating writer: decided by R13.2 (min-fold) instead",
	}
	writers := c.MethodsNamed("Write", isWriteSig)
	c.Rule("R13.8", "no Write of the module recovers from a panic of its destination (it would return its results as they stood: a short count with a nil error)", 4)
	c13NoSwallowedPanic(c, "R13.8", writers)
	seenExempt := 0
	for _, fn := range writers {
		name := FStr(fn)
		if why, ok := exempt[name]; ok {
			seenExempt++
			c.Triv("R13.1", name, "exempt", fn.Pos(), "exempt: %s", why)
			continue
		}
		p := writeParam(fn)
		if p == nil {
			c.Und("R13.1", name, "param", fn.Pos(), "cannot identify the []byte parameter")
			continue
		}
		for k, r := range Returns(fn) {
			slot := "return#" + itoa(k+1)
			rv := RetVals(r)
			n, e := rv[0], rv[1]
			switch {
			case IsNilConst(Strip(e)) && isLenOf(n, p):
				c.OK("R13.1", name, slot, r.Pos(), "returns (len(%s), nil) with %s the original parameter", p.Name(), p.Name())
			case IsNilConst(Strip(e)):
				c.Bad("R13.1", name, slot, r.Pos(), "returns (%s, nil): a nil error with a count that is not len of the original parameter %s (short count without error)", Desc(n), p.Name())
			default:
				if call, ok := relayOf(n, e, p); ok {
					c.OK("R13.1", name, slot, r.Pos(), "relays both results of %s(%s) unchanged", FuncName(CalleeFunc(call)), p.Name())
				} else if call != nil {
					c.Bad("R13.1", name, slot, r.Pos(), "relays an inner Write whose argument is not the original parameter %s", p.Name())
				} else if provablyNonNil(e, r) {
					c.OK("R13.1", name, slot, r.Pos(), "returns (%s, %s) with a provably non-nil error", Desc(n), Desc(e))
				} else if isLenOf(n, p) {
					c.OK("R13.1", name, slot, r.Pos(), "returns (len(%s), %s): full count whatever the error", p.Name(), Desc(e))
				} else if okP, why := c13ReturnsByPaths(fn, p); okP {
					c.OK("R13.1", name, slot, r.Pos(), "by path exploration (helpers and the function literals handed to them inline): on every path the results are (len(%s), nil), a relay of an inner Write(%s), a full count, or carry a non-nil error", p.Name(), p.Name())
				} else {
					c.Bad("R13.1", name, slot, r.Pos(), "returns (%s, %s): neither (len(param),nil), nor a provably non-nil error, nor an unchanged relay of an inner Write(param) %s", Desc(n), Desc(e), why)
				}
			}
		}
	}
	if seenExempt != len(exempt) {
		c.Und("R13.1", "exemption-table", "stale", token.NoPos, "exemption table names %d writers but %d exist; table is stale", len(exempt), seenExempt)
	}

	// R13.2 ---------------------------------------------------------------
	mw := c.Method(CorePath, "multiWriteSyncer", "Write")
	if c.Anchor("R13.2", "zapcore.multiWriteSyncer.Write", mw != nil) {
		c13MultiWrite(c, mw)
	}
	ms := c.Method(CorePath, "multiWriteSyncer", "Sync")
	if c.Anchor("R13.2", "zapcore.multiWriteSyncer.Sync", ms != nil) {
		name := FStr(ms)
		selSync := func(cl ssa.CallInstruction) bool {
			return IsCallTo(cl, "(go.uber.org/zap/zapcore.WriteSyncer).Sync") && cl.Common().IsInvoke()
		}
		ok, why, syncCall, _ := VisitsAll(ms, selSync, ms.Params[0])
		if syncCall == nil {
			c.Bad("R13.2", name, "sync-call", ms.Pos(), "no call of WriteSyncer.Sync on the elements (%s)", why)
		} else {
			c.Check(ok, "R13.2", name, "visits-all", syncCall.Pos(), "Sync is called on every element of the receiver with no early exit %s", why)
			c13ErrFoldSel(c, ms, selSync, syncCall.Pos(), "WriteSyncer.Sync", "R13.2", name)
		}
	}

	// R13.3 ---------------------------------------------------------------
	c13Wrappers(c)
	c.Rule("R13.7", "a combined syncer owns its list of sinks: nothing is appended into spare capacity of a list another syncer holds (two syncers extended from one base would overwrite each other's sinks: one of them never reaches a sink it was built with)", 1)
	c7AppendsAll(c, "R13.7")
	c.Rule("R13.6", "a combined syncer keeps every sink it is given, in order (a sink dropped at construction never reports a short write or an error), and zap.CombineWriteSyncers puts ONE lock around the whole group", 4)
	cKeepsAll(c, "R13.6", c.Func(CorePath, "NewMultiWriteSyncer"), "zapcore.NewMultiWriteSyncer", "ret(cores[0:0])")
	c4LocksCombined(c, "R13.6")

	// R13.4 ---------------------------------------------------------------
	lockedSyncerMethods(c, "R13.4")
}

// lockedSyncerMethods: EVERY method of lockedWriteSyncer that calls into the wrapped syncer - through the field's own
// interface or through any other interface it is asserted to (io.StringWriter, io.ReaderFrom, …) - does so with the
// mutex write-held, and releases it before returning.
func lockedSyncerMethods(c *Ctx, rule string) {
	lws := c.Named(CorePath, "lockedWriteSyncer")
	if !c.Anchor(rule, "zapcore.lockedWriteSyncer", lws != nil) {
		return
	}
	// the wrapped syncer: the field of interface type
	wsField := ""
	if st, ok := lws.Underlying().(*types.Struct); ok {
		for i := 0; i < st.NumFields(); i++ {
			if _, isI := types.Unalias(st.Field(i).Type()).Underlying().(*types.Interface); isI {
				wsField = FN(st.Field(i))
			}
		}
	}
	if !c.Anchor(rule, "the wrapped syncer field of zapcore.lockedWriteSyncer", wsField != "") {
		return
	}
	fromWrapped := func(v ssa.Value) bool {
		for k := 0; k < 8; k++ {
			switch x := v.(type) {
			case *ssa.TypeAssert:
				v = x.X
				continue
			case *ssa.Extract:
				if ta, ok := x.Tuple.(*ssa.TypeAssert); ok {
					v = ta.X
					continue
				}
			case *ssa.ChangeInterface:
				v = x.X
				continue
			case *ssa.UnOp:
				if fa, ok := x.X.(*ssa.FieldAddr); ok && x.Op == token.MUL {
					n, _ := types.Unalias(deref(fa.X.Type())).(*types.Named)
					return n != nil && n.Obj() == lws.Obj() && fieldName(fa.X.Type(), fa.Field) == wsField
				}
			}
			break
		}
		return false
	}
	sel := func(cl ssa.CallInstruction) bool {
		cm := cl.Common()
		return cm.IsInvoke() && fromWrapped(cm.Value)
	}
	ms := c.SSA.MethodSets.MethodSet(types.NewPointer(lws))
	n := 0
	for i := 0; i < ms.Len(); i++ {
		fn := c.SSA.MethodValue(ms.At(i))
		if fn == nil || len(fn.Blocks) == 0 || fn.Synthetic != "" {
			continue
		}
		if rn := RecvNamed(fn); rn == nil || rn.Obj() != lws.Obj() {
			continue
		}
		touches := false
		for _, cl := range CallsDeep(fn) {
			if sel(cl) {
				touches = true
			}
		}
		for _, g := range WithClosures(fn) {
			for _, cl := range Calls(g) {
				if sel(cl) {
					touches = true
				}
			}
		}
		if !touches {
			continue
		}
		n++
		LockedAcross(c, rule, fn, sel, "Mutex")
	}
	if n < 2 {
		c.Bad(rule, "zapcore.lockedWriteSyncer", "methods", token.NoPos, "expected at least Write and Sync to call into the wrapped syncer, found %d such methods", n)
	}
}

// LockedAcross: every call selected by sel is made with a mutex (whose
// description ends in mutexSuffix) write-held on every path, and at every
// Return the mutex is released (or a deferred unlock exists).
func LockedAcross(c *Ctx, rule string, fn *ssa.Function, sel func(ssa.CallInstruction) bool, mutexSuffix string) {
	name := FStr(fn)
	// by path exploration (helpers, and function literals handed to them, explored inline; deferred unlocks run at
	// their function's return): every selected inner call happens while the mutex is write-held, and the mutex is
	// released when fn returns
	lockEv := func(ci ssa.CallInstruction, st *ConcState) string {
		k, m := LockEvent(ci)
		if m == "" {
			return ""
		}
		if st != nil {
			if args := Args(ci); len(args) > 0 {
				m = st.Desc(args[0])
			}
		}
		if !strings.HasSuffix(m, mutexSuffix) && !strings.HasSuffix(m, "."+strings.TrimPrefix(mutexSuffix, ".")) {
			return ""
		}
		switch k {
		case 1:
			return "lock"
		case -1:
			return "unlock"
		case 2:
			return "rlock"
		case -2:
			return "runlock"
		}
		return ""
	}
	calleeName := map[string]string{}
	seqs, trunc := ConcPaths(fn, ConcCfg{
		MaxDepth: 6,
		DeferRun: func(d *ssa.Defer, st *ConcState) string { return lockEv(d, st) },
		Event: func(in ssa.Instruction, st *ConcState) string {
			switch x := in.(type) {
			case *ssa.Call:
				if e := lockEv(x, st); e != "" {
					return e
				}
				if sel(x) {
					n := "inner:" + FuncName(CalleeFunc(x))
					calleeName[n] = c.Pos(x.Pos())
					return n
				}
			case *ssa.Return:
				if len(st.cfg.stackDepth()) == 0 {
					return "ret"
				}
			case *ssa.Panic:
				return "panic"
			}
			return ""
		},
	})
	if trunc || len(seqs) == 0 {
		c.Und(rule, name, "inner-call", fn.Pos(), "path exploration incomplete (%d sequences)", len(seqs))
		return
	}
	badInner := map[string][]string{}
	var badRet []string
	inner := map[string]bool{}
	for _, sq := range seqs {
		w, r := 0, 0
		for _, t := range strings.Split(sq, " ; ") {
			switch {
			case t == "lock":
				w++
			case t == "unlock":
				w--
			case t == "rlock":
				r++
			case t == "runlock":
				r--
			case strings.HasPrefix(t, "inner:"):
				inner[t] = true
				if w != 1 {
					badInner[t] = append(badInner[t], sq)
				}
			case t == "ret":
				if w != 0 || r != 0 {
					badRet = append(badRet, sq)
				}
			}
		}
	}
	var names []string
	for n := range inner {
		names = append(names, n)
	}
	sort.Strings(names)
	for _, n := range names {
		c.Check(len(badInner[n]) == 0, rule, name, "held@"+strings.TrimPrefix(n, "inner:"), fn.Pos(), "on every path the inner call %s (at %s) executes with the mutex *%s write-held exactly once (offending: %v)", strings.TrimPrefix(n, "inner:"), calleeName[n], mutexSuffix, badInner[n])
	}
	if len(names) == 0 {
		c.Bad(rule, name, "inner-call", fn.Pos(), "no inner call found to protect")
	}
	c.Check(len(badRet) == 0, rule, name, "released@return", fn.Pos(), "on every path the mutex is released when the function returns (offending: %v)", badRet)
}

func keys(m map[string]bool) []string {
	var s []string
	for k := range m {
		s = append(s, k)
	}
	return s
}

func itoa(i int) string { return strconv.Itoa(i) }

// c13ErrFold: the error result of call `errSrc` (Extract #errIdx, or the call
// value itself for single-result calls) is folded with multierr.Append into
// the error the function returns, on every iteration.
func c13ErrFold(c *Ctx, fn *ssa.Function, loopCall, errSrc *ssa.Call, rule, name string) {
	res := fn.Signature.Results()
	if res.Len() > 0 && TStr(res.At(res.Len()-1).Type()) == "error" {
		c13ErrFoldPaths(c, fn, errSrc, rule, name)
		return
	}
	c13ErrFoldShape(c, fn, loopCall, errSrc, rule, name)
}

// c13ErrFoldPaths: by path exploration over up to two elements, each inner call failing or not: the function returns a
// non-nil error exactly when some inner call failed (whatever way the errors are accumulated).
func c13ErrFoldPaths(c *Ctx, fn *ssa.Function, errSrc *ssa.Call, rule, name string) {
	callee := CalleeFunc(errSrc)
	c13ErrFoldSel(c, fn, func(ci ssa.CallInstruction) bool {
		cl, ok := ci.(*ssa.Call)
		if !ok {
			return false
		}
		if cl == errSrc {
			return true
		}
		return callee != nil && CalleeFunc(cl) == callee && cl.Call.IsInvoke() == errSrc.Call.IsInvoke()
	}, errSrc.Pos(), FuncName(callee), rule, name)
}

// c13ErrFoldSel: as above, the inner calls being those selected by sel (wherever they sit: fn, a helper, a function
// literal or method expression handed to a helper).
func c13ErrFoldSel(c *Ctx, fn *ssa.Function, sel func(ssa.CallInstruction) bool, pos token.Pos, what, rule, name string) {
	errIdx := func(cl *ssa.Call) int {
		if t, ok := cl.Type().(*types.Tuple); ok {
			return t.Len() - 1
		}
		return -1
	}
	cut := 0
	seqs, trunc := ConcPaths(fn, ConcCfg{
		MaxIter: depth(2, 3), Cut: &cut, IterClosures: true, MaxStates: 600000,
		Fork: func(in ssa.Instruction, st *ConcState) []ConcAlt {
			var v ssa.Value
			switch x := in.(type) {
			case *ssa.Call:
				if sel(x) && errIdx(x) < 0 {
					v = x
				}
			case *ssa.Extract:
				if cl, ok := x.Tuple.(*ssa.Call); ok && sel(cl) && x.Index == errIdx(cl) {
					v = x
				}
			}
			if v == nil {
				return nil
			}
			return []ConcAlt{{Ev: "ok", Nils: map[ssa.Value]bool{v: true}}, {Ev: "fail", Nils: map[ssa.Value]bool{v: false}}}
		},
		Event: func(in ssa.Instruction, st *ConcState) string {
			if r, ok := in.(*ssa.Return); ok {
				n, known := st.IsNil(r.Results[len(r.Results)-1])
				switch {
				case !known:
					return "ret-?(" + st.Desc(r.Results[len(r.Results)-1]) + ")"
				case n:
					return "ret-nil"
				}
				return "ret-err"
			}
			return ""
		},
	})
	if trunc || len(seqs) == 0 {
		c.Und(rule, name, "errors-appended", pos, "path exploration incomplete (%d sequences)", len(seqs))
		return
	}
	var bad, unk []string
	nFail := 0
	for _, sq := range seqs {
		toks := strings.Split(sq, " ; ")
		failed := false
		for _, t := range toks {
			if t == "fail" {
				failed = true
			}
		}
		last := toks[len(toks)-1]
		if failed {
			nFail++
		}
		switch {
		case strings.HasPrefix(last, "ret-?") && failed:
			unk = append(unk, sq)
		case failed && last != "ret-err":
			bad = append(bad, sq)
		case !failed && last == "ret-err":
			bad = append(bad, sq)
		}
	}
	if len(bad) == 0 && len(unk) > 0 {
		c.Und(rule, name, "errors-appended", pos, "cannot tell whether the returned error is nil on path: %s", unk[0])
		return
	}
	ex := ""
	if len(bad) > 0 {
		ex = bad[0]
	}
	c.Check(len(bad) == 0 && nFail > 0, rule, name, "errors-appended", pos,
		"by path exploration (%d paths over up to two elements, %d with a failing %s; %d longer paths cut): the returned error is non-nil exactly when some inner call failed (offending path: %s)",
		len(seqs), nFail, what, cut, ex)
}

func c13ErrFoldShape(c *Ctx, fn *ssa.Function, loopCall, errSrc *ssa.Call, rule, name string) {
	var appendCall *ssa.Call
	for _, cl := range Calls(fn) {
		if !IsCallTo(cl, "go.uber.org/multierr.Append") {
			continue
		}
		cc := cl.(*ssa.Call)
		a1 := Strip(cc.Call.Args[1])
		if a1 == ssa.Value(errSrc) {
			appendCall = cc
		} else if ex, ok := a1.(*ssa.Extract); ok && ex.Tuple == ssa.Value(errSrc) {
			appendCall = cc
		}
	}
	if appendCall == nil {
		c.Bad(rule, name, "errors-appended", loopCall.Pos(), "the error of %s is not passed to multierr.Append", FuncName(CalleeFunc(errSrc)))
		return
	}
	// accumulator: Append's first arg is the phi that is returned; Append result feeds that phi.
	acc, isPhi := Strip(appendCall.Call.Args[0]).(*ssa.Phi)
	feeds := false
	if isPhi {
		for _, e := range acc.Edges {
			if Strip(e) == ssa.Value(appendCall) {
				feeds = true
			}
		}
	}
	returned := fn.Signature.Results().Len() == 0
	for _, r := range Returns(fn) {
		if len(r.Results) == 0 {
			continue
		}
		last := r.Results[len(r.Results)-1]
		if isPhi && Strip(last) == ssa.Value(acc) {
			returned = true
		}
	}
	h := LoopHeader(loopCall.Block())
	skip := false
	// the error value being folded
	errDesc := Desc(appendCall.Call.Args[1])
	if h != nil {
		// No path from the loop call back to the header may skip the Append,
		// except by testing the error against nil first (appending nil is a no-op).
		inHeader := func(x ssa.Instruction) bool { return x.Block() == h }
		skip = ExistsPath(fn, loopCall, inHeader, func(x ssa.Instruction) bool {
			if x == ssa.Instruction(appendCall) {
				return true
			}
			if iff, ok := x.(*ssa.If); ok {
				a := AtomString(Atom{iff.Cond, true})
				return a == errDesc+" != nil" || a == errDesc+" == nil"
			}
			return false
		})
		for _, a := range Guards(appendCall) {
			if AtomString(a) == errDesc+" == nil" {
				skip = true // appended only when nil: real errors are dropped
			}
		}
	}
	c.Check(isPhi && feeds && returned && !skip, rule, name, "errors-appended", appendCall.Pos(),
		"err = multierr.Append(err, <result of %s>) on every iteration: accumulator-phi=%v feeds-back=%v returned=%v skippable=%v",
		FuncName(CalleeFunc(errSrc)), isPhi, feeds, returned, skip)
}

func c13MultiWrite(c *Ctx, fn *ssa.Function) {
	name := FStr(fn)
	p := writeParam(fn)
	isInner := func(cl ssa.CallInstruction) bool {
		f := CalleeFunc(cl)
		return f != nil && FNm(f) == "Write" && isWriteSig(f.Type().(*types.Signature)) && cl.Common().IsInvoke()
	}
	okV, why, wc, _ := VisitsAll(fn, isInner, fn.Params[0])
	if wc == nil {
		c.Bad("R13.2", name, "inner-write", fn.Pos(), "no inner Write call that reaches every sink (%s)", why)
		return
	}
	c.Check(okV, "R13.2", name, "visits-all", wc.Pos(), "the inner Write reaches every sink of the receiver with no early exit %s", why)

	// by path exploration over up to two sinks, each accepting 0, 1 or 2 bytes and failing or not: every sink is given the
	// caller's bytes, the count returned is the smallest any sink accepted, the error is non-nil exactly when one failed
	resolve := func(st *ConcState, v ssa.Value) ssa.Value {
		v = stripConv(v)
		for k := 0; k < 12; k++ {
			nx := st.Step(v)
			if nx == nil {
				break
			}
			v = stripConv(nx)
		}
		return v
	}
	cut := 0
	seqs, trunc := ConcPaths(fn, ConcCfg{
		MaxIter: depth(2, 3), Cut: &cut, IterClosures: true, MaxStates: 600000,
		Event: func(in ssa.Instruction, st *ConcState) string {
			switch x := in.(type) {
			case *ssa.Call:
				if isInner(x) {
					if len(x.Call.Args) == 1 && resolve(st, x.Call.Args[0]) == ssa.Value(p) {
						return "write"
					}
					return "write-other(" + st.Desc(x.Call.Args[0]) + ")"
				}
			case *ssa.Return:
				s := "ret("
				if k, ok := st.Int(x.Results[0]); ok {
					s += itoa(int(k))
				} else {
					s += "?" + st.Desc(x.Results[0])
				}
				n, known := st.IsNil(x.Results[1])
				switch {
				case !known:
					s += ",?"
				case n:
					s += ",nil"
				default:
					s += ",err"
				}
				return s + ")"
			}
			return ""
		},
		Fork: func(in ssa.Instruction, st *ConcState) []ConcAlt {
			ex, ok := in.(*ssa.Extract)
			if !ok {
				return nil
			}
			cl, ok := ex.Tuple.(*ssa.Call)
			if !ok || !isInner(cl) {
				return nil
			}
			if ex.Index == 0 {
				// 0 is a genuine count (a sink that accepted nothing), not "unset"
				return []ConcAlt{{Ev: "n=0", Ints: map[ssa.Value]int64{ex: 0}}, {Ev: "n=1", Ints: map[ssa.Value]int64{ex: 1}}, {Ev: "n=2", Ints: map[ssa.Value]int64{ex: 2}}}
			}
			return []ConcAlt{{Ev: "ok", Nils: map[ssa.Value]bool{ex: true}}, {Ev: "fail", Nils: map[ssa.Value]bool{ex: false}}}
		},
	})
	if trunc || len(seqs) == 0 {
		c.Und("R13.2", name, "min-fold", fn.Pos(), "path exploration incomplete (%d sequences)", len(seqs))
		return
	}
	var badBytes, badMin, badErr, unk []string
	two := 0
	for _, sq := range seqs {
		toks := strings.Split(sq, " ; ")
		writes, fails, min := 0, 0, int64(-1)
		counted := 0
		for _, t := range toks {
			switch {
			case t == "write":
				writes++
			case strings.HasPrefix(t, "write-other"):
				writes++
				badBytes = append(badBytes, sq)
			case t == "fail":
				fails++
			case strings.HasPrefix(t, "n="):
				counted++
				k := int64(t[2] - '0')
				if min < 0 || k < min {
					min = k
				}
			}
		}
		if writes >= 2 {
			two++
		}
		last := toks[len(toks)-1]
		if !strings.HasPrefix(last, "ret(") {
			continue
		}
		f := strings.Split(strings.TrimSuffix(strings.TrimPrefix(last, "ret("), ")"), ",")
		cnt, er := f[0], f[len(f)-1]
		if writes > 0 {
			switch {
			case counted < writes:
				// the count of some sink is never looked at: it cannot enter the minimum
				badMin = append(badMin, sq)
			case strings.HasPrefix(cnt, "?"):
				unk = append(unk, sq)
			case cnt != itoa(int(min)):
				badMin = append(badMin, sq)
			}
		}
		switch {
		case er == "?":
			unk = append(unk, sq)
		case (fails > 0) != (er == "err"):
			badErr = append(badErr, sq)
		}
	}
	first := func(l []string) string {
		if len(l) == 0 {
			return ""
		}
		return l[0]
	}
	if len(unk) > 0 && len(badMin) == 0 && len(badErr) == 0 {
		c.Und("R13.2", name, "min-fold", fn.Pos(), "the returned count/error is not determined on path: %s", unk[0])
		return
	}
	c.Check(len(badBytes) == 0, "R13.2", name, "same-bytes", wc.Pos(), "every sink is given the caller's bytes (offending path: %s)", first(badBytes))
	c.Check(len(badMin) == 0 && two > 0, "R13.2", name, "min-fold", fn.Pos(),
		"by path exploration (%d paths, %d with two sinks; %d longer paths cut): the count returned is the smallest count any sink reported - also when that is the first sink's, and when it equals the initial value of the accumulator (offending path: %s)", len(seqs), two, cut, first(badMin))
	c.Check(len(badErr) == 0, "R13.2", name, "errors-appended", wc.Pos(), "the error returned is non-nil exactly when some sink's Write failed (offending path: %s)", first(badErr))
}

// edgeConds returns, for a block that carries an update into a phi, the
// branch atoms under which control enters it (one per predecessor edge when
// it has several predecessors).
func edgeConds(b *ssa.BasicBlock) []Atom {
	if len(b.Instrs) > 1 || len(b.Preds) == 1 {
		// block with own content or single pred: use the nearest controlling atom of each pred edge anyway
	}
	var out []Atom
	for _, p := range b.Preds {
		iff, ok := p.Instrs[len(p.Instrs)-1].(*ssa.If)
		if !ok {
			out = append(out, edgeConds(p)...)
			continue
		}
		out = append(out, Atom{iff.Cond, p.Succs[0] == b})
	}
	return out
}

func isMinCond(a Atom, n ssa.Value, acc *ssa.Phi) bool {
	s := AtomString(a)
	return s == Desc(n)+" < "+Desc(acc) || s == Desc(acc)+" > "+Desc(n)
}

// first-element selection: comparison of the range index (or an explicit
// index variable) with 0, or a boolean "first" flag.
func isFirstElemCond(a Atom) bool {
	s := AtomString(a)
	if strings.Contains(s, "rangeindex") && (strings.HasSuffix(s, " == 0") || strings.HasSuffix(s, " <= 0") || strings.HasSuffix(s, " < 1")) {
		return true
	}
	if b, ok := a.Cond.(*ssa.BinOp); ok && b.Op == token.EQL && a.Pol {
		if v, ok := ConstInt(b.Y); ok && v == 0 {
			if ph, ok := Strip(b.X).(*ssa.Phi); ok && ph.Comment != "" && !strings.Contains(strings.ToLower(ph.Comment), "written") {
				// an index-like loop variable (i, idx)
				return types.Identical(ph.Type(), types.Typ[types.Int]) && isIndexPhi(ph)
			}
		}
	}
	if ph, ok := Strip(a.Cond).(*ssa.Phi); ok && types.Identical(ph.Type().Underlying(), types.Typ[types.Bool]) {
		return true
	}
	return false
}

// isIndexPhi: phi of the form φ(const, φ+1).
func isIndexPhi(ph *ssa.Phi) bool {
	inc := false
	for _, e := range ph.Edges {
		if b, ok := e.(*ssa.BinOp); ok && b.Op == token.ADD && b.X == ssa.Value(ph) {
			if v, ok := ConstInt(b.Y); ok && v == 1 {
				inc = true
			}
		}
	}
	return inc
}

func c13Wrappers(c *Ctx) {
	// Lock / AddSync, by path exploration (helpers inline): what is returned under each outcome of the type test
	c13WrapOrKeep(c, c.Func(CorePath, "Lock"), c.Named(CorePath, "lockedWriteSyncer"), "ws", "*go.uber.org/zap/zapcore.lockedWriteSyncer",
		"no-double-wrap", "wraps-argument", "an already locked syncer is returned as it is; anything else is wrapped in a fresh *lockedWriteSyncer whose ws is the argument")
	c13WrapOrKeep(c, c.Func(CorePath, "AddSync"), c.Named(CorePath, "writerWrapper"), "Writer", "go.uber.org/zap/zapcore.WriteSyncer",
		"keeps-existing-sync", "adds-noop-sync", "a writer that already is a WriteSyncer is returned as it is; anything else is wrapped in a writerWrapper around the argument")
	wws := c.Method(CorePath, "writerWrapper", "Sync")
	if c.Anchor("R13.3", "zapcore.writerWrapper.Sync", wws != nil) {
		for k, r := range Returns(wws) {
			c.Check(IsNilConst(r.Results[0]), "R13.3", FStr(wws), "return#"+itoa(k+1), r.Pos(), "the added Sync is a no-op returning nil")
		}
		n := 0
		AllInstrs(wws, func(i ssa.Instruction) {
			if _, ok := i.(ssa.CallInstruction); ok {
				n++
			}
		})
		c.Check(n == 0, "R13.3", FStr(wws), "no-effects", wws.Pos(), "the added Sync performs no calls (%d found)", n)
	}
	// lockedWriteSyncer.Sync relays
	ls := c.Method(CorePath, "lockedWriteSyncer", "Sync")
	if c.Anchor("R13.3", "zapcore.lockedWriteSyncer.Sync", ls != nil) {
		// by path exploration (the result may travel through a named result assigned inside a literal run by a helper)
		var bad []string
		seqs, trunc := ConcPaths(ls, ConcCfg{
			IterClosures: true, MaxIter: 2, MaxDepth: 6,
			Event: func(in ssa.Instruction, st *ConcState) string {
				r, ok := in.(*ssa.Return)
				if !ok || len(r.Results) != 1 || len(st.cfg.stackDepth()) != 0 {
					return ""
				}
				v := r.Results[0]
				for k := 0; k < 16; k++ {
					nx := st.Step(v)
					if nx == nil {
						break
					}
					v = nx
				}
				if call, isC := v.(*ssa.Call); isC && IsCallTo(call, "(go.uber.org/zap/zapcore.WriteSyncer).Sync") {
					return "ret-inner"
				}
				bad = append(bad, st.Desc(r.Results[0]))
				return "ret-other"
			},
		})
		c.Check(!trunc && len(seqs) > 0 && len(bad) == 0, "R13.3", FStr(ls), "return#1", ls.Pos(), "on every path the inner Sync's error is returned unchanged (offending: %v)", bad)
	}
}

// c13WrapOrKeep: fn(arg) returns arg itself exactly when arg already has the asserted type, and otherwise a fresh
// wrapper of type `wrapper` whose field `field` is arg - on every path, however the type test and the construction
// are written (comma-ok assertion, type switch, constructor helper, literal or new+assignment).
func c13WrapOrKeep(c *Ctx, fn *ssa.Function, wrapper *types.Named, field, asserted, slotKeep, slotWrap, doc string) {
	if !c.Anchor("R13.3", "zapcore wrap-or-keep constructor", fn != nil && wrapper != nil && len(fn.Params) == 1) {
		return
	}
	name := FStr(fn)
	arg := fn.Params[0]
	resolve := func(st *ConcState, v ssa.Value) ssa.Value {
		for k := 0; k < 16 && v != nil; k++ {
			switch x := v.(type) {
			case *ssa.ChangeType:
				v = x.X
				continue
			case *ssa.ChangeInterface:
				v = x.X
				continue
			case *ssa.MakeInterface:
				v = x.X
				continue
			}
			nx := st.Step(v)
			if nx == nil {
				break
			}
			v = nx
		}
		return v
	}
	isArg := func(st *ConcState, v ssa.Value) bool {
		r := resolve(st, v)
		if r == ssa.Value(arg) {
			return true
		}
		// the value of a successful assertion of the argument is the argument
		switch x := r.(type) {
		case *ssa.Extract:
			if ta, ok := x.Tuple.(*ssa.TypeAssert); ok && x.Index == 0 {
				return resolve(st, ta.X) == ssa.Value(arg)
			}
		case *ssa.TypeAssert:
			return resolve(st, x.X) == ssa.Value(arg)
		}
		return false
	}
	seqs, trunc := ConcPaths(fn, ConcCfg{
		Branch: func(cond ssa.Value, taken bool, st *ConcState) string {
			pol := taken
			for k := 0; k < 8; k++ {
				if u, ok := cond.(*ssa.UnOp); ok && u.Op == token.NOT {
					cond, pol = u.X, !pol
					continue
				}
				if nx := st.Step(cond); nx != nil {
					cond = nx
					continue
				}
				break
			}
			ex, ok := cond.(*ssa.Extract)
			if !ok || ex.Index != 1 {
				return ""
			}
			ta, ok := ex.Tuple.(*ssa.TypeAssert)
			if !ok || resolve(st, ta.X) != ssa.Value(arg) {
				return ""
			}
			if TStr(ta.AssertedType) != asserted {
				return "other-type-test(" + TStr(ta.AssertedType) + ")"
			}
			if pol {
				return "is=T"
			}
			return "is=F"
		},
		Event: func(in ssa.Instruction, st *ConcState) string {
			r, ok := in.(*ssa.Return)
			if !ok || len(r.Results) != 1 {
				return ""
			}
			if isArg(st, r.Results[0]) {
				return "ret(arg)"
			}
			v := resolve(st, r.Results[0])
			if n, _ := types.Unalias(deref(v.Type())).(*types.Named); n != nil && n.Obj() == wrapper.Obj() {
				_, isInt, fv := st.FieldOf(v, field)
				if !isInt && fv != nil && isArg(st, fv) {
					return "ret(wrap(arg))"
				}
				if sf := structValueFields(r.Results[0]); sf[field] == PN(arg) {
					return "ret(wrap(arg))"
				}
				return "ret(wrap(?))"
			}
			return "ret(?" + st.Desc(r.Results[0]) + ")"
		},
	})
	if trunc || len(seqs) == 0 {
		c.Und("R13.3", name, slotKeep, fn.Pos(), "path exploration incomplete")
		return
	}
	var badKeep, badWrap []string
	keep, wrap := false, false
	for _, sq := range seqs {
		switch sq {
		case "is=T ; ret(arg)":
			keep = true
		case "is=F ; ret(wrap(arg))":
			wrap = true
		default:
			if strings.Contains(sq, "is=T") {
				badKeep = append(badKeep, sq)
			} else {
				badWrap = append(badWrap, sq)
			}
		}
	}
	c.Check(keep && len(badKeep) == 0, "R13.3", name, slotKeep, fn.Pos(), "%s (keep arm: %v)", doc, badKeep)
	c.Check(wrap && len(badWrap) == 0, "R13.3", name, slotWrap, fn.Pos(), "%s (wrap arm: %v)", doc, badWrap)
}

// c13ReturnsByPaths: the Write contract of one writer decided on its paths - the results may travel through named
// results assigned inside a function literal that a helper runs (s.withLock(func() { n, err = s.ws.Write(bs) })).
func c13ReturnsByPaths(fn *ssa.Function, p *ssa.Parameter) (bool, string) {
	resolve := func(st *ConcState, v ssa.Value) ssa.Value {
		for k := 0; k < 16; k++ {
			if ct, ok := v.(*ssa.ChangeType); ok {
				v = ct.X
				continue
			}
			nx := st.Step(v)
			if nx == nil {
				break
			}
			v = nx
		}
		return v
	}
	var bad []string
	seqs, trunc := ConcPaths(fn, ConcCfg{
		IterClosures: true, MaxIter: 2, MaxDepth: 6,
		Event: func(in ssa.Instruction, st *ConcState) string {
			r, ok := in.(*ssa.Return)
			if !ok || len(r.Results) != 2 || len(st.cfg.stackDepth()) != 0 {
				return ""
			}
			n, e := resolve(st, r.Results[0]), resolve(st, r.Results[1])
			isLen := func(v ssa.Value) bool {
				cl, ok := v.(*ssa.Call)
				return ok && CallBuiltin(cl) == "len" && len(cl.Call.Args) == 1 && resolve(st, cl.Call.Args[0]) == ssa.Value(p)
			}
			if en, ok1 := n.(*ssa.Extract); ok1 {
				if ee, ok2 := e.(*ssa.Extract); ok2 && en.Tuple == ee.Tuple && en.Index == 0 && ee.Index == 1 {
					if cl, isC := en.Tuple.(*ssa.Call); isC {
						if f := CalleeFunc(cl); f != nil && FNm(f) == "Write" {
							args := cl.Call.Args
							if !cl.Call.IsInvoke() && len(args) > 0 {
								args = args[1:]
							}
							if len(args) == 1 && resolve(st, args[0]) == ssa.Value(p) {
								return "ret-ok"
							}
						}
					}
				}
			}
			isNil, known := st.IsNil(e)
			switch {
			case known && isNil && isLen(n):
				return "ret-ok"
			case known && !isNil:
				return "ret-ok"
			case isLen(n):
				return "ret-ok"
			}
			bad = append(bad, st.Desc(r.Results[0])+", "+st.Desc(r.Results[1]))
			return "ret-bad"
		},
	})
	if trunc || len(seqs) == 0 {
		return false, "(path exploration incomplete)"
	}
	if len(bad) > 0 {
		return false, "(paths returning " + strings.Join(bad, " | ") + ")"
	}
	return true, ""
}
