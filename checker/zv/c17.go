package zv

import (
	"go/constant"
	"go/token"
	"go/types"
	"strings"

	"golang.org/x/tools/go/ssa"
)

const ZapioPath = "go.uber.org/zap/zapio"

func init() {
	Props["C17"] = Prop{
		Title: "zapio.Writer logs exactly the lines of the byte stream, however it is chunked",
		Fn:    checkC17,
		Explanation: "The core claim (all streams × all partitions) is a statement about runtime values and is NOT decided. Decided are its structural necessary conditions: Write reports len of the original parameter with a nil error on every path and its loop feeds writeLine's result back until empty; writeLine splits at the first newline (bytes.IndexByte(line,'\\n') with line[:i] / line[i+1:], or bytes.Cut(line, <constant \"\\n\">) - the split is modelled, not matched textually) and returns nil (after buffering the whole fragment) or the strict suffix after that newline; nothing is buffered or logged unless the level is enabled; the direct-log fast path is taken only when nothing is buffered, otherwise the fragment is appended before the flush; flush(true) comes only from writeLine and flush(false) only from Sync, Close is Sync; flush logs iff allowEmpty or something is buffered and always resets the buffer afterwards; the writer copies what it keeps (bytes.Buffer.Write / string conversion) and never stores the caller's slice. " +
			"NOT decided: equality of the logged messages with the stream's lines for all partitions.",
		Assumptions: commonAssumptions,
	}
}

func checkC17(c *Ctx) {
	c.Rule("R17.1", "Write consumes everything (len(original), nil) and iterates writeLine to the empty suffix; writeLine returns nil or the strict suffix after the first newline", 4)
	c.Rule("R17.2", "nothing is buffered or logged while the level is disabled", 2)
	c.Rule("R17.3", "empty-line policy: flush(true) only from writeLine, flush(false) only from Sync, Close = Sync; flush logs iff allowed/non-empty and always resets", 4)
	c.Rule("R17.4", "fast path only when nothing is buffered; otherwise append before flush", 2)
	c.Rule("R17.5", "kept bytes are copies: no store of the caller's slice into the writer", 2)

	wr := c.Method(ZapioPath, "Writer", "Write")
	wl := c.Method(ZapioPath, "Writer", "writeLine")
	fl := c.Method(ZapioPath, "Writer", "flush")
	sy := c.Method(ZapioPath, "Writer", "Sync")
	cl := c.Method(ZapioPath, "Writer", "Close")
	lg := c.Method(ZapioPath, "Writer", "log")
	if !c.Anchor("R17.1", "zapio.Writer.Write/writeLine/flush/Sync/Close/log", wr != nil && wl != nil && fl != nil && sy != nil && cl != nil && lg != nil) {
		return
	}
	// ---------------- R17.1 ----------------
	p := writeParam(wr)
	for k, r := range Returns(wr) {
		rv := RetVals(r)
		c.Check(IsNilConst(Strip(rv[1])) && isLenOf(rv[0], p), "R17.1", wr.String(), "consumes-all#"+itoa(k+1), r.Pos(), "returns (len(%s), nil) with %s the original parameter (%s, %s)", p.Name(), p.Name(), Desc(rv[0]), Desc(rv[1]))
	}
	var wlCall *ssa.Call
	for _, call := range Calls(wr) {
		if StaticCallee(call) == wl {
			wlCall, _ = call.(*ssa.Call)
		}
	}
	okLoop := false
	if wlCall != nil {
		if ph, ok := Args(wlCall)[1].(*ssa.Phi); ok {
			hasP, hasR := false, false
			for _, e := range ph.Edges {
				hasP = hasP || e == ssa.Value(p)
				hasR = hasR || e == ssa.Value(wlCall)
			}
			h := LoopHeader(wlCall.Block())
			cond := ""
			if h != nil {
				if iff, ok := h.Instrs[len(h.Instrs)-1].(*ssa.If); ok {
					cond = Desc(iff.Cond)
				}
			}
			okLoop = hasP && hasR && cond == "(len("+Desc(ph)+") > 0)"
		}
	}
	c.Check(okLoop, "R17.1", wr.String(), "iterates-to-empty", wr.Pos(), "the loop passes what writeLine returned back into writeLine while it is non-empty, starting from the parameter")
	line := wl.Params[1]
	w := wl.Params[0].Name()
	sm := c17Split(c, wl)
	if sm == nil {
		c.Und("R17.1", wl.String(), "split", wl.Pos(), "cannot find how writeLine locates the first newline (bytes.IndexByte / bytes.Cut on the parameter)")
		return
	}
	for k, r := range Returns(wl) {
		v := RetVals(r)[0]
		atoms := AtomStrings(Guards(r))
		if IsNilConst(Strip(v)) {
			// whole fragment buffered first
			ok := containsS(atoms, sm.notFound)
			buffered := false
			for _, call := range Calls(wl) {
				if IsCallTo(call, "(*bytes.Buffer).Write") && Dominates(call, r) && containsS(AtomStrings(Guards(call)), sm.notFound) {
					buffered = Desc(Args(call)[0]) == w+".buff" && Args(call)[1] == ssa.Value(line)
				}
			}
			c.Check(ok && buffered, "R17.1", wl.String(), "no-newline-buffers-all#"+itoa(k+1), r.Pos(), "without a newline the whole fragment is buffered and nothing remains")
		} else {
			ok := sm.isTail(v) && containsS(atoms, sm.found)
			c.Check(ok, "R17.1", wl.String(), "returns-strict-suffix#"+itoa(k+1), r.Pos(), "with a newline found the remainder is what follows it, strictly shorter (so the loop terminates) (%s; split by %s)", Desc(v), sm.how)
		}
	}
	// ---------------- R17.2 ----------------
	en := "Enabled(Core(" + wr.Params[0].Name() + ".Log), " + wr.Params[0].Name() + ".Level)"
	nG := 0
	for _, call := range Calls(wr) {
		f := CalleeFunc(call)
		if f == nil {
			continue
		}
		switch {
		case StaticCallee(call) == wl, StaticCallee(call) == lg, StaticCallee(call) == fl, IsCallTo(call, "(*bytes.Buffer).Write"):
			nG++
			c.Check(containsS(AtomStrings(Guards(call)), en), "R17.2", wr.String(), "gated/"+f.Name(), call.Pos(), "%s runs only when the level is enabled (guards %v); otherwise fragments written while disabled resurface later or Panic/Fatal writers terminate", f.Name(), AtomStrings(Guards(call)))
		}
	}
	if nG == 0 {
		c.Bad("R17.2", wr.String(), "gated", wr.Pos(), "no buffering/logging call found in Write")
	}
	okEarly := false
	for _, r := range Returns(wr) {
		if containsS(AtomStrings(Guards(r)), "!"+en) {
			okEarly = true
		}
	}
	c.Check(okEarly, "R17.2", wr.String(), "disabled-returns-early", wr.Pos(), "a disabled level returns before touching the buffer")

	// ---------------- R17.3 ----------------
	for _, caller := range c.CallersOf("(*go.uber.org/zap/zapio.Writer).flush") {
		arg := Desc(Args(caller)[1])
		pf := caller.Parent()
		switch pf {
		case wl:
			c.Check(arg == "true", "R17.3", pf.String(), "flush-allow-empty", caller.Pos(), "a newline-terminated line is flushed with allowEmpty=true (empty interior lines are logged)")
		case sy:
			c.Check(arg == "false", "R17.3", pf.String(), "flush-no-empty", caller.Pos(), "Sync/Close flush with allowEmpty=false (no empty message for a trailing newline)")
		default:
			c.Bad("R17.3", pf.String(), "flush-caller", caller.Pos(), "unexpected caller of flush")
		}
	}
	for _, r := range Returns(cl) {
		c.Check(Desc(RetVals(r)[0]) == "Sync(w)", "R17.3", cl.String(), "close-is-sync", r.Pos(), "Close delegates to Sync")
	}
	var logCall ssa.Instruction
	fw := fl.Params[0].Name()
	allow := fl.Params[1].Name()
	isReset := func(i ssa.Instruction) bool {
		call, ok := i.(ssa.CallInstruction)
		return ok && IsCallTo(call, "(*bytes.Buffer).Reset") && Desc(Args(call)[0]) == fw+".buff"
	}
	nReset := 0
	for _, call := range Calls(fl) {
		if StaticCallee(call) == lg {
			logCall = call
		}
		if isReset(call) {
			nReset++
		}
	}
	if logCall == nil || nReset == 0 {
		c.Bad("R17.3", fl.String(), "shape", fl.Pos(), "flush must log and reset")
	} else {
		nonEmpty := func(s string) bool { return s == "Len("+fw+".buff) > 0" || s == "len(Bytes("+fw+".buff)) > 0" }
		empty := func(s string) bool { return s == "Len("+fw+".buff) == 0" || s == "len(Bytes("+fw+".buff)) == 0" }
		ok, cex := AllDisjunctsHave(PathConds(logCall.Block()), func(s string) bool { return s == allow || nonEmpty(s) })
		// and it is not skipped when the condition holds: every edge that leaves the
		// part of the function from which the log is still reachable carries both negations
		lb := logCall.Block()
		canReach := func(b *ssa.BasicBlock) bool {
			return b == lb || ExistsPath(fl, AtBlock(b), func(i ssa.Instruction) bool { return i == logCall }, nil)
		}
		skipOK := true
		var skipCex []string
		for _, pr := range fl.Blocks {
			if pr == lb || lb.Dominates(pr) || !canReach(pr) {
				continue
			}
			for si, sc := range pr.Succs {
				if canReach(sc) || lb.Dominates(sc) && sc != pr {
					continue
				}
				var edge []string
				if iff, isIf := pr.Instrs[len(pr.Instrs)-1].(*ssa.If); isIf {
					edge = append(edge, AtomString(Atom{iff.Cond, si == 0}))
				}
				for _, conj := range PathConds(pr) {
					all := append(append([]string{}, conj...), edge...)
					hasE := false
					for _, a := range all {
						hasE = hasE || empty(a)
					}
					if !(containsS(all, "!"+allow) && hasE) {
						skipOK = false
						skipCex = all
					}
				}
			}
		}
		c.Check(ok && skipOK, "R17.3", fl.String(), "logs-iff-allowed-or-nonempty", logCall.Pos(), "flush logs exactly when allowEmpty or the buffer is non-empty (counter-examples %v %v)", cex, skipCex)
		c.Check(Desc(Args(logCall.(ssa.CallInstruction))[1]) == "Bytes("+fw+".buff)", "R17.3", fl.String(), "logs-buffer", logCall.Pos(), "what is logged is the buffered line")
		resetThenLog := false
		for _, call := range Calls(fl) {
			if isReset(call) && ExistsPath(fl, call, func(i ssa.Instruction) bool { return i == logCall }, nil) {
				resetThenLog = true
			}
		}
		c.Check(mustPass(fl, isReset) && !ExistsPath(fl, logCall, IsReturn, isReset) && !resetThenLog, "R17.3", fl.String(), "always-resets-after", logCall.Pos(), "the buffer is reset on every path, after the logging")
	}
	// ---------------- R17.4 ----------------
	var direct, app, flushCall ssa.Instruction
	for _, call := range Calls(wl) {
		switch {
		case StaticCallee(call) == lg:
			direct = call
		case StaticCallee(call) == fl:
			flushCall = call
		case IsCallTo(call, "(*bytes.Buffer).Write") && containsS(AtomStrings(Guards(call)), sm.found):
			app = call
		}
	}
	if direct == nil || app == nil || flushCall == nil {
		c.Bad("R17.4", wl.String(), "shape", wl.Pos(), "expected a direct log, an append and a flush in writeLine")
	} else {
		ok, cex := AllDisjunctsHave(PathConds(direct.Block()), func(s string) bool { return s == "Len("+w+".buff) == 0" })
		c.Check(ok && sm.isHead(Args(direct.(ssa.CallInstruction))[1]), "R17.4", wl.String(), "fast-path-only-when-empty", direct.Pos(), "the line is logged directly only when nothing is buffered (counter-example %v), and it is the part before the newline", cex)
		c.Check(Dominates(app, flushCall) && sm.isHead(Args(app.(ssa.CallInstruction))[1]) && Desc(Args(app.(ssa.CallInstruction))[0]) == w+".buff" && containsS(AtomStrings(Guards(flushCall)), "Len("+w+".buff) > 0"), "R17.4", wl.String(), "append-before-flush", app.Pos(), "with buffered text the fragment up to the newline is appended first, then the whole line is flushed")
		// exactly one of the two on every newline path
		_, t, _ := BranchOn(wl, sm.found)
		okOne := t != nil && !ExistsPath(wl, AtBlock(t), IsReturn, func(i ssa.Instruction) bool { return i == direct || i == flushCall })
		c.Check(okOne, "R17.4", wl.String(), "newline-always-emits", wl.Pos(), "every newline leads to exactly one emission (direct log or flush)")
	}
	// ---------------- R17.5 ----------------
	var bad []string
	for _, fn := range []*ssa.Function{wr, wl} {
		prm := fn.Params[1]
		AllInstrs(fn, func(i ssa.Instruction) {
			st, ok := i.(*ssa.Store)
			if !ok {
				return
			}
			if Root(st.Val) == ssa.Value(prm) || sliceHas(st.Val, func(v ssa.Value) bool { return v == ssa.Value(prm) }) {
				if Root(st.Addr) == ssa.Value(fn.Params[0]) {
					bad = append(bad, fn.Name()+": "+Desc(st.Addr)+" = "+Desc(st.Val))
				}
			}
		})
	}
	c.Check(len(bad) == 0, "R17.5", ZapioPath+".Writer", "no-retained-caller-slice", wr.Pos(), "no store of the caller's slice (or a sub-slice) into the writer: callers such as io.Copy reuse their buffer (%v)", bad)
	wt := c.Named(ZapioPath, "Writer")
	okT := false
	if wt != nil {
		if st, ok := wt.Underlying().(interface{ NumFields() int }); ok {
			_ = st
		}
		for _, a := range c.FieldAccesses(wt, map[string]bool{"buff": true}) {
			_ = a
		}
		s := wt.Underlying().String()
		okT = strings.Contains(s, "buff bytes.Buffer")
	}
	c.Check(okT, "R17.5", ZapioPath+".Writer", "buffer-copies", wr.Pos(), "the partial line is kept in a bytes.Buffer (Write copies)")
	for _, call := range Calls(lg) {
		if IsCallTo(call, "(*go.uber.org/zap.Logger).Check") {
			d := Desc(Args(call)[2])
			c.Check(d == "conv[string]("+lg.Params[1].Name()+")" && Desc(Args(call)[1]) == lg.Params[0].Name()+".Level", "R17.5", lg.String(), "message-is-copy", call.Pos(), "the message is string(b) at the writer's level (%s)", d)
		}
	}
}

// c17SplitModel: how writeLine splits its fragment at the first newline.
type c17SplitModel struct {
	found, notFound string // control atoms
	isHead, isTail  func(ssa.Value) bool
	how             string
}

func c17Split(c *Ctx, wl *ssa.Function) *c17SplitModel {
	line := wl.Params[1]
	for _, call := range Calls(wl) {
		cl, ok := call.(*ssa.Call)
		if !ok {
			continue
		}
		args := Args(cl)
		switch {
		case IsCallTo(cl, "bytes.IndexByte") && args[0] == ssa.Value(line):
			if b, ok := constBytes(args[1]); !ok || len(b) != 1 || b[0] != '\n' {
				continue
			}
			d := Desc(cl)
			ln := line.Name()
			return &c17SplitModel{
				found: d + " >= 0", notFound: d + " < 0", how: d,
				isHead: func(v ssa.Value) bool { return Desc(v) == ln+"[:"+d+"]" },
				isTail: func(v ssa.Value) bool { return Desc(v) == ln+"[("+d+" + 1):]" },
			}
		case IsCallTo(cl, "bytes.Cut") && args[0] == ssa.Value(line):
			if b, ok := c.constByteSlice(args[1]); !ok || string(b) != "\n" {
				continue
			}
			ext := func(v ssa.Value, idx int) bool {
				e, ok := Strip(v).(*ssa.Extract)
				return ok && e.Tuple == ssa.Value(cl) && e.Index == idx
			}
			d := Desc(cl)
			return &c17SplitModel{
				found: d + "#2", notFound: "!" + d + "#2", how: d,
				isHead: func(v ssa.Value) bool { return ext(v, 0) },
				isTail: func(v ssa.Value) bool { return ext(v, 1) },
			}
		}
	}
	return nil
}

// constByteSlice: v is a []byte whose contents are known: a conversion of a
// constant string, a literal of constants, or a package variable initialised
// with one of these and never assigned or written through elsewhere.
func (c *Ctx) constByteSlice(v ssa.Value) ([]byte, bool) {
	v = Strip(v)
	switch x := v.(type) {
	case *ssa.Convert:
		if k, ok := x.X.(*ssa.Const); ok && k.Value != nil && k.Value.Kind() == constant.String {
			return []byte(constant.StringVal(k.Value)), true
		}
	case *ssa.Slice:
		al, ok := x.X.(*ssa.Alloc)
		if !ok || x.Low != nil || x.High != nil {
			return nil, false
		}
		arr, ok := al.Type().Underlying().(*types.Pointer).Elem().Underlying().(*types.Array)
		if !ok {
			return nil, false
		}
		out := make([]byte, arr.Len())
		for _, r := range *al.Referrers() {
			switch y := r.(type) {
			case *ssa.Slice:
				if y != x {
					return nil, false
				}
			case *ssa.IndexAddr:
				k, ok := ConstInt(y.Index)
				if !ok {
					return nil, false
				}
				for _, rr := range *y.Referrers() {
					st, ok := rr.(*ssa.Store)
					if !ok || st.Addr != ssa.Value(y) {
						return nil, false
					}
					bv, ok := ConstInt(st.Val)
					if !ok {
						return nil, false
					}
					out[k] = byte(bv)
				}
			default:
				return nil, false
			}
		}
		return out, true
	case *ssa.UnOp:
		g, ok := x.X.(*ssa.Global)
		if !ok || x.Op != token.MUL {
			return nil, false
		}
		var val ssa.Value
		n := 0
		bad := false
		c.EachRootFunc(func(fn *ssa.Function) {
			AllInstrs(fn, func(i ssa.Instruction) {
				switch y := i.(type) {
				case *ssa.Store:
					if y.Addr == ssa.Value(g) {
						n++
						val = y.Val
						if fn.Name() != "init" {
							bad = true
						}
					}
				case *ssa.UnOp:
					// a load of the variable that is indexed for writing, or passed anywhere but as a read-only argument, is not tracked: require all loads to be call arguments of std functions or this same use
					if y.X == ssa.Value(g) && y.Op == token.MUL {
						for _, r := range *y.Referrers() {
							if ia, ok := r.(*ssa.IndexAddr); ok {
								for _, rr := range *ia.Referrers() {
									if st, ok := rr.(*ssa.Store); ok && st.Addr == ssa.Value(ia) {
										bad = true
									}
								}
							}
						}
					}
				}
			})
		})
		if n == 1 && !bad {
			return c.constByteSlice(val)
		}
	}
	return nil, false
}
